-- Round-0 FEASIBILITY PROTOTYPE (design appendix, not part of any check).
-- Keystone of C10: the model of free_words.rs::normalized equals Mathlib FreeGroup.reduce
-- under the letter encoding. Checked with: lean notes/round0_prototype_C10.lean  (about 50 s cold).
-- Axioms reported by #print axioms: propext, Classical.choice, Quot.sound.
import Mathlib.GroupTheory.FreeGroup.Reduce

namespace FW

/-- one iteration of the Rust loop body of `normalized`, on the reversed buffer -/
def step (acc : List Int) (x : Int) : List Int :=
  match acc with
  | y :: ys => if x = -y then ys else if x ≠ 0 then x :: acc else acc
  | [] => if x ≠ 0 then [x] else []

def normalized (w : List Int) : List Int := (w.foldl step []).reverse

def encL (x : Int) : Option (ℕ × Bool) := if x = 0 then none else some (x.natAbs, decide (0 < x))
def enc (w : List Int) : List (ℕ × Bool) := w.filterMap encL

/-- buffer invariant: no zero letters, no adjacent inverse pair (on the reversed buffer) -/
def Good : List Int → Prop
  | [] => True
  | [x] => x ≠ 0
  | x :: y :: r => x ≠ 0 ∧ x ≠ -y ∧ Good (y :: r)

theorem good_tail {x : Int} {l : List Int} (h : Good (x :: l)) : Good l := by
  cases l with
  | nil => trivial
  | cons y r => exact h.2.2

theorem good_head {x : Int} {l : List Int} (h : Good (x :: l)) : x ≠ 0 := by
  cases l with
  | nil => exact h
  | cons y r => exact h.1

theorem step_good (acc : List Int) (x : Int) (h : Good acc) : Good (step acc x) := by
  unfold step
  cases acc with
  | nil => by_cases hx : x ≠ 0 <;> simp [hx, Good]
  | cons y ys =>
    by_cases h1 : x = -y
    · simp [h1]; exact good_tail h
    · by_cases hx : x ≠ 0
      · simp [h1, hx]; exact ⟨hx, h1, h⟩
      · simp [h1, hx]; exact h

theorem encL_neg {y : Int} (hy : y ≠ 0) :
    encL (-y) = some (y.natAbs, !decide (0 < y)) := by
  unfold encL
  have h0 : -y ≠ 0 := by omega
  rcases Int.lt_or_gt_of_ne hy with h | h
  · have h2 : ¬ (0 < y) := by omega
    have h3 : 0 < -y := by omega
    simp [h0, h2, h3]; omega
  · have h3 : ¬ (0 < -y) := by omega
    simp [h0, h, h3]; omega

theorem encL_some {y : Int} (hy : y ≠ 0) : encL y = some (y.natAbs, decide (0 < y)) := by
  simp [encL, hy]

open FreeGroup in
theorem red_fold (rest acc : List Int) (h : Good acc) :
    Red (enc acc.reverse ++ enc rest) (enc (rest.foldl step acc).reverse) := by
  induction rest generalizing acc with
  | nil => simp [enc]; exact Red.refl
  | cons x rest ih =>
    simp only [List.foldl_cons]
    have hg := step_good acc x h
    refine Red.trans ?_ (ih (step acc x) hg)
    -- one step: enc acc.reverse ++ enc (x :: rest)  ⟶  enc (step acc x).reverse ++ enc rest
    unfold step
    cases acc with
    | nil =>
      by_cases hx : x ≠ 0
      · simp [hx, enc, encL]; exact Red.refl
      · have : x = 0 := by omega
        subst this; simp [enc, encL]; exact Red.refl
    | cons y ys =>
      have hy : y ≠ 0 := good_head h
      by_cases h1 : x = -y
      · subst h1
        simp only [if_true]
        have e1 : enc (y :: ys).reverse = enc ys.reverse ++ [(y.natAbs, decide (0 < y))] := by
          simp [enc, List.filterMap_append, encL_some hy]
        have e2 : enc (-y :: rest) = (y.natAbs, !decide (0 < y)) :: enc rest := by
          simp [enc, List.filterMap_cons, encL_neg hy]
        rw [e1, e2]
        have := @Red.Step.not ℕ (enc ys.reverse) (enc rest) y.natAbs (decide (0 < y))
        simp only [List.append_assoc, List.cons_append, List.nil_append] at this ⊢
        exact Red.Step.to_red this
      · by_cases hx : x ≠ 0
        · simp only [h1, hx, if_false, if_true, ne_eq, not_false_eq_true]
          have e1 : enc (x :: y :: ys).reverse = enc (y :: ys).reverse ++ [(x.natAbs, decide (0 < x))] := by
            simp only [enc, List.reverse_cons, List.filterMap_append, List.append_assoc]
            simp [List.filterMap_cons, encL_some hx]
          have e2 : enc (x :: rest) = (x.natAbs, decide (0 < x)) :: enc rest := by
            simp [enc, encL_some hx]
          rw [e1, e2]; simp only [List.append_assoc, List.cons_append, List.nil_append]; exact Red.refl
        · have hx0 : x = 0 := by omega
          subst hx0
          have hy' : ¬ (0 = -y) := by omega
          simp only [hy', if_false, ne_eq, not_true_eq_false]
          have e2 : enc ((0:Int) :: rest) = enc rest := by simp [enc, encL]
          rw [e2]

end FW

namespace FW
open FreeGroup

/-- reversed `Good` buffer encodes to an `IsReduced` word -/
theorem good_isReduced : ∀ (acc : List Int), Good acc → IsReduced (enc acc.reverse)
  | [], _ => by simp [enc]
  | [x], h => by
      have hx : x ≠ 0 := h
      simp [enc, encL_some hx]
  | x :: y :: r, h => by
      have hx : x ≠ 0 := h.1
      have hy : y ≠ 0 := good_head h.2.2
      have ih := good_isReduced (y :: r) h.2.2
      have e : enc (x :: y :: r).reverse
          = enc r.reverse ++ [(y.natAbs, decide (0 < y))] ++ [(x.natAbs, decide (0 < x))] := by
        simp [enc, List.filterMap_append, encL_some hx, encL_some hy]
      have e' : enc (y :: r).reverse = enc r.reverse ++ [(y.natAbs, decide (0 < y))] := by
        simp [enc, List.filterMap_append, encL_some hy]
      rw [e]; rw [e'] at ih
      unfold IsReduced at *
      rw [List.isChain_append]
      refine ⟨ih, by simp, ?_⟩
      intro a ha b hb
      simp at ha hb
      subst hb
      subst ha
      intro hab
      have hne : x ≠ -y := h.2.1
      have hab' : y.natAbs = x.natAbs := hab
      have hxy : x = y := by omega
      subst hxy
      rfl

theorem normalized_eq_reduce (w : List Int) : enc (normalized w) = reduce (enc w) := by
  have hg : Good (w.foldl step []) := by
    have : ∀ (rest acc : List Int), Good acc → Good (rest.foldl step acc) := by
      intro rest; induction rest with
      | nil => intro acc h; simpa
      | cons x r ih => intro acc h; exact ih _ (step_good acc x h)
    exact this w [] trivial
  have h1 : Red (enc w) (enc (normalized w)) := by
    have := red_fold w [] trivial
    simpa [normalized, enc] using this
  have h2 : IsReduced (enc (normalized w)) := good_isReduced _ hg
  rw [reduce.eq_of_red h1, h2.reduce_eq]

#print axioms normalized_eq_reduce
end FW
