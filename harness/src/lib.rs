//! Shared plumbing of the correspondence harness: deterministic PRNG, case
//! emission (`IN`/`OUT` lines, panics caught), sharding, token encoders.
//! Every property has its own binary under src/bin/.

use std::io::{BufWriter, Write};
use std::panic::{catch_unwind, AssertUnwindSafe};

pub mod gen;
pub mod groups;
pub mod dsgen;
pub mod d3gen;

/// SplitMix64 — the only source of randomness; seeded from `--seed`.
#[derive(Clone)]
pub struct Rng(pub u64);

impl Rng {
    pub fn new(seed: u64) -> Self {
        Rng(seed.wrapping_mul(0x9E3779B97F4A7C15) ^ 0xD1B54A32D192ED03)
    }
    pub fn next_u64(&mut self) -> u64 {
        self.0 = self.0.wrapping_add(0x9E3779B97F4A7C15);
        let mut z = self.0;
        z = (z ^ (z >> 30)).wrapping_mul(0xBF58476D1CE4E5B9);
        z = (z ^ (z >> 27)).wrapping_mul(0x94D049BB133111EB);
        z ^ (z >> 31)
    }
    /// uniform in 0..n (n > 0)
    pub fn below(&mut self, n: usize) -> usize {
        (self.next_u64() % (n as u64)) as usize
    }
    /// uniform in lo..=hi
    pub fn range(&mut self, lo: i64, hi: i64) -> i64 {
        lo + (self.next_u64() % ((hi - lo + 1) as u64)) as i64
    }
    pub fn chance(&mut self, num: usize, den: usize) -> bool {
        self.below(den) < num
    }
    pub fn shuffle<T>(&mut self, v: &mut [T]) {
        for i in (1..v.len()).rev() {
            let j = self.below(i + 1);
            v.swap(i, j);
        }
    }
    pub fn permutation(&mut self, n: usize) -> Vec<usize> {
        let mut p: Vec<usize> = (0..n).collect();
        self.shuffle(&mut p);
        p
    }
}

#[derive(Clone, Copy, PartialEq, Eq, Debug)]
pub enum Tier {
    Quick,
    Thorough,
}

pub struct Ctx {
    pub tier: Tier,
    pub seed: u64,
    pub shard: usize,
    pub nshards: usize,
    pub only: Option<u64>,
    pub flush: bool,
    next_id: u64,
    out: BufWriter<std::io::Stdout>,
    pub emitted: u64,
    /// `VERIF_DEADLINE_SECS`: after that many seconds no further case is claimed, so a
    /// time-capped exploration ends with complete lines instead of being killed mid-case
    deadline: Option<std::time::Instant>,
}

impl Ctx {
    pub fn from_args() -> Ctx {
        let args: Vec<String> = std::env::args().collect();
        let mut tier = Tier::Quick;
        let mut seed = 1u64;
        let mut shard = 0usize;
        let mut nshards = 1usize;
        let mut only = None;
        let mut i = 1;
        while i < args.len() {
            match args[i].as_str() {
                "--tier" => {
                    tier = if args[i + 1] == "thorough" { Tier::Thorough } else { Tier::Quick };
                    i += 1;
                }
                "--seed" => {
                    seed = args[i + 1].parse().expect("seed");
                    i += 1;
                }
                "--shard" => {
                    let (a, b) = args[i + 1].split_once('/').expect("shard i/n");
                    shard = a.parse().unwrap();
                    nshards = b.parse().unwrap();
                    i += 1;
                }
                "--only" => {
                    only = Some(args[i + 1].parse().expect("only"));
                    i += 1;
                }
                other => panic!("unknown argument {other}"),
            }
            i += 1;
        }
        // panics are observable outcomes, not noise
        std::panic::set_hook(Box::new(|_| {}));
        Ctx {
            tier,
            seed,
            shard,
            nshards,
            only,
            flush: std::env::var("VERIF_FLUSH").is_ok(),
            next_id: 0,
            out: BufWriter::with_capacity(1 << 16, std::io::stdout()),
            emitted: 0,
            deadline: std::env::var("VERIF_DEADLINE_SECS")
                .ok()
                .and_then(|s| s.parse::<u64>().ok())
                .map(|s| std::time::Instant::now() + std::time::Duration::from_secs(s)),
        }
    }

    fn past_deadline(&self) -> bool {
        matches!(self.deadline, Some(d) if std::time::Instant::now() >= d)
    }

    pub fn thorough(&self) -> bool {
        self.tier == Tier::Thorough
    }

    pub fn rng(&self, stream: u64) -> Rng {
        Rng::new(self.seed.wrapping_mul(1_000_003).wrapping_add(stream))
    }

    /// Reserve the next case id; returns Some(id) if this process should run it.
    fn claim(&mut self) -> Option<u64> {
        let id = self.next_id;
        self.next_id += 1;
        if self.past_deadline() {
            return None;
        }
        if let Some(o) = self.only {
            return if o == id { Some(id) } else { None };
        }
        if (id as usize) % self.nshards == self.shard {
            Some(id)
        } else {
            None
        }
    }

    /// One explored case.  `input` builds the IN payload lazily (only when the case
    /// is ours), `tags` are histogram labels (`nt` marks a non-trivial case), `f`
    /// calls the real implementation and renders its observable result.
    pub fn case<FI, F>(&mut self, op: &str, tags: &str, input: FI, f: F)
    where
        FI: FnOnce() -> String,
        F: FnOnce() -> String,
    {
        let Some(id) = self.claim() else { return };
        let inp = input();
        writeln!(self.out, "IN {id} {op} {inp}").unwrap();
        if !tags.is_empty() {
            writeln!(self.out, "TAG {id} {tags}").unwrap();
        }
        if self.flush {
            self.out.flush().unwrap();
        }
        let res = catch_unwind(AssertUnwindSafe(f));
        match res {
            Ok(s) => writeln!(self.out, "OUT {id} {s}").unwrap(),
            Err(_) => writeln!(self.out, "OUT {id} PANIC").unwrap(),
        }
        self.emitted += 1;
    }

    /// Is the next case ours?  (lets generators skip expensive input construction)
    pub fn peek_mine(&self) -> bool {
        let id = self.next_id;
        if self.past_deadline() {
            return false;
        }
        if let Some(o) = self.only {
            return o == id;
        }
        (id as usize) % self.nshards == self.shard
    }

    pub fn skip(&mut self) {
        self.next_id += 1;
    }

    pub fn finish(mut self) {
        self.out.flush().unwrap();
    }
}

pub fn enc_list<T: std::fmt::Display>(xs: &[T]) -> String {
    let mut s = xs.len().to_string();
    for x in xs {
        s.push(' ');
        s.push_str(&x.to_string());
    }
    s
}

pub fn enc_lists<T: std::fmt::Display>(xss: &[Vec<T>]) -> String {
    let mut s = xss.len().to_string();
    for xs in xss {
        s.push(' ');
        s.push_str(&enc_list(xs));
    }
    s
}

pub fn join<T: std::fmt::Display>(xs: &[T]) -> String {
    xs.iter().map(|x| x.to_string()).collect::<Vec<_>>().join(" ")
}
