//! Input universes shared by several properties (built here, independently of
//! the library's own generators).

/// All words over letters ±1..±g plus the zero letter (if `with_zero`) of exactly
/// length `len`, in lexicographic order of the alphabet listing.
pub fn words_exact(g: isize, len: usize, with_zero: bool) -> Vec<Vec<isize>> {
    let mut alphabet: Vec<isize> = vec![];
    for x in 1..=g {
        alphabet.push(x);
        alphabet.push(-x);
    }
    if with_zero {
        alphabet.push(0);
    }
    let mut out: Vec<Vec<isize>> = vec![vec![]];
    for _ in 0..len {
        let mut next = Vec::with_capacity(out.len() * alphabet.len());
        for w in &out {
            for &a in &alphabet {
                let mut v = w.clone();
                v.push(a);
                next.push(v);
            }
        }
        out = next;
    }
    out
}

pub fn words_upto(g: isize, maxlen: usize, with_zero: bool) -> Vec<Vec<isize>> {
    let mut out = vec![];
    for l in 0..=maxlen {
        out.extend(words_exact(g, l, with_zero));
    }
    out
}
