//! Corpus of finite groups with faithful permutation representations
//! (/verif/corpus/groups.txt, embedded at compile time; produced and verified by
//! tools/gen_groups.py).  Shared by the coset-table properties C11–C13.

pub struct Group {
    pub name: String,
    /// part of the quick tier (otherwise thorough only)
    pub quick: bool,
    pub order: usize,
    pub nr_gens: usize,
    pub degree: usize,
    pub rels: Vec<Vec<isize>>,
    pub perms: Vec<Vec<usize>>,
}

const CORPUS: &str = include_str!("../../corpus/groups.txt");

fn words<T: std::str::FromStr>(s: &str) -> Vec<Vec<T>>
where
    T::Err: std::fmt::Debug,
{
    s.split(';')
        .map(|w| w.split_whitespace().map(|x| x.parse::<T>().unwrap()).collect::<Vec<T>>())
        .collect()
}

pub fn corpus() -> Vec<Group> {
    let mut out = vec![];
    for line in CORPUS.lines() {
        let line = line.trim();
        if line.is_empty() || line.starts_with('#') {
            continue;
        }
        let parts: Vec<&str> = line.split('|').collect();
        assert_eq!(parts.len(), 3, "corpus line: {line}");
        let head: Vec<&str> = parts[0].split_whitespace().collect();
        let g = Group {
            name: head[0].to_string(),
            quick: head[1] == "q",
            order: head[2].parse().unwrap(),
            nr_gens: head[3].parse().unwrap(),
            degree: head[4].parse().unwrap(),
            rels: words::<isize>(parts[1]),
            perms: words::<usize>(parts[2]),
        };
        assert_eq!(g.perms.len(), g.nr_gens);
        out.push(g);
    }
    out
}

impl Group {
    /// `name order nr_gens rels subs degree images` — everything the Lean side needs
    pub fn encode(&self, subs: &[Vec<isize>]) -> String {
        format!(
            "{} {} {} {} {} {} {}",
            self.name,
            self.order,
            self.nr_gens,
            crate::enc_lists(&self.rels),
            crate::enc_lists(subs),
            self.degree,
            crate::enc_lists(&self.perms)
        )
    }
}
