//! Universes for the torus-cover / euclidicity properties (C15, C17), built without
//! calling any library function whose property is being checked:
//!
//! * isomorphism-class representatives of connected complete D-sets (`classes`),
//! * all euclidean 2D symbols over them with branching numbers ≤ vmax (`euclidean_2d`,
//!   exact integer curvature in units of 1/lcm),
//! * all 3D symbols with branching numbers in {1,2,3,4,6} whose tiles ({0,1,2}-subsymbols)
//!   and vertex figures ({1,2,3}-subsymbols) are spherical 2D symbols (`symbols_3d`;
//!   spherical = positive curvature and not one of the bad orbifolds S²(p), S²(p,q), *p,
//!   *pq with p ≠ q — own arithmetic, re-evaluated by the Lean Spec),
//! * the known-euclidean corpus `corpus/euclidean3d.txt` (own reader of the text format).
use crate::dsgen::{dsets, involutions, Tab};
use std::collections::HashSet;

/// least table over all breadth-first renumberings (one per start chamber): a complete
/// isomorphism invariant of a connected D-set
pub fn canon_key(t: &Tab) -> Vec<usize> {
    let n = t.size;
    let mut best: Option<Vec<usize>> = None;
    for start in 1..=n {
        let mut num = vec![0usize; n + 1];
        let mut order = vec![start];
        num[start] = 1;
        let mut next = 2;
        let mut qi = 0;
        while qi < order.len() {
            let d = order[qi];
            qi += 1;
            for i in 0..=t.dim {
                let e = t.op[i][d];
                if num[e] == 0 {
                    num[e] = next;
                    next += 1;
                    order.push(e);
                }
            }
        }
        let mut key = vec![];
        for &d in &order {
            for i in 0..=t.dim {
                key.push(num[t.op[i][d]]);
            }
        }
        if best.is_none() || key < *best.as_ref().unwrap() {
            best = Some(key);
        }
    }
    best.unwrap()
}

/// one representative of every isomorphism class of connected complete D-sets of dimension
/// `dim` with `n` chambers and commuting far operations.  s0 is taken in the normal form
/// (1 2)(3 4)…(2k-1 2k) (every D-set can be renumbered so); the other operations run over
/// all involutions (those with index ≥ 2 must commute with s0); classes are separated by
/// `canon_key`.
pub fn classes(dim: usize, n: usize) -> Vec<Tab> {
    let invs = involutions(n, false);
    let mut seen = HashSet::new();
    let mut out = vec![];
    for k in 0..=n / 2 {
        let mut a: Vec<usize> = (0..=n).collect();
        for c in 0..k {
            a[2 * c + 1] = 2 * c + 2;
            a[2 * c + 2] = 2 * c + 1;
        }
        // candidates per index: index 1 any involution, index ≥ 2 commuting with s0
        let far: Vec<&Vec<usize>> = invs.iter().filter(|c| (1..=n).all(|d| a[c[d]] == c[a[d]])).collect();
        let mut idx = vec![0usize; dim];
        let lens: Vec<usize> = (1..=dim).map(|i| if i == 1 { invs.len() } else { far.len() }).collect();
        if lens.iter().any(|&l| l == 0) {
            continue;
        }
        'outer: loop {
            let mut op = vec![a.clone()];
            for i in 1..=dim {
                op.push(if i == 1 { invs[idx[0]].clone() } else { far[idx[i - 1]].clone() });
            }
            let t = Tab { size: n, dim, op, v: vec![vec![0; n + 1]; dim] };
            if t.far_commute() && t.is_connected() && seen.insert(canon_key(&t)) {
                out.push(t);
            }
            let mut p = 0;
            loop {
                if p >= dim {
                    break 'outer;
                }
                idx[p] += 1;
                if idx[p] < lens[p] {
                    break;
                }
                idx[p] = 0;
                p += 1;
            }
        }
    }
    out
}

/// every labelled connected complete D-set with commuting far operations
pub fn labelled(dim: usize, n: usize) -> Vec<Tab> {
    dsets(dim, n, true, true, false)
}

// ---------------------------------------------------------------------------------
// 2D arithmetic

fn gcd(a: i64, b: i64) -> i64 {
    if b == 0 { a.abs() } else { gcd(b, a % b) }
}

/// branching number of the (i,j)-orbit of d from the definition (adjacent: table; far: 2/r)
pub fn v_of(t: &Tab, i: usize, j: usize, d: usize) -> usize {
    let (i, j) = if i < j { (i, j) } else { (j, i) };
    if j == i + 1 { t.v[i][d] } else { 2 / t.r(i, j, d) }
}

/// curvature of a complete 2D symbol: Σ_d (1/m01 + 1/m12 + 1/m02) − size, as (num, den), den > 0
pub fn curvature2(t: &Tab) -> (i64, i64) {
    assert_eq!(t.dim, 2);
    let (mut num, mut den) = (-(t.size as i64), 1i64);
    for d in 1..=t.size {
        for &(i, j) in &[(0usize, 1usize), (1, 2), (0, 2)] {
            let m = (t.r(i, j, d) * v_of(t, i, j, d)) as i64;
            num = num * m + den;
            den *= m;
            let g = gcd(num, den);
            if g > 1 {
                num /= g;
                den /= g;
            }
        }
    }
    (num, den)
}

fn has_mirror(t: &Tab, i: usize, j: usize, d: usize) -> bool {
    t.orbit2(i, j, d).iter().any(|&e| t.op[i][e] == e || t.op[j][e] == e)
}

fn orbit_reps_pair(t: &Tab, i: usize, j: usize) -> Vec<usize> {
    let mut seen = vec![false; t.size + 1];
    let mut reps = vec![];
    for d in 1..=t.size {
        if !seen[d] {
            reps.push(d);
            for e in t.orbit2(i, j, d) {
                seen[e] = true;
            }
        }
    }
    reps
}

pub fn is_loopless(t: &Tab) -> bool {
    (0..=t.dim).all(|i| (1..=t.size).all(|d| t.op[i][d] != d))
}

/// 2-colourable ignoring loops (the chamber graph is bipartite)
pub fn is_bipartite(t: &Tab) -> bool {
    let mut col = vec![0u8; t.size + 1];
    for s in 1..=t.size {
        if col[s] != 0 {
            continue;
        }
        col[s] = 1;
        let mut stack = vec![s];
        while let Some(d) = stack.pop() {
            for i in 0..=t.dim {
                let e = t.op[i][d];
                if e == d {
                    continue;
                }
                if col[e] == 0 {
                    col[e] = 3 - col[d];
                    stack.push(e);
                } else if col[e] == col[d] {
                    return false;
                }
            }
        }
    }
    true
}

pub fn is_oriented(t: &Tab) -> bool {
    is_loopless(t) && is_bipartite(t)
}

/// connected complete 2D symbol of positive curvature that is one of S²(p), S²(p,q), *p, *pq
/// with p ≠ q (no spherical structure)
fn bad_orbifold(t: &Tab) -> bool {
    let mut cones = vec![];
    let mut corners = vec![];
    for &(i, j) in &[(0usize, 1usize), (0, 2), (1, 2)] {
        for d in orbit_reps_pair(t, i, j) {
            let v = v_of(t, i, j, d);
            if v > 1 {
                if has_mirror(t, i, j, d) { corners.push(v) } else { cones.push(v) }
            }
        }
    }
    let unequal = |l: &Vec<usize>| l.len() == 1 || (l.len() == 2 && l[0] != l[1]);
    if is_loopless(t) {
        is_bipartite(t) && unequal(&cones)
    } else {
        cones.is_empty() && unequal(&corners)
    }
}

/// a connected complete 2D symbol is spherical
pub fn spherical2(t: &Tab) -> bool {
    let (num, _) = curvature2(t);
    num > 0 && !bad_orbifold(t)
}

pub fn euclidean2(t: &Tab) -> bool {
    curvature2(t).0 == 0
}

// ---------------------------------------------------------------------------------
// subsymbols

/// chambers reachable from d with the operations in `idcs`, ascending
pub fn component(t: &Tab, idcs: &[usize], d: usize) -> Vec<usize> {
    let mut seen = vec![false; t.size + 1];
    let mut stack = vec![d];
    seen[d] = true;
    while let Some(e) = stack.pop() {
        for &k in idcs {
            let f = t.op[k][e];
            if f != 0 && !seen[f] {
                seen[f] = true;
                stack.push(f);
            }
        }
    }
    (1..=t.size).filter(|&e| seen[e]).collect()
}

/// the `idcs`-subsymbol through d (chambers renumbered in ascending order)
pub fn sub_tab(t: &Tab, idcs: &[usize], d: usize) -> Tab {
    let comp = component(t, idcs, d);
    let mut num = vec![0usize; t.size + 1];
    for (k, &e) in comp.iter().enumerate() {
        num[e] = k + 1;
    }
    let n = comp.len();
    let dim = idcs.len() - 1;
    let mut op = vec![vec![0usize; n + 1]; dim + 1];
    let mut v = vec![vec![0usize; n + 1]; dim];
    for (k, &e) in comp.iter().enumerate() {
        for (a, &i) in idcs.iter().enumerate() {
            op[a][k + 1] = num[t.op[i][e]];
        }
        for a in 0..dim {
            v[a][k + 1] = v_of(t, idcs[a], idcs[a + 1], e);
        }
    }
    Tab { size: n, dim, op, v }
}

/// every `idcs`-component is a spherical 2D symbol
pub fn all_components_spherical(t: &Tab, idcs: &[usize]) -> bool {
    let mut seen = vec![false; t.size + 1];
    for d in 1..=t.size {
        if seen[d] {
            continue;
        }
        for e in component(t, idcs, d) {
            seen[e] = true;
        }
        if !spherical2(&sub_tab(t, idcs, d)) {
            return false;
        }
    }
    true
}

/// tiles and vertex figures are spheres (spherical 2D symbols)
pub fn locally_spherical(t: &Tab) -> bool {
    all_components_spherical(t, &[0, 1, 2]) && all_components_spherical(t, &[1, 2, 3])
}

// ---------------------------------------------------------------------------------
// symbol universes

fn orbit_list(t: &Tab, is: &[usize]) -> Vec<(usize, usize)> {
    let mut orbits = vec![];
    for &i in is {
        for d in t.orbit_reps2(i) {
            orbits.push((i, d));
        }
    }
    orbits
}

fn assign_rec(t: &mut Tab, orbits: &[(usize, usize)], k: usize, vals: &[usize], keep: &dyn Fn(&Tab) -> bool, out: &mut Vec<Tab>) {
    if k == orbits.len() {
        if keep(t) {
            out.push(t.clone());
        }
        return;
    }
    let (i, d) = orbits[k];
    for &v in vals {
        t.set_v_orbit(i, d, v);
        assign_rec(t, orbits, k + 1, vals, keep, out);
    }
}

/// all euclidean symbols over the 2D D-set `t` with branching numbers 1..=vmax.
/// K·L = Σ_orbits c·L/v + Σ_d L/m02(d) − n·L with L = lcm(1..vmax), c = 2 for an orbit
/// without mirror and 1 otherwise; depth-first over the orbits with the exact integer sum,
/// pruned by the largest / smallest amount the remaining orbits can still add.
pub fn euclidean_2d(t: &Tab, vmax: usize) -> Vec<Tab> {
    assert_eq!(t.dim, 2);
    // units of 1/(2L), L = lcm(1..vmax): m02 = 2 on every chamber contributes L each
    let l: i64 = 2 * (1..=vmax as i64).fold(1, |a, b| a / gcd(a, b) * b);
    let orbits = orbit_list(t, &[0, 1]);
    let c: Vec<i64> = orbits.iter().map(|&(i, d)| if has_mirror(t, i, i + 1, d) { 1 } else { 2 }).collect();
    let target = (t.size as i64) * l - (t.size as i64) * (l / 2);
    let mut suffix_max = vec![0i64; orbits.len() + 1];
    let mut suffix_min = vec![0i64; orbits.len() + 1];
    for k in (0..orbits.len()).rev() {
        suffix_max[k] = suffix_max[k + 1] + c[k] * l;
        suffix_min[k] = suffix_min[k + 1] + c[k] * l / (vmax as i64);
    }
    let mut out = vec![];
    fn rec(
        t: &mut Tab, orbits: &[(usize, usize)], c: &[i64], l: i64, vmax: usize, k: usize, sum: i64, target: i64,
        smax: &[i64], smin: &[i64], out: &mut Vec<Tab>,
    ) {
        if sum + smax[k] < target || sum + smin[k] > target {
            return;
        }
        if k == orbits.len() {
            if sum == target {
                out.push(t.clone());
            }
            return;
        }
        let (i, d) = orbits[k];
        for v in 1..=vmax {
            t.set_v_orbit(i, d, v);
            rec(t, orbits, c, l, vmax, k + 1, sum + c[k] * l / (v as i64), target, smax, smin, out);
        }
    }
    let mut s = t.clone();
    rec(&mut s, &orbits, &c, l, vmax, 0, 0, target, &suffix_max, &suffix_min, &mut out);
    // the pruned search must agree with the plain definition
    for s in &out {
        debug_assert!(euclidean2(s));
    }
    out
}

pub const CRYST: [usize; 5] = [1, 2, 3, 4, 6];

/// all symbols over the 3D D-set `t` with branching numbers in {1,2,3,4,6} whose tiles and
/// vertex figures are spherical: first the (0,1)- and (1,2)-orbits (tiles checked), then the
/// (2,3)-orbits (vertex figures checked)
pub fn symbols_3d(t: &Tab) -> Vec<Tab> {
    assert_eq!(t.dim, 3);
    let mut stage1 = vec![];
    let mut s = t.clone();
    // (2,3)-orbits get the placeholder 1 while the tiles are examined (they do not enter)
    for d in 1..=t.size {
        s.v[2][d] = 1;
    }
    let o01 = orbit_list(t, &[0, 1]);
    assign_rec(&mut s, &o01, 0, &CRYST, &|x| all_components_spherical(x, &[0, 1, 2]), &mut stage1);
    let o23 = orbit_list(t, &[2]);
    let mut out = vec![];
    for mut s in stage1 {
        assign_rec(&mut s, &o23, 0, &CRYST, &|x| all_components_spherical(x, &[1, 2, 3]), &mut out);
    }
    out
}

/// the whole 3D universe up to `nmax` chambers: (size, serial, symbol)
pub fn universe_3d(nmax: usize) -> Vec<Tab> {
    let mut out = vec![];
    for n in 1..=nmax {
        for t in labelled(3, n) {
            out.extend(symbols_3d(&t));
        }
    }
    out
}

// ---------------------------------------------------------------------------------
// products and twisted stackings: prisms over the tiles of a 2D symbol

/// the automorphisms of a connected complete symbol (maps d ↦ a[d], entry 0 unused): the image of
/// chamber 1 determines the map; it must commute with every operation and keep every branching number
pub fn automorphisms(t: &Tab) -> Vec<Vec<usize>> {
    let mut out = vec![];
    'img: for e1 in 1..=t.size {
        let mut a = vec![0usize; t.size + 1];
        a[1] = e1;
        let mut stack = vec![1usize];
        while let Some(d) = stack.pop() {
            for i in 0..=t.dim {
                let (x, y) = (t.op[i][d], t.op[i][a[d]]);
                if a[x] == 0 {
                    a[x] = y;
                    stack.push(x);
                } else if a[x] != y {
                    continue 'img;
                }
            }
        }
        let mut hit = vec![false; t.size + 1];
        for d in 1..=t.size {
            if a[d] == 0 || hit[a[d]] {
                continue 'img;
            }
            hit[a[d]] = true;
            if (0..t.dim).any(|i| t.v[i][d] != t.v[i][a[d]]) {
                continue 'img;
            }
        }
        out.push(a);
    }
    out
}

/// order of an automorphism
pub fn perm_order(a: &[usize]) -> usize {
    let n = a.len() - 1;
    let mut cur: Vec<usize> = (0..=n).collect();
    for k in 1..=720 {
        cur = (0..=n).map(|d| if d == 0 { 0 } else { a[cur[d]] }).collect();
        if (1..=n).all(|d| cur[d] == d) {
            return k;
        }
    }
    0
}

/// 3D symbol from operations and DEGREES m (v = m / r; `None` if some r does not divide m)
fn from_ops_and_degrees(n: usize, op: &dyn Fn(usize, usize) -> usize, m: &dyn Fn(usize, usize) -> usize) -> Option<Tab> {
    let mut t = Tab { size: n, dim: 3, op: vec![vec![0; n + 1]; 4], v: vec![vec![0; n + 1]; 3] };
    for i in 0..=3 {
        for x in 1..=n {
            t.op[i][x] = op(i, x);
        }
    }
    // involutions, commuting far operations
    for i in 0..=3 {
        for x in 1..=n {
            let y = t.op[i][x];
            if y < 1 || y > n || t.op[i][y] != x {
                return None;
            }
        }
    }
    if !t.far_commute() || !t.is_connected() {
        return None;
    }
    for i in 0..3 {
        for x in 1..=n {
            let (r, deg) = (t.r(i, i + 1, x), m(i, x));
            if deg % r != 0 {
                return None;
            }
            t.v[i][x] = deg / r;
        }
        // constant on orbits
        for x in 1..=n {
            for y in t.orbit2(i, i + 1, x) {
                if t.v[i][y] != t.v[i][x] {
                    return None;
                }
            }
        }
    }
    Some(t)
}

/// degrees of the prism tiling over the 2D symbol `s`: chamber types A = (vertex, cap edge, cap),
/// B = (vertex, cap edge, side face), C = (vertex, vertical edge, side face); `ty` ∈ {0,1,2}
fn prism_degree(s: &Tab, ty: usize, i: usize, d: usize) -> usize {
    match (ty, i) {
        (0, 0) => s.r(0, 1, d) * s.v[0][d], // cap polygon
        (_, 0) => 4,                         // side faces are quadrangles
        (_, 1) => 3,                         // prism corners
        (2, 2) => s.r(1, 2, d) * s.v[1][d], // prisms around a vertical edge
        (_, 2) => 4,                         // prisms around a cap edge
        _ => unreachable!(),
    }
}

/// prisms over the tiles of the complete 2D symbol `s`, one layer of prisms per period: going up
/// through a cap applies the automorphism `tau` of `s` (identity: translation; otherwise a
/// screw motion or glide).  6·|s| chambers: top half (h = 0) and bottom half (h = 1) of a prism,
/// numbered 3n·h + n·type + d.
pub fn stacked_prisms(s: &Tab, tau: &[usize]) -> Option<Tab> {
    assert_eq!(s.dim, 2);
    let n = s.size;
    let mut tinv = vec![0; n + 1];
    for d in 1..=n {
        tinv[tau[d]] = d;
    }
    let op = |i: usize, x: usize| -> usize {
        let h = (x - 1) / (3 * n);
        let ty = (x - 1) % (3 * n) / n;
        let d = (x - 1) % n + 1;
        let same = h * 3 * n;
        let other = (1 - h) * 3 * n;
        match (ty, i) {
            (0, 0) => same + s.op[0][d],
            (0, 1) => same + s.op[1][d],
            (0, 2) => same + n + d,
            (0, 3) => other + if h == 0 { tau[d] } else { tinv[d] },
            (1, 0) => same + n + s.op[0][d],
            (1, 1) => same + 2 * n + d,
            (1, 2) => same + d,
            (1, 3) => same + n + s.op[2][d],
            (2, 0) => other + 2 * n + d,
            (2, 1) => same + n + d,
            (2, 2) => same + 2 * n + s.op[1][d],
            (2, 3) => same + 2 * n + s.op[2][d],
            _ => unreachable!(),
        }
    };
    let m = |i: usize, x: usize| prism_degree(s, (x - 1) % (3 * n) / n, i, (x - 1) % n + 1);
    from_ops_and_degrees(6 * n, &op, &m)
}

/// prisms with a mirror plane at mid-height; crossing a cap is the reflection in the cap plane
/// followed by the involutive automorphism `sigma` of `s` (identity: every cap plane is a
/// mirror).  3·|s| chambers, numbered n·type + d.
pub fn mirror_prisms(s: &Tab, sigma: &[usize]) -> Option<Tab> {
    assert_eq!(s.dim, 2);
    let n = s.size;
    if (1..=n).any(|d| sigma[sigma[d]] != d) {
        return None;
    }
    let op = |i: usize, x: usize| -> usize {
        let ty = (x - 1) / n;
        let d = (x - 1) % n + 1;
        match (ty, i) {
            (0, 0) => s.op[0][d],
            (0, 1) => s.op[1][d],
            (0, 2) => n + d,
            (0, 3) => sigma[d],
            (1, 0) => n + s.op[0][d],
            (1, 1) => 2 * n + d,
            (1, 2) => d,
            (1, 3) => n + s.op[2][d],
            (2, 0) => 2 * n + d,
            (2, 1) => n + d,
            (2, 2) => 2 * n + s.op[1][d],
            (2, 3) => 2 * n + s.op[2][d],
            _ => unreachable!(),
        }
    };
    let m = |i: usize, x: usize| prism_degree(s, (x - 1) / n, i, (x - 1) % n + 1);
    from_ops_and_degrees(3 * n, &op, &m)
}

/// inside the quantified domain of the 3D property
pub fn in_domain_3d(t: &Tab) -> bool {
    t.dim == 3
        && t.is_connected()
        && (0..3).all(|i| (1..=t.size).all(|d| CRYST.contains(&t.v[i][d])))
        && locally_spherical(t)
}

/// every 2D symbol over the D-set `t` with branching numbers in {1,2,3,4,6}
pub fn symbols_2d_cryst(t: &Tab) -> Vec<Tab> {
    crate::dsgen::all_vs(t, &CRYST)
}

/// the prism symbols over the 2D symbol `s` that lie in the 3D domain, with a label:
/// mirror prisms for every involutive automorphism (incl. identity) and stacked prisms for every
/// automorphism of order ≤ `max_order`, one representative per pair {τ, τ⁻¹} is NOT taken (the two
/// stackings are mirror images, both are inputs)
pub fn prisms_over(s: &Tab, max_order: usize, with_stack: bool) -> Vec<(String, Tab)> {
    let mut out = vec![];
    let auts = automorphisms(s);
    for (k, a) in auts.iter().enumerate() {
        let o = perm_order(a);
        if o <= 2 {
            if let Some(p) = mirror_prisms(s, a) {
                if in_domain_3d(&p) {
                    out.push((format!("mirror-prism aut={} order={}", k, o), p));
                }
            }
        }
        if with_stack && o >= 1 && o <= max_order {
            if let Some(p) = stacked_prisms(s, a) {
                if in_domain_3d(&p) {
                    out.push((format!("stacked-prism aut={} order={}", k, o), p));
                }
            }
        }
    }
    out
}

// ---------------------------------------------------------------------------------
// corpus

/// own reader of the `<a.b:size dim:ops:degrees>` text format (complete symbols only):
/// per index the images of the chambers not yet paired, in ascending order of the chamber;
/// per adjacent index pair the degree m of every orbit in ascending order of its least chamber
pub fn parse_symbol(line: &str) -> Option<Tab> {
    let s = line.trim().strip_prefix('<')?.strip_suffix('>')?;
    let parts: Vec<&str> = s.split(':').collect();
    if parts.len() != 4 {
        return None;
    }
    let hd: Vec<usize> = parts[1].split_whitespace().map(|x| x.parse().ok()).collect::<Option<_>>()?;
    let (n, dim) = match hd.len() {
        1 => (hd[0], 2),
        2 => (hd[0], hd[1]),
        _ => return None,
    };
    let ops: Vec<&str> = parts[2].split(',').collect();
    if ops.len() != dim + 1 {
        return None;
    }
    let mut op = vec![vec![0usize; n + 1]; dim + 1];
    for i in 0..=dim {
        let imgs: Vec<usize> = ops[i].split_whitespace().map(|x| x.parse().ok()).collect::<Option<_>>()?;
        let mut k = 0;
        for d in 1..=n {
            if op[i][d] == 0 {
                let e = *imgs.get(k)?;
                k += 1;
                if e < 1 || e > n || op[i][e] != 0 {
                    return None;
                }
                op[i][d] = e;
                op[i][e] = d;
            }
        }
        if k != imgs.len() {
            return None;
        }
    }
    let mut t = Tab { size: n, dim, op, v: vec![vec![0; n + 1]; dim] };
    let ms: Vec<&str> = parts[3].split(',').collect();
    if ms.len() != dim {
        return None;
    }
    for i in 0..dim {
        let degs: Vec<usize> = ms[i].split_whitespace().map(|x| x.parse().ok()).collect::<Option<_>>()?;
        let reps = t.orbit_reps2(i);
        if reps.len() != degs.len() {
            return None;
        }
        for (k, d) in reps.into_iter().enumerate() {
            let r = t.r(i, i + 1, d);
            if degs[k] % r != 0 {
                return None;
            }
            t.set_v_orbit(i, d, degs[k] / r);
        }
    }
    Some(t)
}

/// `corpus/euclidean3d.txt` (compiled in; `tools/try_mutant.sh` links the directory next to
/// the harness copy)
pub fn corpus() -> Vec<Tab> {
    let text = include_str!(concat!(env!("CARGO_MANIFEST_DIR"), "/../corpus/euclidean3d.txt"));
    text.lines()
        .map(|l| l.trim())
        .filter(|l| !l.is_empty() && !l.starts_with('#'))
        .map(|l| parse_symbol(l).unwrap_or_else(|| panic!("corpus line does not parse: {l}")))
        .collect()
}
