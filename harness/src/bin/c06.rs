//! C06 — the D-set generator `DSets::new(dim, max_size)` enumerates every isomorphism
//! class of connected complete D-sets with commuting far operations exactly once.
//!
//! Two kinds of cases, both calling the real iterator and collecting everything it yields:
//!   gen dim max                 OUT = the whole emitted sequence (model comparison, order
//!                               included; per-set clauses; numbering; irredundancy)
//!   hit dim max n part nparts   OUT = the emitted sets of size n; the driver enumerates the
//!                               part-th slice of all tuples of involutions on 1..n and checks
//!                               that every brute-force class is among them (completeness).
//! The brute-force work of one (dim, max) pair is spread over several `hit` cases so that the
//! 16 shards share it.
use rust_dsymbols::dsets::{DSet, SimpleDSet};
use rust_dsymbols::generators::dset_generators::DSets;
use verif_harness::Ctx;

/// `count (size dim set_count op(1,0) … op(size,dim))*` — size, dim and set_count are what the
/// library reports for each emitted set (`DSet::size`, `DSet::dim`, `DSet::set_count`); the
/// row width of the op table is the set's own `dim() + 1`.
fn enc_sets(sets: &[SimpleDSet]) -> String {
    let mut s = sets.len().to_string();
    for ds in sets {
        s.push_str(&format!(" {} {} {}", ds.size(), ds.dim(), ds.set_count()));
        for d in 1..=ds.size() {
            for i in 0..=ds.dim() {
                s.push(' ');
                s.push_str(&ds.op(i, d).unwrap_or(0).to_string());
            }
        }
    }
    s
}

/// largest size bound per dimension for which the brute-force oracle is run
fn oracle_bound(dim: usize, thorough: bool) -> usize {
    match (dim, thorough) {
        (1, false) => 10,
        (1, true) => 11,
        (2, false) => 7,
        (2, true) => 9,
        (3, _) => 7,
        (4, false) => 5,
        (4, true) => 6,
        _ => 0,
    }
}

/// largest size bound per dimension for the `gen` cases (beyond the oracle bound only the
/// model comparison and the clauses that need no oracle apply: complete, involutive,
/// connected, far operations commute, numbered consecutively, pairwise non-isomorphic)
fn gen_bound(dim: usize, thorough: bool) -> usize {
    match (dim, thorough) {
        (1, false) => 40,
        (1, true) => 60,
        (2, false) => 12,
        (2, true) => 14,
        (3, false) => 11,
        (3, true) => 12,
        (4, false) => 9,
        (4, true) => 10,
        (5, false) => 7,
        (5, true) => 8,
        _ => 0,
    }
}

/// number of slices the brute force over (dim, n) is cut into (≈ proportional to its cost)
fn nparts(dim: usize, n: usize) -> usize {
    match (dim, n) {
        (1, 9) => 2,
        (1, 10) => 16,
        (1, 11) => 320,
        (2, 7) => 4,
        (2, 8) => 64,
        (2, 9) => 1600,
        (3, 6) => 2,
        (3, 7) => 32,
        (4, 6) => 8,
        _ => 1,
    }
}

fn main() {
    let mut ctx = Ctx::from_args();
    let thorough = ctx.thorough();

    // the expensive completeness cases first, so that round-robin sharding spreads them evenly
    for dim in 1..=4usize {
        let top = oracle_bound(dim, thorough);
        for max in (1..=top).rev() {
            for n in (1..=max).rev() {
                let np = nparts(dim, n);
                for part in 0..np {
                    let tags = format!("dim={dim} max={max} n={n}{}", if n >= 2 { " nt" } else { "" });
                    ctx.case(
                        "hit",
                        &tags,
                        || format!("{dim} {max} {n} {part} {np}"),
                        || {
                            let sets: Vec<SimpleDSet> =
                                DSets::new(dim, max).filter(|ds| ds.size() == n).collect();
                            enc_sets(&sets)
                        },
                    );
                }
            }
        }
    }

    for dim in 1..=5usize {
        let top = gen_bound(dim, thorough);
        let ob = oracle_bound(dim, thorough);
        for max in (0..=top).rev() {
            let tags = format!(
                "dim={dim} max={max} oracle={}{}",
                if max == 0 { "trivial" } else if max <= ob { "yes" } else { "no" },
                if max >= 2 { " nt" } else { "" }
            );
            ctx.case(
                "gen",
                &tags,
                || format!("{dim} {max}"),
                || {
                    let sets: Vec<SimpleDSet> = DSets::new(dim, max).collect();
                    enc_sets(&sets)
                },
            );
        }
    }

    ctx.finish();
}
