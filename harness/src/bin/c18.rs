//! C18 — exact linear algebra for every back-end, the prime field, the p-adic solver.
//! Drives `VecMatrix<T>` (public API) and the const-generic `Matrix<T, N, M>` (through the
//! cfg-gated `verif_*` wrappers) for T = i64, BigRational, PrimeResidueClass<P>, f64.
use num_bigint::BigInt;
use num_rational::BigRational;
use num_traits::{One, Zero};
use rust_dsymbols::delaney2d;
use rust_dsymbols::delaney3d::pseudo_toroidal_cover;
use rust_dsymbols::dsets::DSet;
use rust_dsymbols::dsyms::{DSym, PartialDSym};
use rust_dsymbols::fpgroups::invariants::relator_as_vector;
use rust_dsymbols::fundamental_group::fundamental_group;
use rust_dsymbols::geometry::matrix::Matrix;
use rust_dsymbols::pgraphs::{PeriodicGraph, VectorLabelledEdge};
use std::collections::BTreeMap;
use rust_dsymbols::geometry::modular_solver;
use rust_dsymbols::geometry::prime_residue_classes::PrimeResidueClass;
use rust_dsymbols::geometry::traits::{Array2d, Entry, ScalarPtr};
use rust_dsymbols::geometry::vec_matrix::VecMatrix;
use std::ops::Div;
use verif_harness::{Ctx, Rng};

type IMat = Vec<Vec<i64>>;

/// the private `const PRIME` of modular_solver.rs (the model takes the modulus as an
/// input; if the constant changes the correspondence on `modsolve` breaks and says so)
const PRIME: i64 = 3_037_000_493;

// ------------------------------------------------------------------------------------
// scalar back-ends

trait El: Entry + Clone + Div<Self, Output = Self> {
    fn conv(x: i64) -> Self;
    fn enc(&self) -> String;
}

impl El for i64 {
    fn conv(x: i64) -> Self {
        x
    }
    fn enc(&self) -> String {
        self.to_string()
    }
}

impl El for BigRational {
    fn conv(x: i64) -> Self {
        BigRational::from_integer(BigInt::from(x))
    }
    fn enc(&self) -> String {
        format!("{} {}", self.numer(), self.denom())
    }
}

impl<const P: i64> El for PrimeResidueClass<P> {
    fn conv(x: i64) -> Self {
        PrimeResidueClass::<P>::from(x)
    }
    fn enc(&self) -> String {
        i64::from(*self).to_string()
    }
}

impl El for f64 {
    fn conv(x: i64) -> Self {
        x as f64
    }
    fn enc(&self) -> String {
        String::from("-")
    }
}

fn enc_imat(a: &IMat) -> String {
    let mut s = String::new();
    for r in a {
        for x in r {
            s.push(' ');
            s.push_str(&x.to_string());
        }
    }
    s
}

fn vmat<T: El>(a: &IMat) -> VecMatrix<T> {
    let (nr, nc) = (a.len(), a[0].len());
    let mut m = VecMatrix::new(nr, nc);
    for i in 0..nr {
        for j in 0..nc {
            m[i][j] = T::conv(a[i][j]);
        }
    }
    m
}

fn enc_vmat<T: El>(m: &VecMatrix<T>) -> String {
    let mut s = format!("{} {}", m.nr_rows(), m.nr_columns());
    for i in 0..m.nr_rows() {
        for j in 0..m.nr_columns() {
            s.push(' ');
            s.push_str(&m[i][j].enc());
        }
    }
    s
}

fn enc_mat<T: El, const N: usize, const M: usize>(m: &Matrix<T, N, M>) -> String {
    let mut s = format!("{} {}", N, M);
    for i in 0..N {
        for j in 0..M {
            s.push(' ');
            s.push_str(&m[i][j].enc());
        }
    }
    s
}

fn arr<T: El, const N: usize, const M: usize>(a: &IMat) -> Matrix<T, N, M> {
    Matrix::from(core::array::from_fn(|i| core::array::from_fn(|j| T::conv(a[i][j]))))
}

// ------------------------------------------------------------------------------------
// one matrix through every routine of one back-end

/// `pin` is the leading part of the IN payload ("" or "<p> " for the modular back-end)
fn vec_ops<T: El>(ctx: &mut Ctx, be: &str, pin: &str, tags: &str, a: &IMat, rhss: &[IMat])
where
    for<'a> &'a T: ScalarPtr<T>,
{
    let (nr, nc) = (a.len(), a[0].len());
    let inp = || format!("{pin}{nr} {nc}{}", enc_imat(a));
    ctx.case(&format!("rank_{be}"), tags, inp, || vmat::<T>(a).rank().to_string());
    ctx.case(&format!("nsm_{be}"), tags, inp, || enc_vmat(&vmat::<T>(a).null_space_matrix()));
    ctx.case(&format!("ns_{be}"), tags, inp, || {
        let vs = vmat::<T>(a).null_space();
        let mut s = vs.len().to_string();
        for v in &vs {
            s.push(' ');
            s.push_str(&enc_vmat(v));
        }
        s
    });
    if nr == nc {
        ctx.case(&format!("det_{be}"), tags, inp, || vmat::<T>(a).determinant().enc());
        ctx.case(&format!("inv_{be}"), tags, inp, || match vmat::<T>(a).inverse() {
            Some(x) => enc_vmat(&x),
            None => String::from("ERR"),
        });
    }
    for b in rhss {
        let k = b[0].len();
        ctx.case(
            &format!("solve_{be}"),
            tags,
            || format!("{pin}{nr} {nc} {k}{}{}", enc_imat(a), enc_imat(b)),
            || match vmat::<T>(a).solve(&vmat::<T>(b)) {
                Some(x) => enc_vmat(&x),
                None => String::from("ERR"),
            },
        );
    }
}

fn twin_solve<T: El, const N: usize, const M: usize, const K: usize>(
    ctx: &mut Ctx, be: &str, pin: &str, tags: &str, a: &IMat, b: &IMat,
) where
    for<'a> &'a T: ScalarPtr<T>,
{
    ctx.case(
        &format!("msolve_{be}"),
        tags,
        || format!("{pin}{N} {M} {K}{}{}", enc_imat(a), enc_imat(b)),
        || match arr::<T, N, M>(a).verif_solve(&arr::<T, N, K>(b)) {
            Some(x) => enc_mat(&x),
            None => String::from("ERR"),
        },
    );
}

fn twin_ops<T: El, const N: usize, const M: usize>(
    ctx: &mut Ctx, be: &str, pin: &str, tags: &str, a: &IMat, rhss: &[IMat],
) where
    for<'a> &'a T: ScalarPtr<T>,
{
    let inp = || format!("{pin}{N} {M}{}", enc_imat(a));
    ctx.case(&format!("mrank_{be}"), tags, inp, || arr::<T, N, M>(a).verif_rank().to_string());
    ctx.case(&format!("mns_{be}"), tags, inp, || {
        let vs = arr::<T, N, M>(a).verif_null_space();
        let mut s = vs.len().to_string();
        for v in &vs {
            s.push(' ');
            s.push_str(&enc_mat(v));
        }
        s
    });
    for b in rhss {
        match b[0].len() {
            1 => twin_solve::<T, N, M, 1>(ctx, be, pin, tags, a, b),
            2 => twin_solve::<T, N, M, 2>(ctx, be, pin, tags, a, b),
            3 => twin_solve::<T, N, M, 3>(ctx, be, pin, tags, a, b),
            _ => {}
        }
    }
}

fn twin_sq<T: El, const N: usize>(ctx: &mut Ctx, be: &str, pin: &str, tags: &str, a: &IMat)
where
    for<'a> &'a T: ScalarPtr<T>,
{
    let inp = || format!("{pin}{N} {N}{}", enc_imat(a));
    ctx.case(&format!("mdet_{be}"), tags, inp, || arr::<T, N, N>(a).verif_determinant().enc());
    ctx.case(&format!("minv_{be}"), tags, inp, || match arr::<T, N, N>(a).verif_inverse() {
        Some(x) => enc_mat(&x),
        None => String::from("ERR"),
    });
}

macro_rules! twin_dispatch {
    ($T:ty, $ctx:expr, $be:expr, $pin:expr, $tags:expr, $a:expr, $rhss:expr) => {
        match ($a.len(), $a[0].len()) {
            (1, 1) => { twin_ops::<$T, 1, 1>($ctx, $be, $pin, $tags, $a, $rhss); twin_sq::<$T, 1>($ctx, $be, $pin, $tags, $a) }
            (1, 2) => twin_ops::<$T, 1, 2>($ctx, $be, $pin, $tags, $a, $rhss),
            (1, 3) => twin_ops::<$T, 1, 3>($ctx, $be, $pin, $tags, $a, $rhss),
            (1, 4) => twin_ops::<$T, 1, 4>($ctx, $be, $pin, $tags, $a, $rhss),
            (2, 1) => twin_ops::<$T, 2, 1>($ctx, $be, $pin, $tags, $a, $rhss),
            (2, 2) => { twin_ops::<$T, 2, 2>($ctx, $be, $pin, $tags, $a, $rhss); twin_sq::<$T, 2>($ctx, $be, $pin, $tags, $a) }
            (2, 3) => twin_ops::<$T, 2, 3>($ctx, $be, $pin, $tags, $a, $rhss),
            (2, 4) => twin_ops::<$T, 2, 4>($ctx, $be, $pin, $tags, $a, $rhss),
            (3, 1) => twin_ops::<$T, 3, 1>($ctx, $be, $pin, $tags, $a, $rhss),
            (3, 2) => twin_ops::<$T, 3, 2>($ctx, $be, $pin, $tags, $a, $rhss),
            (3, 3) => { twin_ops::<$T, 3, 3>($ctx, $be, $pin, $tags, $a, $rhss); twin_sq::<$T, 3>($ctx, $be, $pin, $tags, $a) }
            (3, 4) => twin_ops::<$T, 3, 4>($ctx, $be, $pin, $tags, $a, $rhss),
            (4, 1) => twin_ops::<$T, 4, 1>($ctx, $be, $pin, $tags, $a, $rhss),
            (4, 2) => twin_ops::<$T, 4, 2>($ctx, $be, $pin, $tags, $a, $rhss),
            (4, 3) => twin_ops::<$T, 4, 3>($ctx, $be, $pin, $tags, $a, $rhss),
            (4, 4) => { twin_ops::<$T, 4, 4>($ctx, $be, $pin, $tags, $a, $rhss); twin_sq::<$T, 4>($ctx, $be, $pin, $tags, $a) }
            (5, 5) => twin_sq::<$T, 5>($ctx, $be, $pin, $tags, $a),
            _ => {}
        }
    };
}

/// f64 is not modelled: the only clause is "no shape makes these routines panic"
fn f64_ops(ctx: &mut Ctx, tags: &str, a: &IMat, rhss: &[IMat]) {
    let (nr, nc) = (a.len(), a[0].len());
    ctx.case("f64_all", tags, || format!("{nr} {nc}{}", enc_imat(a)), || {
        let m = vmat::<f64>(a);
        let _ = m.rank();
        let _ = m.null_space();
        let _ = m.null_space_matrix();
        if nr == nc {
            let _ = m.determinant();
            let _ = m.inverse();
        }
        for b in rhss {
            let _ = m.solve(&vmat::<f64>(b));
        }
        String::from("OK")
    });
    ctx.case("mf64_all", tags, || format!("{nr} {nc}{}", enc_imat(a)), || {
        fn go<const N: usize, const M: usize>(a: &IMat) {
            let m = arr::<f64, N, M>(a);
            let _ = m.verif_rank();
            let _ = m.verif_null_space();
            let _ = m.verif_solve(&arr::<f64, N, 1>(&vec![vec![1]; N]));
        }
        match (nr, nc) {
            (1, 1) => go::<1, 1>(a), (1, 2) => go::<1, 2>(a), (1, 3) => go::<1, 3>(a), (1, 4) => go::<1, 4>(a),
            (2, 1) => go::<2, 1>(a), (2, 2) => go::<2, 2>(a), (2, 3) => go::<2, 3>(a), (2, 4) => go::<2, 4>(a),
            (3, 1) => go::<3, 1>(a), (3, 2) => go::<3, 2>(a), (3, 3) => go::<3, 3>(a), (3, 4) => go::<3, 4>(a),
            (4, 1) => go::<4, 1>(a), (4, 2) => go::<4, 2>(a), (4, 3) => go::<4, 3>(a), (4, 4) => go::<4, 4>(a),
            _ => {}
        }
        String::from("OK")
    });
}

#[derive(Clone, Copy, PartialEq)]
enum Ent {
    Tiny,
    Small,
    Large,
}

/// which modular back-ends a matrix goes to: bit 0: p=2, 1: p=3, 2: p=61, 3: p=PRIME
fn all_backends(ctx: &mut Ctx, a: &IMat, rhss: &[IMat], ent: Ent, kind: &str, pmask: u32) {
    let (nr, nc) = (a.len(), a[0].len());
    let zero = a.iter().all(|r| r.iter().all(|&x| x == 0));
    let nt = if (nr > 1 || nc > 1) && !zero { "nt " } else { "" };
    let e = match ent { Ent::Tiny => "tiny", Ent::Small => "small", Ent::Large => "large" };
    let tags = format!("{nt}shape={nr}x{nc} ent={e} kind={kind}");
    if ent != Ent::Large {
        // machine integers: DESIGN §5.6 (big entries go to the rational and modular back-ends)
        vec_ops::<i64>(ctx, "i", "", &tags, a, rhss);
        twin_dispatch!(i64, ctx, "i", "", &tags, a, rhss);
    }
    vec_ops::<BigRational>(ctx, "q", "", &tags, a, rhss);
    twin_dispatch!(BigRational, ctx, "q", "", &tags, a, rhss);
    if pmask & 1 != 0 {
        vec_ops::<PrimeResidueClass<2>>(ctx, "p", "2 ", &tags, a, rhss);
    }
    if pmask & 2 != 0 {
        vec_ops::<PrimeResidueClass<3>>(ctx, "p", "3 ", &tags, a, rhss);
    }
    if pmask & 4 != 0 {
        vec_ops::<PrimeResidueClass<61>>(ctx, "p", "61 ", &tags, a, rhss);
        twin_dispatch!(PrimeResidueClass<61>, ctx, "p", "61 ", &tags, a, rhss);
    }
    if pmask & 8 != 0 {
        vec_ops::<PrimeResidueClass<PRIME>>(ctx, "p", "3037000493 ", &tags, a, rhss);
        twin_dispatch!(PrimeResidueClass<PRIME>, ctx, "p", "3037000493 ", &tags, a, rhss);
    }
}

// ------------------------------------------------------------------------------------
// matrix universes

fn entry(rng: &mut Rng, ent: Ent) -> i64 {
    match ent {
        Ent::Tiny => rng.range(-2, 2),
        Ent::Small => rng.range(-10, 10),
        Ent::Large => match rng.below(8) {
            0 => 0,
            1 => rng.range(-10, 10),
            2 => if rng.chance(1, 2) { 1_000_000_000 } else { -1_000_000_000 },
            // negative multiples of the moduli among the entries
            3 => -61 * rng.range(1, 16_000_000),
            _ => rng.range(-1_000_000_000, 1_000_000_000),
        },
    }
}

fn random_matrix(rng: &mut Rng, nr: usize, nc: usize, ent: Ent) -> IMat {
    // a fraction of the matrices is sparse
    let sparse = rng.chance(1, 4);
    (0..nr).map(|_| (0..nc).map(|_| if sparse && rng.chance(1, 2) { 0 } else { entry(rng, ent) }).collect()).collect()
}

fn mat_mul(a: &IMat, b: &IMat) -> IMat {
    let (n, m, k) = (a.len(), b.len(), b[0].len());
    (0..n).map(|i| (0..k).map(|j| (0..m).map(|l| a[i][l] * b[l][j]).sum()).collect()).collect()
}

/// rank ≤ r by construction: product of an nr×r and an r×nc matrix
fn deficient_matrix(rng: &mut Rng, nr: usize, nc: usize, ent: Ent) -> IMat {
    let r = 1 + rng.below(nr.min(nc).max(2) - 1);
    let small = if ent == Ent::Large { Ent::Small } else { Ent::Tiny };
    let mut left = random_matrix(rng, nr, r, ent);
    if ent == Ent::Large {
        // keep the products within ~10^9
        for row in left.iter_mut() { for x in row.iter_mut() { *x /= 64; } }
    }
    let right = random_matrix(rng, r, nc, small);
    mat_mul(&left, &right)
}

/// planted dependencies: some rows are copies / integer combinations of others, some rows or
/// columns are zero
fn planted_matrix(rng: &mut Rng, nr: usize, nc: usize, ent: Ent) -> IMat {
    let mut a = random_matrix(rng, nr, nc, ent);
    for _ in 0..1 + rng.below(2) {
        match rng.below(5) {
            0 if nr > 1 => {
                let (i, j) = (rng.below(nr), rng.below(nr));
                if i != j { a[i] = a[j].clone(); }
            }
            1 if nr > 2 => {
                let (i, j, l) = (rng.below(nr), rng.below(nr), rng.below(nr));
                if i != j && i != l {
                    let (f, g) = (rng.range(-2, 2), rng.range(-2, 2));
                    a[i] = (0..nc).map(|c| f * a[j][c] + g * a[l][c]).collect();
                }
            }
            2 => {
                let i = rng.below(nr);
                a[i] = vec![0; nc];
            }
            3 => {
                let j = rng.below(nc);
                for r in a.iter_mut() { r[j] = 0; }
            }
            _ if nc > 1 => {
                let (i, j) = (rng.below(nc), rng.below(nc));
                let f = rng.range(-2, 2);
                if i != j { for r in a.iter_mut() { r[i] = f * r[j]; } }
            }
            _ => {}
        }
    }
    a
}

/// product of elementary integer row operations applied to the identity: determinant ±1
fn unimodular_matrix(rng: &mut Rng, n: usize, steps: usize) -> IMat {
    let mut a: IMat = (0..n).map(|i| (0..n).map(|j| (i == j) as i64).collect()).collect();
    for _ in 0..steps {
        if n < 2 { if rng.chance(1, 2) { a[0][0] = -a[0][0]; } continue; }
        let (i, j) = (rng.below(n), rng.below(n));
        match rng.below(4) {
            0 => if i != j { a.swap(i, j) },
            1 => for c in 0..n { a[i][c] = -a[i][c]; },
            _ => if i != j {
                let f = rng.range(-2, 2);
                for c in 0..n { a[i][c] += f * a[j][c]; }
            },
        }
    }
    a
}

/// right-hand sides: consistent (B = A·X₀), arbitrary (mostly inconsistent when A is rank
/// deficient or tall), zero; 1–3 columns
fn rhs_set(rng: &mut Rng, a: &IMat, ent: Ent, count: usize) -> Vec<IMat> {
    let (nr, nc) = (a.len(), a[0].len());
    let mut out = vec![];
    for _ in 0..count {
        let k = 1 + rng.below(3);
        let small = if ent == Ent::Tiny { Ent::Tiny } else { Ent::Small };
        match rng.below(5) {
            0 | 1 => {
                let x0 = random_matrix(rng, nc, k, small);
                out.push(mat_mul(a, &x0));
            }
            2 => {
                // a consistent right-hand side with one row perturbed
                let x0 = random_matrix(rng, nc, k, small);
                let mut b = mat_mul(a, &x0);
                let i = rng.below(nr);
                for c in 0..k { b[i][c] += if rng.chance(1, 2) { 1 } else { 0 }; }
                out.push(b);
            }
            3 => out.push(vec![vec![0; k]; nr]),
            _ => out.push(random_matrix(rng, nr, k, if ent == Ent::Large { Ent::Large } else { small })),
        }
    }
    out
}

fn all_matrices(nr: usize, nc: usize, lo: i64, hi: i64) -> Vec<IMat> {
    let n = nr * nc;
    let vals: Vec<i64> = (lo..=hi).collect();
    let mut out: Vec<Vec<i64>> = vec![vec![]];
    for _ in 0..n {
        let mut next = Vec::with_capacity(out.len() * vals.len());
        for w in &out {
            for &v in &vals {
                let mut x = w.clone();
                x.push(v);
                next.push(x);
            }
        }
        out = next;
    }
    out.into_iter().map(|flat| flat.chunks(nc).map(|c| c.to_vec()).collect()).collect()
}

fn all_vectors(n: usize, vals: &[i64]) -> Vec<IMat> {
    let mut out: Vec<Vec<i64>> = vec![vec![]];
    for _ in 0..n {
        let mut next = vec![];
        for w in &out {
            for &v in vals {
                let mut x = w.clone();
                x.push(v);
                next.push(x);
            }
        }
        out = next;
    }
    out.into_iter().map(|v| v.into_iter().map(|x| vec![x]).collect()).collect()
}

// ------------------------------------------------------------------------------------
// prime residue classes

fn field_values<const P: i64>(ra: i64, rb: i64, rc: i64) -> String {
    type C<const P: i64> = PrimeResidueClass<P>;
    let v = |x: C<P>| i64::from(x);
    let (a, b, c) = (C::<P>::from(ra), C::<P>::from(rb), C::<P>::from(rc));
    let zero = C::<P>::zero();
    let one = C::<P>::one();
    // the harness's own divisor filter (not the library's is_zero)
    let bnz = rb.rem_euclid(P) != 0;
    let mut out: Vec<i64> = vec![
        v(a), v(b), v(c),
        v(a + b), v(a - b), v(a * b), v(-a),
        v((a + b) + c), v(a + (b + c)), v((a * b) * c), v(a * (b * c)),
        v(a * (b + c)), v(a * b + a * c),
        v(a + zero), v(a * one), v(a + (-a)),
        a.is_zero() as i64, a.is_one() as i64,
        v(&a + &b), v(&a - &b), v(&a * &b), v(&a + b), v(&a - b), v(&a * b), v(-&a),
        bnz as i64,
    ];
    if bnz {
        out.extend([v(a / b), v((a / b) * b), v(b * (one / b)), v(&a / b), v(&a / &b)]);
    } else {
        out.extend([0, 0, 0, 0, 0]);
    }
    verif_harness::join(&out)
}

fn prc_cases<const P: i64>(ctx: &mut Ctx, stream: u64) {
    let th = ctx.thorough();
    let p = P;
    let mut rng = ctx.rng(stream);
    let top = (i64::MAX / p) * p; // largest multiple of p in range
    let mut ns: Vec<i64> = vec![
        0, 1, -1, p, -p, 2 * p, -2 * p, p - 1, -(p - 1), p + 1, -(p + 1), 3 * p, -3 * p, 1000 * p, -1000 * p,
        i64::MIN, i64::MAX, i64::MIN + 1, i64::MAX - 1, top, -top, top - 1, -top + 1, -top - 1,
        i32::MIN as i64, i32::MAX as i64,
    ];
    if p <= 61 {
        ns.extend(-3 * p..=3 * p);
    }
    for _ in 0..(if th { 20000 } else { 5000 }) {
        ns.push(match rng.below(4) {
            0 => rng.next_u64() as i64,
            1 => -p * rng.range(0, i64::MAX / p),
            2 => p * rng.range(0, i64::MAX / p),
            _ => rng.range(-4 * p, 4 * p),
        });
    }
    for &n in &ns {
        let nt = if n < 0 || n >= p { "nt " } else { "" };
        let cls = if n % p == 0 { if n < 0 { "neg-multiple" } else { "multiple" } } else if n < 0 { "negative" } else { "nonneg" };
        let tags = format!("{nt}p={p} residue-input={cls}");
        ctx.case("prc_from", &tags, || format!("{p} {n}"), || i64::from(PrimeResidueClass::<P>::from(n)).to_string());
        if n >= i32::MIN as i64 && n <= i32::MAX as i64 {
            ctx.case("prc_from32", &tags, || format!("{p} {n}"), || i64::from(PrimeResidueClass::<P>::from(n as i32)).to_string());
        }
        // From<BigInt>, also far outside the i64 range
        let big = BigInt::from(n) * BigInt::from(if n % 3 == 0 { 1i64 } else { p }) * BigInt::from(rng.range(1, 1 << 40));
        for x in [BigInt::from(n), big] {
            let xs = x.to_string();
            ctx.case("prc_frombig", &tags, || format!("{p} {xs}"), || i64::from(PrimeResidueClass::<P>::from(x.clone())).to_string());
        }
    }
    // field laws on triples
    let special: Vec<i64> = vec![0, 1, -1, p, -p, p - 1, 1 - p, 2 * p, -2 * p, p + 1, -p - 1, 2, -2, i64::MIN, i64::MAX, -top, top];
    let mut triples: Vec<(i64, i64, i64)> = vec![];
    if p <= 3 {
        for a in -p..=2 * p { for b in -p..=2 * p { for c in -p..=2 * p { triples.push((a, b, c)); } } }
    }
    let ns3 = if th { special.len() } else { 9 };
    for &a in &special[..ns3] { for &b in &special[..ns3] { for &c in &special[..ns3] { triples.push((a, b, c)); } } }
    for _ in 0..(if th { 40000 } else { 10000 }) {
        let pick = |rng: &mut Rng| match rng.below(5) {
            0 => special[rng.below(special.len())],
            1 => rng.next_u64() as i64,
            2 => -p * rng.range(0, 1 << 20),
            _ => rng.range(-2 * p, 2 * p),
        };
        triples.push((pick(&mut rng), pick(&mut rng), pick(&mut rng)));
    }
    for &(a, b, c) in &triples {
        let neg_mult = [a, b, c].iter().any(|&x| x < 0 && x % p == 0);
        let tags = format!("nt p={p} triple={}", if neg_mult { "with-neg-multiple" } else { "plain" });
        ctx.case("prc_field", &tags, || format!("{p} {a} {b} {c}"), || field_values::<P>(a, b, c));
    }
}

// ------------------------------------------------------------------------------------
// modular solver

/// `number_of_p_adic_steps_needed` (private in modular_solver.rs), restated: the Lean model
/// takes the step count as an input (it is derived in floating point).
fn steps_needed(a: &IMat, b: &IMat, prime: i64) -> u64 {
    fn column_norm(a: &IMat, j: usize) -> f64 {
        (0..a.len()).map(|i| (a[i][j] as f64).powf(2.0)).sum::<f64>().sqrt()
    }
    let mut log_norms: Vec<f64> = (0..a[0].len()).map(|j| column_norm(a, j).ln()).collect();
    log_norms.push((0..b[0].len()).map(|j| column_norm(b, j).ln()).max_by(|a, b| a.total_cmp(b)).unwrap());
    log_norms.sort_by(|a, b| a.total_cmp(b));
    let log_delta: f64 = log_norms.iter().skip(1).sum();
    let golden_ratio = (1.0 + (5 as f64).sqrt()) / 2.0;
    (2.0 * (log_delta + golden_ratio.ln()) / (prime as f64).ln()).ceil() as u64
}

fn modsolve_case(ctx: &mut Ctx, a: &IMat, b: &IMat, kind: &str) {
    let (n, k) = (a.len(), b[0].len());
    let tags = format!("nt shape={n}x{n} rhs={k} kind={kind}");
    ctx.case(
        "modsolve",
        &tags,
        || format!("{PRIME} {} {n} {k}{}{}", steps_needed(a, b, PRIME), enc_imat(a), enc_imat(b)),
        || match modular_solver::solve(&vmat::<i64>(a), &vmat::<i64>(b)) {
            Some(x) => enc_vmat(&x),
            None => String::from("ERR"),
        },
    );
}

// ------------------------------------------------------------------------------------
// periodic graphs: barycentric placement (client of the modular solver)

type PEdge = (usize, usize, Vec<i64>);

fn pgraph(edges: &[PEdge]) -> PeriodicGraph {
    PeriodicGraph::from(edges.iter().map(|(h, t, s)| {
        let mut shift = VecMatrix::<i64>::new(s.len(), 1);
        for k in 0..s.len() {
            shift[k][0] = s[k];
        }
        VectorLabelledEdge::make(*h, *t, shift)
    }))
}

/// the system of `barycentric_placement`, restated from the public accessors only to derive the
/// solver's floating-point step count (an input of the Lean model)
fn pg_steps(g: &PeriodicGraph) -> u64 {
    let verts = g.vertices();
    let (n, d) = (verts.len(), g.dim());
    let idx: BTreeMap<usize, usize> = verts.iter().enumerate().map(|(i, &v)| (v, i)).collect();
    let mut a: IMat = vec![vec![0; n]; n];
    let mut t: IMat = vec![vec![0; d]; n];
    a[0][0] = 1;
    for i in 1..n {
        for ngb in g.incidences(verts[i]).unwrap() {
            // an incidence is printed `head --(shift)-> tail`; head is verts[i]
            let txt = format!("{ngb}");
            let tail: usize = txt.rsplit("-> ").next().unwrap().trim().parse().unwrap();
            let inner = &txt[txt.find('(').unwrap() + 1..txt.find(')').unwrap()];
            let s: Vec<i64> = inner.split(',').map(|x| x.trim().parse().unwrap()).collect();
            a[i][idx[&tail]] -= 1;
            a[i][i] += 1;
            for k in 0..d {
                t[i][k] += s[k];
            }
        }
    }
    steps_needed(&a, &t, PRIME)
}

fn pg_case(ctx: &mut Ctx, edges: &[PEdge], kind: &str) {
    if edges.is_empty() {
        return;
    }
    let d = edges[0].2.len();
    let tags = format!("nt pg-dim={d} pg-kind={kind} pg-edges={}", edges.len().min(40));
    ctx.case(
        "pgpos",
        &tags,
        || {
            let g = pgraph(edges);
            let mut s = format!("{PRIME} {} {d} {}", pg_steps(&g), edges.len());
            for (h, t, sh) in edges {
                s.push_str(&format!(" {h} {t}"));
                for x in sh {
                    s.push_str(&format!(" {x}"));
                }
            }
            s
        },
        || {
            let g = pgraph(edges);
            let mut s = g.vertices().len().to_string();
            for &v in g.vertices() {
                let p = g.position(v);
                s.push_str(&format!(" {v}"));
                for k in 0..g.dim() {
                    s.push_str(&format!(" {} {}", p[k][0].numer(), p[k][0].denom()));
                }
            }
            s
        },
    );
}

/// the `make_graph` format of the repository's own test: dim, then (head, tail, shift…)*
fn spec_edges(spec: &[i64]) -> Vec<PEdge> {
    let dim = spec[0] as usize;
    let step = dim + 2;
    (1..spec.len()).step_by(step)
        .map(|i| (spec[i] as usize, spec[i + 1] as usize, spec[i + 2..i + step].to_vec()))
        .collect()
}

/// skeleton of the tiling of a (pseudo-)toroidal cover, following tilings.rs::Skeleton::of
/// (private there) with the public traversal / fundamental-group / null-space pieces;
/// written for any dimension (tilings.rs fixes the zero shift to 3 components)
fn skeleton_edges<T: DSym>(cov: &T) -> Vec<PEdge> {
    let dim = cov.dim();
    // chamber_to_node
    let mut c2n = vec![0usize; cov.size() + 1];
    for (i, &d) in cov.orbit_reps(1..=dim, cov.elements()).iter().enumerate() {
        for e in cov.orbit(1..=dim, d) {
            c2n[e] = i + 1;
        }
    }
    // edge_translations
    let fg = fundamental_group(cov);
    let ng = fg.nr_generators();
    let mut mat = VecMatrix::<i64>::new(fg.relators.len(), ng);
    for (i, w) in fg.relators.iter().enumerate() {
        mat[i].copy_from_slice(&relator_as_vector::<i64>(ng, w));
    }
    let nul = mat.null_space_matrix();
    let nd = nul.nr_columns();
    let e2t: BTreeMap<(usize, usize), Vec<i64>> = fg.edge_to_word.iter().map(|(&(d, i), w)| {
        let v = relator_as_vector::<i64>(ng, w);
        ((d, i), (0..nd).map(|c| (0..ng).map(|r| v[r] * nul[r][c]).sum()).collect())
    }).collect();
    let zero = vec![0i64; nd];
    // corner_shifts
    let mut c2s: BTreeMap<(usize, usize), Vec<i64>> = BTreeMap::new();
    for i in cov.indices() {
        let idcs: Vec<usize> = cov.indices().filter(|&k| k != i).collect();
        for (maybe_k, d, dk) in cov.traversal(idcs, cov.elements()) {
            let shift = if let Some(k) = maybe_k {
                let base = c2s[&(d, i)].clone();
                let t = e2t.get(&(d, k)).unwrap_or(&zero);
                (0..nd).map(|c| base[c] - t[c]).collect()
            } else {
                zero.clone()
            };
            c2s.insert((dk, i), shift);
        }
    }
    // skeleton edges
    let idcs: Vec<usize> = cov.indices().filter(|&i| i != 1).collect();
    cov.orbit_reps(idcs, cov.elements()).iter().map(|&d| {
        let e = cov.op(0, d).unwrap();
        let (sd, se) = (&c2s[&(d, 0)], &c2s[&(e, 0)]);
        let shift: Vec<i64> = match e2t.get(&(d, 0)) {
            Some(t) => (0..nd).map(|c| se[c] + t[c] - sd[c]).collect(),
            None => (0..nd).map(|c| se[c] - sd[c]).collect(),
        };
        (c2n[d], c2n[e], shift)
    }).collect()
}

fn skeleton_of(spec: &str) -> Option<Vec<PEdge>> {
    let spec = spec.to_string();
    std::panic::catch_unwind(move || {
        let ds = spec.parse::<PartialDSym>().ok()?;
        let edges = if ds.dim() == 3 {
            skeleton_edges(&pseudo_toroidal_cover(&ds)?)
        } else if ds.dim() == 2 && delaney2d::is_euclidean(&ds) {
            skeleton_edges(&delaney2d::toroidal_cover(&ds))
        } else {
            return None;
        };
        let d = ds.dim();
        if edges.is_empty() || edges.iter().any(|e| e.2.len() != d) { None } else { Some(edges) }
    }).ok().flatten()
}

/// a connected periodic graph: a random spanning tree plus extra edges (loops included),
/// shifts in -1..1, so that the net has full translational rank most of the time
fn random_pgraph(rng: &mut Rng, dim: usize, nv: usize) -> Vec<PEdge> {
    let mut edges: Vec<PEdge> = vec![];
    let label = |i: usize| 1 + 3 * i; // non-contiguous vertex names
    for i in 1..nv {
        let j = rng.below(i);
        let s = (0..dim).map(|_| rng.range(-1, 1)).collect();
        if rng.chance(1, 2) { edges.push((label(i), label(j), s)); } else { edges.push((label(j), label(i), s)); }
    }
    for k in 0..dim {
        // one generator of the lattice per direction keeps the graph `dim`-periodic
        let v = label(rng.below(nv));
        let w = label(rng.below(nv));
        let mut s = vec![0i64; dim];
        s[k] = 1;
        edges.push((v, w, s));
    }
    for _ in 0..rng.below(2 * nv + 1) {
        let v = label(rng.below(nv));
        let w = label(rng.below(nv));
        let s: Vec<i64> = (0..dim).map(|_| rng.range(-2, 2)).collect();
        edges.push((v, w, s));
    }
    if rng.chance(1, 3) && !edges.is_empty() {
        // duplicates and reversed copies: the graph is a set of edges
        let e = edges[rng.below(edges.len())].clone();
        edges.push((e.1, e.0, e.2.iter().map(|x| -x).collect()));
        edges.push(edges[0].clone());
    }
    edges
}

// ------------------------------------------------------------------------------------

fn main() {
    let mut ctx = Ctx::from_args();
    let th = ctx.thorough();

    // (0) regression corpus: past failures first, with fixed case ids
    //     D8: From<i64> of a negative multiple of the modulus
    ctx.case("prc_from", "nt p=61 residue-input=neg-multiple", || String::from("61 -61"),
        || i64::from(PrimeResidueClass::<61>::from(-61i64)).to_string());
    //     D9: RowEchelon*::new on a wide full-rank matrix
    ctx.case("rank_i", "nt shape=1x2 ent=tiny kind=regress", || String::from("1 2 1 0"),
        || vmat::<i64>(&vec![vec![1, 0]]).rank().to_string());
    //     F-C18-overflow (known finding, not repaired): the i64 gcd elimination overflows on a
    //     6x4 matrix with |x| <= 10 although the exact answer (rank 4) fits an i64
    {
        let ov: IMat = vec![vec![-4, -7, 8, -5], vec![7, -7, 0, 7], vec![-10, 6, 2, 4],
                            vec![-8, 3, 2, -5], vec![9, -1, -1, 2], vec![0, -10, -4, 1]];
        ctx.case("rank_i", "nt overflow-panic shape=6x4 ent=small kind=regress",
            || format!("6 4{}", enc_imat(&ov)), || vmat::<i64>(&ov).rank().to_string());
    }
    {
        let wide: IMat = vec![vec![1, 0]];
        let tall: IMat = vec![vec![1], vec![0]];
        let wide2: IMat = vec![vec![1, 2, 3], vec![0, 1, 4]];
        let tall2: IMat = vec![vec![1, 0], vec![2, 1], vec![3, 4]];
        let neg: IMat = vec![vec![-61, 1], vec![0, -122]];
        for (a, b) in [(&wide, vec![vec![vec![1]]]), (&tall, vec![vec![vec![1], vec![0]]]),
                       (&wide2, vec![vec![vec![1], vec![2]]]), (&tall2, vec![vec![vec![1], vec![2], vec![3]]]),
                       (&neg, vec![vec![vec![1], vec![1]]])] {
            all_backends(&mut ctx, a, &b, Ent::Tiny, "regress", 15);
            f64_ops(&mut ctx, "nt kind=regress", a, &b);
        }
    }

    // (1) prime residue classes
    prc_cases::<2>(&mut ctx, 20);
    prc_cases::<3>(&mut ctx, 21);
    prc_cases::<61>(&mut ctx, 22);
    prc_cases::<9_999_991>(&mut ctx, 23);
    prc_cases::<PRIME>(&mut ctx, 24);

    // (2) exhaustive tiny matrices
    let mut exh: Vec<(usize, usize, i64, i64)> = vec![(1, 1, -2, 2), (1, 2, -2, 2), (2, 1, -2, 2), (2, 2, -2, 2), (1, 3, -2, 2), (3, 1, -2, 2)];
    if th {
        exh.extend([(2, 3, -2, 2), (3, 2, -2, 2)]);
    } else {
        exh.extend([(2, 3, -1, 1), (3, 2, -1, 1)]);
    }
    for &(nr, nc, lo, hi) in &exh {
        let rhss: Vec<IMat> = if nr <= 2 { all_vectors(nr, &[-1, 0, 1, 2]) } else { all_vectors(nr, &[0, 1]) };
        for a in all_matrices(nr, nc, lo, hi) {
            all_backends(&mut ctx, &a, &rhss, Ent::Tiny, "exhaustive", 7);
        }
    }

    // (3) every shape 1×1 … 6×6, random / rank-deficient / planted / unimodular
    let mut rng = ctx.rng(30);
    let rounds = if th { 1100 } else { 60 };
    for _ in 0..rounds {
        for nr in 1..=6usize {
            for nc in 1..=6usize {
                for ent in [Ent::Tiny, Ent::Small, Ent::Large] {
                    let (a, kind) = match rng.below(6) {
                        0 | 1 => (random_matrix(&mut rng, nr, nc, ent), "random"),
                        2 => (deficient_matrix(&mut rng, nr, nc, ent), "deficient"),
                        3 | 4 => (planted_matrix(&mut rng, nr, nc, ent), "planted"),
                        _ => {
                            if nr == nc {
                                let st = 2 + rng.below(if ent == Ent::Tiny { 6 } else { 14 });
                                (unimodular_matrix(&mut rng, nr, st), "unimodular")
                            } else {
                                // a unimodular block next to / above arbitrary columns / rows: full rank, wide or tall
                                let n = nr.min(nc);
                                let st = 2 + rng.below(6);
                                let u = unimodular_matrix(&mut rng, n, st);
                                let mut a = random_matrix(&mut rng, nr, nc, ent);
                                for i in 0..n { for j in 0..n { a[i][j] = u[i][j]; } }
                                (a, "unimodular-block")
                            }
                        }
                    };
                    let rhss = rhs_set(&mut rng, &a, ent, 3);
                    let pmask = 8 | (1 << rng.below(3));
                    all_backends(&mut ctx, &a, &rhss, ent, kind, pmask);
                    if ent != Ent::Large || rng.chance(1, 4) {
                        f64_ops(&mut ctx, &format!("shape={nr}x{nc} kind={kind}"), &a, &rhss);
                    }
                }
            }
        }
    }

    // (3b) machine integers with entries up to 10^9 on small shapes (2x2, 2x3, 3x2, 3x3): the
    //      exact answer often still fits an i64; expected: agreement with the model, or the
    //      known overflow clause (F-C18-overflow), or exclusion when the answer cannot fit
    let mut rng = ctx.rng(31);
    for _ in 0..(if th { 4000 } else { 150 }) {
        for (nr, nc) in [(2usize, 2usize), (2, 3), (3, 2), (3, 3)] {
            let mag: i64 = [1_000, 1_000_000, 1_000_000_000][rng.below(3)];
            let mut a: IMat = (0..nr).map(|_| (0..nc).map(|_| rng.range(-mag, mag)).collect()).collect();
            match rng.below(4) {
                0 => { a[nr - 1] = a[0].clone(); }                       // dependent rows
                1 => { for r in a.iter_mut() { r[nc - 1] = 2 * r[0]; } } // dependent columns
                _ => {}
            }
            let x0 = random_matrix(&mut rng, nc, 1, Ent::Tiny);
            let rhss: Vec<IMat> = vec![
                (0..nr).map(|i| vec![(0..nc).map(|l| a[i][l] as i128 * x0[l][0] as i128).sum::<i128>() as i64]).collect(),
                random_matrix(&mut rng, nr, 1, Ent::Small),
            ];
            let tags = format!("nt shape={nr}x{nc} ent=large-i64 kind=random");
            vec_ops::<i64>(&mut ctx, "i", "", &tags, &a, &rhss);
            twin_dispatch!(i64, &mut ctx, "i", "", &tags, &a, &rhss);
        }
    }

    // (4) p-adic solver: integer systems, mostly non-singular modulo the prime
    let mut rng = ctx.rng(40);
    modsolve_case(&mut ctx, &vec![vec![PRIME]], &vec![vec![1]], "singular-mod-p");
    modsolve_case(&mut ctx, &vec![vec![PRIME, 0], vec![0, 1]], &vec![vec![1], vec![1]], "singular-mod-p");
    modsolve_case(&mut ctx, &vec![vec![1, 2], vec![2, 4]], &vec![vec![1], vec![2]], "singular");
    modsolve_case(&mut ctx, &vec![vec![-PRIME, 1], vec![1, -2 * PRIME]], &vec![vec![-PRIME, 5], vec![7, PRIME]], "entries-multiple-of-p");
    for _ in 0..(if th { 60000 } else { 5000 }) {
        let n = 1 + rng.below(6);
        let ent = [Ent::Tiny, Ent::Small, Ent::Large][rng.below(3)];
        let (a, kind) = match rng.below(8) {
            0 => (unimodular_matrix(&mut rng, n, 12), "unimodular"),
            1 => (planted_matrix(&mut rng, n, n, ent), "planted"),
            _ => (random_matrix(&mut rng, n, n, ent), "random"),
        };
        let k = 1 + rng.below(3);
        let b = match rng.below(4) {
            0 => mat_mul(&a, &random_matrix(&mut rng, n, k, Ent::Small)),
            1 => vec![vec![0; k]; n],
            _ => random_matrix(&mut rng, n, k, ent),
        };
        modsolve_case(&mut ctx, &a, &b, kind);
    }

    // (5) barycentric placement of periodic graphs (pgraphs.rs, client of the modular solver)
    //     (a) the graphs of the repository's own test_barycentric_positions
    pg_case(&mut ctx, &spec_edges(&[3, 1, 1, 1, 0, 0, 1, 1, 0, 1, 0, 1, 1, 0, 0, 1]), "repo-test");
    pg_case(&mut ctx, &spec_edges(&[3, 1, 2, 0, 0, 0, 1, 2, 1, 0, 0, 1, 2, 0, 1, 0, 1, 2, 0, 0, 1]), "repo-test");
    pg_case(&mut ctx, &spec_edges(&[3,
        1, 2, 0, 0, 0, 1, 2, 1, 0, -1, 1, 3, 1, 0, 0, 1, 3, 1, 1, -1, 1, 4, 0, 0, 0, 1, 4, 1, 1, 0,
        2, 3, 0, 0, 0, 2, 3, 1, 1, 0, 2, 4, 0, 0, 1, 2, 4, 0, 1, 0, 3, 4, -1, 0, 1, 3, 4, 0, 0, 0]), "repo-test");
    //     (b) skeletons of tilings: the four symbols of tilings.rs::test_skeleton, the literature
    //         corpus corpus/euclidean3d.txt, a few euclidean 2D symbols
    let mut syms: Vec<String> = vec![
        "<1.1:1 3:1,1,1,1:4,3,4>", "<1.1:2 3:2,1 2,1 2,2:6,3 2,6>", "<1.1:2 3:1 2,1 2,1 2,2:3 3,3 4,4>",
        "<1.1:6 3:2 4 6,1 2 3 5 6,3 4 5 6,2 3 4 5 6:6 4,2 3 3,8 4 4>",
        "<1.1:1:1,1,1:4,4>", "<1.1:1:1,1,1:3,6>", "<1.1:1:1,1,1:6,3>", "<1.1:2:2,1 2,1 2:4,4 4>",
        "<1.1:2:2,1 2,1 2:6,3 3>", "<1.1:2:1 2,1 2,2:3 3,6>", "<1.1:3:1 2 3,1 3,2 3:4 8,3>",
        "<1.1:6:2 4 6,1 2 3 5 6,3 4 5 6:3,3 3 3>",
    ].into_iter().map(String::from).collect();
    if let Ok(txt) = std::fs::read_to_string(concat!(env!("CARGO_MANIFEST_DIR"), "/../corpus/euclidean3d.txt")) {
        let corpus: Vec<String> = txt.lines().map(|l| l.trim().to_string())
            .filter(|l| !l.is_empty() && !l.starts_with('#')).collect();
        let take = if th { corpus.len() } else { 8 };
        syms.extend(corpus.into_iter().take(take));
    }
    for sym in &syms {
        if ctx.peek_mine() {
            match skeleton_of(sym) {
                Some(edges) => pg_case(&mut ctx, &edges, "skeleton"),
                None => ctx.skip(),
            }
        } else {
            ctx.skip();
        }
    }
    //     (c) seeded random connected periodic graphs, dim 2-3, up to 8 vertices
    let mut rng = ctx.rng(50);
    for _ in 0..(if th { 20000 } else { 1500 }) {
        let dim = 2 + rng.below(2);
        let nv = 1 + rng.below(8);
        let edges = random_pgraph(&mut rng, dim, nv);
        pg_case(&mut ctx, &edges, "random");
    }
    ctx.finish();
}
