//! C05 — every cover constructor returns a genuine covering of the base symbol.
//!
//! Drives `derived::{cover, oriented_cover}` and `covers::{covers, subgroup_cover,
//! finite_universal_cover, cover_for_table}` on universes built by `dsgen` (independent of the
//! library's generators), with the base held as `PartialDSym` and as `SimpleDSym`, on the objects
//! the library's own symbol generator yields, and on bases with several components.  For the table-based constructors the fundamental group's edge words and the
//! coset table(s) the library computes are transmitted as part of the input, so the Lean
//! model `coverForTable` can be compared exactly with the result.
use rust_dsymbols::covers::{cover_for_table, covers, finite_universal_cover, subgroup_cover};
use rust_dsymbols::derived::{cover, oriented_cover};
use rust_dsymbols::dsets::DSet;
use rust_dsymbols::dsyms::{PartialDSym, SimpleDSym};
use rust_dsymbols::generators::dset_generators::DSets;
use rust_dsymbols::generators::dsym_generators::{DSyms, Geometries};
use rust_dsymbols::fpgroups::cosets::{coset_table, coset_tables, CosetTable};
use rust_dsymbols::fpgroups::free_words::FreeWord;
use rust_dsymbols::fundamental_group::{fundamental_group, FundamentalGroup};
use std::collections::BTreeSet;
use std::panic::{catch_unwind, AssertUnwindSafe};
use verif_harness::dsgen::{all_vs, dsets, random_dset, random_perm1, random_vs, Tab};
use verif_harness::{enc_list, enc_lists, Ctx, Rng};

fn enc_sym(ds: &PartialDSym) -> String {
    Tab::from_dsym(ds).enc()
}

// ---------------------------------------------------------------------------------
// which implementation of the DSet/DSym traits holds the base symbol, and which kind of base

/// `P`: the base as `PartialDSym` (built from our tables), `S`: the same converted into a
/// `SimpleDSym`, `N`: an object the library produced itself (symbol generator), held as it came
#[derive(Clone, Copy)]
enum Rep<'a> {
    P,
    S,
    N(&'a SimpleDSym),
}

/// `dc`: base with several components (ops `…_dc`); ops on `SimpleDSym` bases end in `_s`
#[derive(Clone, Copy)]
struct Kind<'a> {
    dc: bool,
    rep: Rep<'a>,
}

const PK: Kind<'static> = Kind { dc: false, rep: Rep::P };
const SK: Kind<'static> = Kind { dc: false, rep: Rep::S };
const DCP: Kind<'static> = Kind { dc: true, rep: Rep::P };
const DCS: Kind<'static> = Kind { dc: true, rep: Rep::S };

impl<'a> Kind<'a> {
    fn op(&self, base: &str) -> String {
        format!("{}{}{}", base, if self.dc { "_dc" } else { "" }, match self.rep { Rep::P => "", _ => "_s" })
    }
    fn tag(&self) -> &'static str {
        match (self.dc, self.rep) {
            (false, Rep::P) => "rep=partial",
            (false, Rep::S) => "rep=simple",
            (false, Rep::N(_)) => "rep=generated",
            (true, Rep::P) => "rep=partial components=several",
            (true, _) => "rep=simple components=several",
        }
    }
}

/// run `$body` with `$ds` bound to the base symbol in the representation `$kind.rep`
macro_rules! on_sym {
    ($t:expr, $kind:expr, |$ds:ident| $body:expr) => {
        match $kind.rep {
            Rep::P => {
                let $ds = $t.to_partial_dsym();
                $body
            }
            Rep::S => {
                let $ds: SimpleDSym = $t.to_partial_dsym().into();
                $body
            }
            Rep::N(x) => {
                let $ds: SimpleDSym = x.clone();
                $body
            }
        }
    };
}

// ---------------------------------------------------------------------------------
// exact rationals (i64) for the curvature of 2-dimensional symbols

fn gcd(a: i64, b: i64) -> i64 {
    if b == 0 { a.abs() } else { gcd(b, a % b) }
}

/// curvature = sum over chambers of (1/m01 + 1/m12 + 1/m02) - size, as (num, den)
fn curvature(t: &Tab) -> (i64, i64) {
    assert_eq!(t.dim, 2);
    let (mut num, mut den) = (0i64, 1i64);
    let mut add = |a: i64, b: i64| {
        num = num * b + a * den;
        den *= b;
        let g = gcd(num, den);
        if g > 1 {
            num /= g;
            den /= g;
        }
    };
    for d in 1..=t.size {
        for &(i, j) in &[(0usize, 1usize), (1, 2), (0, 2)] {
            let r = t.r(i, j, d) as i64;
            let v = if j == i + 1 { t.v[i][d] as i64 } else { 2 / r };
            add(1, r * v);
        }
    }
    add(-(t.size as i64), 1);
    (num, den)
}

// ---------------------------------------------------------------------------------
// group data of the library (fundamental group + coset tables) as protocol tokens

fn word_letters(w: &FreeWord) -> Vec<isize> {
    w.iter().cloned().collect()
}

fn table_rows(t: &CosetTable) -> Vec<Vec<isize>> {
    let n = t.nr_gens() as isize;
    (0..t.len())
        .map(|c| (-n..=n).map(|g| if g == 0 { -1 } else { t.get(c, g).map(|d| d as isize).unwrap_or(-1) }).collect())
        .collect()
}

fn enc_group(g: &FundamentalGroup, tables: &[CosetTable]) -> String {
    let mut s = format!("{} {}", g.nr_generators(), g.edge_to_word.len());
    for (&(d, i), w) in g.edge_to_word.iter() {
        s.push_str(&format!(" {} {} {}", d, i, enc_list(&word_letters(w))));
    }
    s.push_str(&format!(" {}", tables.len()));
    for t in tables {
        s.push(' ');
        s.push_str(&enc_lists(&table_rows(t)));
    }
    s
}

/// `None` if the library panics while computing the group data
fn group_data<F>(t: &Tab, kind: Kind, tables: F) -> Option<String>
where
    F: FnOnce(&FundamentalGroup) -> Vec<CosetTable>,
{
    catch_unwind(AssertUnwindSafe(|| {
        let g = on_sym!(t, kind, |ds| fundamental_group(&ds));
        let ts = tables(&g);
        enc_group(&g, &ts)
    }))
    .ok()
}

const NO_GROUP: &str = "0 0 0";

// ---------------------------------------------------------------------------------
// sheet maps for `derived::cover`

fn perms(n: usize) -> Vec<Vec<usize>> {
    fn rec(n: usize, cur: &mut Vec<usize>, used: &mut Vec<bool>, out: &mut Vec<Vec<usize>>) {
        if cur.len() == n {
            out.push(cur.clone());
            return;
        }
        for x in 0..n {
            if !used[x] {
                used[x] = true;
                cur.push(x);
                rec(n, cur, used, out);
                cur.pop();
                used[x] = false;
            }
        }
    }
    let mut out = vec![];
    rec(n, &mut vec![], &mut vec![false; n], &mut out);
    out
}

fn inverse(p: &[usize]) -> Vec<usize> {
    let mut q = vec![0; p.len()];
    for (k, &x) in p.iter().enumerate() {
        q[x] = k;
    }
    q
}

fn slot(t: &Tab, k: usize, i: usize, d: usize) -> usize {
    (k * (t.dim + 1) + i) * t.size + (d - 1)
}

/// undirected edges (d, i, e) with d <= e = op_i d
fn edges(t: &Tab) -> Vec<(usize, usize, usize)> {
    let mut out = vec![];
    for d in 1..=t.size {
        for i in 0..=t.dim {
            if d <= t.op[i][d] {
                out.push((d, i, t.op[i][d]));
            }
        }
    }
    out
}

/// the sheet map table given one permutation per undirected edge
fn sheet_table(t: &Tab, n: usize, es: &[(usize, usize, usize)], choice: &[&Vec<usize>]) -> Vec<usize> {
    let mut tab = vec![0; n * (t.dim + 1) * t.size];
    for (&(d, i, e), p) in es.iter().zip(choice.iter()) {
        let q = inverse(p);
        for k in 0..n {
            tab[slot(t, k, i, d)] = p[k];
            if e != d {
                tab[slot(t, k, i, e)] = q[k];
            }
        }
    }
    tab
}

/// all compatible sheet maps (up to `cap`, else a seeded sample of `cap`)
fn compatible_sheet_maps(t: &Tab, n: usize, cap: usize, rng: &mut Rng) -> Vec<Vec<usize>> {
    let all = perms(n);
    let invols: Vec<Vec<usize>> = all.iter().filter(|p| (0..n).all(|k| p[p[k]] == k)).cloned().collect();
    let es = edges(t);
    let cands: Vec<&Vec<Vec<usize>>> = es.iter().map(|&(d, _, e)| if d == e { &invols } else { &all }).collect();
    let mut total: usize = 1;
    for c in &cands {
        total = total.saturating_mul(c.len());
    }
    let mut out = vec![];
    if total <= cap {
        let mut idx = vec![0usize; es.len()];
        loop {
            let choice: Vec<&Vec<usize>> = idx.iter().zip(cands.iter()).map(|(&k, c)| &c[k]).collect();
            out.push(sheet_table(t, n, &es, &choice));
            let mut k = 0;
            loop {
                if k >= es.len() {
                    return out;
                }
                idx[k] += 1;
                if idx[k] < cands[k].len() {
                    break;
                }
                idx[k] = 0;
                k += 1;
            }
        }
    } else {
        for _ in 0..cap {
            let choice: Vec<&Vec<usize>> = cands.iter().map(|c| &c[rng.below(c.len())]).collect();
            out.push(sheet_table(t, n, &es, &choice));
        }
        out
    }
}

fn is_compatible(t: &Tab, n: usize, tab: &[usize]) -> bool {
    for k in 0..n {
        for i in 0..=t.dim {
            for d in 1..=t.size {
                let s = tab[slot(t, k, i, d)];
                if s >= n || tab[slot(t, s, i, t.op[i][d])] != k {
                    return false;
                }
            }
        }
    }
    true
}

/// the premise of the degree clause of `cover`, computed here for the tag: in the symbol
/// `op_i(k, b) = (tab(k, i, b), op_i b)` every (i,i+1)-orbit length divides the base degree
fn premise_holds(t: &Tab, n: usize, tab: &[usize]) -> bool {
    let step = |i: usize, (k, b): (usize, usize)| (tab[slot(t, k, i, b)], t.op[i][b]);
    for i in 0..t.dim {
        for k in 0..n {
            for b in 1..=t.size {
                let m = t.r(i, i + 1, b) * t.v[i][b];
                let mut x = (k, b);
                let mut r = 0;
                loop {
                    x = step(i + 1, step(i, x));
                    r += 1;
                    if x == (k, b) || r > n * t.size {
                        break;
                    }
                }
                if m % r != 0 {
                    return false;
                }
            }
        }
    }
    true
}

fn cover_case(ctx: &mut Ctx, t: &Tab, kind: Kind, n: usize, tab: &[usize], tags: &str) {
    ctx.case(
        &kind.op("cover"),
        &format!("{tags} {}", kind.tag()),
        || format!("{} {} {}", t.enc(), n, enc_list(tab)),
        || {
            let (dim, size) = (t.dim, t.size);
            let c = on_sym!(t, kind, |ds| cover(&ds, n, |k, i, d| tab[(k * (dim + 1) + i) * size + (d - 1)]));
            enc_sym(&c)
        },
    );
}

fn cover_cases(ctx: &mut Ctx, t: &Tab, kinds: &[Kind], rng: &mut Rng, max_sheets: usize, cap: usize, base_tag: &str) {
    for n in 0..=max_sheets {
        if n == 0 {
            for &kind in kinds {
                cover_case(ctx, t, kind, 0, &[], &format!("nt {base_tag} sheets=0 sheetmap=none"));
            }
            continue;
        }
        let maps = compatible_sheet_maps(t, n, cap, rng);
        let nt = if n >= 2 { "nt " } else { "" };
        for m in &maps {
            let premise = if premise_holds(t, n, m) { "premise=holds" } else { "premise=violated" };
            for &kind in kinds {
                cover_case(ctx, t, kind, n, m, &format!("{nt}{base_tag} sheets={n} sheetmap=compatible {premise}"));
            }
        }
        // incompatible maps: one entry of a compatible map changed / fully random tables
        let nbad = if n == 1 { 2 } else { 6 };
        let mut made = 0;
        let mut tries = 0;
        while made < nbad && tries < 100 {
            tries += 1;
            let mut m = if tries % 2 == 0 {
                (0..n * (t.dim + 1) * t.size).map(|_| rng.below(n + 1)).collect::<Vec<usize>>()
            } else {
                let mut m = maps[rng.below(maps.len())].clone();
                let k = rng.below(m.len());
                m[k] = (m[k] + 1 + rng.below(n)) % (n + 1);
                m
            };
            if tries % 5 == 0 {
                let k = rng.below(m.len());
                m[k] = n + rng.below(3);
            }
            if !is_compatible(t, n, &m) {
                for &kind in kinds {
                    cover_case(ctx, t, kind, n, &m, &format!("nt {base_tag} sheets={n} sheetmap=incompatible"));
                }
                made += 1;
            }
        }
    }
}

// ---------------------------------------------------------------------------------

fn oriented_case(ctx: &mut Ctx, t: &Tab, kind: Kind, tags: &str) {
    ctx.case(&kind.op("oriented"), &format!("{tags} {}", kind.tag()), || t.enc(), || {
        enc_sym(&on_sym!(t, kind, |ds| oriented_cover(&ds)))
    });
}

fn covers_case(ctx: &mut Ctx, t: &Tab, kind: Kind, k: usize, count: bool, tags: &str) {
    if !ctx.peek_mine() {
        ctx.skip();
        return;
    }
    let gd = group_data(t, kind, |g| coset_tables(g.nr_generators(), &g.relators, k).collect());
    ctx.case(
        &kind.op("covers"),
        &format!("{tags} {}", kind.tag()),
        || format!("{} {} {} {}", t.enc(), k, if count { 1 } else { 0 }, gd.as_deref().unwrap_or(NO_GROUP)),
        || {
            let cs = on_sym!(t, kind, |ds| covers(&ds, k));
            let mut s = cs.len().to_string();
            for c in &cs {
                s.push(' ');
                s.push_str(&enc_sym(c));
            }
            s
        },
    );
}

/// `covers` without the count clause, for inputs beyond the reach of the count oracle; a case
/// whose list is longer than `cap` is recorded as `covers_skipped` (nothing claimed)
fn covers_nocount_case(ctx: &mut Ctx, t: &Tab, k: usize, cap: usize, tags: &str) {
    if !ctx.peek_mine() {
        ctx.skip();
        return;
    }
    let ntables = catch_unwind(AssertUnwindSafe(|| {
        let g = fundamental_group(&t.to_partial_dsym());
        // lazy iterator: stop as soon as the cap is exceeded
        coset_tables(g.nr_generators(), &g.relators, k).take(cap + 1).count()
    }))
    .unwrap_or(0);
    if ntables > cap {
        ctx.case("covers_skipped", tags, || format!("{} {}", t.enc(), k), || ntables.to_string());
    } else {
        covers_case(ctx, t, PK, k, false, tags);
    }
}

fn subgroup_case(ctx: &mut Ctx, t: &Tab, kind: Kind, subs: &[Vec<isize>], tags: &str) {
    if !ctx.peek_mine() {
        ctx.skip();
        return;
    }
    let sw: Vec<FreeWord> = subs.iter().map(|w| FreeWord::new(w.iter().cloned())).collect();
    let gd = group_data(t, kind, |g| vec![coset_table(g.nr_generators(), &g.relators, &sw)]);
    // every other case calls `cover_for_table` directly (op `table`), with the table and the edge
    // words the library computes for this base (what `subgroup_cover` does internally); there the
    // numbering of the sheets is determined by the inputs and the comparison with the model is exact,
    // whereas `subgroup_cover` / `finite_universal_cover` / `covers` are compared up to isomorphism
    // over the base
    let direct = subs.iter().map(|w| w.len()).sum::<usize>() % 2 == 1;
    ctx.case(
        &kind.op(if direct { "table" } else { "subgroup" }),
        &format!("{tags} {} call={}", kind.tag(), if direct { "cover_for_table" } else { "subgroup_cover" }),
        || format!("{} {} {}", t.enc(), enc_lists(subs), gd.as_deref().unwrap_or(NO_GROUP)),
        || {
            enc_sym(&on_sym!(t, kind, |ds| if direct {
                let g = fundamental_group(&ds);
                let table = coset_table(g.nr_generators(), &g.relators, &sw);
                cover_for_table(&ds, &table, &g.edge_to_word)
            } else {
                subgroup_cover(&ds, &sw)
            }))
        },
    );
}

fn universal_cases(ctx: &mut Ctx, t: &Tab, kind: Kind, tags: &str) {
    let tags = &format!("{tags} {}", kind.tag());
    if ctx.peek_mine() {
        let gd = group_data(t, kind, |g| vec![coset_table(g.nr_generators(), &g.relators, &vec![])]);
        ctx.case(
            &kind.op("universal"),
            tags,
            || format!("{} 0 {}", t.enc(), gd.as_deref().unwrap_or(NO_GROUP)),
            || enc_sym(&on_sym!(t, kind, |ds| finite_universal_cover(&ds))),
        );
    } else {
        ctx.skip();
    }
    ctx.case(&kind.op("pi1_universal"), tags, || t.enc(), || {
        let c = on_sym!(t, kind, |ds| finite_universal_cover(&ds));
        let g = fundamental_group(&c);
        let rels: Vec<Vec<isize>> = g.relators.iter().map(word_letters).collect();
        format!("{} {}", g.nr_generators(), enc_lists(&rels))
    });
}

fn nr_generators(t: &Tab) -> usize {
    catch_unwind(AssertUnwindSafe(|| fundamental_group(&t.to_partial_dsym()).nr_generators())).unwrap_or(0)
}

/// subgroup generator sets: every single reduced word of length 1..=maxlen, plus seeded
/// random sets of 1–2 words of length up to 6
fn subgroup_gens(ngens: usize, maxlen: usize, nrandom: usize, rng: &mut Rng) -> Vec<Vec<Vec<isize>>> {
    let mut seen: BTreeSet<Vec<isize>> = BTreeSet::new();
    let mut out = vec![];
    if ngens == 0 {
        return out;
    }
    let g = ngens as isize;
    for w in verif_harness::gen::words_upto(g, maxlen, false) {
        let red: Vec<isize> = FreeWord::new(w.iter().cloned()).iter().cloned().collect();
        if !red.is_empty() && seen.insert(red.clone()) {
            out.push(vec![red]);
        }
    }
    for _ in 0..nrandom {
        let nw = 1 + rng.below(2);
        let mut set = vec![];
        for _ in 0..nw {
            let len = 1 + rng.below(6);
            let w: Vec<isize> = (0..len)
                .map(|_| {
                    let x = 1 + rng.below(ngens) as isize;
                    if rng.chance(1, 2) { x } else { -x }
                })
                .collect();
            set.push(w);
        }
        out.push(set);
    }
    out
}

fn one_chamber(dim: usize, vs: &[usize]) -> Tab {
    let mut t = Tab { size: 1, dim, op: vec![vec![0, 1]; dim + 1], v: vec![vec![0, 0]; dim] };
    for i in 0..dim {
        t.v[i][1] = vs[i];
    }
    t
}

fn two_chambers_swapped(dim: usize, vs: &[usize]) -> Tab {
    let mut t = Tab { size: 2, dim, op: vec![vec![0, 2, 1]; dim + 1], v: vec![vec![0, 0, 0]; dim] };
    for i in 0..dim {
        t.v[i][1] = vs[i];
        t.v[i][2] = vs[i];
    }
    t
}

/// the hard-coded regression witness of section (0b)
const WITNESS: bool = true;

fn main() {
    let mut ctx = Ctx::from_args();
    let th = ctx.thorough();
    let mut rng = ctx.rng(5);

    // (0) the count oracle of the Spec reproduces known subgroup-class counts
    //     (dihedral group of order 6, Z3, S4 = *332, S4 x Z2 = *432; by index)
    {
        let d3 = one_chamber(1, &[3]);
        for (j, n) in [(1, 1), (2, 1), (3, 1)] {
            ctx.case("selftest", "nt oracle", || format!("{} {}", d3.enc(), j), || n.to_string());
        }
        let z3 = two_chambers_swapped(1, &[3]);
        for (j, n) in [(1, 1), (2, 0), (3, 1)] {
            ctx.case("selftest", "nt oracle", || format!("{} {}", z3.enc(), j), || n.to_string());
        }
        let s4 = one_chamber(2, &[3, 3]);
        for (j, n) in [(1, 1), (2, 1), (3, 1), (4, 1), (5, 0), (6, 3)] {
            if j <= 4 || th {
                ctx.case("selftest", "nt oracle", || format!("{} {}", s4.enc(), j), || n.to_string());
            }
        }
        let s4z2 = one_chamber(2, &[4, 3]);
        for (j, n) in [(1, 1), (2, 3), (3, 1), (4, 2), (5, 0), (6, 7)] {
            if j <= 4 || th {
                ctx.case("selftest", "nt oracle", || format!("{} {}", s4z2.enc(), j), || n.to_string());
            }
        }
    }

    // (0b) regression inputs (corpus/regress/C05/): the 4-simplex group S5 with the subgroup
    //      generated by [-1] and [3,2,-4,-3,2] (all of S5) — a seeded change of the final
    //      clean-up pass of `coset_table` (rows 0..#live only) leaves a relator violated at a
    //      high-numbered live row and `subgroup_cover` returns 3 chambers with m01 = 2
    if WITNESS {
        let a4 = parse_symbol("<1.1:1 3:1,1,1,1:3,3,3>");
        subgroup_case(&mut ctx, &a4, PK, &[vec![-1], vec![3, 2, -4, -3, 2]], "nt regress spherical dim=3 size=1");
        subgroup_case(&mut ctx, &a4, SK, &[vec![-1], vec![3, 2, -4, -3, 2]], "nt regress spherical dim=3 size=1");
    }

    // (1) connected complete symbols: oriented cover, covers up to k sheets, `cover` with
    //     explicit sheet maps
    let bounds: &[(usize, usize)] = if th { &[(1, 5), (2, 6), (3, 3)] } else { &[(1, 3), (2, 4), (3, 2)] };
    for &(dim, nmax) in bounds {
        for n in 1..=nmax {
            let sets = dsets(dim, n, true, true, false);
            for t in &sets {
                let tag = format!("dim={} size={}", dim, n);
                let syms: Vec<Tab> = if n <= 2 && dim <= 2 {
                    all_vs(t, &[1, 2, 3])
                } else if n <= 3 && dim <= 2 {
                    all_vs(t, &[1, 3])
                } else {
                    let k = if !th { 1 } else if n <= 4 { 3 } else if n == 5 { 2 } else { 1 };
                    (0..k).map(|_| random_vs(t, &mut rng, &[1, 2, 3, 4, 6])).collect()
                };
                for (si, s) in syms.iter().enumerate() {
                    let nt = if s.to_partial_dset_is_oriented() { "" } else { "nt " };
                    oriented_case(&mut ctx, s, PK, &format!("{nt}{tag}"));
                    oriented_case(&mut ctx, s, SK, &format!("{nt}{tag}"));
                    // covers: the oracle is a brute-force search over sheet permutations
                    let k = if th {
                        if n <= 2 { 5 } else if n <= 4 { 4 } else { 3 }
                    } else if n <= 2 {
                        4
                    } else {
                        3
                    };
                    let k = if dim == 3 { k.min(3) } else { k };
                    covers_case(&mut ctx, s, PK, k, true, &format!("nt {tag} k={k}"));
                    // (the count oracle is the expensive clause: on the larger symbols of the thorough
                    // tier the SimpleDSym twin keeps every other clause and the exact model comparison)
                    covers_case(&mut ctx, s, SK, k, !th || n <= 3, &format!("nt {tag} k={k}"));
                    // explicit sheet maps on the smallest symbols
                    if si == 0 || n == 1 {
                        let (ms, cap) = if n <= 2 {
                            (3, if th { 200 } else { 80 })
                        } else if n == 3 {
                            (2, if th { 64 } else { 16 })
                        } else {
                            (2, if th { 12 } else { 8 })
                        };
                        // larger symbols: a seeded sample of the D-sets only
                        let pick = n <= 3 || (th && n == 4) || rng.chance(1, if th { 24 } else { 40 });
                        if pick {
                            cover_cases(&mut ctx, s, &[PK, SK], &mut rng, ms, cap, &tag);
                        }
                    }
                }
            }
        }
    }

    // (2) spherical 2-dimensional symbols (positive curvature, computed here): finite
    //     universal cover, subgroup covers
    let nmax = if th { 6 } else { 4 };
    for n in 1..=nmax {
        for t in dsets(2, n, true, true, false) {
            let vals: &[usize] = if n <= 2 { &[1, 2, 3, 4, 5] } else if n <= 3 { &[1, 2, 3, 5] } else { &[1, 2, 3] };
            let syms = if n <= 3 {
                all_vs(&t, vals)
            } else {
                (0..if th { 6 } else { 4 }).map(|_| random_vs(&t, &mut rng, vals)).collect()
            };
            for s in &syms {
                let (num, _) = curvature(s);
                if num <= 0 {
                    continue;
                }
                let tag = format!("nt spherical dim=2 size={}", n);
                universal_cases(&mut ctx, s, PK, &tag);
                universal_cases(&mut ctx, s, SK, &tag);
                let ng = nr_generators(s);
                let subsets = subgroup_gens(ng, 2, if th { 3 } else { 2 }, &mut rng);
                for (k, subs) in subsets.iter().enumerate() {
                    if n <= 2 || (th && n <= 3) || k % (if n >= 5 { 12 } else { 4 }) == 0 {
                        subgroup_case(&mut ctx, s, PK, subs, &tag);
                        if k % 2 == 0 {
                            subgroup_case(&mut ctx, s, SK, subs, &tag);
                        }
                    }
                }
            }
        }
    }

    // (3) the 3-dimensional spherical symbols of the library's own tests, and renumbered
    //     larger 2D spherical symbols
    {
        let mut list = vec![one_chamber(3, &[3, 3, 3])];
        if th {
            list.push(one_chamber(3, &[4, 3, 3]));
            list.push(two_chambers_swapped(3, &[4, 3, 3]));
            list.push(one_chamber(3, &[3, 4, 3]));
        }
        list.push(one_chamber(3, &[2, 2, 2]));
        list.push(one_chamber(3, &[3, 3, 2]));
        list.push(two_chambers_swapped(3, &[3, 3, 3]));
        for t in &list {
            let tag = format!("nt spherical dim=3 size={}", t.size);
            universal_cases(&mut ctx, t, PK, &tag);
            universal_cases(&mut ctx, t, SK, &tag);
            let ng = nr_generators(t);
            for subs in subgroup_gens(ng, 1, 2, &mut rng) {
                subgroup_case(&mut ctx, t, PK, &subs, &tag);
                subgroup_case(&mut ctx, t, SK, &subs, &tag);
            }
        }
    }

    // (4) seeded larger symbols: oriented cover and covers with k <= 2 (count oracle on),
    //     renumbered copies
    let nrand = if th { 400 } else { 60 };
    for k in 0..nrand {
        let dim = 2 + k % 2;
        let n = 5 + rng.below(if dim == 3 { 4 } else { 8 });
        if let Some(t) = random_dset(&mut rng, dim, n, true) {
            let s = random_vs(&t, &mut rng, &[1, 2, 3, 4, 6]);
            let p = random_perm1(&mut rng, n);
            let s2 = s.renumbered(&p);
            let tag = format!("nt random dim={} size={}", dim, n.min(12));
            oriented_case(&mut ctx, &s, PK, &tag);
            oriented_case(&mut ctx, &s2, PK, &tag);
            oriented_case(&mut ctx, &s2, SK, &tag);
            covers_case(&mut ctx, &s2, PK, 2, true, &format!("{tag} k=2"));
            covers_case(&mut ctx, &s, SK, 2, true, &format!("{tag} k=2"));
        }
    }
    // (5) covers(ds,k) beyond the reach of the count oracle (count clause OFF): every entry
    //     must still be a complete, connected, degree-preserving covering with <= k sheets
    //     and uniform fibres, entries pairwise non-isomorphic over ds.  First the four
    //     symbols on which a seeded change of the low-index enumeration (derived_table
    //     queueing each row once) produced an extra non-covering entry, then seeded
    //     samples of 2D symbols with 6-8 chambers and 3D symbols with 3-4 chambers.
    {
        let regress: [(&str, usize, bool); 4] = [
            ("<1.1:8:1 2 3 4 5 6 8,1 3 5 7 8,2 4 6 8:3 4 4 3,8>", 4, true),
            ("<1.1:4 3:2 4,2 4,3 4,2 4:4 4,4,6>", 4, true),
            ("<1.1:4 3:1 4 3,2 4,1 4 3,3 4:4,4,4 3>", 4, true),
            ("<1.1:3:1 2 3,1 3,2 3:3 10,3>", 9, false),
        ];
        for (txt, k, quick) in regress {
            let t = parse_symbol(txt);
            if quick || th {
                covers_nocount_case(&mut ctx, &t, k, 4000, &format!("nt regress lowindex dim={} size={} k={}", t.dim, t.size, k));
            }
            if th && k < 6 {
                covers_nocount_case(&mut ctx, &t, k + 1, 4000, &format!("nt regress lowindex dim={} size={} k={}", t.dim, t.size, k + 1));
            }
        }
        let (n2, n3) = if th { (400, 240) } else { (90, 60) };
        for j in 0..(n2 + n3) {
            let (dim, n) = if j < n2 { (2, 6 + rng.below(3)) } else { (3, 3 + rng.below(2)) };
            if let Some(t) = random_dset(&mut rng, dim, n, true) {
                let s = random_vs(&t, &mut rng, &[1, 2, 3, 4, 6]);
                let k = if th { 5 + j % 2 } else { 4 };
                let k = if dim == 3 && th { 5 } else { k };
                covers_nocount_case(&mut ctx, &s, k, if th { 600 } else { 250 }, &format!("nt large nocount dim={} size={} k={}", dim, n, k));
            }
        }
    }
    // (6) degree universe for the COUNTED covers: a seeded change of the canonicity test of the
    //     low-index enumeration (only forward-generator columns compared) silently omits
    //     classes, but only with a non-involutory generator, a second generator and k >= 4 —
    //     i.e. at degrees 4..6 on the smallest symbols.  All 2D symbols with n <= 2 (quick) /
    //     n <= 3 (thorough) and every degree m = r*v <= 6; 3D two-chamber symbols with every
    //     degree <= 4 (all assignments up to a cap, a seeded sample beyond); three hard-coded
    //     symbols; the cube rotation group at k = 24 against the known S4 histogram.
    {
        let k2 = if th { 5 } else { 4 };
        for n in 1..=(if th { 3 } else { 2 }) {
            for t in dsets(2, n, true, true, false) {
                let k = if n == 3 { 4 } else { k2 };
                for s in all_degrees(&t, 6, usize::MAX, &mut rng) {
                    covers_case(&mut ctx, &s, PK, k, true, &format!("nt degrees dim=2 size={} k={}", n, k));
                }
            }
        }
        for t in dsets(3, 2, true, true, false) {
            for s in all_degrees(&t, 4, if th { 120 } else { 24 }, &mut rng) {
                covers_case(&mut ctx, &s, PK, 4, true, "nt degrees dim=3 size=2 k=4");
            }
        }
        for txt in ["<1.1:2:2,2,2:4,3>", "<1.1:2:2,2,2:4,4>", "<1.1:2 3:2,2,2,2:4,2,3>"] {
            let t = parse_symbol(txt);
            covers_case(&mut ctx, &t, PK, 4, true, &format!("nt regress canonicity dim={} size=2 k=4", t.dim));
            covers_case(&mut ctx, &t, SK, 4, true, &format!("nt regress canonicity dim={} size=2 k=4", t.dim));
        }
        // S4 = rotation group of the cube: classes of subgroups by index (tools/c05_known_counts.py)
        let mut known = vec![0usize; 24];
        for (j, c) in [(1, 1), (2, 1), (3, 1), (4, 1), (6, 3), (8, 1), (12, 2), (24, 1)] {
            known[j - 1] = c;
        }
        covers_known_case(&mut ctx, &parse_symbol("<1.1:2:2,2,2:4,3>"), if th { 24 } else { 12 }, &known, "nt regress canonicity dim=2 size=2 known=S4");
    }
    // (7) subgroup_cover with MANY-generator random subgroups: 1..5 generators of length 1..8
    //     (two thirds) or 1..4 generators of length 1..14 (one third), letters over all
    //     generators and inverses.  Such enumerations run into many coincidences in the main
    //     loop of Todd-Coxeter, so rows merged away, rows renumbered by compact() and relators
    //     first closed by the final clean-up pass all occur; nearly all these subgroups have
    //     small index, so the cases are cheap.  Bases: the one- and two-chamber spherical 3D
    //     Coxeter symbols and spherical 2D symbols.  (Own rng stream: the cases of the other
    //     sections do not depend on this one.)
    {
        let mut rng7 = ctx.rng(57);
        let scale = if th { 10 } else { 1 };
        let mut bases: Vec<(Tab, usize)> = vec![
            (one_chamber(3, &[3, 3, 3]), 9000),
            (two_chambers_swapped(3, &[3, 3, 3]), 4000),
            (two_chambers_swapped(3, &[4, 3, 3]), 3000),
            (one_chamber(3, &[4, 3, 3]), 1500),
            (one_chamber(3, &[3, 3, 4]), 500),
            (one_chamber(3, &[3, 4, 3]), 400),
            (one_chamber(3, &[3, 3, 2]), 1200),
            (one_chamber(3, &[2, 3, 3]), 300),
            (one_chamber(3, &[2, 2, 2]), 300),
        ];
        // spherical 2D: all symbols with n <= 2 over {1..5}, n = 3 over {1,2,3,5}
        let mut sph2: Vec<Tab> = vec![];
        for n in 1..=3 {
            for t in dsets(2, n, true, true, false) {
                let vals: &[usize] = if n <= 2 { &[1, 2, 3, 4, 5] } else { &[1, 2, 3, 5] };
                for s in all_vs(&t, vals) {
                    if curvature(&s).0 > 0 {
                        sph2.push(s);
                    }
                }
            }
        }
        let per2 = (7000 / sph2.len().max(1)).max(1);
        for s in sph2 {
            bases.push((s, per2));
        }
        for (t, cnt) in &bases {
            let ng = nr_generators(t);
            if ng == 0 {
                continue;
            }
            let tag = format!("nt spherical manygens dim={} size={}", t.dim, t.size);
            for k in 0..cnt * scale {
                let (maxw, maxlen) = if k % 3 == 2 { (4, 14) } else { (5, 8) };
                let nw = 1 + rng7.below(maxw);
                let subs: Vec<Vec<isize>> = (0..nw)
                    .map(|_| {
                        let len = 1 + rng7.below(maxlen);
                        (0..len)
                            .map(|_| {
                                let x = 1 + rng7.below(ng) as isize;
                                if rng7.chance(1, 2) { x } else { -x }
                            })
                            .collect()
                    })
                    .collect();
                subgroup_case(&mut ctx, t, if k % 5 == 4 { SK } else { PK }, &subs, &tag);
            }
        }
    }
    disconnected_bases(&mut ctx, th);
    generated_bases(&mut ctx, th);
    ctx.finish();

}

// ---------------------------------------------------------------------------------
// (8) bases with SEVERAL components (outside the quantifier of the property).  The library's
//     fundamental_group then presents the free product of the groups of the components, covers()
//     lists one cover per conjugacy class of subgroups of that free product, and a cover is in
//     general not connected over a component.  Ops `…_dc`: every covering clause except
//     connectedness, "connected after joining each sheet across the components", count against
//     the oracle with a spanning forest, exact comparison with the models.

/// disjoint union: `b` renumbered after `a`
fn disjoint_union(a: &Tab, b: &Tab) -> Tab {
    assert_eq!(a.dim, b.dim);
    let (n, dim) = (a.size + b.size, a.dim);
    let mut t = Tab { size: n, dim, op: vec![vec![0; n + 1]; dim + 1], v: vec![vec![0; n + 1]; dim] };
    for i in 0..=dim {
        for d in 1..=a.size {
            t.op[i][d] = a.op[i][d];
        }
        for d in 1..=b.size {
            t.op[i][a.size + d] = a.size + b.op[i][d];
        }
    }
    for i in 0..dim {
        for d in 1..=a.size {
            t.v[i][d] = a.v[i][d];
        }
        for d in 1..=b.size {
            t.v[i][a.size + d] = b.v[i][d];
        }
    }
    t
}

fn disconnected_bases(ctx: &mut Ctx, th: bool) {
    let mut rng = ctx.rng(58);
    // (8a) exhaustive: every complete tuple of commuting involutions with at least two components
    //      (all numberings), all branching assignments on the smallest
    let bounds: &[(usize, usize)] = if th { &[(1, 4), (2, 4), (3, 3)] } else { &[(1, 3), (2, 3), (3, 2)] };
    for &(dim, nmax) in bounds {
        for n in 2..=nmax {
            for t in dsets(dim, n, true, false, false).iter().filter(|t| !t.is_connected()) {
                let tag = format!("dim={} size={}", dim, n);
                let syms: Vec<Tab> = if n <= 2 {
                    all_vs(t, &[1, 2, 3])
                } else if n == 3 && dim <= 2 {
                    all_vs(t, &[1, 3])
                } else {
                    (0..if th { 3 } else { 1 }).map(|_| random_vs(t, &mut rng, &[1, 2, 3, 4, 6])).collect()
                };
                for (si, s) in syms.iter().enumerate() {
                    oriented_case(ctx, s, DCP, &format!("nt {tag}"));
                    oriented_case(ctx, s, DCS, &format!("nt {tag}"));
                    // the count oracle enumerates one sheet permutation per free edge: keep k small
                    let k = if n <= 2 && dim <= 2 { 3 } else { 2 };
                    covers_case(ctx, s, DCP, k, true, &format!("nt {tag} k={k}"));
                    if si % 2 == 0 {
                        covers_case(ctx, s, DCS, k, true, &format!("nt {tag} k={k}"));
                    }
                    if si == 0 {
                        cover_cases(ctx, s, &[DCP, DCS], &mut rng, 2, if th { 24 } else { 8 }, &tag);
                    }
                }
            }
        }
    }
    // (8b) two copies of S²(3,3) (group Z3 * Z3), dimension 2, and its one-dimensional analogue:
    //      covers(ds, 3) has 5 entries, the last two isomorphic as coverings of ds (independent
    //      sheet renumbering over the two components) but belonging to non-conjugate subgroups
    for txt in ["<1.1:8:2 4 6 8,2 4 6 8,3 4 7 8:3 3 3 3,2 2>", "<1.1:4 1:2 4,2 4:3 3>"] {
        let t = parse_symbol(txt);
        let tag = format!("nt regress freeproduct dim={} size={}", t.dim, t.size);
        covers_case(ctx, &t, DCP, 3, true, &format!("{tag} k=3"));
        covers_case(ctx, &t, DCS, 3, true, &format!("{tag} k=3"));
        oriented_case(ctx, &t, DCP, &tag);
    }
    // (8c) a spherical symbol together with simply connected components: the free product is the
    //      finite group of the spherical component, so finite_universal_cover and subgroup_cover
    //      return; the universal cover consists of the universal cover of that component and |G|
    //      copies of each of the others, and its fundamental group is trivial
    {
        let sphere2 = two_chambers_swapped(2, &[1, 1]);
        let sphere3 = two_chambers_swapped(3, &[1, 1, 1]);
        let mut bases: Vec<Tab> = vec![];
        for n in 1..=(if th { 3 } else { 2 }) {
            for t in dsets(2, n, true, true, false) {
                let vals: &[usize] = if n <= 2 { &[1, 2, 3, 4, 5] } else { &[1, 2, 3, 5] };
                for s in all_vs(&t, vals) {
                    if curvature(&s).0 > 0 {
                        bases.push(disjoint_union(&s, &sphere2));
                        if bases.len() % 3 == 0 {
                            bases.push(disjoint_union(&sphere2, &s));
                        }
                        if bases.len() % 7 == 0 {
                            bases.push(disjoint_union(&disjoint_union(&sphere2, &s), &sphere2));
                        }
                    }
                }
            }
        }
        bases.push(disjoint_union(&one_chamber(3, &[3, 3, 3]), &sphere3));
        bases.push(disjoint_union(&sphere3, &one_chamber(3, &[3, 3, 2])));
        bases.push(disjoint_union(&one_chamber(3, &[2, 2, 2]), &sphere3));
        bases.push(disjoint_union(&two_chambers_swapped(3, &[3, 3, 3]), &sphere3));
        if th {
            bases.push(disjoint_union(&one_chamber(3, &[4, 3, 3]), &sphere3));
        }
        for (j, t) in bases.iter().enumerate() {
            let tag = format!("nt spherical dim={} size={}", t.dim, t.size);
            let kind = if j % 3 == 1 { DCS } else { DCP };
            universal_cases(ctx, t, kind, &tag);
            let ng = nr_generators(t);
            let subsets = subgroup_gens(ng, if t.dim == 2 { 2 } else { 1 }, 2, &mut rng);
            for (k, subs) in subsets.iter().enumerate() {
                if k % 3 == 0 {
                    subgroup_case(ctx, t, kind, subs, &tag);
                }
            }
        }
    }
    // (8d) seeded unions of two connected symbols with 1-4 chambers each (and renumberings that
    //      interleave the components): oriented cover, covers with k = 2 (count oracle on)
    let nrand = if th { 300 } else { 50 };
    for j in 0..nrand {
        let dim = 2 + j % 2;
        let (na, nb) = (1 + rng.below(if dim == 3 { 2 } else { 4 }), 1 + rng.below(if dim == 3 { 2 } else { 3 }));
        if let (Some(a), Some(b)) = (random_dset(&mut rng, dim, na, true), random_dset(&mut rng, dim, nb, true)) {
            let u = disjoint_union(&random_vs(&a, &mut rng, &[1, 2, 3, 4, 6]), &random_vs(&b, &mut rng, &[1, 2, 3, 4, 6]));
            let p = random_perm1(&mut rng, u.size);
            let u2 = u.renumbered(&p);
            let tag = format!("nt random dim={} size={}", dim, u.size);
            oriented_case(ctx, &u2, if j % 2 == 0 { DCP } else { DCS }, &tag);
            covers_case(ctx, &u2, if j % 3 == 0 { DCS } else { DCP }, 2, true, &format!("{tag} k=2"));
        }
    }
}

// ---------------------------------------------------------------------------------
// (9) bases the library's own generators yield (`DSets::new(2, n)` x `DSyms::new(&dset, geometry)`),
//     handed to the cover constructors as the `SimpleDSym` objects they are (ops `…_s`)

fn generated_bases(ctx: &mut Ctx, th: bool) {
    let mut rng = ctx.rng(59);
    let nmax = if th { 5 } else { 4 };
    for dset in DSets::new(2, nmax) {
        let n = dset.size();
        for (gi, g) in [Geometries::Spherical, Geometries::Euclidean, Geometries::Hyperbolic].into_iter().enumerate() {
            for (j, ds) in DSyms::new(&dset, g).enumerate() {
                if j >= (if th { 12 } else { 4 }) {
                    break;
                }
                let t = Tab::from_dsym(&ds);
                let kind = Kind { dc: false, rep: Rep::N(&ds) };
                let tag = format!("nt generated dim=2 size={}", n);
                oriented_case(ctx, &t, kind, &tag);
                let k = if n <= 2 { 3 } else { 2 };
                covers_case(ctx, &t, kind, k, true, &format!("{tag} k={k}"));
                if gi == 0 {
                    // spherical symbols have a finite group (the generator yields good orbifolds only)
                    universal_cases(ctx, &t, kind, &format!("{tag} spherical"));
                    let ng = nr_generators(&t);
                    for (k, subs) in subgroup_gens(ng, 1, 1, &mut rng).iter().enumerate() {
                        if k % 2 == 0 {
                            subgroup_case(ctx, &t, kind, subs, &format!("{tag} spherical"));
                        }
                    }
                }
                if j == 0 && n <= 3 {
                    cover_cases(ctx, &t, &[kind], &mut rng, 2, 6, &tag);
                }
            }
        }
    }
}

/// every branching assignment with all degrees m = r*v <= max_m (up to `cap` symbols, a seeded
/// sample of `cap` beyond)
fn all_degrees(t: &Tab, max_m: usize, cap: usize, rng: &mut Rng) -> Vec<Tab> {
    let mut orbits: Vec<(usize, usize, usize)> = vec![];
    for i in 0..t.dim {
        for d in t.orbit_reps2(i) {
            let r = t.r(i, i + 1, d);
            if r > max_m {
                return vec![];
            }
            orbits.push((i, d, max_m / r));
        }
    }
    let total = orbits.iter().fold(1usize, |a, o| a.saturating_mul(o.2));
    let mut out = vec![];
    if total <= cap {
        let mut idx = vec![1usize; orbits.len()];
        loop {
            let mut s = t.clone();
            for (k, &(i, d, _)) in orbits.iter().enumerate() {
                s.set_v_orbit(i, d, idx[k]);
            }
            out.push(s);
            let mut k = 0;
            loop {
                if k >= orbits.len() {
                    return out;
                }
                idx[k] += 1;
                if idx[k] <= orbits[k].2 {
                    break;
                }
                idx[k] = 1;
                k += 1;
            }
        }
    }
    for _ in 0..cap {
        let mut s = t.clone();
        for &(i, d, vmax) in orbits.iter() {
            s.set_v_orbit(i, d, 1 + rng.below(vmax));
        }
        out.push(s);
    }
    out
}

/// `covers` with the number of entries per sheet number compared with a known histogram
/// (`known[j-1]` classes of index j); the Spec's own count oracle is applied up to 5 sheets
fn covers_known_case(ctx: &mut Ctx, t: &Tab, k: usize, known: &[usize], tags: &str) {
    if !ctx.peek_mine() {
        ctx.skip();
        return;
    }
    let gd = group_data(t, PK, |g| coset_tables(g.nr_generators(), &g.relators, k).collect());
    ctx.case(
        "covers",
        tags,
        || format!("{} {} 2 {} {}", t.enc(), k, enc_list(&known[..k]), gd.as_deref().unwrap_or(NO_GROUP)),
        || {
            let cs = covers(&t.to_partial_dsym(), k);
            let mut s = cs.len().to_string();
            for c in &cs {
                s.push(' ');
                s.push_str(&enc_sym(c));
            }
            s
        },
    );
}

/// the text form `<a.b:size [dim]:op_0,...,op_dim:m_01-orbits,...>` read by a few lines of our
/// own (images listed for the chambers not yet paired; one degree m per (i,i+1)-orbit in
/// order of its least chamber; v = m / r)
fn parse_symbol(txt: &str) -> Tab {
    let body = txt.trim().trim_start_matches('<').trim_end_matches('>');
    let parts: Vec<&str> = body.split(':').collect();
    assert_eq!(parts.len(), 4, "symbol text");
    let head: Vec<usize> = parts[1].split_whitespace().map(|x| x.parse().unwrap()).collect();
    let (size, dim) = (head[0], if head.len() > 1 { head[1] } else { 2 });
    let mut t = Tab { size, dim, op: vec![vec![0; size + 1]; dim + 1], v: vec![vec![0; size + 1]; dim] };
    for (i, list) in parts[2].split(',').enumerate() {
        let mut nums = list.split_whitespace().map(|x| x.parse::<usize>().unwrap());
        for d in 1..=size {
            if t.op[i][d] == 0 {
                let e = nums.next().expect("op entry");
                t.op[i][d] = e;
                t.op[i][e] = d;
            }
        }
        assert!(nums.next().is_none());
    }
    for (i, list) in parts[3].split(',').enumerate() {
        let mut nums = list.split_whitespace().map(|x| x.parse::<usize>().unwrap());
        for d in t.orbit_reps2(i) {
            let m = nums.next().expect("degree entry");
            let r = t.r(i, i + 1, d);
            assert_eq!(m % r, 0, "degree is a multiple of the orbit length");
            t.set_v_orbit(i, d, m / r);
        }
        assert!(nums.next().is_none());
    }
    t
}

trait OrientedProbe {
    fn to_partial_dset_is_oriented(&self) -> bool;
}

impl OrientedProbe for Tab {
    /// loopless and bipartite, computed here (tag only)
    fn to_partial_dset_is_oriented(&self) -> bool {
        let mut col = vec![0u8; self.size + 1];
        for s in 1..=self.size {
            if col[s] != 0 {
                continue;
            }
            col[s] = 1;
            let mut stack = vec![s];
            while let Some(d) = stack.pop() {
                for i in 0..=self.dim {
                    let e = self.op[i][d];
                    if e == d {
                        return false;
                    }
                    if col[e] == 0 {
                        col[e] = 3 - col[d];
                        stack.push(e);
                    } else if col[e] == col[d] {
                        return false;
                    }
                }
            }
        }
        true
    }
}
