//! C11 — coset enumeration: drives the real `coset_table` / `coset_representative`.
use rust_dsymbols::fpgroups::cosets::{coset_representative, coset_table, CosetTable};
use rust_dsymbols::fpgroups::free_words::FreeWord;
use rust_dsymbols::delaney2d::is_spherical;
use rust_dsymbols::fundamental_group::fundamental_group;
use verif_harness::dsgen::{all_vs, dsets};
use verif_harness::gen::words_exact;
use verif_harness::groups::{corpus, Group};
use verif_harness::{enc_list, enc_lists, Ctx, Rng};

fn fw(raw: &[isize]) -> FreeWord {
    FreeWord::new(raw.iter().cloned())
}

/// the public view of a table: images under `all_gens()` in that order, -1 for None
fn view(t: &CosetTable) -> Vec<Vec<isize>> {
    (0..t.len())
        .map(|c| t.all_gens().iter().map(|&g| t.get(c, g).map(|d| d as isize).unwrap_or(-1)).collect())
        .collect()
}

/// rows renamed in breadth-first order from row 0 (letters in `all_gens()` order);
/// empty if some row is not reached
fn bfs_view(v: &[Vec<isize>]) -> Vec<Vec<isize>> {
    let n = v.len();
    let mut o2n = vec![usize::MAX; n];
    let mut order = vec![0usize];
    o2n[0] = 0;
    let mut i = 0;
    while i < order.len() {
        let c = order[i];
        for &d in &v[c] {
            if d >= 0 && (d as usize) < n && o2n[d as usize] == usize::MAX {
                o2n[d as usize] = order.len();
                order.push(d as usize);
            }
        }
        i += 1;
    }
    if order.len() != n {
        return vec![];
    }
    order
        .iter()
        .map(|&c| v[c].iter().map(|&d| if d >= 0 && (d as usize) < n { o2n[d as usize] as isize } else { -1 }).collect())
        .collect()
}

/// probes of the accessors outside the table: `nr_gens()`, and `get` at the first row that does
/// not exist and at `usize::MAX` for every letter of `all_gens()` (-1 for None).  Letters outside
/// `all_gens()` are not probed: on an existing row they are an index panic by design.
fn probes(t: &CosetTable) -> String {
    let at = |c: usize| -> Vec<isize> {
        t.all_gens().iter().map(|&g| t.get(c, g).map(|d| d as isize).unwrap_or(-1)).collect()
    };
    format!("{} {} {}", t.nr_gens(), enc_list(&at(t.len())), enc_list(&at(usize::MAX)))
}

fn make_table(g: &Group, rels: &[Vec<isize>], subs: &[Vec<isize>]) -> CosetTable {
    let r: Vec<FreeWord> = rels.iter().map(|w| fw(w)).collect();
    let s: Vec<FreeWord> = subs.iter().map(|w| fw(w)).collect();
    coset_table(g.nr_gens, &r, &s)
}

fn reduces_to_empty(w: &[isize]) -> bool {
    fw(w).len() == 0
}

fn cases(ctx: &mut Ctx, g: &Group, subs: &[Vec<isize>], kind: &str) {
    let nt = if subs.iter().any(|w| !reduces_to_empty(w)) { "nt " } else { "" };
    let bucket = match g.order {
        0..=8 => "order<=8",
        9..=24 => "order<=24",
        25..=120 => "order<=120",
        _ => "order>120",
    };
    let tags = format!("{nt}{bucket} gens={} subs={kind}", g.nr_gens);
    ctx.case("ct", &tags, || g.encode(subs), || {
        let t = make_table(g, &g.rels, subs);
        let v = view(&t);
        format!("{} {} {}", enc_lists(&v), enc_lists(&bfs_view(&v)), probes(&t))
    });
    ctx.case("reps", &tags, || g.encode(subs), || {
        let t = make_table(g, &g.rels, subs);
        let reps = coset_representative(&t);
        let mut s = format!("{} {}", enc_lists(&view(&t)), reps.len());
        for (k, w) in reps.iter() {
            let letters: Vec<isize> = w.iter().cloned().collect();
            s.push_str(&format!(" {} {}", k, enc_list(&letters)));
        }
        s
    });
}

/// a presentation without an independent order oracle: the same two ops with the validity
/// clauses only (`ct_nc`: complete, inverse-consistent, relators close, H fixes row 0,
/// transitive, accessor probes; plus the exact model table) — no corpus / exact-index clauses
fn cases_nc(ctx: &mut Ctx, g: &Group, subs: &[Vec<isize>], kind: &str) {
    let nt = if subs.iter().any(|w| !reduces_to_empty(w)) { "nt " } else { "" };
    let tags = format!("{nt}order-unknown gens={} subs={kind}", g.nr_gens.min(9));
    ctx.case("ct_nc", &tags, || g.encode(subs), || {
        let t = make_table(g, &g.rels, subs);
        let v = view(&t);
        format!("{} {} {}", enc_lists(&v), enc_lists(&bfs_view(&v)), probes(&t))
    });
}

fn random_word(rng: &mut Rng, g: usize, maxlen: usize) -> Vec<isize> {
    let len = 1 + rng.below(maxlen);
    (0..len)
        .map(|_| {
            let x = rng.range(1, g as i64) as isize;
            if rng.chance(1, 2) { x } else { -x }
        })
        .collect()
}

fn with_rels(g: &Group, name: &str, rels: Vec<Vec<isize>>) -> Group {
    Group {
        name: name.to_string(),
        quick: true,
        order: g.order,
        nr_gens: g.nr_gens,
        degree: g.degree,
        rels,
        perms: g.perms.clone(),
    }
}

/// the Coxeter groups [3,3,3] = S5, [4,3,3] = B4 and [3,4,3] = F4 with the presentations the
/// library computes as fundamental groups of the one-chamber 3D symbols
/// `<1.1:1 3:1,1,1,1:3,3,3>`, `…:4,3,3>`, `…:3,4,3>` (four generators), each with a faithful
/// permutation representation: S5 on 5 points, B4 on the 8 signed coordinates, F4 on its 24
/// long roots (reflections in the simple roots).  The Lean side re-checks relators and order.
fn coxeter_groups() -> Vec<Group> {
    let cox = |m12: usize, m23: usize, m34: usize| -> Vec<Vec<isize>> {
        let m = |i: usize, j: usize| -> usize {
            match (i, j) {
                (1, 2) => m12,
                (2, 3) => m23,
                (3, 4) => m34,
                _ => 2,
            }
        };
        let mut rels = vec![];
        for i in 1..=4usize {
            rels.push(vec![i as isize, i as isize]);
            for j in i + 1..=4 {
                let mut w = vec![];
                for _ in 0..m(i, j) {
                    w.push(i as isize);
                    w.push(j as isize);
                }
                rels.push(w);
            }
        }
        rels
    };
    let swap = |d: usize, pairs: &[(usize, usize)]| -> Vec<usize> {
        let mut p: Vec<usize> = (0..d).collect();
        for &(a, b) in pairs {
            p.swap(a, b);
        }
        p
    };
    // F4: long roots in doubled coordinates, reflections in the simple roots
    let mut roots: Vec<[i32; 4]> = vec![];
    for i in 0..4 {
        for j in i + 1..4 {
            for si in [2, -2] {
                for sj in [2, -2] {
                    let mut v = [0; 4];
                    v[i] = si;
                    v[j] = sj;
                    roots.push(v);
                }
            }
        }
    }
    let simple: [[i32; 4]; 4] = [[0, 2, -2, 0], [0, 0, 2, -2], [0, 0, 0, 2], [1, -1, -1, -1]];
    let f4: Vec<Vec<usize>> = simple
        .iter()
        .map(|a| {
            let aa: i32 = a.iter().map(|x| x * x).sum();
            roots
                .iter()
                .map(|v| {
                    let va: i32 = (0..4).map(|i| v[i] * a[i]).sum();
                    let mut r = [0; 4];
                    for i in 0..4 {
                        r[i] = v[i] - 2 * va * a[i] / aa;
                    }
                    roots.iter().position(|x| *x == r).expect("root system closed")
                })
                .collect()
        })
        .collect();
    vec![
        Group {
            name: "pi1-[3,3,3]-S5".to_string(),
            quick: true,
            order: 120,
            nr_gens: 4,
            degree: 5,
            rels: cox(3, 3, 3),
            perms: vec![swap(5, &[(0, 1)]), swap(5, &[(1, 2)]), swap(5, &[(2, 3)]), swap(5, &[(3, 4)])],
        },
        Group {
            name: "pi1-[4,3,3]-B4".to_string(),
            quick: true,
            order: 384,
            nr_gens: 4,
            degree: 8,
            rels: cox(4, 3, 3),
            perms: vec![
                swap(8, &[(0, 4)]),
                swap(8, &[(0, 1), (4, 5)]),
                swap(8, &[(1, 2), (5, 6)]),
                swap(8, &[(2, 3), (6, 7)]),
            ],
        },
        Group { name: "pi1-[3,4,3]-F4".to_string(), quick: true, order: 1152, nr_gens: 4, degree: 24, rels: cox(3, 4, 3), perms: f4 },
    ]
}

fn main() {
    let mut ctx = Ctx::from_args();
    let th = ctx.thorough();
    let groups = corpus();
    let by_name = |n: &str| groups.iter().find(|g| g.name == n).expect("corpus group");

    // (0) regression corpus: the inputs on which defects D6, D7, D10 were reported
    let s3 = by_name("S3");
    cases(&mut ctx, s3, &[vec![2]], "regress"); // D6 (ct), D7 (reps)
    cases(&mut ctx, s3, &[vec![]], "regress"); // D10: empty subgroup generator
    cases(&mut ctx, s3, &[vec![1, -1], vec![2]], "regress"); // D10: generator reducing to the empty word
    let mut r = s3.rels.clone();
    r.push(vec![1, -1]);
    let s3e = with_rels(s3, "S3+trivial-relator", r); // D10: relator reducing to the empty word
    cases(&mut ctx, &s3e, &[], "regress");
    cases(&mut ctx, &s3e, &[vec![2]], "regress");
    let mut r = vec![vec![]];
    r.extend(by_name("Q8").rels.clone());
    let q8e = with_rels(by_name("Q8"), "Q8+empty-relator", r);
    cases(&mut ctx, &q8e, &[vec![1]], "regress");
    // D11: a deduction completes the table, the relator cycles through it were never scanned
    cases(&mut ctx, by_name("Z3"), &[vec![1, 1]], "regress");
    cases(&mut ctx, by_name("T233"), &[vec![1, 2, -1, -1, 2]], "regress");
    // D12: a coincidence kills row 0, compact() numbered the base coset 1
    cases(&mut ctx, by_name("T232"), &[vec![-1, -2, 1, 1, -2]], "regress");

    // C05-m6 (round-3 seeded change: the closing pass of coset_table stopped at the NUMBER of
    // live rows): S5 as the fundamental group of <1.1:1 3:1,1,1,1:3,3,3>, H = S5
    let cox = coxeter_groups();
    cases(&mut ctx, &cox[0], &[vec![-1], vec![3, 2, -4, -3, 2]], "regress");

    // (6) many generators, many subgroup generators: coincidences in the main loop leave dead
    //     rows below live ones before the closing pass — 1-5 words of length 1-8 over the three
    //     four-generator Coxeter groups and over every corpus group
    {
        let mut rng = ctx.rng(1190);
        for (ci, g) in cox.iter().enumerate() {
            // the 4-simplex group is where the closing pass matters most often (about one
            // input in 750 for the C05-m6 change), and its cases are the cheapest
            let ncox = match (ci, th) {
                (0, false) => 3000,
                (0, true) => 10000,
                (_, false) => 300,
                (_, true) => 3000,
            };
            cases(&mut ctx, g, &[], "none");
            for _ in 0..ncox {
                let k = 1 + rng.below(5);
                let subs: Vec<Vec<isize>> = (0..k).map(|_| random_word(&mut rng, g.nr_gens, 8)).collect();
                cases(&mut ctx, g, &subs, "many-generators");
            }
        }
        let ncorp = if th { 200 } else { 30 };
        for g in groups.iter() {
            if !th && !g.quick {
                continue;
            }
            for _ in 0..ncorp {
                let k = 1 + rng.below(5);
                let subs: Vec<Vec<isize>> = (0..k).map(|_| random_word(&mut rng, g.nr_gens, 8)).collect();
                cases(&mut ctx, g, &subs, "many-generators");
            }
        }
    }

    // (7) fundamental groups (as the library computes them) of all spherical 2D symbols with at
    //     most 3 (quick) / 4 (thorough) chambers and branching numbers v <= 6: no stored
    //     permutation representation, so validity clauses and the model table only
    {
        let mut rng = ctx.rng(1191);
        let nmax = if th { 4 } else { 3 };
        let mut idx = 0;
        for n in 1..=nmax {
            for t in dsets(2, n, true, true, false) {
                for tv in all_vs(&t, &[1, 2, 3, 4, 5, 6]) {
                    let ds = tv.to_partial_dsym();
                    if !is_spherical(&ds) {
                        continue;
                    }
                    let fg = fundamental_group(&ds);
                    let g = Group {
                        name: format!("pi1-sph2d-{idx}-n{n}"),
                        quick: true,
                        order: 0,
                        nr_gens: fg.nr_generators(),
                        degree: 0,
                        rels: fg.relators.iter().map(|w| w.iter().cloned().collect()).collect(),
                        perms: vec![],
                    };
                    idx += 1;
                    cases_nc(&mut ctx, &g, &[], "none");
                    let ng = g.nr_gens as isize;
                    for x in 1..=ng {
                        cases_nc(&mut ctx, &g, &[vec![x]], "generator");
                    }
                    let all: Vec<Vec<isize>> = (1..=ng).map(|x| vec![x]).collect();
                    cases_nc(&mut ctx, &g, &all, "all-generators");
                    if g.nr_gens > 0 {
                        for _ in 0..(if th { 20 } else { 5 }) {
                            let k = 1 + rng.below(3);
                            let subs: Vec<Vec<isize>> = (0..k).map(|_| random_word(&mut rng, g.nr_gens, 6)).collect();
                            cases_nc(&mut ctx, &g, &subs, "random");
                        }
                    }
                }
            }
        }
    }

    for (gi, g) in groups.iter().enumerate() {
        if !th && !g.quick {
            continue;
        }
        let ng = g.nr_gens as isize;
        // (1) trivial subgroup, (2) each generator, (5) the whole group
        cases(&mut ctx, g, &[], "none");
        for x in 1..=ng {
            cases(&mut ctx, g, &[vec![x]], "generator");
        }
        let all: Vec<Vec<isize>> = (1..=ng).map(|x| vec![x]).collect();
        cases(&mut ctx, g, &all, "all-generators");
        // (3) every raw word of length <= 2 (including x x^-1 and the empty word) as the
        //     single generator of a cyclic subgroup; pairs of letters as two generators
        for len in 0..=2 {
            for w in words_exact(ng, len, false) {
                if len == 1 && w[0] > 0 {
                    continue; // done in (2)
                }
                cases(&mut ctx, g, &[w], "word<=2");
            }
        }
        if th {
            for x in 1..=ng {
                for y in x + 1..=ng {
                    cases(&mut ctx, g, &[vec![x], vec![y]], "two-generators");
                }
            }
        }
        // (4) seeded random generating sets: 1-3 words of length 1-6
        let mut rng = ctx.rng(1100 + gi as u64);
        let nrand = if th { 600 } else { 100 };
        for _ in 0..nrand {
            let k = 1 + rng.below(3);
            let subs: Vec<Vec<isize>> = (0..k).map(|_| random_word(&mut rng, g.nr_gens, 6)).collect();
            cases(&mut ctx, g, &subs, "random");
        }
    }
    ctx.finish();
}
