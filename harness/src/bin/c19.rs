//! C19 — minimum cuts: drives the four public entry points of `util::cutsets`.
//!
//! ops `ec` `ecu` `vc` `vcu`: one (graph, source, sink);  `all_*`: one graph, every
//! ordered (source, sink) of the property's domain (DESIGN §5.7):
//!   source != sink, the source an endpoint of an edge; edge cuts: the sink may also be a
//!   vertex that occurs in no edge; vertex cuts: the sink an endpoint of an edge and no edge
//!   source -> sink (directed entry point) / none in either direction (undirected).
//! The observable is the cut as a sorted list (duplicates kept) and the inside set
//! (sorted); unordered cut edges of the undirected entry point travel as (min,max).
use rust_dsymbols::util::cutsets::{
    min_edge_cut, min_edge_cut_undirected, min_vertex_cut, min_vertex_cut_undirected,
};
use rust_dsymbols::delaney3d::pseudo_toroidal_cover;
use rust_dsymbols::dsets::DSet;
use rust_dsymbols::dsyms::PartialDSym;
use rust_dsymbols::simplify::simplify;
use std::collections::BTreeSet;
use std::panic::{catch_unwind, AssertUnwindSafe};
use verif_harness::{enc_list, Ctx, Rng};

type E = (usize, usize);

#[derive(Clone, Copy, PartialEq, Eq)]
enum Kind {
    Ec,
    Ecu,
    Vc,
    Vcu,
}
const KINDS: [Kind; 4] = [Kind::Ec, Kind::Ecu, Kind::Vc, Kind::Vcu];

impl Kind {
    fn op(self) -> &'static str {
        match self {
            Kind::Ec => "ec",
            Kind::Ecu => "ecu",
            Kind::Vc => "vc",
            Kind::Vcu => "vcu",
        }
    }
    fn all_op(self) -> &'static str {
        match self {
            Kind::Ec => "all_ec",
            Kind::Ecu => "all_ecu",
            Kind::Vc => "all_vc",
            Kind::Vcu => "all_vcu",
        }
    }
}

fn enc_edges(es: &[E]) -> String {
    let flat: Vec<usize> = es.iter().flat_map(|&(v, w)| [v, w]).collect();
    enc_list(&flat)
}

fn endpoints(es: &[E]) -> Vec<usize> {
    es.iter().flat_map(|&(v, w)| [v, w]).collect::<BTreeSet<_>>().into_iter().collect()
}

fn in_domain(k: Kind, es: &[E], s: usize, t: usize) -> bool {
    if s == t {
        return false;
    }
    let has = |x: usize| es.iter().any(|&(v, w)| v == x || w == x);
    if !has(s) {
        return false;
    }
    match k {
        // edge cuts: the sink may be a vertex that occurs in no edge
        Kind::Ec | Kind::Ecu => true,
        Kind::Vc => has(t) && !es.contains(&(s, t)),
        Kind::Vcu => has(t) && !es.contains(&(s, t)) && !es.contains(&(t, s)),
    }
}

/// sink candidates: every endpoint, then (edge cuts only make use of them) two labels that
/// occur in no edge — the smallest one below the largest endpoint, if any, and one beyond it
fn sinks(es: &[E]) -> Vec<usize> {
    let vs = endpoints(es);
    let mut ts = vs.clone();
    if let Some(&mx) = vs.last() {
        if let Some(g) = (0..mx).find(|x| !vs.contains(x)) {
            ts.push(g);
        }
        ts.push(mx + 2);
    }
    ts
}

/// call the real entry point and render cut + inside
fn answer(k: Kind, es: &[E], s: usize, t: usize) -> String {
    match k {
        Kind::Ec => {
            let c = min_edge_cut(es.iter().cloned(), s, t);
            let mut cut = c.cut_edges.clone();
            cut.sort();
            let mut inside = c.inside_vertices.clone();
            inside.sort();
            format!("{} {}", enc_edges(&cut), enc_list(&inside))
        }
        Kind::Ecu => {
            let c = min_edge_cut_undirected(es.iter().cloned(), s, t);
            let mut cut: Vec<E> = c.cut_edges.iter().map(|&(v, w)| (v.min(w), v.max(w))).collect();
            cut.sort();
            let mut inside = c.inside_vertices.clone();
            inside.sort();
            format!("{} {}", enc_edges(&cut), enc_list(&inside))
        }
        Kind::Vc | Kind::Vcu => {
            let c = if k == Kind::Vc {
                min_vertex_cut(es.iter().cloned(), s, t)
            } else {
                min_vertex_cut_undirected(es.iter().cloned(), s, t)
            };
            let mut cut = c.cut_vertices.clone();
            cut.sort();
            let mut inside = c.inside_vertices.clone();
            inside.sort();
            format!("{} {}", enc_list(&cut), enc_list(&inside))
        }
    }
}

/// non-trivial: the cut is not empty and not the whole out-star of the source — decided
/// cheaply from the input: the sink is reachable from the source (so at least one
/// augmentation happens).
fn reachable(es: &[E], s: usize, t: usize, undirected: bool) -> bool {
    let mut seen = vec![s];
    let mut i = 0;
    while i < seen.len() {
        let v = seen[i];
        for &(a, b) in es {
            if a == v && !seen.contains(&b) {
                seen.push(b);
            }
            if undirected && b == v && !seen.contains(&a) {
                seen.push(a);
            }
        }
        i += 1;
    }
    seen.contains(&t)
}

fn tags(k: Kind, es: &[E], s: usize, t: usize, family: &str) -> String {
    let nt = reachable(es, s, t, k == Kind::Ecu || k == Kind::Vcu);
    let iso = !es.iter().any(|&(v, w)| v == t || w == t);
    format!(
        "{}{}{} nv={} ne={}",
        if nt { "nt " } else { "" },
        if iso { "isolated-sink " } else { "" },
        family,
        endpoints(es).len().min(12),
        es.len().min(24)
    )
}

fn single(ctx: &mut Ctx, k: Kind, es: &[E], s: usize, t: usize, family: &str) {
    if !in_domain(k, es, s, t) {
        return;
    }
    if !ctx.peek_mine() {
        ctx.skip();
        return;
    }
    let tg = tags(k, es, s, t, family);
    ctx.case(k.op(), &tg, || format!("{} {} {}", s, t, enc_edges(es)), || answer(k, es, s, t));
}

/// all ordered pairs of the domain in one case
fn batch(ctx: &mut Ctx, k: Kind, es: &[E], family: &str) {
    if !ctx.peek_mine() {
        ctx.skip();
        return;
    }
    let vs = endpoints(es);
    let tg = format!("nt {} nv={} ne={}", family, vs.len().min(12), es.len().min(24));
    ctx.case(k.all_op(), &tg, || enc_edges(es), || {
        let mut parts: Vec<String> = vec![];
        for &s in &vs {
            for &t in &sinks(es) {
                if in_domain(k, es, s, t) {
                    let r = catch_unwind(AssertUnwindSafe(|| answer(k, es, s, t)));
                    parts.push(format!("{} {} {}", s, t, r.unwrap_or_else(|_| "PANIC".to_string())));
                }
            }
        }
        format!("{} {}", parts.len(), parts.join(" "))
    });
}

fn all_pairs_single(ctx: &mut Ctx, es: &[E], family: &str) {
    let vs = endpoints(es);
    let ts = sinks(es);
    for &s in &vs {
        for &t in &ts {
            for k in KINDS {
                single(ctx, k, es, s, t, family);
            }
        }
    }
}

/// the digraph on `labels` whose edge set is the bit mask over the n(n-1) ordered pairs
fn digraph(mask: u64, labels: &[usize]) -> Vec<E> {
    let n = labels.len();
    let mut es = vec![];
    let mut bit = 0;
    for i in 0..n {
        for j in 0..n {
            if i != j {
                if mask >> bit & 1 == 1 {
                    es.push((labels[i], labels[j]));
                }
                bit += 1;
            }
        }
    }
    es
}

/// the undirected graph whose edge set is the mask over unordered pairs; every edge is
/// written in one of three ways chosen by `orient` (base-3 digits): (v,w), (w,v), both
fn ugraph(mask: u64, mut orient: u64, labels: &[usize]) -> Vec<E> {
    let n = labels.len();
    let mut es = vec![];
    let mut bit = 0;
    for i in 0..n {
        for j in i + 1..n {
            if mask >> bit & 1 == 1 {
                match orient % 3 {
                    0 => es.push((labels[i], labels[j])),
                    1 => es.push((labels[j], labels[i])),
                    _ => {
                        es.push((labels[j], labels[i]));
                        es.push((labels[i], labels[j]));
                    }
                }
                orient = orient / 3 + 0x9E37 * (orient % 3 + 1);
            }
            bit += 1;
        }
    }
    es
}

const LABEL_POOL: [usize; 14] = [0, 1, 2, 3, 5, 6, 8, 11, 12, 17, 20, 21, 40, 1000];

fn random_graph(rng: &mut Rng, max_v: usize, max_e: usize) -> Vec<E> {
    let nv = 2 + rng.below(max_v - 1);
    let labels: Vec<usize> = if rng.chance(1, 2) {
        (0..nv).collect()
    } else {
        let mut p = LABEL_POOL.to_vec();
        rng.shuffle(&mut p);
        p.truncate(nv);
        p
    };
    let ne = 1 + rng.below(max_e);
    let mut es: Vec<E> = vec![];
    let style = rng.below(4);
    for _ in 0..ne {
        let a = labels[rng.below(nv)];
        let b = labels[rng.below(nv)];
        if a == b && style != 3 {
            continue; // loops only in style 3
        }
        es.push((a, b));
        if style == 1 && rng.chance(1, 2) {
            es.push((b, a)); // many antiparallel pairs
        }
    }
    if style == 2 && !es.is_empty() {
        let d = es[rng.below(es.len())];
        es.push(d); // a repeated input edge (the functions collect into a set)
    }
    es.truncate(max_e);
    es
}

/// layered DAG-like networks: long augmenting paths and flow cancellation
fn layered_graph(rng: &mut Rng) -> (Vec<E>, usize, usize) {
    let layers = 2 + rng.below(2);
    let width = 2 + rng.below(2);
    let id = |l: usize, i: usize| 1 + l * width + i;
    let s = 0;
    let t = 1 + layers * width;
    let mut es = vec![];
    for i in 0..width {
        if rng.chance(3, 4) {
            es.push((s, id(0, i)));
        }
        if rng.chance(3, 4) {
            es.push((id(layers - 1, i), t));
        }
    }
    for l in 0..layers - 1 {
        for i in 0..width {
            for j in 0..width {
                if rng.chance(1, 2) {
                    es.push((id(l, i), id(l + 1, j)));
                }
            }
        }
    }
    // a few cross / backward edges
    for _ in 0..rng.below(3) {
        let a = 1 + rng.below(layers * width);
        let b = 1 + rng.below(layers * width);
        if a != b {
            es.push((a, b));
        }
    }
    (es, s, t)
}

/// Networks shaped like the ones `simplify.rs::network_cut` builds: an undirected
/// skeleton graph on 0..n (edges as (min,max), loops possible), `source = n`,
/// `sink = n+1`, source joined to the vertices of one face, sink to those of another.
fn skeleton_network(rng: &mut Rng) -> (Vec<E>, usize, usize) {
    let w = 2 + rng.below(3);
    let h = 2 + rng.below(3);
    let wrap_x = rng.chance(1, 3);
    let wrap_y = rng.chance(1, 3);
    let id = |x: usize, y: usize| (y % h) * w + (x % w);
    let mut set: BTreeSet<E> = BTreeSet::new();
    let mut add = |a: usize, b: usize| {
        set.insert((a.min(b), a.max(b)));
    };
    for y in 0..h {
        for x in 0..w {
            if x + 1 < w || wrap_x {
                add(id(x, y), id(x + 1, y));
            }
            if y + 1 < h || wrap_y {
                add(id(x, y), id(x, y + 1));
            }
        }
    }
    for _ in 0..rng.below(3) {
        add(rng.below(w * h), rng.below(w * h)); // chords, sometimes a loop
    }
    let n = w * h;
    let (source, sink) = (n, n + 1);
    let face = |rng: &mut Rng| -> Vec<usize> {
        let x = rng.below(w);
        let y = rng.below(h);
        match rng.below(3) {
            0 => vec![id(x, y), id(x + 1, y), id(x, y + 1), id(x + 1, y + 1)],
            1 => (0..w).map(|i| id(i, y)).collect(),
            _ => vec![id(x, y), id(x + 1, y)],
        }
    };
    let mut es: Vec<E> = set.into_iter().collect();
    let fin: BTreeSet<usize> = face(rng).into_iter().collect();
    let fout: BTreeSet<usize> = face(rng).into_iter().collect();
    for &v in &fin {
        es.push((source, v));
    }
    for &v in &fout {
        es.push((v, sink));
    }
    (es, source, sink)
}

/// The networks `simplify.rs::network_cut` hands to `min_vertex_cut_undirected`, rebuilt
/// here from the public D-set API (re-statement of the private `make_skeleton` and
/// `network_edges`): vertices = (1,2)-orbits, edges = (0,2)-orbits as (min,max) pairs
/// (loops possible), `source = #vertices`, `sink = source + 1`, source joined to the
/// vertices of the face of `d` (edge mode: of `d` and of `op(2,d)`), sink to the
/// vertices of the face of `op(3,d)`.
fn tile_networks<T: DSet>(ds: &T) -> Vec<(Vec<E>, usize, usize)> {
    let n = ds.size();
    let reps = ds.orbit_reps([1, 2], 1..=n);
    let mut idx = vec![0usize; n + 1];
    for (i, &d) in reps.iter().enumerate() {
        for e in ds.orbit([1, 2], d) {
            idx[e] = i;
        }
    }
    let skel: BTreeSet<E> = ds
        .orbit_reps([0, 2], 1..=n)
        .iter()
        .map(|&d| (idx[d], idx[ds.op(0, d).unwrap()]))
        .map(|(a, b)| (a.min(b), a.max(b)))
        .collect();
    let source = idx.iter().cloned().max().unwrap_or(0) + 1;
    let sink = source + 1;
    let mut out = vec![];
    let mut push = |d: usize, edge_mode: bool| {
        let mut vin: BTreeSet<usize> = ds.orbit([0, 1], d).iter().map(|&e| idx[e]).collect();
        if edge_mode {
            vin.extend(ds.orbit([0, 1], ds.op(2, d).unwrap()).iter().map(|&e| idx[e]));
        }
        let vout: BTreeSet<usize> =
            ds.orbit([0, 1], ds.op(3, d).unwrap()).iter().map(|&e| idx[e]).collect();
        let mut es: Vec<E> = skel.iter().cloned().collect();
        es.extend(vin.iter().map(|&v| (source, v)));
        es.extend(vout.iter().map(|&v| (v, sink)));
        out.push((es, source, sink));
    };
    for d in ds.orbit_reps([0, 1, 3], 1..=n) {
        push(d, false);
    }
    for d in ds.orbit_reps([0], 1..=n) {
        if ds.r(2, 3, d) == Some(3) {
            push(d, true);
        }
    }
    out
}

const TILINGS: [&str; 17] = [
    "<1.4:1 3:1,1,1,1:4,3,4>",
    "<2.1:2 3:1 2,1 2,1 2,2:3 3,3 4,4>",
    "<513.5:2 3:2,1 2,1 2,2:4,2 4,6>",
    "<513.8:2 3:2,1 2,1 2,2:6,2 3,6>",
    "<3.3:3 3:1 2 3,1 2 3,1 3,2 3:3 3 4,4 4,3>",
    "<167.3:3 3:1 2 3,1 3,2 3,1 2 3:3 4,3,4 6>",
    "<184.4:3 3:1 2 3,1 3,2 3,1 3:4 6,3,3>",
    "<23.14:4 3:1 2 3 4,1 2 4,1 3 4,2 3 4:3 3 8,4 3,3 4>",
    "<71.3:4 3:1 2 3 4,1 2 4,1 3 4,2 4:3 3 6,3 3,4>",
    "<514.7:4 3:2 4,1 2 3 4,1 2 3 4,3 4:4 4,2 4 4 3,4 4>",
    "<553.3:4 3:2 4,1 2 3 4,3 4,2 4:4 6,2 6,4>",
    "<45.2:5 3:1 2 3 5,1 2 4 5,1 3 4 5,2 3 4 5:3 3 3,3 3 3,6 4 4>",
    "<45.7:5 3:1 2 3 5,1 2 4 5,1 3 4 5,2 3 4 5:3 3 3,4 3 3,6 3 3>",
    "<45.12:5 3:1 2 3 5,1 2 4 5,1 3 4 5,2 3 4 5:3 3 6,4 3 3,3 4 4>",
    "<54.2:5 3:1 2 3 5,1 2 4 5,1 3 5,2 3 4 5:3 3 3,3 4,3 6>",
    "<54.4:5 3:1 2 3 5,1 2 4 5,1 3 5,2 3 4 5:3 3 3,4 4,3 4>",
    "<222.77:5 3:1 2 4 5,1 3 5,2 3 4 5,1 5 4:4 12,3 2,3 4>",
];

fn main() {
    let mut ctx = Ctx::from_args();
    let th = ctx.thorough();

    // (0) regression / anchor corpus: the repository's own 11-vertex example
    let example: Vec<E> = vec![
        (1, 2), (1, 3), (1, 4), (1, 5), (1, 6), (2, 7), (3, 7), (3, 9), (4, 8), (4, 9), (4, 10),
        (5, 9), (6, 9), (7, 11), (8, 11), (10, 11), (11, 9),
    ];
    all_pairs_single(&mut ctx, &example, "example");

    // (1) exhaustive: every simple digraph on 2, 3 (non-contiguous labels) and 4 vertices,
    //     every ordered pair of the domain, the four entry points
    for mask in 0..4u64 {
        all_pairs_single(&mut ctx, &digraph(mask, &[4, 1]), "exh2");
    }
    for mask in 0..64u64 {
        all_pairs_single(&mut ctx, &digraph(mask, &[2, 9, 5]), "exh3");
    }
    for mask in 0..4096u64 {
        all_pairs_single(&mut ctx, &digraph(mask, &[0, 1, 2, 3]), "exh4");
    }
    if th {
        for mask in 0..4096u64 {
            all_pairs_single(&mut ctx, &digraph(mask, &[7, 3, 12, 4]), "exh4-labels");
        }
    }

    // (2) every undirected graph on 5 (quick) and 6 (thorough) vertices through the
    //     undirected entry points, edges written in mixed orientations
    for mask in 0..1024u64 {
        let es = ugraph(mask, mask * 7 + 1, &[0, 1, 2, 3, 4]);
        if es.is_empty() {
            continue;
        }
        batch(&mut ctx, Kind::Ecu, &es, "exh5u");
        batch(&mut ctx, Kind::Vcu, &es, "exh5u");
    }
    if th {
        for mask in 0..32768u64 {
            let es = ugraph(mask, mask * 5 + 2, &[0, 1, 2, 3, 4, 5]);
            if es.is_empty() {
                continue;
            }
            batch(&mut ctx, Kind::Ecu, &es, "exh6u");
            batch(&mut ctx, Kind::Vcu, &es, "exh6u");
        }
    }

    // (3) every simple digraph on 5 vertices through the directed entry points
    //     (quick: those with at most 7 edges; thorough: all 2^20 - 1), and, thorough only,
    //     every simple digraph on 6 vertices with at most 5 edges
    {
        let max_edges = if th { 20 } else { 7 };
        for mask in 1..(1u64 << 20) {
            if mask.count_ones() > max_edges {
                continue;
            }
            if !ctx.peek_mine() {
                ctx.skip();
            } else {
                batch(&mut ctx, Kind::Ec, &digraph(mask, &[0, 1, 2, 3, 4]), "exh5");
            }
            if !ctx.peek_mine() {
                ctx.skip();
            } else {
                batch(&mut ctx, Kind::Vc, &digraph(mask, &[0, 1, 2, 3, 4]), "exh5");
            }
        }
    }
    if th {
        // Gosper's hack: all 30-bit masks with exactly k bits
        for k in 1..=5u32 {
            let mut mask: u64 = (1 << k) - 1;
            while mask < (1u64 << 30) {
                if !ctx.peek_mine() {
                    ctx.skip();
                } else {
                    batch(&mut ctx, Kind::Ec, &digraph(mask, &[0, 1, 2, 3, 4, 5]), "exh6-le5");
                }
                if !ctx.peek_mine() {
                    ctx.skip();
                } else {
                    batch(&mut ctx, Kind::Vc, &digraph(mask, &[0, 1, 2, 3, 4, 5]), "exh6-le5");
                }
                let c = mask & mask.wrapping_neg();
                let r = mask + c;
                mask = (((r ^ mask) >> 2) / c) | r;
            }
        }
    }

    // (4) seeded random graphs up to 9 vertices / 16 edges, labels not contiguous
    let mut rng = ctx.rng(190);
    let nrand = if th { 120_000 } else { 6_000 };
    for _ in 0..nrand {
        let es = random_graph(&mut rng, 9, 16);
        let vs = endpoints(&es);
        if vs.len() < 2 {
            continue;
        }
        for _ in 0..2 {
            let s = vs[rng.below(vs.len())];
            let t = vs[rng.below(vs.len())];
            for k in KINDS {
                single(&mut ctx, k, &es, s, t, "rand");
            }
        }
        // a sink that occurs in no edge (edge cuts only; inside / beyond the label range)
        let ts = sinks(&es);
        let s = vs[rng.below(vs.len())];
        for &t in &ts[vs.len()..] {
            single(&mut ctx, Kind::Ec, &es, s, t, "rand");
            single(&mut ctx, Kind::Ecu, &es, s, t, "rand");
        }
    }
    // every pair of a smaller number of random graphs
    let nrand_all = if th { 20_000 } else { 1_000 };
    for _ in 0..nrand_all {
        let es = random_graph(&mut rng, 7, 12);
        if es.is_empty() {
            continue;
        }
        for k in KINDS {
            batch(&mut ctx, k, &es, "rand-allpairs");
        }
    }

    // (5) layered networks (long augmenting paths, cancellation of flow)
    let mut rng = ctx.rng(191);
    let nlay = if th { 60_000 } else { 3_000 };
    for _ in 0..nlay {
        let (es, s, t) = layered_graph(&mut rng);
        for k in KINDS {
            single(&mut ctx, k, &es, s, t, "layered");
        }
    }

    // (6) networks of the shape built by simplify.rs::network_cut (vertex cut, undirected)
    let mut rng = ctx.rng(192);
    let nskel = if th { 60_000 } else { 3_000 };
    for _ in 0..nskel {
        let (es, s, t) = skeleton_network(&mut rng);
        single(&mut ctx, Kind::Vcu, &es, s, t, "skeleton");
        if rng.chance(1, 4) {
            single(&mut ctx, Kind::Ecu, &es, s, t, "skeleton");
            single(&mut ctx, Kind::Vc, &es, s, t, "skeleton");
            single(&mut ctx, Kind::Ec, &es, s, t, "skeleton");
        }
    }

    // (7) the genuine tile-skeleton networks of simplify.rs::network_cut, rebuilt from the
    //     public API for the symbols of the repository's simplify test: the symbol itself,
    //     its pseudo-toroidal cover and the simplified cover
    let nsym = if th { TILINGS.len() } else { 7 };
    for src in &TILINGS[..nsym] {
        let ds: PartialDSym = src.parse().unwrap();
        let mut nets = tile_networks(&ds);
        if let Some(cov) = pseudo_toroidal_cover(&ds) {
            nets.extend(tile_networks(&cov));
            if let Some(simp) = simplify(&cov) {
                nets.extend(tile_networks(&simp));
            }
        }
        let mut seen: BTreeSet<(Vec<E>, usize, usize)> = BTreeSet::new();
        for (es, s, t) in nets {
            if !seen.insert((es.clone(), s, t)) {
                continue;
            }
            single(&mut ctx, Kind::Vcu, &es, s, t, "skeleton-real");
            single(&mut ctx, Kind::Ecu, &es, s, t, "skeleton-real");
        }
    }
    ctx.finish();
}
