//! C01 — text form of D-symbols: the four `Display` impls and `<PartialDSym as FromStr>`.
use rust_dsymbols::derived::cover;
use rust_dsymbols::dsets::{DSet, PartialDSet, SimpleDSet};
use rust_dsymbols::dsyms::{PartialDSym, SimpleDSym};
use rust_dsymbols::parse_dsym::parse_dsymbol;
use std::panic::{catch_unwind, AssertUnwindSafe};
use verif_harness::dsgen::{all_vs, dsets, random_dset, random_perm1, random_vs, Tab};
use verif_harness::{enc_list, Ctx, Rng};

/// `<sym>` := Tab::enc (size dim op… v…) followed by m(i,i+1,d) for i < dim, d = 1..size
fn sym_out(ds: &PartialDSym) -> String {
    let t = Tab::from_dsym(ds);
    let mut s = t.enc();
    for i in 0..t.dim {
        for d in 1..=t.size {
            s.push(' ');
            s.push_str(&ds.m(i, i + 1, d).unwrap_or(0).to_string());
        }
    }
    s
}

/// `<again>` := result of parsing a printed text
fn again(text: &str) -> String {
    match catch_unwind(AssertUnwindSafe(|| text.parse::<PartialDSym>().map(|ds| sym_out(&ds)))) {
        Ok(Ok(s)) => format!("OK {}", s),
        Ok(Err(_)) => "ERR".to_string(),
        Err(_) => "PANIC".to_string(),
    }
}

fn parse_case(ctx: &mut Ctx, s: &str, class: &str) {
    if !ctx.peek_mine() {
        ctx.skip();
        return;
    }
    // non-trivial: the grammar accepts the string, so FromStr's own logic runs
    // (the implementation is never called outside a catch_unwind: a panic here must not kill the shard)
    let lexes = catch_unwind(AssertUnwindSafe(|| parse_dsymbol(s).is_ok())).unwrap_or(false);
    let tag = format!("{}{} lexes={} len={}", if lexes { "nt " } else { "" }, class, lexes as u8, (s.len() / 16 * 16).min(256));
    ctx.case(
        "parse",
        &tag,
        || enc_list(s.as_bytes()),
        || match s.parse::<PartialDSym>() {
            Err(_) => "ERR".to_string(),
            Ok(ds) => {
                let text = ds.to_string();
                format!("OK {} {} {}", sym_out(&ds), enc_list(text.as_bytes()), again(&text))
            }
        },
    );
}

/// PartialDSym over a SimpleDSet carrying `setc`, branching numbers set orbit by orbit
/// (v = 0 orbits are left untouched: an incomplete symbol whose degrees print as 0)
fn psym_of(t: &Tab, setc: usize) -> PartialDSym {
    let sset = SimpleDSet::from_partial(t.to_partial_dset(), setc);
    let mut ds = PartialDSym::from(sset);
    for i in 0..t.dim {
        for (members, _) in orbits_fast(t, i) {
            let d = members[0];
            if t.v[i][d] != 0 {
                ds.set_v(i, d, t.v[i][d]);
            }
        }
    }
    ds
}

fn print_case(ctx: &mut Ctx, rep: &str, setc: usize, symc: usize, t: &Tab, class: &str) {
    let tag = format!("nt {} rep={} dim={} size={}", class, rep, t.dim, if t.size <= 9 { t.size } else { t.size / 10 * 10 });
    ctx.case(
        "print",
        &tag,
        || format!("{} {} {} {}", rep, setc, symc, t.enc()),
        || {
            let text = match rep {
                "pset" => {
                    let ds: PartialDSet = t.to_partial_dset();
                    ds.to_string()
                }
                "sset" => SimpleDSet::from_partial(t.to_partial_dset(), setc).to_string(),
                "psym" => psym_of(t, setc).to_string(),
                "ssym" => SimpleDSym::from_partial(psym_of(t, setc), symc).to_string(),
                _ => unreachable!(),
            };
            format!("{} {}", enc_list(text.as_bytes()), again(&text))
        },
    );
}

fn vs_complete(t: &Tab) -> bool {
    (0..t.dim).all(|i| (1..=t.size).all(|d| t.v[i][d] != 0))
}

/// one symbol through every Display impl that can hold it
fn print_all(ctx: &mut Ctx, t: &Tab, rng: &mut Rng, with_sets: bool, class: &str) {
    let counters = [1usize, 1, 1, 7, 12, 345, 100000, 255, 256, 65535, 65536, 4294967296];
    let setc = counters[rng.below(counters.len())];
    let symc = counters[rng.below(counters.len())];
    print_case(ctx, "psym", setc, 1, t, class);
    if vs_complete(t) {
        print_case(ctx, "ssym", setc, symc, t, class);
    }
    if with_sets {
        let mut plain = t.clone();
        plain.v = vec![vec![0; t.size + 1]; t.dim];
        print_case(ctx, "pset", 1, 1, &plain, class);
        print_case(ctx, "sset", setc, 1, &plain, class);
    }
}

// ---------------------------------------------------------------------------------
// texts

fn ws(rng: &mut Rng, at_least_one: bool) -> String {
    const W: [&str; 5] = [" ", "\n", "\t", "\r\n", "  "];
    let mut s = String::new();
    if at_least_one {
        s.push_str(if rng.chance(3, 4) { " " } else { W[rng.below(W.len())] });
    }
    while rng.chance(1, 5) {
        s.push_str(W[rng.below(W.len())]);
    }
    s
}

fn num(rng: &mut Rng, x: usize, fancy: bool) -> String {
    if fancy && rng.chance(1, 12) {
        format!("{}{}", "0".repeat(1 + rng.below(22)), x)
    } else {
        x.to_string()
    }
}

/// the token lists Display would print for `t` (needs a complete op table)
fn spec_lists(t: &Tab) -> (Vec<Vec<usize>>, Vec<Vec<usize>>) {
    let mut ops = vec![];
    for i in 0..=t.dim {
        ops.push((1..=t.size).map(|d| t.op[i][d]).zip(1..=t.size).filter(|&(e, d)| e == 0 || e >= d).map(|(e, _)| e).collect());
    }
    let mut ms = vec![];
    for i in 0..t.dim {
        ms.push(t.orbit_reps2(i).into_iter().map(|d| t.r(i, i + 1, d) * t.v[i][d]).collect());
    }
    (ops, ms)
}

/// grammar-derived text of `t` with random white space, leading zeros, optional explicit
/// dimension, optional trailing text
fn grammar_text(t: &Tab, rng: &mut Rng, fancy: bool) -> String {
    let (ops, ms) = spec_lists(t);
    let mut s = String::new();
    let f = fancy;
    let w0 = |rng: &mut Rng| if f { ws(rng, false) } else { String::new() };
    let w1 = |rng: &mut Rng| if f { ws(rng, true) } else { " ".to_string() };
    s += &w0(rng);
    s.push('<');
    s += &w0(rng);
    let c = [1, 1, 23, 4096][rng.below(4)];
    s += &num(rng, c, f);
    s.push('.');
    let c = [1, 1, 7, 123456][rng.below(4)];
    s += &num(rng, c, f);
    s += &w0(rng);
    s.push(':');
    s += &w0(rng);
    s += &num(rng, t.size, f);
    if t.dim != 2 || (f && rng.chance(1, 3)) {
        s += &w1(rng);
        s += &num(rng, t.dim, f);
    }
    for lists in [&ops, &ms] {
        s += &w0(rng);
        s.push(':');
        s += &w0(rng);
        for (k, l) in lists.iter().enumerate() {
            if k > 0 {
                s += &w0(rng);
                s.push(',');
                s += &w0(rng);
            }
            for (j, &x) in l.iter().enumerate() {
                if j > 0 {
                    s += &w1(rng);
                }
                s += &num(rng, x, f);
            }
        }
    }
    s += &w0(rng);
    s.push('>');
    s += &w0(rng);
    if f && rng.chance(1, 10) {
        s += ["x", ">", "<1.1:1:1,1,1:3,3>", "\u{e9}", " 12"][rng.below(5)];
    }
    s
}

fn tokenize(s: &str) -> Vec<String> {
    let mut out: Vec<String> = vec![];
    let mut cur = String::new();
    for c in s.chars() {
        if c.is_ascii_digit() {
            cur.push(c);
        } else {
            if !cur.is_empty() {
                out.push(std::mem::take(&mut cur));
            }
            out.push(c.to_string());
        }
    }
    if !cur.is_empty() {
        out.push(cur);
    }
    out
}

/// one single-token mutation of a valid text
fn mutate(s: &str, size: usize, rng: &mut Rng) -> String {
    let mut toks = tokenize(s);
    let n = toks.len();
    let numeric: Vec<usize> = (0..n).filter(|&k| toks[k].as_bytes()[0].is_ascii_digit()).collect();
    let pick_num = |rng: &mut Rng| numeric[rng.below(numeric.len())];
    match rng.below(16) {
        0 => {
            toks.remove(rng.below(n));
        }
        1 => {
            let k = rng.below(n);
            let t = toks[k].clone();
            toks.insert(k, t);
        }
        2 => {
            let k = pick_num(rng);
            toks[k] = "0".into();
        }
        3 => {
            let k = pick_num(rng);
            toks[k] = (size + 1).to_string();
        }
        4 => {
            let k = pick_num(rng);
            toks[k] = "18446744073709551616".into();
        }
        5 => {
            let k = pick_num(rng);
            toks[k] = "18446744073709551615".into();
        }
        6 => {
            let k = pick_num(rng);
            toks[k] = ["99999999999999999999", "10000000000000000000", "34028236692093846346337460743176821145"][rng.below(3)].into();
        }
        7 => {
            let ks: Vec<usize> = (0..n).filter(|&k| toks[k] == "," || toks[k] == ":").collect();
            let k = ks[rng.below(ks.len())];
            toks[k] = if toks[k] == "," { ":".into() } else { ",".into() };
        }
        8 => {
            toks.retain(|t| t != ">");
        }
        9 => {
            let k = pick_num(rng);
            let x: usize = toks[k].parse().unwrap();
            toks[k] = (x + 1).to_string();
        }
        10 => {
            let k = pick_num(rng);
            let x: usize = toks[k].parse().unwrap();
            toks[k] = x.saturating_sub(1).to_string();
        }
        11 => {
            // another chamber of the symbol in place of a number
            let k = pick_num(rng);
            toks[k] = (1 + rng.below(size)).to_string();
        }
        12 => {
            let k = rng.below(n);
            toks[k] = [" ", "\n", ".", "<", ">", "-", "+", "\u{a0}", ""][rng.below(9)].into();
        }
        13 => {
            let k = rng.below(n + 1);
            toks.insert(k, [" ", ",", ":", "1", "0", " 1", "\t", ">"][rng.below(8)].into());
        }
        14 => {
            // swap two numbers
            let (a, b) = (pick_num(rng), pick_num(rng));
            toks.swap(a, b);
        }
        _ => {
            // a size far beyond the data (bounded, so that even an unrepaired parser stops quickly)
            let k = pick_num(rng);
            toks[k] = [1000usize, 65536, 1 << 20][rng.below(3)].to_string();
        }
    }
    toks.concat()
}

fn soup(rng: &mut Rng) -> String {
    const A: [&str; 22] = ["<", ">", ":", ":", ",", ",", ".", " ", " ", "\n", "1", "1", "2", "3", "0", "12", "4", "\t", "-", "+", "18446744073709551616", "\u{e9}"];
    let mut s = String::new();
    if rng.chance(2, 3) {
        // keep a plausible head so that the later productions are reached
        s += ["<1.1:", "<1.1:2:", "<1.1:1 1:", "< 2.3 : 3 : ", "<1.1:2 3:"][rng.below(5)];
    }
    for _ in 0..(1 + rng.below(24)) {
        s += A[rng.below(A.len())];
    }
    if rng.chance(1, 2) {
        s.push('>');
    }
    s
}


// ---------------------------------------------------------------------------------
// non-ASCII text: multi-byte UTF-8 anywhere in the input (nom's multispace / digit1 are ASCII
// only, so every such character is an ordinary "other" character for the grammar)

const WIDE: [&str; 12] = [
    "\u{e9}",     // é, 2 bytes
    "\u{a0}",     // no-break space, 2 bytes
    "\u{301}",    // combining acute, 2 bytes
    "\u{663}",    // arabic-indic digit three, 2 bytes
    "\u{20ac}",   // €, 3 bytes
    "\u{2003}",   // em space, 3 bytes
    "\u{ff11}",   // fullwidth digit one, 3 bytes
    "\u{2028}",   // line separator, 3 bytes
    "\u{1d538}",  // 𝔸, 4 bytes
    "\u{1f600}",  // emoji, 4 bytes
    "\u{1d7d9}",  // mathematical double-struck digit one, 4 bytes
    "\u{10ffff}", // last scalar value, 4 bytes
];

/// insert 1..=3 wide characters at random character positions (token boundaries and inside tokens)
fn sprinkle(s: &str, rng: &mut Rng) -> String {
    let mut chars: Vec<String> = s.chars().map(|c| c.to_string()).collect();
    for _ in 0..(1 + rng.below(3)) {
        let k = rng.below(chars.len() + 1);
        chars.insert(k, WIDE[rng.below(WIDE.len())].to_string());
    }
    chars.concat()
}

fn wide_soup(rng: &mut Rng) -> String {
    const A: [&str; 20] = ["<", ">", ":", ":", ",", ",", ".", " ", "\n", "1", "2", "3", "0", "12", "\u{e9}", "\u{20ac}", "\u{1d538}", "\u{a0}", "\u{2003}", "\u{301}"];
    let mut s = String::new();
    if rng.chance(2, 3) {
        s += ["<1.1:", "<1.1:2:", "<1.1:1 1:", "< 2.3 : 3 : ", "<1.1:2 3:"][rng.below(5)];
    }
    for _ in 0..(1 + rng.below(24)) {
        s += A[rng.below(A.len())];
    }
    if rng.chance(1, 2) {
        s.push('>');
    }
    s
}

fn utf8_streams(ctx: &mut Ctx, rng: &mut Rng, pool: &[Tab], n_random: usize) {
    // (a) valid texts and single-token mutations with wide characters sprinkled in
    for k in 0..n_random {
        let src = &pool[rng.below(pool.len())];
        let base = grammar_text(src, rng, k % 3 == 0);
        let t = if k % 2 == 0 { base } else { mutate(&base, src.size, rng) };
        let s = sprinkle(&t, rng);
        parse_case(ctx, &s, if k % 2 == 0 { "utf8-valid" } else { "utf8-mutated" });
    }
    // (b) every byte offset 0..=40(+) of the unparsed remainder straddled by a 2-, 3- and 4-byte
    //     character, for each place where the grammar can stop
    let stops = [
        "",                      // before '<'
        "<",                     // after '<'
        "<1.1",                  // after the counts
        "<1.1:2",                // after the size
        "<1.1:2 2",              // after the dimension
        "<1.1:2:2,2",            // inside the op lists
        "<1.1:2:2,2,2:3",        // inside the degree lists
        "<1.1:2:2,2,2:3,3",      // before '>'
        "<1.1:2:2,2,2:3,3>",     // after '>' (trailing text is ignored)
        "<1.1:1:1,1,1:3,4x",     // an error further left, then padding
        "<1.1:2:2,2,2:3,3> <1.1:1:1,1,1:3,4",
    ];
    for stop in stops {
        for w in ["\u{e9}", "\u{20ac}", "\u{1d538}"] {
            let run = w.repeat(48 / w.len() + 3);
            for k in 0..=40usize {
                for pad in ['x', ' '] {
                    let s = format!("{}{}{}", stop, pad.to_string().repeat(k), run);
                    parse_case(ctx, &s, "utf8-offset");
                }
                if k % 8 == 0 {
                    // the run in the middle, the text going on after it
                    let s = format!("{}{}{}{}", stop, "0".repeat(k), run, ":2,2,2:3,3>");
                    parse_case(ctx, &s, "utf8-offset");
                }
            }
        }
    }
    // (c) soups over an alphabet with wide characters, and strings of wide characters only
    for _ in 0..n_random {
        let s = wide_soup(rng);
        parse_case(ctx, &s, "utf8-soup");
    }
    for w in WIDE {
        for len in 1..=30usize {
            parse_case(ctx, &w.repeat(len), "utf8-only");
        }
    }
    for len in 1..=30usize {
        let s: String = (0..len).map(|_| WIDE[rng.below(WIDE.len())]).collect();
        parse_case(ctx, &s, "utf8-only");
    }
}

// ---------------------------------------------------------------------------------
// large symbols (sizes straddling representation boundaries), built with the harness's own
// table code; every helper below is linear in the size

/// the (i,i+1)-orbits of a complete table: (members ascending-first, orbit length r)
fn orbits_fast(t: &Tab, i: usize) -> Vec<(Vec<usize>, usize)> {
    let mut seen = vec![false; t.size + 1];
    let mut out = vec![];
    for d in 1..=t.size {
        if seen[d] {
            continue;
        }
        let mut members = vec![d];
        seen[d] = true;
        let mut k = 0;
        while k < members.len() {
            let e = members[k];
            k += 1;
            for j in [i, i + 1] {
                let f = t.op[j][e];
                if !seen[f] {
                    seen[f] = true;
                    members.push(f);
                }
            }
        }
        let mut r = 0;
        let mut e = d;
        loop {
            e = t.op[i + 1][t.op[i][e]];
            r += 1;
            if e == d {
                break;
            }
        }
        out.push((members, r));
    }
    out
}

fn assign_vs_fast(t: &mut Tab, rng: &mut Rng, vals: &[usize]) {
    for i in 0..t.dim {
        for (members, _) in orbits_fast(t, i) {
            let v = vals[rng.below(vals.len())];
            for e in members {
                t.v[i][e] = v;
            }
        }
    }
}

/// what Display prints for a complete table, computed in linear time
fn spec_lists_fast(t: &Tab) -> (Vec<Vec<usize>>, Vec<Vec<usize>>) {
    let mut ops = vec![];
    for i in 0..=t.dim {
        ops.push((1..=t.size).filter(|&d| t.op[i][d] >= d).map(|d| t.op[i][d]).collect());
    }
    let mut ms = vec![];
    for i in 0..t.dim {
        ms.push(orbits_fast(t, i).into_iter().map(|(mem, r)| r * t.v[i][mem[0]]).collect());
    }
    (ops, ms)
}

/// one chain under s0, s1 (a single long 2-orbit); further operations: identity, or for the last
/// index of dim 3 the chain's mirror d ↦ n+1-d when that commutes (it always does with the identity)
fn chain_tab(n: usize, dim: usize) -> Tab {
    let mut op = vec![vec![0usize; n + 1]; dim + 1];
    for d in 1..=n {
        op[0][d] = if d % 2 == 1 && d < n { d + 1 } else if d % 2 == 0 { d - 1 } else { d };
        op[1][d] = if d % 2 == 0 && d < n { d + 1 } else if d % 2 == 1 && d > 1 { d - 1 } else { d };
        for i in 2..=dim {
            op[i][d] = d;
        }
    }
    if dim == 1 {
        // dim 1 has only s0, s1
    }
    Tab { size: n, dim, op, v: vec![vec![0; n + 1]; dim] }
}

/// consecutive blocks of 1..=6 chambers, each a random tuple of involutions (short orbits)
fn blocks_tab(n: usize, dim: usize, rng: &mut Rng) -> Tab {
    let mut op = vec![vec![0usize; n + 1]; dim + 1];
    let mut start = 1;
    while start <= n {
        let b = (1 + rng.below(6)).min(n + 1 - start);
        for i in 0..=dim {
            let p = rng.permutation(b);
            let mut k = 0;
            while k < b {
                let x = start + p[k];
                if k + 1 < b && rng.chance(3, 4) {
                    let y = start + p[k + 1];
                    op[i][x] = y;
                    op[i][y] = x;
                    k += 2;
                } else {
                    op[i][x] = x;
                    k += 1;
                }
            }
        }
        start += b;
    }
    Tab { size: n, dim, op, v: vec![vec![0; n + 1]; dim] }
}

fn text_from_lists(size: usize, dim: usize, ops: &[Vec<usize>], ms: &[Vec<usize>], rng: &mut Rng, fancy: bool) -> String {
    let mut s = String::with_capacity(16 * size);
    let w0 = |rng: &mut Rng| if fancy && rng.chance(1, 40) { ws(rng, false) } else { String::new() };
    let w1 = |rng: &mut Rng| if fancy && rng.chance(1, 40) { ws(rng, true) } else { " ".to_string() };
    s.push('<');
    s += "1.1:";
    s += &size.to_string();
    if dim != 2 || fancy {
        s.push(' ');
        s += &dim.to_string();
    }
    for lists in [ops, ms] {
        s += &w0(rng);
        s.push(':');
        s += &w0(rng);
        for (k, l) in lists.iter().enumerate() {
            if k > 0 {
                s += &w0(rng);
                s.push(',');
                s += &w0(rng);
            }
            for (j, &x) in l.iter().enumerate() {
                if j > 0 {
                    s += &w1(rng);
                }
                s += &x.to_string();
            }
        }
    }
    s.push('>');
    s
}

fn size_tag(n: usize) -> String {
    format!("bigsize={}", n)
}

/// symbols with at least BIG chambers go through the Spec-only ops (their text is not shipped)
const BIG: usize = 10_000;

fn print_any(ctx: &mut Ctx, rep: &str, setc: usize, symc: usize, t: &Tab, class: &str) {
    if t.size < BIG {
        print_case(ctx, rep, setc, symc, t, class);
        return;
    }
    let tag = format!("nt {} rep={} dim={} {}", class, rep, t.dim, size_tag(t.size));
    ctx.case(
        "bigprint",
        &tag,
        || format!("{} {} {} {}", rep, setc, symc, t.enc()),
        || {
            let text = match rep {
                "pset" => t.to_partial_dset().to_string(),
                "sset" => SimpleDSet::from_partial(t.to_partial_dset(), setc).to_string(),
                "psym" => psym_of(t, setc).to_string(),
                "ssym" => SimpleDSym::from_partial(psym_of(t, setc), symc).to_string(),
                _ => unreachable!(),
            };
            format!("{} {}", text.len(), again(&text))
        },
    );
}

/// parse → print → parse on a text the harness wrote itself from its own table
fn bigparse_case(ctx: &mut Ctx, t: &Tab, layout: usize, seed: u64, class: &str) {
    let tag = format!("nt {} dim={} {} layout={}", class, t.dim, size_tag(t.size), layout);
    ctx.case(
        "bigparse",
        &tag,
        || format!("{} {}", layout, t.enc()),
        || {
            let (ops, ms) = spec_lists_fast(t);
            let mut r = Rng::new(seed);
            let text = text_from_lists(t.size, t.dim, &ops, &ms, &mut r, layout != 0);
            match text.parse::<PartialDSym>() {
                Err(_) => format!("{} ERR", text.len()),
                Ok(ds) => {
                    let text2 = ds.to_string();
                    format!("{} OK {} {}", text.len(), sym_out(&ds), again(&text2))
                }
            }
        },
    );
}

/// ≥ 2^20 chambers: both directions, the tables compared by the harness's own `Tab ==`
fn bigdigest_case(ctx: &mut Ctx, what: &str, n: usize, dim: usize, seed: u64) {
    let tag = format!("nt digest dim={} {}", dim, size_tag(n));
    ctx.case(
        "bigdigest",
        &tag,
        || format!("{} {} {}", what, n, dim),
        || {
            let mut r = Rng::new(seed);
            let mut t = if what == "chain" { chain_tab(n, dim) } else { blocks_tab(n, dim, &mut r) };
            assign_vs_fast(&mut t, &mut r, &[1, 2, 3]);
            let b = |x: bool| if x { 1 } else { 0 };
            let text = psym_of(&t, 1).to_string();
            let tabs = |ds: &PartialDSym| -> (Tab, Vec<usize>) {
                let tt = Tab::from_dsym(ds);
                let mut m = vec![];
                for i in 0..tt.dim {
                    for d in 1..=tt.size {
                        m.push(ds.m(i, i + 1, d).unwrap_or(0));
                    }
                }
                (tt, m)
            };
            match text.parse::<PartialDSym>() {
                Err(_) => format!("{} 0 0 0 0 0", text.len()),
                Ok(ds) => {
                    let (t1, m1) = tabs(&ds);
                    let invol = (0..=t1.dim).all(|i| (1..=t1.size).all(|d| {
                        let e = t1.op[i][d];
                        e >= 1 && e <= t1.size && t1.op[i][e] == d
                    }));
                    let equal = t1 == t;
                    let text2 = ds.to_string();
                    match text2.parse::<PartialDSym>() {
                        Err(_) => format!("{} 1 {} {} 0 0", text.len(), b(equal), b(invol)),
                        Ok(ds2) => {
                            let (t2, m2) = tabs(&ds2);
                            format!("{} 1 {} {} 1 {}", text.len(), b(equal), b(invol), b(t2 == t1 && m2 == m1))
                        }
                    }
                }
            }
        },
    );
}

fn large_streams(ctx: &mut Ctx, th: bool) {
    use std::cell::OnceCell;
    let sizes: &[usize] = &[255, 256, 257, 4095, 4096, 65535, 65536, 65537, 100001];
    for (k, &n) in sizes.iter().enumerate() {
        for dim in 1..=3usize {
            // a long chain and a renumbered block symbol per (size, dim); built lazily (only by the
            // shard that owns one of the cases) from a generator stream of their own
            let seed = ctx.seed.wrapping_mul(7919).wrapping_add((n * 4 + dim) as u64);
            let chain_c: OnceCell<Tab> = OnceCell::new();
            let blocks_c: OnceCell<Tab> = OnceCell::new();
            let chain = || {
                chain_c.get_or_init(|| {
                    let mut r = Rng::new(seed);
                    let mut t = chain_tab(n, dim);
                    assign_vs_fast(&mut t, &mut r, &[1, 2, 3]);
                    t
                })
            };
            let blocks = || {
                blocks_c.get_or_init(|| {
                    let mut r = Rng::new(seed ^ 0x5555);
                    let mut t = blocks_tab(n, dim, &mut r);
                    assign_vs_fast(&mut t, &mut r, &[1, 2, 3, 4, 6]);
                    let p = random_perm1(&mut r, n);
                    t.renumbered(&p)
                })
            };
            let plain = || {
                let mut t = blocks().clone();
                t.v = vec![vec![0; n + 1]; dim];
                t
            };
            let heavy = n >= BIG;
            // every call below emits exactly one case
            macro_rules! mine {
                ($body:expr) => {
                    if ctx.peek_mine() {
                        $body
                    } else {
                        ctx.skip()
                    }
                };
            }
            // print → parse → equal
            mine!(print_any(ctx, "psym", 1, 1, chain(), "large-chain"));
            mine!(print_any(ctx, if (k + dim) % 2 == 0 { "ssym" } else { "psym" }, 65536, 257, blocks(), "large-blocks"));
            if !heavy || dim == 2 {
                mine!(print_any(ctx, "sset", 4096, 1, &plain(), "large-blocks"));
                mine!(print_any(ctx, "pset", 1, 1, &plain(), "large-blocks"));
                mine!(print_any(ctx, "ssym", 255, 65535, chain(), "large-chain"));
            }
            // parse → print → parse, on texts written by the harness
            if heavy {
                mine!(bigparse_case(ctx, if dim == 2 { blocks() } else { chain() }, (k + dim) % 2, seed, "large"));
            } else {
                for which in 0..2 {
                    mine!({
                        let t = if which == 0 { chain() } else { blocks() };
                        let (ops, ms) = spec_lists_fast(t);
                        let mut r = Rng::new(seed ^ 0xabcd);
                        let text = text_from_lists(t.size, t.dim, &ops, &ms, &mut r, which == 1);
                        parse_case(ctx, &text, "large")
                    });
                }
            }
        }
    }
    if th {
        // 2^20 + 1 chambers (text ≈ 20 MB) and one symbol of 2^24 + 1 chambers (text ≈ 190 MB,
        // a few GB of tables in the one shard that owns the case): verdict bits only
        bigdigest_case(ctx, "chain", (1 << 20) + 1, 2, 11);
        bigdigest_case(ctx, "blocks", (1 << 20) + 1, 3, 12);
        bigdigest_case(ctx, "blocks", (1 << 20) + 1, 1, 13);
        bigdigest_case(ctx, "chain", (1 << 24) + 1, 1, 14);
    }
}

/// boundary numerals in every numeric field of small valid texts
fn boundary_numerals(ctx: &mut Ctx, pool: &[Tab], rng: &mut Rng) {
    const B: [&str; 22] = [
        "255", "256", "257", "4095", "4096", "32767", "32768", "65535", "65536", "65537", "100001",
        "1048577", "16777217", "2147483647", "2147483648", "4294967295", "4294967296", "4294967297",
        "9223372036854775807", "9223372036854775808", "18446744073709551615", "18446744073709551616",
    ];
    let mut bases: Vec<String> = vec![
        "<1.1:1:1,1,1:3,4>".into(),
        "<1.1:2 3:2,1 2,1 2,2:6,3 2,6>".into(),
        "<1.1:2 1:2,1 2:4>".into(),
        "<1.1:6:4 6 5,5 4 6,4 6 5:3,6>".into(),
    ];
    for _ in 0..4 {
        bases.push(grammar_text(&pool[rng.below(pool.len())], rng, false));
    }
    for base in &bases {
        let toks = tokenize(base);
        for k in 0..toks.len() {
            if !toks[k].as_bytes()[0].is_ascii_digit() {
                continue;
            }
            for b in B {
                let mut t = toks.clone();
                t[k] = b.to_string();
                parse_case(ctx, &t.concat(), "boundary");
            }
        }
    }
    // degrees at the boundaries that are legal (every orbit of the one-chamber symbol has length 1),
    // so the value survives parsing and is printed again
    for b in B {
        parse_case(ctx, &format!("<1.1:1:1,1,1:{},{}>", b, b), "boundary");
        parse_case(ctx, &format!("<{}.{}:1 1:1,1:{}>", b, b, b), "boundary");
    }
}

fn main() {
    let mut ctx = Ctx::from_args();
    let th = ctx.thorough();
    let mut rng = ctx.rng(1);

    // ---- regression block: defect D1 (must stay the first cases)
    for s in [
        "<1.1:1:1,1,0:3,0>",                       // image 0
        "<1.1:1:2,1,1:3,3>",                       // image out of range
        "<1.1:3:2 2 3,1 2 3,1 2 3:3,3>",           // inconsistent pairing
        "<1.1:2:2,2,2:0 0,3>",                     // degree 0 consumed twice; printed form lost an entry
        "<1.1:100000000000000:1,1,1:3,3>",         // allocation of 3e14 words
        "<1.1:1 18446744073709551615:1,1:3>",      // dim + 1 overflows
        "<1.1:2:2,2,2:0,3>",
        "<1.1:18446744073709551615:1,1,1:3,3>",    // size * (dim + 1) overflows
        "<1.1:6148914691236517206:1,1,1:3,3>",     // capacity overflow without arithmetic overflow
        "<1.1:3:1 2 3,1 2 3,1 2:3,3>",
        "<1.1:3:2 3,1 2 3,1 2 3:4 4,3 3 3>",
    ] {
        parse_case(&mut ctx, s, "regress");
    }
    // D1, Display side: a plain D-set / an incomplete symbol whose (0,1)-orbit has two chambers
    // prints one degree 0 for it; the pinned parser wanted two
    {
        let t = Tab { size: 2, dim: 1, op: vec![vec![0, 2, 1], vec![0, 1, 2]], v: vec![vec![0, 0, 0]] };
        print_case(&mut ctx, "pset", 1, 1, &t, "regress");
        print_case(&mut ctx, "sset", 1, 1, &t, "regress");
        print_case(&mut ctx, "psym", 1, 1, &t, "regress");
        // an incomplete D-set prints 0 images: re-parsing used to panic
        let t = Tab { size: 1, dim: 1, op: vec![vec![0, 0], vec![0, 1]], v: vec![vec![0, 0]] };
        print_case(&mut ctx, "pset", 1, 1, &t, "regress");
    }
    // the library's own literals
    for s in [
        "<1.1:1:1,1,1:3,4>",
        "<10.8:2 3:1 2,1 2,1 2,2:3 3,3 4,4>",
        " < 10.8: 2 3:1 2 , 1 2,  1 2  ,2 :3 3 , 3   4,4 >  ",
        "<10.8:2 3:\n            1 2,1 2,1 2,2\n            :3 3,3 4,4>",
        "",
        "<>",
        "1.1:1:1,1,1:3,4",
        "<<1.1:1:1,1,1:3,4>>",
        "<1. 1:1:1,1,1:3,4>",
        "<1.1:1:1,1,1:3,4:>",
        "<1.1::1,1,1:3,4>",
        "<1.1:1:1,,1:3,4>",
        "<1.1:2 3:2,1 2,1 2,2:6,3 2,6>",
        "<1.1:8:2 4 6 8,8 3 5 7,1 2 3 4 5 6 7 8:4,4 6 8 4>",
        "<1.1:6:4 6 5,5 4 6,4 6 5:3,6>",
        "<1.1:1:1,1,1:3,4>>",
        "<1.1:2 1:2,2:2>",
        "<1.1:1 1:1,1:0>",
    ] {
        parse_case(&mut ctx, s, "literal");
    }

    // ---- (1) symbol universes through all four Display impls
    let mut pool: Vec<Tab> = vec![]; // symbols kept for the text generators
    let bounds: &[(usize, usize)] = if th { &[(1, 6), (2, 6), (3, 5)] } else { &[(1, 4), (2, 4), (3, 4)] };
    for &(dim, nmax) in bounds {
        for n in 1..=nmax {
            let sets = dsets(dim, n, true, false, false);
            let thin = if sets.len() > 60_000 { 4 } else { 1 };
            for t in &sets {
                if thin > 1 && !rng.chance(1, thin) {
                    continue;
                }
                let class = "universe";
                let syms = if n <= 3 && dim <= 2 {
                    all_vs(t, if n <= 2 { &[0, 1, 2, 3] } else { &[0, 1, 3] })
                } else {
                    vec![random_vs(t, &mut rng, &[1, 2, 3, 4, 6, 10, 12]), random_vs(t, &mut rng, &[0, 1, 2, 3])]
                };
                for (k, s) in syms.iter().enumerate() {
                    print_all(&mut ctx, s, &mut rng, k == 0, class);
                }
                if pool.len() < 4000 || rng.chance(1, 4) {
                    pool.push(syms[rng.below(syms.len())].clone());
                }
            }
        }
    }
    // tuples of involutions whose far operations do not commute: the text form does not care
    let bounds: &[(usize, usize)] = if th { &[(2, 4), (3, 3)] } else { &[(2, 3), (3, 3)] };
    for &(dim, nmax) in bounds {
        for n in 2..=nmax {
            for t in dsets(dim, n, false, false, false) {
                if t.far_commute() || !rng.chance(1, if dim == 3 { 8 } else { 1 }) {
                    continue;
                }
                let s = random_vs(&t, &mut rng, &[0, 1, 2, 3, 5]);
                print_all(&mut ctx, &s, &mut rng, true, "noncommuting");
            }
        }
    }
    // incomplete D-sets (PartialDSet only): printed with 0 images; re-parsing must not panic
    let bounds: &[(usize, usize)] = if th { &[(1, 4), (2, 3), (3, 3)] } else { &[(1, 3), (2, 3), (3, 2)] };
    for &(dim, nmax) in bounds {
        for n in 1..=nmax {
            for t in dsets(dim, n, false, false, true) {
                if t.is_complete_set() || !rng.chance(1, if dim == 3 { 6 } else { 2 }) {
                    continue;
                }
                print_case(&mut ctx, "pset", 1, 1, &t, "partial");
            }
        }
    }

    // ---- (2) multi-digit sizes: random symbols, covers (disjoint or 2-fold twisted sheets), renumberings
    let nbig = if th { 600 } else { 60 };
    let mut big: Vec<Tab> = vec![];
    for k in 0..nbig {
        let dim = 1 + k % 3;
        let n = 3 + rng.below(if dim == 3 { 6 } else { 12 });
        let Some(t) = random_dset(&mut rng, dim, n, false) else { continue };
        let base = random_vs(&t, &mut rng, &[1, 2, 3, 4, 6, 11, 24]);
        let sheets = [2usize, 3, 8, 13, 32][rng.below(5)].min(400 / n);
        let twist = sheets % 2 == 0 && rng.chance(1, 2);
        // universe construction uses library constructors: guarded, and reported if it panics
        let built = catch_unwind(AssertUnwindSafe(|| {
            let c = cover(&base.to_partial_dsym(), sheets, |sh, i, _| if twist && i == 0 { sh ^ 1 } else { sh });
            Tab::from_dsym(&c)
        }));
        let Ok(ct) = built else {
            ctx.case("setup", "nt", || format!("cover {} {}", sheets, base.enc()), || "PANIC".to_string());
            continue;
        };
        let p = random_perm1(&mut rng, ct.size);
        let r = ct.renumbered(&p);
        print_all(&mut ctx, &ct, &mut rng, k % 4 == 0, "cover");
        print_all(&mut ctx, &r, &mut rng, true, "renumbered");
        let p = random_perm1(&mut rng, base.size);
        print_all(&mut ctx, &base.renumbered(&p), &mut rng, true, "random");
        big.push(r);
        pool.push(base);
    }

    // ---- (2b) large symbols and boundary numerals
    large_streams(&mut ctx, th);
    boundary_numerals(&mut ctx, &pool, &mut rng);

    // ---- (3) strings
    let nstr = if th { 500_000 } else { 20_000 };
    // (a) valid texts with free layout
    for k in 0..nstr * 3 / 10 {
        let src = if k % 50 == 0 && !big.is_empty() { &big[rng.below(big.len())] } else { &pool[rng.below(pool.len())] };
        let s = grammar_text(src, &mut rng, k % 7 != 0);
        parse_case(&mut ctx, &s, "valid");
    }
    // (b) single-token mutations of valid texts
    for k in 0..nstr * 5 / 10 {
        let src = if k % 100 == 0 && !big.is_empty() { &big[rng.below(big.len())] } else { &pool[rng.below(pool.len())] };
        let base = grammar_text(src, &mut rng, k % 3 == 0);
        let s = mutate(&base, src.size, &mut rng);
        parse_case(&mut ctx, &s, "mutated");
    }
    // (c) token soups
    for _ in 0..nstr * 2 / 10 {
        let s = soup(&mut rng);
        parse_case(&mut ctx, &s, "soup");
    }
    // (d) non-ASCII text
    utf8_streams(&mut ctx, &mut rng, &pool, nstr / 5);
    ctx.finish();
}
