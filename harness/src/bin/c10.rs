//! C10 — free words: drives the real `FreeWord` API.
use rust_dsymbols::fpgroups::free_words::{relator_permutations, relator_representative, FreeWord};
use verif_harness::gen::{words_upto};
use verif_harness::{enc_list, enc_lists, Ctx, Rng};

fn letters(w: &FreeWord) -> Vec<isize> {
    w.iter().cloned().collect()
}
fn ew(w: &FreeWord) -> String {
    enc_list(&letters(w))
}
fn fw(raw: &[isize]) -> FreeWord {
    FreeWord::new(raw.iter().cloned())
}
fn sgn(o: std::cmp::Ordering) -> i32 {
    match o {
        std::cmp::Ordering::Less => -1,
        std::cmp::Ordering::Equal => 0,
        std::cmp::Ordering::Greater => 1,
    }
}
fn nt(raw: &[isize]) -> &'static str {
    // non-trivial: the raw word is not already reduced (cancellation or zero letters happen)
    let red = raw.windows(2).all(|p| p[0] != -p[1]) && raw.iter().all(|&x| x != 0);
    if red { "" } else { "nt" }
}

fn unary(ctx: &mut Ctx, a: &[isize], rots: &[isize], pows: &[isize], g: isize) {
    let t = nt(a);
    let tag = format!("{} len={}", t, a.len().min(9));
    ctx.case("new", &tag, || enc_list(a), || ew(&fw(a)));
    ctx.case("inverse", &tag, || enc_list(a), || ew(&fw(a).inverse()));
    for &m in pows {
        ctx.case("pow", &tag, || format!("{} {}", enc_list(a), m), || ew(&fw(a).raised_to(m)));
    }
    for &i in rots {
        ctx.case("rot", &tag, || format!("{} {}", enc_list(a), i), || ew(&fw(a).rotated(i)));
    }
    for x in -g..=g {
        ctx.case("mulletter_r", &tag, || format!("{} {}", enc_list(a), x), || ew(&(&fw(a) * x)));
        ctx.case("mulletter_v", &tag, || format!("{} {}", enc_list(a), x), || ew(&(fw(a) * x)));
    }
    ctx.case("relperms", &tag, || enc_list(a), || {
        let s = relator_permutations(&fw(a));
        enc_lists(&s.iter().map(letters).collect::<Vec<_>>())
    });
    ctx.case("relrep", &tag, || enc_list(a), || ew(&relator_representative(&fw(a))));
    ctx.case("relrep_orbit", &tag, || enc_list(a), || {
        let w = fw(a);
        let mut reps = vec![];
        if w.len() == 0 {
            reps.push(letters(&relator_representative(&w)));
        } else {
            for k in 0..w.len() {
                let r = w.rotated(k as isize);
                reps.push(letters(&relator_representative(&r)));
                reps.push(letters(&relator_representative(&r.inverse())));
            }
        }
        enc_lists(&reps)
    });
}

/// `impl Index<usize> for FreeWord`: `w[k]` for the given positions of the reduced word;
/// `k = len` is out of range and must panic.
fn index(ctx: &mut Ctx, a: &[isize], ks: &[usize]) {
    let t = nt(a);
    for &k in ks {
        let tag = format!("{} len={}", t, a.len().min(9));
        ctx.case("index", &tag, || format!("{} {}", enc_list(a), k), || {
            let w = fw(a);
            format!("{}", w[k])
        });
    }
}

fn binary(ctx: &mut Ctx, a: &[isize], b: &[isize]) {
    let t = if nt(a) == "nt" || nt(b) == "nt" || (!a.is_empty() && !b.is_empty() && a[a.len() - 1] == -b[0]) { "nt" } else { "" };
    let tag = format!("{} len={}", t, (a.len() + b.len()).min(9));
    let inp = || format!("{} {}", enc_list(a), enc_list(b));
    ctx.case("mul_rr", &tag, inp, || ew(&(&fw(a) * &fw(b))));
    ctx.case("mul_rv", &tag, inp, || ew(&(&fw(a) * fw(b))));
    ctx.case("mul_vr", &tag, inp, || ew(&(fw(a) * &fw(b))));
    ctx.case("mul_vv", &tag, inp, || ew(&(fw(a) * fw(b))));
    ctx.case("mulassign", &tag, inp, || {
        let mut x = fw(a);
        x *= &fw(b);
        ew(&x)
    });
    ctx.case("comm", &tag, inp, || ew(&fw(a).commutator(&fw(b))));
}

fn cmp3(ctx: &mut Ctx, a: &[isize], b: &[isize], c: &[isize]) {
    ctx.case(
        "cmp3",
        "nt",
        || format!("{} {} {}", enc_list(a), enc_list(b), enc_list(c)),
        || {
            let (x, y, z) = (fw(a), fw(b), fw(c));
            format!(
                "{} {} {} {} {}",
                sgn(x.cmp(&y)),
                sgn(y.cmp(&x)),
                sgn(y.cmp(&z)),
                sgn(x.cmp(&z)),
                if x == y { 1 } else { 0 }
            )
        },
    );
}

fn random_word(rng: &mut Rng, g: isize, maxlen: usize) -> Vec<isize> {
    let len = rng.below(maxlen + 1);
    let mut w = Vec::with_capacity(len);
    for _ in 0..len {
        // bias towards cancellation: sometimes append the inverse of the last letter,
        // sometimes a zero letter
        let r = rng.below(10);
        if r == 0 && !w.is_empty() {
            let l: isize = w[w.len() - 1];
            w.push(-l);
        } else if r == 1 {
            w.push(0);
        } else {
            let x = rng.range(1, g as i64) as isize;
            w.push(if rng.chance(1, 2) { x } else { -x });
        }
    }
    w
}

/// A random stack program over the word operations; returns (encoding, closure result).
fn program(ctx: &mut Ctx, rng: &mut Rng, len: usize) {
    #[derive(Clone)]
    enum I {
        P(Vec<isize>),
        M,
        A,
        Inv,
        W(isize),
        C,
        R(isize),
        L(isize),
    }
    let mut prog: Vec<I> = vec![];
    let mut depth = 0usize;
    let mut has_rot = false;
    while prog.len() < len || depth != 1 {
        let want_shrink = prog.len() >= len;
        let k = rng.below(10);
        if depth == 0 || (!want_shrink && k < 3 && depth < 4) {
            prog.push(I::P(random_word(rng, 3, 6)));
            depth += 1;
        } else if depth >= 2 && (want_shrink || k < 6) {
            prog.push(match rng.below(3) {
                0 => I::M,
                1 => I::A,
                _ => I::C,
            });
            depth -= 1;
        } else {
            prog.push(match rng.below(4) {
                0 => I::Inv,
                1 => I::W(rng.range(-3, 3) as isize),
                2 => {
                    has_rot = true;
                    I::R(rng.range(-9, 9) as isize)
                }
                _ => I::L(rng.range(-3, 3) as isize),
            });
        }
    }
    let enc = {
        let mut s = prog.len().to_string();
        for i in &prog {
            s.push(' ');
            match i {
                I::P(w) => s.push_str(&format!("P {}", enc_list(w))),
                I::M => s.push('M'),
                I::A => s.push('A'),
                I::Inv => s.push('I'),
                I::W(m) => s.push_str(&format!("W {m}")),
                I::C => s.push('C'),
                I::R(i) => s.push_str(&format!("R {i}")),
                I::L(x) => s.push_str(&format!("L {x}")),
            }
        }
        s
    };
    let tag = if has_rot { "nt prog-rot" } else { "nt prog-group" };
    ctx.case("prog", tag, || enc, || {
        let mut st: Vec<FreeWord> = vec![];
        for i in &prog {
            match i {
                I::P(w) => st.push(fw(w)),
                I::M => {
                    let b = st.pop().unwrap();
                    let a = st.pop().unwrap();
                    st.push(a * b);
                }
                I::A => {
                    let b = st.pop().unwrap();
                    let mut a = st.pop().unwrap();
                    a *= &b;
                    st.push(a);
                }
                I::C => {
                    let b = st.pop().unwrap();
                    let a = st.pop().unwrap();
                    st.push(a.commutator(&b));
                }
                I::Inv => {
                    let a = st.pop().unwrap();
                    st.push(a.inverse());
                }
                I::W(m) => {
                    let a = st.pop().unwrap();
                    st.push(a.raised_to(*m));
                }
                I::R(k) => {
                    let a = st.pop().unwrap();
                    st.push(a.rotated(*k));
                }
                I::L(x) => {
                    let a = st.pop().unwrap();
                    st.push(a * *x);
                }
            }
        }
        ew(&st.pop().unwrap())
    });
}

fn main() {
    let mut ctx = Ctx::from_args();
    let th = ctx.thorough();
    let pows: Vec<isize> = vec![-3, -2, -1, 0, 1, 2, 3];

    // (1) exhaustive: all raw words over 3 generators (zero letter included)
    let maxlen = if th { 6 } else { 4 };
    for a in words_upto(3, maxlen, true) {
        let n = a.len() as isize;
        let mut rots: Vec<isize> = (-2 * n - 1..=2 * n + 1).collect();
        rots.push(1 << 40);
        rots.push(-(1 << 40));
        unary(&mut ctx, &a, &rots, &pows, 3);
    }
    // (2) exhaustive pairs over 2 generators (zero letter included)
    let pl = if th { 4 } else { 3 };
    let ws = words_upto(2, pl, true);
    for a in &ws {
        for b in &ws {
            binary(&mut ctx, a, b);
        }
    }
    // (3) ordering: all triples of short reduced-or-not words over 2 generators
    let ts = words_upto(2, if th { 3 } else { 2 }, false);
    for a in &ts {
        for b in &ts {
            for c in &ts {
                cmp3(&mut ctx, a, b, c);
            }
        }
    }
    // (4) random long words
    let mut rng = ctx.rng(10);
    let nrand = if th { 20000 } else { 1500 };
    for _ in 0..nrand {
        let a = random_word(&mut rng, 3, 200);
        let b = random_word(&mut rng, 3, 200);
        let c = random_word(&mut rng, 3, 30);
        let n = a.len() as isize;
        let rots = vec![0, 1, -1, n / 2, n, n + 1, -n - 3, 1 << 40];
        unary(&mut ctx, &a, &rots, &[-2, 0, 1, 3], 3);
        binary(&mut ctx, &a, &b);
        cmp3(&mut ctx, &a, &b, &c);
        let mut pre = a.clone();
        pre.truncate(n as usize / 2);
        cmp3(&mut ctx, &a, &pre, &c);
    }
    // (5) histories of mixed operations
    let nprog = if th { 200000 } else { 20000 };
    let mut rng = ctx.rng(11);
    for _ in 0..nprog {
        let len = 2 + rng.below(10);
        program(&mut ctx, &mut rng, len);
    }
    // (6) indexing (appended last so that earlier case ids stay stable): every position of
    // every word of universe (1), the first position past the end, and a few positions of
    // random long words
    for a in words_upto(3, maxlen, true) {
        let n = fw(&a).len();
        index(&mut ctx, &a, &(0..=n).collect::<Vec<_>>());
    }
    let mut rng = ctx.rng(12);
    for _ in 0..nrand {
        let a = random_word(&mut rng, 3, 200);
        let m = fw(&a).len();
        let mut ks = vec![0, m / 2, m.saturating_sub(1), m, m + 1 + rng.below(5)];
        ks.dedup();
        index(&mut ctx, &a, &ks);
    }
    ctx.finish();
}
