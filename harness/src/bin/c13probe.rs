use std::collections::{BTreeMap, HashMap, HashSet, VecDeque};
use rust_dsymbols::fpgroups::cosets::{coset_tables, CosetTable};
use rust_dsymbols::fpgroups::free_words::{relator_permutations, relator_representative, FreeWord};
static POPS: std::sync::atomic::AtomicUsize = std::sync::atomic::AtomicUsize::new(0);
static MAXQ: std::sync::atomic::AtomicUsize = std::sync::atomic::AtomicUsize::new(0);
fn relators_by_start_gen(rels: &Vec<FreeWord>)
    -> BTreeMap<isize, Vec<FreeWord>>
{
    let mut result = BTreeMap::new();

    for rel in rels {
        for w in relator_permutations(&rel) {
            if w.len() > 0 {
                result.entry(w[0])
                    .and_modify(|v: &mut Vec<_>| v.push(w.clone()))
                    .or_insert(vec![w]);
            }
        }
    }

    result
}


fn trace_word(
    point: usize,
    w: &FreeWord,
    edge_to_word: &HashMap<(usize, isize), FreeWord>,
    ct: &CosetTable
)
    -> FreeWord
{
    let mut p = point;
    let mut result = FreeWord::empty();

    for &g in w.iter() {
        result *= &edge_to_word.get(&(p, g)).unwrap_or(&FreeWord::empty());
        p = ct.get(p, g).unwrap();
    }

    result
}


fn close_relations_in_place(
    edge_to_word: &mut HashMap<(usize, isize), FreeWord>,
    start_edge: (usize, isize),
    wd: &FreeWord,
    rels_by_gen: &BTreeMap<isize, Vec<FreeWord>>,
    ct: &CosetTable,
) {
    let (p, g) = start_edge;
    let mut queue = VecDeque::from([(p, g, wd.clone())]);

    while let Some((point, gen, w)) = queue.pop_front() {
        POPS.fetch_add(1, std::sync::atomic::Ordering::Relaxed); MAXQ.fetch_max(queue.len(), std::sync::atomic::Ordering::Relaxed);
        edge_to_word.insert((ct.get(point, gen).unwrap(), -gen), w.inverse());
        edge_to_word.insert((point, gen), w);

        // A letter that starts no relator rotation has nothing to deduce.
        for r in rels_by_gen.get(&gen).into_iter().flatten() {
            let mut cuts = vec![];
            let mut x = point;

            for i in 0..r.len() {
                let h = r[i];
                if !edge_to_word.contains_key(&(x, h)) {
                    let w = (r.rotated(i as isize + 1) * -h).inverse();
                    cuts.push((x, h, w));
                }
                x = ct.get(x, h).unwrap();
            }

            if cuts.len() == 1 {
                let (p, g, w) = cuts[0].clone();
                let w = trace_word(p, &w, &edge_to_word, ct);
                queue.push_back((p, g, w));
            }
        }
    }
}


fn spanning_tree(base_point: usize, ct: &CosetTable) -> Vec<(usize, isize)> {
    let mut edges = vec![];
    let mut queue = VecDeque::from([base_point]);
    let mut seen = HashSet::from([base_point]);

    while let Some(point) = queue.pop_front() {
        for gen in ct.all_gens() {
            let p = ct.get(point, gen).unwrap();
            if !seen.contains(&p) {
                queue.push_back(p);
                seen.insert(p);
                edges.push((point, gen));
            }
        }
    }
    edges
}


fn stabilizer_probe<I>(base_point: usize, rels: I, ct: &CosetTable)
    -> (Vec<FreeWord> , Vec<FreeWord>)
    where I: IntoIterator<Item=FreeWord> + Clone
{
    let rels: Vec<_> = rels.into_iter().collect();
    let rels_by_gen = relators_by_start_gen(&rels);

    let mut point_to_word = HashMap::from([(base_point, FreeWord::empty())]);
    let mut edge_to_word = HashMap::new();

    for (pt, gen) in spanning_tree(base_point, ct) {
        close_relations_in_place(
            &mut edge_to_word, (pt, gen), &FreeWord::empty(), &rels_by_gen, ct
        );
        point_to_word.insert(ct.get(pt, gen).unwrap(), &point_to_word[&pt] * gen);
    }

    let mut generators = vec![];

    for px in 0..ct.len() {
        for g in (1..=ct.nr_gens() as isize).flat_map(|i| [i, -i]) {
            if edge_to_word.get(&(px, g)).is_none() {
                let wx = &point_to_word[&px];
                let wy = &point_to_word[&ct.get(px, g).unwrap()];
                generators.push(wx * g * wy.inverse());

                let w = FreeWord::from([generators.len() as isize]);
                close_relations_in_place(
                    &mut edge_to_word, (px, g), &w, &rels_by_gen, ct
                )
            }
        }
    }

    let mut subrels = vec![];
    let mut seen = HashSet::new();

    for p in 0..ct.len() {
        for r in &rels {
            let w = relator_representative(
                &trace_word(p, &r, &edge_to_word, ct)
            );
            if w.len() > 0 && !seen.contains(&w) {
                seen.insert(w.clone());
                subrels.push(w);
            }
        }
    }
    subrels.sort();
    subrels.reverse();

    (generators, subrels)
}



fn main() {
    let rels: Vec<Vec<isize>> = vec![vec![1,1],vec![1,2,1,2,1,2,1,2],vec![1,3,1,3],vec![1,4,1,4],vec![2,2],vec![2,3,2,3,2,3],vec![2,4,2,4],vec![3,3],vec![3,4,3,4,3,4,3,4],vec![4,4]];
    let r: Vec<FreeWord> = rels.iter().map(|w| FreeWord::new(w.iter().cloned())).collect();
    for t in coset_tables(4, &r, 4) {
        for b in 0..t.len() {
            POPS.store(0, std::sync::atomic::Ordering::Relaxed);
            MAXQ.store(0, std::sync::atomic::Ordering::Relaxed);
            let t0 = std::time::Instant::now();
            let (g, s) = stabilizer_probe(b, r.clone(), &t);
            println!("rows {} base {} gens {} rels {} pops {} maxq {} {:?}", t.len(), b, g.len(), s.len(), POPS.load(std::sync::atomic::Ordering::Relaxed), MAXQ.load(std::sync::atomic::Ordering::Relaxed), t0.elapsed());
        }
    }
}
