//! C03 — canonical form is a complete isomorphism invariant.
//!
//! ops
//!   canon  IN sym                      OUT canonical(sym)  code  map
//!   idem   IN sym                      OUT canonical(sym)  canonical(canonical(sym))
//!   renum  IN sym k (perm_j sym_j)*k   OUT canonical(sym)  canonical(sym_1) … canonical(sym_k)
//!   pair   IN a b                      OUT canonical(a)  canonical(b)
//!   seeds  IN sym                      OUT minimal-code  (code_d map_d) for every seed d
use rust_dsymbols::covers::finite_universal_cover;
use rust_dsymbols::delaney2d::is_spherical;
use rust_dsymbols::derived::{canonical, cover};
use rust_dsymbols::dsyms::{minimal_traversal_code, PartialDSym, TraversalCode};
use std::collections::BTreeMap;
use verif_harness::dsgen::{all_vs, dsets, random_perm1, random_vs, Tab};
use verif_harness::{enc_list, Ctx, Rng};

fn canon_tab(t: &Tab) -> Tab {
    Tab::from_dsym(&canonical(&t.to_partial_dsym()))
}

/// brute-force isomorphism test, used for tagging only (the verdict is the Lean Spec's)
fn isomorphic(a: &Tab, b: &Tab) -> bool {
    if a.size != b.size || a.dim != b.dim {
        return false;
    }
    let n = a.size;
    'img: for img1 in 1..=n {
        let mut f = vec![0usize; n + 1];
        let mut used = vec![false; n + 1];
        f[1] = img1;
        used[img1] = true;
        let mut stack = vec![1usize];
        while let Some(d) = stack.pop() {
            for i in 0..=a.dim {
                let (e, fe) = (a.op[i][d], b.op[i][f[d]]);
                if f[e] == 0 {
                    if used[fe] {
                        continue 'img;
                    }
                    f[e] = fe;
                    used[fe] = true;
                    stack.push(e);
                } else if f[e] != fe {
                    continue 'img;
                }
            }
        }
        if (1..=n).all(|d| f[d] != 0 && (0..a.dim).all(|i| a.v[i][d] == b.v[i][f[d]])) {
            return true;
        }
    }
    false
}

/// (size, dim, sorted multiset of per-chamber degree tuples m_{i,i+1})
fn bucket(t: &Tab) -> (usize, usize, Vec<Vec<usize>>) {
    let mut degs: Vec<Vec<usize>> = (1..=t.size).map(|d| (0..t.dim).map(|i| t.r(i, i + 1, d) * t.v[i][d]).collect()).collect();
    degs.sort();
    (t.size, t.dim, degs)
}

fn all_perms(n: usize) -> Vec<Vec<usize>> {
    fn rec(n: usize, cur: &mut Vec<usize>, used: &mut Vec<bool>, out: &mut Vec<Vec<usize>>) {
        if cur.len() == n + 1 {
            out.push(cur.clone());
            return;
        }
        for x in 1..=n {
            if !used[x] {
                used[x] = true;
                cur.push(x);
                rec(n, cur, used, out);
                cur.pop();
                used[x] = false;
            }
        }
    }
    let mut out = vec![];
    rec(n, &mut vec![0], &mut vec![false; n + 1], &mut out);
    out
}

fn run_symbol(ctx: &mut Ctx, t: &Tab, perms: &[Vec<usize>], tag: &str) {
    ctx.case("canon", tag, || t.enc(), || {
        let ds = t.to_partial_dsym();
        let c = Tab::from_dsym(&canonical(&ds));
        let mut tc = minimal_traversal_code(&ds);
        let code = tc.get_code();
        let map = tc.get_map();
        format!("{} {} {}", c.enc(), enc_list(&code), enc_list(&map))
    });
    ctx.case("idem", tag, || t.enc(), || {
        let c1 = canonical(&t.to_partial_dsym());
        let c2 = canonical(&c1);
        format!("{} {}", Tab::from_dsym(&c1).enc(), Tab::from_dsym(&c2).enc())
    });
    if t.size <= 130 {
        ctx.case("seeds", tag, || t.enc(), || {
            let ds = t.to_partial_dsym();
            let mut s = enc_list(&minimal_traversal_code(&ds).get_code());
            for d in 1..=t.size {
                let mut tc = TraversalCode::new(&ds, d);
                let code = tc.get_code();
                let map = tc.get_map();
                s.push(' ');
                s.push_str(&enc_list(&code));
                s.push(' ');
                s.push_str(&enc_list(&map));
            }
            s
        });
    }
    if !perms.is_empty() {
        ctx.case(
            "renum",
            tag,
            || {
                let mut s = format!("{} {}", t.enc(), perms.len());
                for p in perms {
                    s.push(' ');
                    s.push_str(&enc_list(p));
                    s.push(' ');
                    s.push_str(&t.renumbered(p).enc());
                }
                s
            },
            || {
                let mut s = canon_tab(t).enc();
                for p in perms {
                    s.push(' ');
                    s.push_str(&canon_tab(&t.renumbered(p)).enc());
                }
                s
            },
        );
    }
}

fn run_pair(ctx: &mut Ctx, a: &Tab, b: &Tab, tag: &str) {
    if !ctx.peek_mine() {
        ctx.skip();
        return;
    }
    let tag = format!("{} iso={}", tag, if isomorphic(a, b) { 1 } else { 0 });
    ctx.case("pair", &tag, || format!("{} {}", a.enc(), b.enc()), || format!("{} {}", canon_tab(a).enc(), canon_tab(b).enc()));
}

/// a cyclic s-fold cover of `t` (2D) with seeded voltages on the index-1 edges; the base
/// branching numbers are all `s`, so every orbit length of the cover divides its degree
fn cyclic_cover(rng: &mut Rng, t: &Tab, s: usize) -> Option<Tab> {
    let mut base = t.clone();
    for i in 0..t.dim {
        for d in 1..=t.size {
            base.v[i][d] = s;
        }
    }
    let mut c = vec![0usize; t.size + 1];
    for d in 1..=t.size {
        let e = t.op[1][d];
        if e == d {
            c[d] = if s % 2 == 0 && rng.chance(1, 2) { s / 2 } else { 0 };
        } else if d < e {
            c[d] = rng.below(s);
            c[e] = (s - c[d]) % s;
        }
    }
    let ds: PartialDSym = base.to_partial_dsym();
    let cov = cover(&ds, s, |k, i, d| if i == 1 { (k + c[d]) % s } else { k });
    let ct = Tab::from_dsym(&cov);
    if ct.is_connected() && ct.far_commute() && (0..ct.dim).all(|i| (1..=ct.size).all(|d| ct.v[i][d] >= 1)) {
        Some(ct)
    } else {
        None
    }
}

fn parse(s: &str) -> Tab {
    Tab::from_dsym(&s.parse::<PartialDSym>().unwrap())
}

fn main() {
    let mut ctx = Ctx::from_args();
    let th = ctx.thorough();
    let mut rng = ctx.rng(3);

    // regression corpus: the literal inputs of derived.rs::test_canonical
    for s in [
        "<1.1:3:1 2 3,3 2,2 3:6 4,3>",
        "<1.1:2 3:2,1 2,1 2,2:6,3 2,6>",
        "<1.1:24:2 4 6 8 10 12 14 16 18 20 22 24,16 3 5 7 9 11 13 15 24 19 21 23,10 9 20 19 14 13 22 21 24 23 18 17:8 4,3 3 3 3>",
    ] {
        let t = parse(s);
        let perms: Vec<Vec<usize>> = (0..3).map(|_| random_perm1(&mut rng, t.size)).collect();
        run_symbol(&mut ctx, &t, &perms, &format!("nt suite dim={} size={}", t.dim, t.size));
    }

    // (1) every connected complete D-set with commuting far operations below the bound,
    //     with branching assignments, renumberings, and pairs inside each bucket
    let bounds: &[(usize, usize)] = if th { &[(2, 7), (3, 4)] } else { &[(2, 5), (3, 3)] };
    let nperm = if th { 20 } else { 3 };
    let all_perm_max = if th { 4 } else { 3 };
    for &(dim, nmax) in bounds {
        for n in 1..=nmax {
            let sets = dsets(dim, n, true, true, false);
            // the largest families are thinned: every D-set is kept with one seeded assignment,
            // the renumbering case is asked for a seeded 1/thin of them
            let thin = if sets.len() > 200_000 { 8 } else { 1 };
            let mut syms: Vec<Tab> = vec![];
            for t in &sets {
                if n <= 2 || (n <= 3 && dim == 2) {
                    syms.extend(all_vs(t, &[1, 2, 3]));
                } else {
                    syms.push(random_vs(t, &mut rng, &[1, 2, 3]));
                    if thin == 1 {
                        syms.push(random_vs(t, &mut rng, &[1, 2, 3, 4, 6]));
                    }
                }
            }
            let tag = format!("nt dim={} size={}", dim, n);
            let perms_all = if n <= all_perm_max { all_perms(n) } else { vec![] };
            for s in &syms {
                let full = thin == 1 || rng.chance(1, thin);
                let perms: Vec<Vec<usize>> = if !full {
                    vec![random_perm1(&mut rng, n)]
                } else if n <= all_perm_max {
                    perms_all.clone()
                } else {
                    (0..nperm).map(|_| random_perm1(&mut rng, n)).collect()
                };
                run_symbol(&mut ctx, s, &perms, &tag);
            }
            // separation: pairs from the same bucket
            let mut buckets: BTreeMap<(usize, usize, Vec<Vec<usize>>), Vec<usize>> = BTreeMap::new();
            for (k, s) in syms.iter().enumerate() {
                buckets.entry(bucket(s)).or_default().push(k);
            }
            let ptag = format!("nt dim={} size={}", dim, n);
            for members in buckets.values() {
                if members.len() < 2 {
                    continue;
                }
                for (j, &k) in members.iter().enumerate() {
                    if thin > 1 && !rng.chance(1, thin) {
                        continue;
                    }
                    let k1 = members[(j + 1) % members.len()];
                    run_pair(&mut ctx, &syms[k], &syms[k1], &ptag);
                    let k2 = members[rng.below(members.len())];
                    if k2 != k {
                        let p = random_perm1(&mut rng, n);
                        run_pair(&mut ctx, &syms[k], &syms[k2].renumbered(&p), &ptag);
                    }
                }
            }
        }
    }

    // (2) larger symbols
    let nperm_big = if th { 10 } else { 2 };
    let mut big: Vec<Tab> = vec![];
    // (2a) finite universal covers of spherical 2D symbols (chamber systems of sphere tilings)
    let mut bases: Vec<Tab> = vec![];
    for (a, b) in [(3, 3), (3, 4), (4, 3), (3, 5), (5, 3), (2, 6), (2, 12), (12, 2), (2, 30)] {
        bases.push(parse(&format!("<1.1:1:1,1,1:{},{}>", a, b)));
    }
    {
        let nb = if th { 3 } else { 2 };
        let keep = if th { 1 } else { 6 };
        for n in 2..=nb {
            for t in dsets(2, n, true, true, false) {
                for s in all_vs(&t, &[1, 2, 3, 5]) {
                    if is_spherical(&s.to_partial_dsym()) && rng.chance(1, keep) {
                        bases.push(s);
                    }
                }
            }
        }
    }
    for b in &bases {
        let cov = Tab::from_dsym(&finite_universal_cover(&b.to_partial_dsym()));
        if cov.size >= 12 && cov.size <= 120 {
            big.push(cov);
        }
    }
    // (2b) seeded cyclic covers (derived::cover) of small symbols
    {
        let specs: &[(usize, usize, usize)] = if th {
            &[(4, 12, 6), (5, 20, 6), (6, 30, 6), (7, 30, 4), (6, 60, 3), (7, 60, 2)]
        } else {
            &[(4, 12, 3), (5, 20, 2), (6, 30, 2)]
        };
        for &(n, s, count) in specs {
            let sets = dsets(2, n.min(6), true, true, false);
            let mut got = 0;
            let mut tries = 0;
            while got < count && tries < 200 {
                tries += 1;
                let mut t = sets[rng.below(sets.len())].clone();
                if n > 6 {
                    // no exhaustive list at 7: take a seeded connected D-set
                    match verif_harness::dsgen::random_dset(&mut rng, 2, n, true) {
                        Some(x) => t = x,
                        None => continue,
                    }
                }
                if let Some(c) = cyclic_cover(&mut rng, &t, s) {
                    // two covers of the same base with different voltages: same bucket
                    if let Some(c2) = cyclic_cover(&mut rng, &t, s) {
                        big.push(c2);
                    }
                    big.push(c);
                    got += 1;
                }
            }
        }
    }
    // (2c) 3D: finite universal covers of spherical 3D symbols
    {
        let mut b3: Vec<&str> = vec!["<1.1:1 3:1,1,1,1:2,2,2>", "<1.1:1 3:1,1,1,1:3,2,3>", "<1.1:1 3:1,1,1,1:3,3,2>", "<1.1:1 3:1,1,1,1:4,3,2>"];
        if th {
            b3.extend(["<1.1:1 3:1,1,1,1:3,3,3>", "<1.1:2 3:2,2,2,2:3,3,3>", "<1.1:1 3:1,1,1,1:5,3,2>", "<1.1:1 3:1,1,1,1:4,3,3>"]);
        }
        for s in b3 {
            big.push(Tab::from_dsym(&finite_universal_cover(&s.parse::<PartialDSym>().unwrap())));
        }
    }
    for t in &big {
        let perms: Vec<Vec<usize>> = (0..nperm_big).map(|_| random_perm1(&mut rng, t.size)).collect();
        let tag = format!("nt big dim={} size={}", t.dim, (t.size / 50) * 50);
        run_symbol(&mut ctx, t, &perms, &tag);
    }
    // pairs of large symbols from the same bucket (all pairs inside a bucket)
    {
        let mut buckets: BTreeMap<(usize, usize, Vec<Vec<usize>>), Vec<usize>> = BTreeMap::new();
        for (k, s) in big.iter().enumerate() {
            buckets.entry(bucket(s)).or_default().push(k);
        }
        for members in buckets.values() {
            for (j, &k) in members.iter().enumerate() {
                for &k2 in members.iter().skip(j + 1).take(4) {
                    let p = random_perm1(&mut rng, big[k2].size);
                    let tag = format!("nt big dim={} size={}", big[k].dim, (big[k].size / 50) * 50);
                    run_pair(&mut ctx, &big[k], &big[k2].renumbered(&p), &tag);
                }
            }
        }
    }
    ctx.finish();
}
