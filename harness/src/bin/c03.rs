//! C03 — canonical form is a complete isomorphism invariant.
//!
//! ops
//!   canon  IN sym                      OUT canonical(sym)  code  map
//!   idem   IN sym                      OUT canonical(sym)  canonical(canonical(sym))
//!   renum  IN sym k (perm_j sym_j)*k   OUT canonical(sym)  canonical(sym_1) … canonical(sym_k)
//!   pair   IN a b                      OUT canonical(a)  canonical(b)
//!   seeds  IN sym                      OUT minimal-code  (code_d map_d) for every seed d
//!   history IN k sym_1 … sym_k         OUT (canonical(sym_j) canonical(canonical(sym_j))) for j = 1..k,
//!                                      all computed one after the other inside ONE call sequence
//!                                      (one thread, one process) — state kept between calls shows
use rust_dsymbols::covers::finite_universal_cover;
use rust_dsymbols::delaney2d::is_spherical;
use rust_dsymbols::derived::{canonical, cover};
use rust_dsymbols::dsyms::{minimal_traversal_code, PartialDSym, SimpleDSym, TraversalCode};
use std::collections::BTreeMap;
use verif_harness::dsgen::{all_vs, dsets, random_perm1, random_vs, Tab};
use verif_harness::{enc_list, Ctx, Rng};

fn canon_tab(t: &Tab) -> Tab {
    Tab::from_dsym(&canonical(&t.to_partial_dsym()))
}

/// the same symbol held as a SimpleDSym (the representation the generators and `From` produce):
/// `canonical`, `TraversalCode` are generic over the DSym trait and read r/v/m through its impl
fn canon_tab_simple(t: &Tab) -> Tab {
    let s: SimpleDSym = t.to_partial_dsym().into();
    Tab::from_dsym(&canonical(&s))
}

/// brute-force isomorphism test, used for tagging only (the verdict is the Lean Spec's)
fn isomorphic(a: &Tab, b: &Tab) -> bool {
    if a.size != b.size || a.dim != b.dim {
        return false;
    }
    let n = a.size;
    'img: for img1 in 1..=n {
        let mut f = vec![0usize; n + 1];
        let mut used = vec![false; n + 1];
        f[1] = img1;
        used[img1] = true;
        let mut stack = vec![1usize];
        while let Some(d) = stack.pop() {
            for i in 0..=a.dim {
                let (e, fe) = (a.op[i][d], b.op[i][f[d]]);
                if f[e] == 0 {
                    if used[fe] {
                        continue 'img;
                    }
                    f[e] = fe;
                    used[fe] = true;
                    stack.push(e);
                } else if f[e] != fe {
                    continue 'img;
                }
            }
        }
        if (1..=n).all(|d| f[d] != 0 && (0..a.dim).all(|i| a.v[i][d] == b.v[i][f[d]])) {
            return true;
        }
    }
    false
}

/// (size, dim, sorted multiset of per-chamber degree tuples m_{i,i+1})
fn bucket(t: &Tab) -> (usize, usize, Vec<Vec<usize>>) {
    let mut degs: Vec<Vec<usize>> = (1..=t.size).map(|d| (0..t.dim).map(|i| t.r(i, i + 1, d) * t.v[i][d]).collect()).collect();
    degs.sort();
    (t.size, t.dim, degs)
}

fn all_perms(n: usize) -> Vec<Vec<usize>> {
    fn rec(n: usize, cur: &mut Vec<usize>, used: &mut Vec<bool>, out: &mut Vec<Vec<usize>>) {
        if cur.len() == n + 1 {
            out.push(cur.clone());
            return;
        }
        for x in 1..=n {
            if !used[x] {
                used[x] = true;
                cur.push(x);
                rec(n, cur, used, out);
                cur.pop();
                used[x] = false;
            }
        }
    }
    let mut out = vec![];
    rec(n, &mut vec![0], &mut vec![false; n + 1], &mut out);
    out
}

fn run_symbol(ctx: &mut Ctx, t: &Tab, perms: &[Vec<usize>], tag: &str) {
    ctx.case("canon", tag, || t.enc(), || {
        let ds = t.to_partial_dsym();
        let c = Tab::from_dsym(&canonical(&ds));
        let mut tc = minimal_traversal_code(&ds);
        let code = tc.get_code();
        let map = tc.get_map();
        format!("{} {} {}", c.enc(), enc_list(&code), enc_list(&map))
    });
    ctx.case("idem", tag, || t.enc(), || {
        let c1 = canonical(&t.to_partial_dsym());
        let c2 = canonical(&c1);
        format!("{} {}", Tab::from_dsym(&c1).enc(), Tab::from_dsym(&c2).enc())
    });
    // the SimpleDSym representation (added after seeded change C03-m8: two cooperating edits made
    // traversal codes of SimpleDSym carry r instead of v; every case so far held a PartialDSym)
    if t.size <= 40 {
        ctx.case("canon_s", tag, || t.enc(), || {
            let ds: SimpleDSym = t.to_partial_dsym().into();
            let c = Tab::from_dsym(&canonical(&ds));
            let mut tc = minimal_traversal_code(&ds);
            let code = tc.get_code();
            let map = tc.get_map();
            format!("{} {} {}", c.enc(), enc_list(&code), enc_list(&map))
        });
        if !perms.is_empty() {
            let ps = &perms[..perms.len().min(3)];
            ctx.case(
                "renum_s",
                tag,
                || {
                    let mut s = format!("{} {}", t.enc(), ps.len());
                    for p in ps {
                        s.push(' ');
                        s.push_str(&enc_list(p));
                        s.push(' ');
                        s.push_str(&t.renumbered(p).enc());
                    }
                    s
                },
                || {
                    let mut s = canon_tab_simple(t).enc();
                    for p in ps {
                        s.push(' ');
                        s.push_str(&canon_tab_simple(&t.renumbered(p)).enc());
                    }
                    s
                },
            );
        }
    }
    if t.size <= 130 {
        ctx.case("seeds", tag, || t.enc(), || {
            let ds = t.to_partial_dsym();
            let mut s = enc_list(&minimal_traversal_code(&ds).get_code());
            for d in 1..=t.size {
                let mut tc = TraversalCode::new(&ds, d);
                let code = tc.get_code();
                let map = tc.get_map();
                s.push(' ');
                s.push_str(&enc_list(&code));
                s.push(' ');
                s.push_str(&enc_list(&map));
            }
            s
        });
    }
    if !perms.is_empty() {
        ctx.case(
            "renum",
            tag,
            || {
                let mut s = format!("{} {}", t.enc(), perms.len());
                for p in perms {
                    s.push(' ');
                    s.push_str(&enc_list(p));
                    s.push(' ');
                    s.push_str(&t.renumbered(p).enc());
                }
                s
            },
            || {
                let mut s = canon_tab(t).enc();
                for p in perms {
                    s.push(' ');
                    s.push_str(&canon_tab(&t.renumbered(p)).enc());
                }
                s
            },
        );
    }
}

fn run_pair(ctx: &mut Ctx, a: &Tab, b: &Tab, tag: &str) {
    if !ctx.peek_mine() {
        ctx.skip();
        return;
    }
    let tag = format!("{} iso={}", tag, if isomorphic(a, b) { 1 } else { 0 });
    ctx.case("pair", &tag, || format!("{} {}", a.enc(), b.enc()), || format!("{} {}", canon_tab(a).enc(), canon_tab(b).enc()));
}

/// a cyclic s-fold cover of `t` (2D) with seeded voltages on the index-1 edges; the base
/// branching numbers are all `s`, so every orbit length of the cover divides its degree
fn cyclic_cover(rng: &mut Rng, t: &Tab, s: usize) -> Option<Tab> {
    let mut base = t.clone();
    for i in 0..t.dim {
        for d in 1..=t.size {
            base.v[i][d] = s;
        }
    }
    let mut c = vec![0usize; t.size + 1];
    for d in 1..=t.size {
        let e = t.op[1][d];
        if e == d {
            c[d] = if s % 2 == 0 && rng.chance(1, 2) { s / 2 } else { 0 };
        } else if d < e {
            c[d] = rng.below(s);
            c[e] = (s - c[d]) % s;
        }
    }
    let ds: PartialDSym = base.to_partial_dsym();
    let cov = cover(&ds, s, |k, i, d| if i == 1 { (k + c[d]) % s } else { k });
    let ct = Tab::from_dsym(&cov);
    if ct.is_connected() && ct.far_commute() && (0..ct.dim).all(|i| (1..=ct.size).all(|d| ct.v[i][d] >= 1)) {
        Some(ct)
    } else {
        None
    }
}

/// boundary values for branching numbers: digit-count, byte, 16- and 32-bit boundaries
const BOUNDARY: [usize; 22] = [
    1, 2, 3, 9, 10, 11, 12, 13, 21, 99, 100, 127, 128, 255, 256, 257, 300, 900, 65535, 65536, 1 << 31, (1 << 32) + 1,
];
/// tiny values against values beyond one byte / two bytes / four bytes
const CONTRAST: [usize; 10] = [1, 2, 3, 256, 300, 900, 65535, 65536, 1 << 31, (1 << 32) + 1];

/// all ways to cut the digit string `s` into exactly `n` decimal numbers in 1..=maxv (no leading
/// zero), at most `cap` of them
fn tokenizations(s: &[u8], n: usize, maxv: usize, cap: usize) -> Vec<Vec<usize>> {
    fn rec(s: &[u8], pos: usize, left: usize, maxv: usize, cur: &mut Vec<usize>, out: &mut Vec<Vec<usize>>, cap: usize) {
        if out.len() >= cap {
            return;
        }
        if left == 0 {
            if pos == s.len() {
                out.push(cur.clone());
            }
            return;
        }
        // remaining characters must suffice / not exceed 20 digits per token
        if s.len() - pos < left {
            return;
        }
        if pos < s.len() && s[pos] == b'0' {
            return;
        }
        let mut v: usize = 0;
        for end in pos..s.len().min(pos + 12) {
            v = v * 10 + (s[end] - b'0') as usize;
            if v > maxv {
                break;
            }
            cur.push(v);
            rec(s, end + 1, left - 1, maxv, cur, out, cap);
            cur.pop();
        }
    }
    let mut out = vec![];
    rec(s, 0, n, maxv, &mut vec![], &mut out, cap);
    out
}

fn row_digits(row: &[usize]) -> Vec<u8> {
    let mut s = String::new();
    for x in &row[1..] {
        s.push_str(&x.to_string());
    }
    s.into_bytes()
}

fn v_on_orbits(t: &Tab) -> bool {
    (0..t.dim).all(|i| (1..=t.size).all(|d| t.v[i][d] >= 1 && t.v[i][t.op[i][d]] == t.v[i][d] && t.v[i][t.op[i + 1][d]] == t.v[i][d]))
}

fn is_involution(row: &[usize]) -> bool {
    (1..row.len()).all(|d| row[d] >= 1 && row[d] < row.len() && row[row[d]] == d)
}

/// other valid connected symbols of the same size and dimension whose operation and branching
/// rows read the same as those of `t` once the decimal numbers of a row are written without
/// separators (e.g. v row [2,13] / [21,3], op row [1,12,…] / [11,2,…])
fn confusables(t: &Tab, cap: usize) -> Vec<Tab> {
    let n = t.size;
    let mut op_alts: Vec<Vec<Vec<usize>>> = vec![];
    for i in 0..=t.dim {
        let alts: Vec<Vec<usize>> = tokenizations(&row_digits(&t.op[i]), n, n, 64)
            .into_iter()
            .map(|r| {
                let mut x = vec![0];
                x.extend(r);
                x
            })
            .filter(|r| is_involution(r))
            .collect();
        op_alts.push(alts);
    }
    let mut v_alts: Vec<Vec<Vec<usize>>> = vec![];
    for i in 0..t.dim {
        let alts: Vec<Vec<usize>> = tokenizations(&row_digits(&t.v[i]), n, usize::MAX >> 8, 256)
            .into_iter()
            .map(|r| {
                let mut x = vec![0];
                x.extend(r);
                x
            })
            .collect();
        v_alts.push(alts);
    }
    let mut out: Vec<Tab> = vec![];
    // product over the op rows (few alternatives each), then over the v rows
    let mut idx = vec![0usize; t.dim + 1];
    'ops: loop {
        let mut b = t.clone();
        for i in 0..=t.dim {
            b.op[i] = op_alts[i][idx[i]].clone();
        }
        if b.far_commute() && b.is_connected() {
            let mut vidx = vec![0usize; t.dim];
            'vs: loop {
                for i in 0..t.dim {
                    b.v[i] = v_alts[i][vidx[i]].clone();
                }
                if b != *t && v_on_orbits(&b) {
                    out.push(b.clone());
                    if out.len() >= cap {
                        return out;
                    }
                }
                let mut k = 0;
                loop {
                    if k >= t.dim {
                        break 'vs;
                    }
                    vidx[k] += 1;
                    if vidx[k] < v_alts[k].len() {
                        break;
                    }
                    vidx[k] = 0;
                    k += 1;
                }
            }
        }
        let mut k = 0;
        loop {
            if k > t.dim {
                break 'ops;
            }
            idx[k] += 1;
            if idx[k] < op_alts[k].len() {
                break;
            }
            idx[k] = 0;
            k += 1;
        }
    }
    out
}

/// multi-digit branching numbers 1..40, biased towards values whose digits run together
fn history_v(rng: &mut Rng) -> usize {
    const CONF: [usize; 14] = [1, 11, 2, 22, 3, 33, 12, 21, 13, 31, 23, 32, 4, 14];
    if rng.chance(2, 3) {
        CONF[rng.below(CONF.len())]
    } else {
        1 + rng.below(40)
    }
}

fn assign_history_vs(t: &Tab, rng: &mut Rng) -> Tab {
    let mut s = t.clone();
    for i in 0..t.dim {
        for d in t.orbit_reps2(i) {
            let v = history_v(rng);
            s.set_v_orbit(i, d, v);
        }
    }
    s
}

/// one history: a long sequence of different small symbols, each followed by the symbols it can be
/// confused with and now and then by a renumbering
fn make_history(rng: &mut Rng, small: &[Tab], bases: &[Vec<Tab>], len: usize, first: &[Tab]) -> Vec<Tab> {
    let mut h: Vec<Tab> = first.to_vec();
    let mut tries = 0;
    while h.len() < len && tries < 20 * len {
        tries += 1;
        let t = if rng.chance(1, 4) {
            small[rng.below(small.len())].clone()
        } else {
            let fam = &bases[rng.below(bases.len())];
            let k = rng.below(fam.len());
            match cyclic_cover(rng, &fam[k], 2) {
                Some(c) => c,
                None => continue,
            }
        };
        let s = assign_history_vs(&t, rng);
        let conf = confusables(&s, 3);
        if rng.chance(1, 4) {
            let p = random_perm1(rng, s.size);
            h.push(s.renumbered(&p));
        }
        h.push(s);
        h.extend(conf);
    }
    h.truncate(len);
    h
}

fn run_history(ctx: &mut Ctx, h: &[Tab], tag: &str) {
    ctx.case(
        "history",
        tag,
        || {
            let mut s = h.len().to_string();
            for t in h {
                s.push(' ');
                s.push_str(&t.enc());
            }
            s
        },
        || {
            let mut s = String::new();
            for t in h {
                let c1 = canonical(&t.to_partial_dsym());
                let c2 = canonical(&c1);
                if !s.is_empty() {
                    s.push(' ');
                }
                s.push_str(&Tab::from_dsym(&c1).enc());
                s.push(' ');
                s.push_str(&Tab::from_dsym(&c2).enc());
            }
            s
        },
    );
}

fn parse(s: &str) -> Tab {
    Tab::from_dsym(&s.parse::<PartialDSym>().unwrap())
}

fn main() {
    let mut ctx = Ctx::from_args();
    let th = ctx.thorough();
    let mut rng = ctx.rng(3);

    // regression corpus: the literal inputs of derived.rs::test_canonical
    for s in [
        "<1.1:3:1 2 3,3 2,2 3:6 4,3>",
        "<1.1:2 3:2,1 2,1 2,2:6,3 2,6>",
        "<1.1:24:2 4 6 8 10 12 14 16 18 20 22 24,16 3 5 7 9 11 13 15 24 19 21 23,10 9 20 19 14 13 22 21 24 23 18 17:8 4,3 3 3 3>",
    ] {
        let t = parse(s);
        let perms: Vec<Vec<usize>> = (0..3).map(|_| random_perm1(&mut rng, t.size)).collect();
        run_symbol(&mut ctx, &t, &perms, &format!("nt suite dim={} size={}", t.dim, t.size));
    }

    // regression: a branching number beyond one byte (v = 300) — every renumbering
    {
        let t = parse("<1.1:4:1 2 4,1 3 4,2 3 4:2 9,900 2>");
        run_symbol(&mut ctx, &t, &all_perms(4), "nt regress bigv dim=2 size=4");
    }
    // regression: two different symbols whose tables read the same without separators,
    // canonicalised one after the other
    {
        let a = parse("<1.1:2:1 2,1 2,2:2 13,4>");
        let b = parse("<1.1:2:1 2,1 2,2:21 3,4>");
        run_history(&mut ctx, &[a.clone(), b.clone(), a, b], "nt regress history dim=2 size=2");
    }

    // (1) every connected complete D-set with commuting far operations below the bound,
    //     with branching assignments, renumberings, and pairs inside each bucket
    let bounds: &[(usize, usize)] = if th { &[(2, 7), (3, 4)] } else { &[(2, 5), (3, 3)] };
    let nperm = if th { 20 } else { 3 };
    let all_perm_max = if th { 4 } else { 3 };
    for &(dim, nmax) in bounds {
        for n in 1..=nmax {
            let sets = dsets(dim, n, true, true, false);
            // the largest families are thinned: every D-set is kept with one seeded assignment,
            // the renumbering case is asked for a seeded 1/thin of them
            let thin = if sets.len() > 200_000 { 8 } else { 1 };
            let mut syms: Vec<Tab> = vec![];
            for t in &sets {
                if n <= 2 || (n <= 3 && dim == 2) {
                    syms.extend(all_vs(t, &[1, 2, 3]));
                } else {
                    syms.push(random_vs(t, &mut rng, &[1, 2, 3]));
                    if thin == 1 {
                        syms.push(random_vs(t, &mut rng, &[1, 2, 3, 4, 6]));
                    }
                }
            }
            let tag = format!("nt dim={} size={}", dim, n);
            let perms_all = if n <= all_perm_max { all_perms(n) } else { vec![] };
            for s in &syms {
                let full = thin == 1 || rng.chance(1, thin);
                let perms: Vec<Vec<usize>> = if !full {
                    vec![random_perm1(&mut rng, n)]
                } else if n <= all_perm_max {
                    perms_all.clone()
                } else {
                    (0..nperm).map(|_| random_perm1(&mut rng, n)).collect()
                };
                run_symbol(&mut ctx, s, &perms, &tag);
            }
            // separation: pairs from the same bucket
            let mut buckets: BTreeMap<(usize, usize, Vec<Vec<usize>>), Vec<usize>> = BTreeMap::new();
            for (k, s) in syms.iter().enumerate() {
                buckets.entry(bucket(s)).or_default().push(k);
            }
            let ptag = format!("nt dim={} size={}", dim, n);
            for members in buckets.values() {
                if members.len() < 2 {
                    continue;
                }
                for (j, &k) in members.iter().enumerate() {
                    if thin > 1 && !rng.chance(1, thin) {
                        continue;
                    }
                    let k1 = members[(j + 1) % members.len()];
                    run_pair(&mut ctx, &syms[k], &syms[k1], &ptag);
                    let k2 = members[rng.below(members.len())];
                    if k2 != k {
                        let p = random_perm1(&mut rng, n);
                        run_pair(&mut ctx, &syms[k], &syms[k2].renumbered(&p), &ptag);
                    }
                }
            }
        }
    }

    // (2) larger symbols
    let nperm_big = if th { 10 } else { 2 };
    let mut big: Vec<Tab> = vec![];
    // (2a) finite universal covers of spherical 2D symbols (chamber systems of sphere tilings)
    let mut bases: Vec<Tab> = vec![];
    for (a, b) in [(3, 3), (3, 4), (4, 3), (3, 5), (5, 3), (2, 6), (2, 12), (12, 2), (2, 30)] {
        bases.push(parse(&format!("<1.1:1:1,1,1:{},{}>", a, b)));
    }
    {
        let nb = if th { 3 } else { 2 };
        let keep = if th { 1 } else { 6 };
        for n in 2..=nb {
            for t in dsets(2, n, true, true, false) {
                for s in all_vs(&t, &[1, 2, 3, 5]) {
                    if is_spherical(&s.to_partial_dsym()) && rng.chance(1, keep) {
                        bases.push(s);
                    }
                }
            }
        }
    }
    for b in &bases {
        let cov = Tab::from_dsym(&finite_universal_cover(&b.to_partial_dsym()));
        if cov.size >= 12 && cov.size <= 120 {
            big.push(cov);
        }
    }
    // (2b) seeded cyclic covers (derived::cover) of small symbols
    {
        let specs: &[(usize, usize, usize)] = if th {
            &[(4, 12, 6), (5, 20, 6), (6, 30, 6), (7, 30, 4), (6, 60, 3), (7, 60, 2)]
        } else {
            &[(4, 12, 3), (5, 20, 2), (6, 30, 2)]
        };
        for &(n, s, count) in specs {
            let sets = dsets(2, n.min(6), true, true, false);
            let mut got = 0;
            let mut tries = 0;
            while got < count && tries < 200 {
                tries += 1;
                let mut t = sets[rng.below(sets.len())].clone();
                if n > 6 {
                    // no exhaustive list at 7: take a seeded connected D-set
                    match verif_harness::dsgen::random_dset(&mut rng, 2, n, true) {
                        Some(x) => t = x,
                        None => continue,
                    }
                }
                if let Some(c) = cyclic_cover(&mut rng, &t, s) {
                    // two covers of the same base with different voltages: same bucket
                    if let Some(c2) = cyclic_cover(&mut rng, &t, s) {
                        big.push(c2);
                    }
                    big.push(c);
                    got += 1;
                }
            }
        }
    }
    // (2c) 3D: finite universal covers of spherical 3D symbols
    {
        let mut b3: Vec<&str> = vec!["<1.1:1 3:1,1,1,1:2,2,2>", "<1.1:1 3:1,1,1,1:3,2,3>", "<1.1:1 3:1,1,1,1:3,3,2>", "<1.1:1 3:1,1,1,1:4,3,2>"];
        if th {
            b3.extend(["<1.1:1 3:1,1,1,1:3,3,3>", "<1.1:2 3:2,2,2,2:3,3,3>", "<1.1:1 3:1,1,1,1:5,3,2>", "<1.1:1 3:1,1,1,1:4,3,3>"]);
        }
        for s in b3 {
            big.push(Tab::from_dsym(&finite_universal_cover(&s.parse::<PartialDSym>().unwrap())));
        }
    }
    for t in &big {
        let perms: Vec<Vec<usize>> = (0..nperm_big).map(|_| random_perm1(&mut rng, t.size)).collect();
        let tag = format!("nt big dim={} size={}", t.dim, (t.size / 50) * 50);
        run_symbol(&mut ctx, t, &perms, &tag);
    }
    // pairs of large symbols from the same bucket (all pairs inside a bucket)
    {
        let mut buckets: BTreeMap<(usize, usize, Vec<Vec<usize>>), Vec<usize>> = BTreeMap::new();
        for (k, s) in big.iter().enumerate() {
            buckets.entry(bucket(s)).or_default().push(k);
        }
        for members in buckets.values() {
            for (j, &k) in members.iter().enumerate() {
                for &k2 in members.iter().skip(j + 1).take(4) {
                    let p = random_perm1(&mut rng, big[k2].size);
                    let tag = format!("nt big dim={} size={}", big[k].dim, (big[k].size / 50) * 50);
                    run_pair(&mut ctx, &big[k], &big[k2].renumbered(&p), &tag);
                }
            }
        }
    }
    // (3) boundary-valued branching numbers (digit counts, 2^8, 2^16, 2^31, 2^32) on small
    //     connected D-sets, all or many renumberings each
    {
        let mut rng = ctx.rng(4);
        let (quota, nassign, nperm_b) = if th { (3000, 4, 40) } else { (150, 2, 12) };
        for &(dim, nmax) in &[(2usize, 6usize), (3, 4)] {
            for n in 1..=nmax {
                let sets = dsets(dim, n, true, true, false);
                let exhaustive = sets.len() <= quota;
                let count = if exhaustive { sets.len() } else { quota };
                let perms_all = if n <= 4 { all_perms(n) } else { vec![] };
                for k in 0..count {
                    let t = if exhaustive { &sets[k] } else { &sets[rng.below(sets.len())] };
                    for a in 0..nassign {
                        let s = if a % 2 == 0 { random_vs(t, &mut rng, &CONTRAST) } else { random_vs(t, &mut rng, &BOUNDARY) };
                        let perms: Vec<Vec<usize>> = if n <= 4 {
                            perms_all.clone()
                        } else {
                            (0..nperm_b).map(|_| random_perm1(&mut rng, n)).collect()
                        };
                        run_symbol(&mut ctx, &s, &perms, &format!("nt bigv dim={} size={}", dim, n));
                    }
                }
            }
        }
    }
    // (4) histories: long runs of canonical() on many different symbols inside one call sequence
    {
        let mut rng = ctx.rng(5);
        let (nhist, len) = if th { (48, 240) } else { (8, 160) };
        let mut small: Vec<Tab> = vec![];
        for n in 2..=4 {
            small.extend(dsets(2, n, true, true, false));
        }
        small.extend(dsets(3, 2, true, true, false));
        let bases: Vec<Vec<Tab>> = vec![dsets(2, 5, true, true, false), dsets(2, 6, true, true, false), {
            let mut v = vec![];
            while v.len() < 40 {
                if let Some(t) = verif_harness::dsgen::random_dset(&mut rng, 2, 7, true) {
                    v.push(t);
                }
            }
            v
        }];
        for _ in 0..nhist {
            let h = make_history(&mut rng, &small, &bases, len, &[]);
            run_history(&mut ctx, &h, "nt history");
        }
    }
    ctx.finish();
}
