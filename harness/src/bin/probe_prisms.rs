use rust_dsymbols::delaney3d::pseudo_toroidal_cover;
use rust_dsymbols::dsets::DSet;
use std::time::Instant;
use verif_harness::d3gen::*;
fn main() {
    let stride: usize = std::env::args().nth(1).unwrap().parse().unwrap();
    let mut k = 0usize;
    for n in 1..=4 {
        let sets = if n <= 3 { labelled(2, n) } else { classes(2, n) };
        // class: 0 spherical(K>0) 1 euclid 2 hyperbolic ; kind: 0 mirror 1 stack
        let mut cnt = [[0usize; 2]; 3];
        let mut tm = [[0f64; 2]; 3];
        let mut mx = [[0f64; 2]; 3];
        let mut found = [[0usize; 2]; 3];
        for t in &sets {
            for s in symbols_2d_cryst(t) {
                let (a, _b) = curvature2(&s);
                let c = if a > 0 { 0 } else if a == 0 { 1 } else { 2 };
                for (lab, p) in prisms_over(&s, 6, true) {
                    let kind = if lab.starts_with("mirror") { 0 } else { 1 };
                    cnt[c][kind] += 1;
                    k += 1;
                    if k % stride != 0 { continue; }
                    let t1 = Instant::now();
                    let r = std::panic::catch_unwind(|| pseudo_toroidal_cover(&p.to_partial_dsym()).map(|c| c.size()));
                    let e = t1.elapsed().as_secs_f64();
                    tm[c][kind] += e;
                    if e > mx[c][kind] { mx[c][kind] = e; }
                    if let Ok(Some(_)) = r { found[c][kind] += 1; }
                    if r.is_err() { println!("PANIC {} {}", lab, p.enc()); }
                }
            }
        }
        println!("n={} sets={} counts(sph,euc,hyp x mirror,stack)={:?} sampled_time={:?} max={:?} found={:?}", n, sets.len(), cnt, tm, mx, found);
    }
}
