use rust_dsymbols::delaney3d::pseudo_toroidal_cover;
use rust_dsymbols::dsets::DSet;
use std::time::Instant;
use verif_harness::d3gen::*;
use verif_harness::dsgen::Tab;
fn main() {
    let b = parse_symbol("<1.1:4:2 4,3 4,2 4:8,4>").unwrap();
    let id: Vec<usize> = (0..=4).collect();
    let p = mirror_prisms(&b, &id).unwrap();
    let w = parse_symbol("<1.1:12 3:2 4 6 8 9 10 11 12,3 4 9 10 11 12,5 6 7 8 11 12,1 2 3 4 6 8 10 12:8 4 4,3 3,4 4 4>").unwrap();
    println!("m6 witness equal: {} in_domain {}", p == w, in_domain_3d(&p));
    let l = parse_symbol("<1.1:6:2 5 6,3 4 6,2 5 6:3,6>").unwrap();
    let tau = vec![0, 4, 6, 2, 5, 1, 3];
    let q = stacked_prisms(&l, &tau).unwrap();
    let w7 = parse_symbol("<1.1:36 3:2 5 6 8 11 12 31 32 33 34 35 36 20 23 24 26 29 30,3 4 6 13 14 15 16 17 18 21 22 24 31 32 33 34 35 36,7 8 9 10 11 12 15 16 18 25 26 27 28 29 30 33 34 36,22 24 20 23 19 21 8 11 12 14 17 18 26 29 30 32 35 36:3 4 4 4 3,3 3 3 3 3 3,4 4 4 6 6>").unwrap();
    println!("m7 witness equal: {} in_domain {}", q == w7, in_domain_3d(&q));
    println!("auts of layer: {}", automorphisms(&l).len());
    for n in 1..=6 {
        let sets = if n <= 3 { labelled(2, n) } else { classes(2, n) };
        let (mut nsym, mut neuc, mut nmir, mut nstack, mut nstack_e) = (0, 0, 0, 0, 0);
        let t0 = Instant::now();
        let mut tptc = 0.0;
        let mut found = 0;
        for t in &sets {
            for s in symbols_2d_cryst(t) {
                nsym += 1;
                let e = euclidean2(&s);
                if e { neuc += 1; }
                for (lab, p) in prisms_over(&s, 6, true) {
                    if lab.starts_with("mirror") { nmir += 1 } else { nstack += 1; if e { nstack_e += 1 } }
                    if n <= 4 || e {
                        let t1 = Instant::now();
                        let r = std::panic::catch_unwind(|| pseudo_toroidal_cover(&p.to_partial_dsym()).map(|c| c.size()));
                        tptc += t1.elapsed().as_secs_f64();
                        if let Ok(Some(_)) = r { found += 1; if !e { println!("NON-EUCLIDEAN base with cover: {} {}", lab, p.enc()); } }
                        if let Ok(None) = r { if e { println!("EUCLIDEAN base without cover: {} {}", lab, p.enc()); } }
                    }
                }
            }
        }
        println!("n={} sets={} syms={} euc={} mirror={} stack={} stack_euc={} found={} ptc_time={:.1}s total={:.1}s", n, sets.len(), nsym, neuc, nmir, nstack, nstack_e, found, tptc, t0.elapsed().as_secs_f64());
    }
}
