//! C14 — abelian invariants: drives the real `abelian_invariants` / `relator_as_vector`.
//!
//! A relation matrix is turned into a presentation: row -> word with these exponent sums, the
//! letters shuffled (seeded) and interleaved with cancelling pairs, then passed through
//! `FreeWord::new`.  The IN payload carries the letters of the `FreeWord`s the routine receives.
use rust_dsymbols::dsyms::PartialDSym;
use rust_dsymbols::fpgroups::cosets::coset_tables;
use rust_dsymbols::fpgroups::free_words::FreeWord;
use rust_dsymbols::fpgroups::invariants::{abelian_invariants, relator_as_vector};
use rust_dsymbols::fpgroups::stabilizer::stabilizer;
use rust_dsymbols::fundamental_group::fundamental_group;
use rust_dsymbols::generators::dset_generators::DSets;
use rust_dsymbols::generators::dsym_generators::{DSyms, Geometries};
use verif_harness::gen::words_upto;
use verif_harness::{enc_list, enc_lists, Ctx, Rng};

type M = Vec<Vec<isize>>;

fn letters(w: &FreeWord) -> Vec<isize> {
    w.iter().cloned().collect()
}
fn fw(raw: &[isize]) -> FreeWord {
    FreeWord::new(raw.iter().cloned())
}
fn enc_rels(rels: &[FreeWord]) -> String {
    enc_lists(&rels.iter().map(letters).collect::<Vec<_>>())
}

/// a word with exponent sums `row`: letters shuffled, `noise` cancelling pairs thrown in
fn word_of_row(rng: &mut Rng, row: &[isize], noise: usize) -> FreeWord {
    let mut raw: Vec<isize> = vec![];
    for (j, &e) in row.iter().enumerate() {
        for _ in 0..e.unsigned_abs() {
            raw.push(if e > 0 { j as isize + 1 } else { -(j as isize + 1) });
        }
    }
    if !row.is_empty() {
        for _ in 0..noise {
            let g = rng.below(row.len()) as isize + 1;
            raw.push(g);
            raw.push(-g);
        }
    }
    rng.shuffle(&mut raw);
    fw(&raw)
}

fn presentation(rng: &mut Rng, mat: &M) -> Vec<FreeWord> {
    mat.iter()
        .map(|row| {
            let noise = if rng.chance(1, 2) { rng.below(4) } else { 0 };
            word_of_row(rng, row, noise)
        })
        .collect()
}

fn is_nontrivial(mat: &M) -> bool {
    // elimination has something to do: some row or some column holds two non-zero entries
    let r = mat.len();
    let c = if r > 0 { mat[0].len() } else { 0 };
    let rowwise = mat.iter().any(|row| row.iter().filter(|&&x| x != 0).count() >= 2);
    let colwise = (0..c).any(|j| (0..r).filter(|&i| mat[i][j] != 0).count() >= 2);
    rowwise || colwise
}

fn in_range(n: usize, rels: &[FreeWord]) -> bool {
    rels.iter().all(|w| w.iter().all(|&g| g != 0 && g.unsigned_abs() <= n))
}

/// The elimination as it was before the `fix:` commit for F-C14-overflow (isize), with checked
/// arithmetic: `None` = the isize computation overflowed.  Only used to tag the cases that exercise
/// the repair (`isize-overflow` in the input histogram).
mod old_isize {
    type M = Vec<Vec<isize>>;
    fn gcdx(a: isize, b: isize) -> Option<(isize, isize, isize, isize, isize)> {
        let (mut a, mut a_next) = (a, b);
        let (mut r, mut r_next) = (1isize, 0isize);
        let (mut s, mut s_next) = (0isize, 1isize);
        while a_next != 0 {
            let q = a.checked_div(a_next)?;
            (a, a_next) = (a_next, a.checked_sub(q.checked_mul(a_next)?)?);
            (r, r_next) = (r_next, r.checked_sub(q.checked_mul(r_next)?)?);
            (s, s_next) = (s_next, s.checked_sub(q.checked_mul(s_next)?)?);
        }
        Some((a, r, s, r_next, s_next))
    }
    fn lin(v: isize, a: isize, w: isize, b: isize) -> Option<isize> {
        v.checked_mul(a)?.checked_add(w.checked_mul(b)?)
    }
    fn find_pivot(mat: &M, start: usize) -> Option<(usize, usize)> {
        let (mut row, mut col, mut min) = (start, start, isize::MAX);
        for r in start..mat.len() {
            for c in start..mat[0].len() {
                let v = mat[r][c].checked_abs()?;
                if v != 0 && v < min {
                    (row, col, min) = (r, c, v)
                }
            }
        }
        Some((row, col))
    }
    fn clear(mat: &mut M, i: usize, rows: bool) -> Option<usize> {
        let (n, m) = (mat.len(), mat[0].len());
        let mut count = 0;
        for k in (i + 1)..(if rows { n } else { m }) {
            let at = |mat: &M, a: usize, b: usize| if rows { mat[a][b] } else { mat[b][a] };
            let (e, f) = (mat[i][i], at(mat, k, i));
            let gauss = e != 0 && f.checked_rem(e)? == 0;
            let (a, b, c, d) = if gauss {
                (1, 0, f.checked_div(e)?.checked_neg()?, 1)
            } else if f != 0 {
                count += 1;
                let g = gcdx(e, f)?;
                (g.1, g.2, g.3, g.4)
            } else {
                continue;
            };
            for l in i..(if rows { m } else { n }) {
                let (v, w) = (at(mat, i, l), at(mat, k, l));
                let (x, y) = (if gauss { v } else { lin(v, a, w, b)? }, lin(v, c, w, d)?);
                if rows {
                    (mat[i][l], mat[k][l]) = (x, y)
                } else {
                    (mat[l][i], mat[l][k]) = (x, y)
                }
            }
        }
        Some(count)
    }
    pub fn run(nr_gens: usize, mut mat: M) -> Option<()> {
        if nr_gens == 0 || mat.is_empty() {
            return Some(());
        }
        let (n, m) = (mat.len(), nr_gens);
        for i in 0..n.min(m) {
            let (row, col) = find_pivot(&mat, i)?;
            if mat[row][col] != 0 {
                mat.swap(row, i);
                for r in 0..n {
                    mat[r].swap(col, i);
                }
                loop {
                    clear(&mut mat, i, true)?;
                    if clear(&mut mat, i, false)? == 0 {
                        break;
                    }
                }
            }
            mat[i][i] = mat[i][i].checked_abs()?;
        }
        let k = n.min(m);
        let mut f: Vec<isize> = (0..k).map(|i| mat[i][i]).collect();
        for i in 0..k {
            for j in (i + 1)..k {
                let (a, b) = (f[i], f[j]);
                if a != 0 && b.checked_rem(a)? != 0 {
                    let g = gcdx(a, b)?.0;
                    f[i] = g;
                    f[j] = a.checked_div(g)?.checked_mul(b)?;
                }
            }
        }
        Some(())
    }
}

fn isize_overflows(n: usize, rels: &[FreeWord]) -> bool {
    in_range(n, rels)
        && old_isize::run(n, rels.iter().map(|w| relator_as_vector::<isize>(n, w)).collect()).is_none()
}

fn ainv(ctx: &mut Ctx, op: &str, kind: &str, n: usize, rels: &[FreeWord], nt: bool) {
    if !ctx.peek_mine() {
        ctx.skip();
        return;
    }
    let ovf = if isize_overflows(n, rels) { " isize-overflow" } else { "" };
    let tags = format!("{}{}{} gens={} rels={}", if nt { "nt " } else { "" }, kind, ovf, n.min(9), rels.len().min(9));
    ctx.case(op, &tags, || format!("{} {}", n, enc_rels(rels)), || enc_list(&abelian_invariants(n, rels)));
}

fn ainv_mat(ctx: &mut Ctx, rng: &mut Rng, kind: &str, n: usize, mat: &M) {
    // the presentation is always drawn: all shards see the same random stream
    let rels = presentation(rng, mat);
    ainv(ctx, "ainv", kind, n, &rels, is_nontrivial(mat));
}

// ---------------------------------------------------------------- metamorphic variants

fn rename(w: &FreeWord, perm: &[usize], flip: &[bool]) -> FreeWord {
    FreeWord::new(w.iter().map(|&g| {
        let k = g.unsigned_abs() - 1;
        let s = if (g < 0) != flip[k] { -1 } else { 1 };
        s * (perm[k] as isize + 1)
    }))
}

fn random_short_word(rng: &mut Rng, n: usize, maxlen: usize) -> FreeWord {
    let len = rng.below(maxlen + 1);
    let mut raw = vec![];
    if n > 0 {
        for _ in 0..len {
            let g = rng.below(n) as isize + 1;
            raw.push(if rng.chance(1, 2) { g } else { -g });
        }
    }
    fw(&raw)
}

fn variants(rng: &mut Rng, n: usize, rels: &[FreeWord]) -> Vec<(&'static str, Vec<FreeWord>)> {
    let r = rels.len();
    let mut out: Vec<(&'static str, Vec<FreeWord>)> = vec![];
    // reorder
    let p = rng.permutation(r);
    out.push(("reorder", p.iter().map(|&i| rels[i].clone()).collect()));
    // invert some relators
    let mut any = false;
    let mut v: Vec<FreeWord> = rels
        .iter()
        .map(|w| if rng.chance(1, 2) { any = true; w.inverse() } else { w.clone() })
        .collect();
    if !any && r > 0 {
        v[0] = v[0].inverse();
    }
    out.push(("invert", v));
    // rotate
    out.push(("rotate", rels.iter().map(|w| w.rotated(rng.range(-7, 7) as isize)).collect()));
    // conjugate
    out.push((
        "conjugate",
        rels.iter()
            .map(|w| {
                let u = random_short_word(rng, n, 4);
                &(&u * w) * &u.inverse()
            })
            .collect(),
    ));
    // rename generators
    let perm = rng.permutation(n);
    let noflip = vec![false; n];
    out.push(("rename-generators", rels.iter().map(|w| rename(w, &perm, &noflip)).collect()));
    // invert generators
    let id: Vec<usize> = (0..n).collect();
    let mut flip: Vec<bool> = (0..n).map(|_| rng.chance(1, 2)).collect();
    if n > 0 && !flip.iter().any(|&b| b) {
        flip[0] = true;
    }
    out.push(("invert-generators", rels.iter().map(|w| rename(w, &id, &flip)).collect()));
    // append products of existing relators
    let mut v: Vec<FreeWord> = rels.to_vec();
    let extra = 1 + rng.below(3);
    for _ in 0..extra {
        let mut w = FreeWord::empty();
        if r > 0 {
            for _ in 0..(1 + rng.below(3)) {
                let x = &rels[rng.below(r)];
                w = if rng.chance(1, 3) { &w * &x.inverse() } else { &w * x };
            }
        }
        v.push(w);
    }
    out.push(("append-products", v));
    // everything at once
    let perm2 = rng.permutation(n);
    let flip2: Vec<bool> = (0..n).map(|_| rng.chance(1, 2)).collect();
    let mut v: Vec<FreeWord> = rng
        .permutation(r)
        .iter()
        .map(|&i| {
            let mut w = rels[i].rotated(rng.range(0, 5) as isize);
            if rng.chance(1, 2) {
                w = w.inverse();
            }
            let u = random_short_word(rng, n, 2);
            rename(&(&(&u * &w) * &u.inverse()), &perm2, &flip2)
        })
        .collect();
    if r > 0 {
        let a = v[rng.below(r)].clone();
        let b = v[rng.below(r)].clone();
        v.push(&a * &b);
    }
    out.push(("all-combined", v));
    out
}

fn meta(ctx: &mut Ctx, rng: &mut Rng, kind: &str, n: usize, mat: &M) {
    // always draw, so that all shards see the same random stream
    let rels = presentation(rng, mat);
    let vs = variants(rng, n, &rels);
    if !ctx.peek_mine() {
        ctx.skip();
        return;
    }
    let ovf = if isize_overflows(n, &rels) || vs.iter().any(|(_, v)| isize_overflows(n, v)) { " isize-overflow" } else { "" };
    let tags = format!("nt meta {}{} gens={} rels={}", kind, ovf, n.min(9), rels.len().min(9));
    ctx.case(
        "meta",
        &tags,
        || {
            let mut s = format!("{} {} {}", n, enc_rels(&rels), vs.len());
            for (name, v) in &vs {
                s.push_str(&format!(" {} {}", name, enc_rels(v)));
            }
            s
        },
        || {
            let mut res: Vec<Vec<usize>> = vec![abelian_invariants(n, &rels)];
            for (_, v) in &vs {
                res.push(abelian_invariants(n, v));
            }
            enc_lists(&res)
        },
    );
}

// ---------------------------------------------------------------- matrix universes

fn all_matrices(r: usize, c: usize, lo: isize, hi: isize) -> Vec<M> {
    let k = (hi - lo + 1) as usize;
    let cells = r * c;
    let total = k.pow(cells as u32);
    let mut out = Vec::with_capacity(total);
    for mut code in 0..total {
        let mut m = vec![vec![0isize; c]; r];
        for i in 0..cells {
            m[i / c][i % c] = lo + (code % k) as isize;
            code /= k;
        }
        out.push(m);
    }
    out
}

fn nth_matrix(r: usize, c: usize, lo: isize, hi: isize, mut code: usize) -> M {
    let k = (hi - lo + 1) as usize;
    let mut m = vec![vec![0isize; c]; r];
    for i in 0..r * c {
        m[i / c][i % c] = lo + (code % k) as isize;
        code /= k;
    }
    m
}

fn random_matrix(rng: &mut Rng, r: usize, c: usize, bound: i64) -> M {
    (0..r).map(|_| (0..c).map(|_| rng.range(-bound, bound) as isize).collect()).collect()
}

fn matmul(a: &M, b: &M) -> M {
    let (r, k) = (a.len(), b.len());
    let c = if k > 0 { b[0].len() } else { 0 };
    (0..r).map(|i| (0..c).map(|j| (0..k).map(|l| a[i][l] * b[l][j]).sum()).collect()).collect()
}

fn identity(n: usize) -> M {
    (0..n).map(|i| (0..n).map(|j| if i == j { 1 } else { 0 }).collect()).collect()
}

/// product of `steps` elementary operations (add multiple of a row, swap, negate): det = ±1
fn random_unimodular(rng: &mut Rng, n: usize, steps: usize) -> M {
    let mut u = identity(n);
    if n < 2 {
        if n == 1 && rng.chance(1, 2) {
            u[0][0] = -1;
        }
        return u;
    }
    for _ in 0..steps {
        let i = rng.below(n);
        let mut j = rng.below(n);
        if j == i {
            j = (j + 1) % n;
        }
        match rng.below(4) {
            0 => u.swap(i, j),
            1 => {
                for x in u[i].iter_mut() {
                    *x = -*x;
                }
            }
            _ => {
                let f = rng.range(-2, 2) as isize;
                for c in 0..n {
                    let v = u[j][c];
                    u[i][c] += f * v;
                }
            }
        }
    }
    u
}

fn max_abs(m: &M) -> isize {
    m.iter().flat_map(|r| r.iter()).map(|x| x.abs()).max().unwrap_or(0)
}

fn diag_matrix(r: usize, c: usize, d: &[isize]) -> M {
    let mut m = vec![vec![0isize; c]; r];
    for (i, &x) in d.iter().enumerate() {
        if i < r && i < c {
            m[i][i] = x;
        }
    }
    m
}

/// U * D * V with small unimodular U, V — a matrix whose invariant factors are those of diag(d)
fn hidden(rng: &mut Rng, r: usize, c: usize, d: &[isize], cap: isize) -> M {
    let dm = diag_matrix(r, c, d);
    for _ in 0..20 {
        let (su, sv) = (1 + rng.below(5), 1 + rng.below(5));
        let u = random_unimodular(rng, r, su);
        let v = random_unimodular(rng, c, sv);
        let m = matmul(&matmul(&u, &dm), &v);
        if max_abs(&m) <= cap {
            return m;
        }
    }
    dm
}

/// all numbers 2^a 3^b 5^c 7^d <= bound
fn smooth_numbers(bound: isize) -> Vec<isize> {
    let mut v = vec![];
    for x in 1..=bound {
        let mut y = x;
        for p in [2, 3, 5, 7] {
            while y % p == 0 {
                y /= p;
            }
        }
        if y == 1 {
            v.push(x);
        }
    }
    v
}

/// number of prime factors counted with multiplicity (of a 7-smooth number)
fn omega(mut x: isize) -> usize {
    let mut k = 0;
    for p in [2, 3, 5, 7] {
        while x % p == 0 {
            x /= p;
            k += 1;
        }
    }
    k
}

/// like `ainv_mat`, but the words are spelled without cancelling noise (long words stay cheap)
fn ainv_mat_plain(ctx: &mut Ctx, rng: &mut Rng, kind: &str, n: usize, mat: &M) {
    let rels: Vec<FreeWord> = mat.iter().map(|row| word_of_row(rng, row, 0)).collect();
    ainv(ctx, "ainv", kind, n, &rels, is_nontrivial(mat));
}

fn structured(rng: &mut Rng, which: usize) -> (&'static str, usize, M) {
    let pool: [isize; 12] = [0, 1, 2, 3, 4, 6, 9, 10, 12, 15, -2, -6];
    match which % 8 {
        0 => {
            // rank-deficient: product of r×k and k×c
            let r = 2 + rng.below(5);
            let c = 2 + rng.below(5);
            let k = 1 + rng.below(r.min(c) - 1);
            let a = random_matrix(rng, r, k, 3);
            let b = random_matrix(rng, k, c, 3);
            ("rank-deficient", c, matmul(&a, &b))
        }
        1 => {
            // diagonal, entries not a divisibility chain
            let r = 1 + rng.below(6);
            let c = 1 + rng.below(6);
            let d: Vec<isize> = (0..r.min(c)).map(|_| pool[rng.below(pool.len())]).collect();
            ("diagonal-non-chain", c, diag_matrix(r, c, &d))
        }
        2 => {
            let r = 1 + rng.below(5);
            let c = 1 + rng.below(5);
            let d: Vec<isize> = (0..r.min(c)).map(|_| pool[rng.below(pool.len())]).collect();
            ("hidden-diagonal", c, hidden(rng, r, c, &d, 60))
        }
        3 => {
            let n = 1 + rng.below(6);
            let steps = 2 + rng.below(10);
            ("unimodular", n, random_unimodular(rng, n, steps))
        }
        4 => {
            // zero rows / columns inserted into a random matrix
            let r = 1 + rng.below(6);
            let c = 1 + rng.below(6);
            let mut m = random_matrix(rng, r, c, 5);
            for _ in 0..(1 + rng.below(2)) {
                let i = rng.below(r);
                for x in m[i].iter_mut() {
                    *x = 0;
                }
            }
            if rng.chance(2, 3) {
                let j = rng.below(c);
                for row in m.iter_mut() {
                    row[j] = 0;
                }
            }
            ("zero-rows-cols", c, m)
        }
        5 => {
            // more generators than relators
            let r = 1 + rng.below(3);
            let c = r + 1 + rng.below(6 - r);
            ("more-gens", c, random_matrix(rng, r, c, 9))
        }
        6 => {
            // more relators than generators
            let c = 1 + rng.below(4);
            let r = c + 1 + rng.below(5);
            ("more-rels", c, random_matrix(rng, r, c, 9))
        }
        _ => {
            // duplicated / dependent rows
            let r = 2 + rng.below(4);
            let c = 1 + rng.below(6);
            let mut m = random_matrix(rng, r, c, 6);
            let i = rng.below(r);
            let mut j = rng.below(r);
            if j == i {
                j = (j + 1) % r;
            }
            let f = rng.range(-2, 2) as isize;
            for k in 0..c {
                m[i][k] = f * m[j][k];
            }
            ("dependent-rows", c, m)
        }
    }
}

// ---------------------------------------------------------------- relator_as_vector

fn rav(ctx: &mut Ctx, n: usize, raw: &[isize]) {
    let w = fw(raw);
    let red = letters(&w);
    let nt = if red.len() != raw.len() { "nt " } else { "" };
    let tags = format!("{}rav gens={} len={}", nt, n.min(9), raw.len().min(9));
    ctx.case(
        "rav",
        &tags,
        || format!("{} {} {}", n, enc_list(raw), enc_list(&red)),
        || enc_list(&relator_as_vector::<isize>(n, &w)),
    );
}

fn random_raw_word(rng: &mut Rng, n: usize, maxlen: usize) -> Vec<isize> {
    let len = rng.below(maxlen + 1);
    let mut w: Vec<isize> = Vec::with_capacity(len);
    for _ in 0..len {
        if rng.below(6) == 0 && !w.is_empty() {
            let l = w[w.len() - 1];
            w.push(-l);
        } else {
            let x = rng.range(1, n as i64) as isize;
            w.push(if rng.chance(1, 2) { x } else { -x });
        }
    }
    w
}

// ---------------------------------------------------------------- presentations from D-symbols

fn dsym_presentations(ctx: &mut Ctx, max_size: usize, max_index: usize) {
    for dset in DSets::new(2, max_size) {
        for ds in DSyms::new(&dset, Geometries::All) {
            // SimpleDSym::v underflows for (0, 2, d) in checked builds (C02's business): go through text
            let Ok(ds) = ds.to_string().parse::<PartialDSym>() else { continue };
            let fg = fundamental_group(&ds);
            let n = fg.nr_generators();
            if n <= 6 && fg.relators.len() <= 9 {
                ainv(ctx, "ainv", "dsym-fundamental-group", n, &fg.relators, true);
            }
            if n == 0 || n > 4 {
                continue;
            }
            for table in coset_tables(n, &fg.relators, max_index).take(12) {
                let (sgens, srels) = stabilizer(0, fg.relators.clone(), &table);
                if sgens.len() <= 6 && srels.len() <= 9 {
                    ainv(ctx, "ainv", "stabilizer-presentation", sgens.len(), &srels, true);
                }
            }
        }
    }
}

fn main() {
    let mut ctx = Ctx::from_args();
    let th = ctx.thorough();

    // (0) regression corpus: F-C14-overflow (isize overflow in diagonalize_in_place on small matrices;
    //     repaired by the fix: commit that computes over BigInt)
    let plain = |m: &[&[isize]]| -> Vec<FreeWord> {
        m.iter()
            .map(|row| {
                let mut w = vec![];
                for (j, &e) in row.iter().enumerate() {
                    for _ in 0..e.unsigned_abs() {
                        w.push(if e > 0 { j as isize + 1 } else { -(j as isize + 1) });
                    }
                }
                fw(&w)
            })
            .collect()
    };
    // 5 generators, 5 relators, |x| ≤ 8: the isize code panicked at invariants.rs:81, exact answer [3776]
    ainv(&mut ctx, "ainv", "regress", 5,
        &plain(&[&[-4, -5, -7, 5, -5], &[3, -7, 8, 8, -2], &[4, 8, 8, -6, 6], &[3, 0, 7, 0, -6], &[4, -7, -4, -4, 0]]), true);
    // 6 generators, 8 relators, |x| ≤ 9: an unchecked isize build answered [3], exact answer [] (trivial group)
    ainv(&mut ctx, "ainv", "regress", 6,
        &plain(&[&[7, 7, 3, -1, 4, 2], &[-2, 5, 8, 3, 2, 1], &[-8, 2, -2, 4, -3, 7], &[-3, -2, -2, -6, 7, -6],
                 &[3, -4, 7, 7, 5, -7], &[9, -9, 4, 3, -6, 0], &[4, -7, -7, -5, -9, 1], &[-4, -2, 6, 9, 5, 8]]), true);
    // seeded change C14-m7 (fixed schedule instead of the open-ended rows/cols loop): a pivot that has
    // to shrink three times in successive passes (72 -> .. , 40 -> 20 -> 10 -> 5)
    ainv(&mut ctx, "ainv", "regress", 3, &plain(&[&[0, 72, 45], &[-40, -60, 0]]), true);
    ainv(&mut ctx, "ainv", "regress", 5,
        &plain(&[&[0, 0, 8, -9, 8], &[0, 0, -8, 0, 0], &[-9, 9, 0, 0, 0], &[0, 2, 0, 0, 0], &[0, 5, 6, 0, 0]]), true);
    ainv(&mut ctx, "ainv", "regress", 3, &plain(&[&[20, 0, 30], &[-72, -16, 0], &[0, 48, 27]]), true);
    // fixed points of the test-suite
    let t = |rows: &[&[isize]]| -> Vec<FreeWord> { rows.iter().map(|r| fw(r)).collect() };
    ainv(&mut ctx, "ainv", "fixed", 3, &t(&[&[1, 2, -1, -2], &[1, 3, -1, -3], &[2, 3, -2, -3]]), true);
    ainv(&mut ctx, "ainv", "fixed", 3, &t(&[&[1, 1], &[2, 2], &[3, 3], &[1, 2, 1, 2], &[1, 3, 1, 3], &[2, 3, 2, 3]]), true);
    ainv(&mut ctx, "ainv", "fixed", 2, &t(&[&[1, 1, 1, 1], &[2, 2, 2, 2, 2, 2]]), false);
    // empty relator list, zero generators, empty relators
    for n in 0..=6 {
        ainv(&mut ctx, "ainv", "no-relators", n, &[], false);
        for k in 1..=3 {
            ainv(&mut ctx, "ainv", "empty-relators", n, &vec![FreeWord::empty(); k], false);
        }
    }
    // letters outside ±1..±n: not a presentation on n generators (index panics, both sides)
    ainv(&mut ctx, "ainv", "out-of-range", 0, &t(&[&[1]]), false);
    ainv(&mut ctx, "ainv", "out-of-range", 1, &t(&[&[1], &[-2]]), false);
    ainv(&mut ctx, "ainv", "out-of-range", 2, &t(&[&[1, 3]]), false);

    // (1) exhaustive small matrices, entries −2..2
    let mut rng = ctx.rng(1);
    let mut shapes = vec![(1, 1), (1, 2), (2, 1), (2, 2), (1, 3), (3, 1), (2, 3), (3, 2)];
    if th {
        shapes.push((1, 4));
        shapes.push((4, 1));
        shapes.push((2, 4));
        shapes.push((4, 2));
    }
    for &(r, c) in &shapes {
        for m in all_matrices(r, c, -2, 2) {
            ainv_mat(&mut ctx, &mut rng, "exhaustive", c, &m);
        }
    }
    // entries −3..3 for 2×2 (2401)
    for m in all_matrices(2, 2, -3, 3) {
        ainv_mat(&mut ctx, &mut rng, "exhaustive", 2, &m);
    }
    // (2) 3×3, entries −2..2: sampled (quick) / exhaustive (thorough)
    let mut rng = ctx.rng(2);
    let total33 = 5usize.pow(9);
    if th {
        for code in 0..total33 {
            if !ctx.peek_mine() {
                ctx.skip();
                continue;
            }
            let m = nth_matrix(3, 3, -2, 2, code);
            let mut r = Rng::new(ctx.seed ^ (code as u64).wrapping_mul(0x9E37));
            let rels = presentation(&mut r, &m);
            ainv(&mut ctx, "ainv", "exhaustive3x3", 3, &rels, is_nontrivial(&m));
        }
    } else {
        for _ in 0..20000 {
            let code = rng.below(total33);
            let m = nth_matrix(3, 3, -2, 2, code);
            ainv_mat(&mut ctx, &mut rng, "sampled3x3", 3, &m);
        }
    }
    // (3) random up to 6×6 (and up to 8 relators), |x| ≤ 9
    let mut rng = ctx.rng(3);
    for _ in 0..(if th { 400000 } else { 25000 }) {
        let rmax = if rng.chance(1, 5) { 8 } else { 6 };
        let r = 1 + rng.below(rmax);
        let c = 1 + rng.below(6);
        let bound = [1, 2, 3, 5, 9][rng.below(5)];
        let m = random_matrix(&mut rng, r, c, bound);
        ainv_mat(&mut ctx, &mut rng, "random", c, &m);
    }
    // (4) structured
    let mut rng = ctx.rng(4);
    for k in 0..(if th { 160000 } else { 16000 }) {
        let (kind, n, m) = structured(&mut rng, k);
        ainv_mat(&mut ctx, &mut rng, kind, n, &m);
    }
    // (5) metamorphic: every 2×2 in −2..2, then random / structured
    let mut rng = ctx.rng(5);
    for m in all_matrices(2, 2, -2, 2) {
        meta(&mut ctx, &mut rng, "exhaustive", 2, &m);
    }
    for k in 0..(if th { 60000 } else { 4000 }) {
        if k % 2 == 0 {
            let r = 1 + rng.below(6);
            let c = 1 + rng.below(6);
            let bound = [1, 2, 3, 5, 9][rng.below(5)];
            let m = random_matrix(&mut rng, r, c, bound);
            meta(&mut ctx, &mut rng, "random", c, &m);
        } else {
            let (kind, n, m) = structured(&mut rng, k / 2);
            meta(&mut ctx, &mut rng, kind, n, &m);
        }
    }
    // (5b) smooth entries: small sparse matrices whose non-zero entries are highly composite
    //      (2^a 3^b 5^c 7^d <= 200), so that a pivot has to shrink through several gcd steps in
    //      successive row / column passes (long rows-cols-rows-cols chains at one pivot)
    let mut rng = ctx.rng(51);
    let smooth = smooth_numbers(200);
    let rich: Vec<isize> = smooth.iter().cloned().filter(|&x| omega(x) >= 3).collect();
    let shapes: [(usize, usize); 10] = [(5, 5), (3, 3), (5, 5), (3, 4), (5, 5), (4, 4), (5, 5), (4, 5), (4, 4), (5, 4)];
    for k in 0..(if th { 1_000_000 } else { 60_000 }) {
        let (r, c) = shapes[k % shapes.len()];
        let pzero = if r * c >= 16 { 60 } else { 40 };
        let m: M = (0..r)
            .map(|_| {
                (0..c)
                    .map(|_| {
                        if rng.below(100) < pzero {
                            0
                        } else {
                            let pool = if rng.chance(7, 10) { &rich } else { &smooth };
                            let x = pool[rng.below(pool.len())];
                            if rng.chance(1, 2) { x } else { -x }
                        }
                    })
                    .collect()
            })
            .collect();
        ainv_mat_plain(&mut ctx, &mut rng, "smooth-sparse", c, &m);
    }
    // (5c) U·D·V with composite pivots (40, 72, 180, ...) and a smooth perturbation
    let mut rng = ctx.rng(52);
    let pivots: [isize; 14] = [40, 72, 180, 120, 90, 60, 84, 126, 48, 36, 150, 16, 24, 200];
    for _ in 0..(if th { 200_000 } else { 10_000 }) {
        let r = 2 + rng.below(3);
        let c = 2 + rng.below(3);
        let d: Vec<isize> = (0..r.min(c)).map(|_| if rng.chance(1, 6) { 0 } else { pivots[rng.below(pivots.len())] }).collect();
        let mut m = hidden(&mut rng, r, c, &d, 400);
        for _ in 0..rng.below(3) {
            let (i, j) = (rng.below(r), rng.below(c));
            let x = rich[rng.below(rich.len())];
            m[i][j] += if rng.chance(1, 2) { x } else { -x };
        }
        ainv_mat_plain(&mut ctx, &mut rng, "composite-pivots", c, &m);
    }
    // (6) relator_as_vector
    for n in 1..=2usize {
        for raw in words_upto(n as isize, if th { 6 } else { 5 }, false) {
            rav(&mut ctx, n, &raw);
        }
    }
    rav(&mut ctx, 0, &[]);
    rav(&mut ctx, 1, &[2]);
    rav(&mut ctx, 2, &[-3, 1]);
    let mut rng = ctx.rng(6);
    for _ in 0..(if th { 40000 } else { 4000 }) {
        let n = 1 + rng.below(6);
        let raw = random_raw_word(&mut rng, n, 40);
        rav(&mut ctx, n, &raw);
    }
    // (7) presentations of D-symbol fundamental groups and of stabilisers in them
    if th {
        dsym_presentations(&mut ctx, 8, 4);
    } else {
        dsym_presentations(&mut ctx, 5, 3);
    }
    // (8) larger entries than the property asks for (words of up to ~2500 letters)
    let mut rng = ctx.rng(8);
    for _ in 0..(if th { 3000 } else { 300 }) {
        let r = 2 + rng.below(3);
        let c = 2 + rng.below(3);
        let mag = [30i64, 100, 300, 600][rng.below(4)];
        let m = random_matrix(&mut rng, r, c, mag);
        if !ctx.peek_mine() {
            ctx.skip();
            continue;
        }
        let mut r2 = Rng::new(ctx.seed.wrapping_mul(77).wrapping_add(rng.next_u64()));
        let rels = presentation(&mut r2, &m);
        ainv(&mut ctx, "ainv_big", "large-entries", c, &rels, true);
    }
    ctx.finish();
}
