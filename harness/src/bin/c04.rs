//! C04 — minimal image, automorphisms, morphism search, fold.
//!
//! Universes are built here, independently of the library's generators:
//! * every connected complete D-set up to isomorphism (one BFS-numbered table per class),
//!   together with the order of its automorphism group (number of start chambers whose BFS
//!   renumbering reproduces the table);
//! * branching assignments on the (i,i+1)-orbits that break the symmetries of the D-set;
//! * k-sheeted covers (k = 2, 3) from sheet permutations on the edges, kept when the result
//!   is a connected D-symbol (orbit lengths divide the base degrees, far operations commute).
//!
//! Every function of the property is generic over the `DSet` / `DSym` traits.  The ops
//! `minimg ismin auts morph fold cover` hold the tables as `PartialDSym` / `PartialDSet`; the ops
//! with suffix `_s` ask the same questions of the SAME tables held as `SimpleDSym` / `SimpleDSet`
//! (`From<Partial…>`), and of the objects the library's own generators yield (`DSets::new`,
//! `DSyms::new(&dset, Geometries::…)`), asked directly without a round trip.  The driver runs the
//! same model and the same Spec on both.
use rust_dsymbols::covers::finite_universal_cover;
use rust_dsymbols::derived::minimal_image;
use rust_dsymbols::dsyms::{DSym, PartialDSym, SimpleDSym};
use rust_dsymbols::dsets::{DSet, SimpleDSet};
use rust_dsymbols::generators::dset_generators::DSets;
use rust_dsymbols::generators::dsym_generators::{DSyms, Geometries};
use rust_dsymbols::util::partitions::Partition;
use std::collections::HashSet;
use verif_harness::dsgen::Tab;
use verif_harness::{enc_lists, join, Ctx, Rng};

// ---------------------------------------------------------------------------------
// D-sets up to isomorphism

/// all complete D-sets on 1..=n whose numbering is the BFS numbering from chamber 1
/// (scan chambers ascending, operations ascending, new chambers get the next number);
/// every pointed connected D-set has exactly one such table
fn pointed_dsets(dim: usize, n: usize) -> Vec<Tab> {
    fn rec(dim: usize, n: usize, pos: usize, created: usize, op: &mut Vec<Vec<usize>>, out: &mut Vec<Tab>) {
        if pos == n * (dim + 1) {
            out.push(Tab { size: n, dim, op: op.clone(), v: vec![vec![0; n + 1]; dim] });
            return;
        }
        let d = pos / (dim + 1) + 1;
        let i = pos % (dim + 1);
        if d > created {
            return; // chamber d can no longer be reached
        }
        if op[i][d] != 0 {
            rec(dim, n, pos + 1, created, op, out);
            return;
        }
        op[i][d] = d;
        rec(dim, n, pos + 1, created, op, out);
        op[i][d] = 0;
        for e in (d + 1)..=created {
            if op[i][e] == 0 {
                op[i][d] = e;
                op[i][e] = d;
                rec(dim, n, pos + 1, created, op, out);
                op[i][d] = 0;
                op[i][e] = 0;
            }
        }
        if created < n {
            let e = created + 1;
            op[i][d] = e;
            op[i][e] = d;
            rec(dim, n, pos + 1, e, op, out);
            op[i][d] = 0;
            op[i][e] = 0;
        }
    }
    let mut out = vec![];
    let mut op = vec![vec![0usize; n + 1]; dim + 1];
    rec(dim, n, 0, 1, &mut op, &mut out);
    out
}

/// op table after BFS renumbering from `start` (row-major: chamber, then index)
fn bfs_code(t: &Tab, start: usize) -> Vec<usize> {
    let mut num = vec![0usize; t.size + 1];
    let mut order = vec![start];
    num[start] = 1;
    let mut k = 0;
    let mut code = Vec::with_capacity(t.size * (t.dim + 1));
    while k < order.len() {
        let d = order[k];
        k += 1;
        for i in 0..=t.dim {
            let e = t.op[i][d];
            if num[e] == 0 {
                order.push(e);
                num[e] = order.len();
            }
            code.push(num[e]);
        }
    }
    code
}

/// (one table per isomorphism class of connected D-sets, order of its automorphism group)
fn dsets_up_to_iso(dim: usize, n: usize, commuting: bool) -> Vec<(Tab, usize)> {
    let mut out = vec![];
    for t in pointed_dsets(dim, n) {
        if commuting && !t.far_commute() {
            continue;
        }
        let own = bfs_code(&t, 1);
        let mut least = true;
        let mut aut = 0;
        for c in 1..=n {
            let code = bfs_code(&t, c);
            if code < own {
                least = false;
                break;
            }
            if code == own {
                aut += 1;
            }
        }
        if least {
            out.push((t, aut));
        }
    }
    out
}

// ---------------------------------------------------------------------------------
// branching assignments

fn orbits(t: &Tab) -> Vec<(usize, usize)> {
    let mut o = vec![];
    for i in 0..t.dim {
        for d in t.orbit_reps2(i) {
            o.push((i, d));
        }
    }
    o
}

fn assign(t: &Tab, orbs: &[(usize, usize)], vals: &[usize]) -> Tab {
    let mut s = t.clone();
    for (k, &(i, d)) in orbs.iter().enumerate() {
        s.set_v_orbit(i, d, vals[k]);
    }
    s
}

/// every assignment of values from `vals` to the orbits if there are at most `cap`, otherwise
/// `cap` seeded ones (always containing the constant assignment first)
fn assignments(t: &Tab, vals: &[usize], cap: usize, rng: &mut Rng) -> Vec<Tab> {
    let orbs = orbits(t);
    let k = orbs.len();
    let total = (vals.len() as f64).powi(k as i32);
    let mut out = vec![];
    if total <= cap as f64 {
        let mut idx = vec![0usize; k];
        loop {
            let vs: Vec<usize> = idx.iter().map(|&j| vals[j]).collect();
            out.push(assign(t, &orbs, &vs));
            let mut p = 0;
            loop {
                if p >= k {
                    return out;
                }
                idx[p] += 1;
                if idx[p] < vals.len() {
                    break;
                }
                idx[p] = 0;
                p += 1;
            }
        }
    } else {
        let mut seen = HashSet::new();
        let first: Vec<usize> = vec![vals[0]; k];
        seen.insert(first.clone());
        out.push(assign(t, &orbs, &first));
        let mut tries = 0;
        while out.len() < cap && tries < 20 * cap {
            tries += 1;
            let vs: Vec<usize> = (0..k).map(|_| vals[rng.below(vals.len())]).collect();
            if seen.insert(vs.clone()) {
                out.push(assign(t, &orbs, &vs));
            }
        }
        out
    }
}

// ---------------------------------------------------------------------------------
// covers

fn all_perms(k: usize) -> Vec<Vec<usize>> {
    fn rec(k: usize, cur: &mut Vec<usize>, used: &mut Vec<bool>, out: &mut Vec<Vec<usize>>) {
        if cur.len() == k {
            out.push(cur.clone());
            return;
        }
        for x in 0..k {
            if !used[x] {
                used[x] = true;
                cur.push(x);
                rec(k, cur, used, out);
                cur.pop();
                used[x] = false;
            }
        }
    }
    let mut out = vec![];
    rec(k, &mut vec![], &mut vec![false; k], &mut out);
    out
}

/// a k-sheeted cover of the symbol `t` from seeded sheet permutations on the edges
/// (chamber (sheet s, d) is numbered s·n + d as in `derived::cover`); None if the lift is not a
/// connected D-symbol covering `t`
fn random_cover(t: &Tab, k: usize, rng: &mut Rng) -> Option<Tab> {
    let n = t.size;
    let perms = all_perms(k);
    let invols: Vec<Vec<usize>> = perms.iter().filter(|p| (0..k).all(|x| p[p[x]] == x)).cloned().collect();
    let mut c = Tab { size: k * n, dim: t.dim, op: vec![vec![0; k * n + 1]; t.dim + 1], v: vec![vec![0; k * n + 1]; t.dim] };
    for i in 0..=t.dim {
        for d in 1..=n {
            let e = t.op[i][d];
            if e < d {
                continue;
            }
            let p = if e == d { &invols[rng.below(invols.len())] } else { &perms[rng.below(perms.len())] };
            for s in 0..k {
                c.op[i][s * n + d] = p[s] * n + e;
                c.op[i][p[s] * n + e] = s * n + d;
            }
        }
    }
    if !c.is_connected() || !c.far_commute() {
        return None;
    }
    for i in 0..t.dim {
        for d in 1..=k * n {
            let base = (d - 1) % n + 1;
            let m = t.r(i, i + 1, base) * t.v[i][base];
            let r = c.r(i, i + 1, d);
            if m % r != 0 {
                return None;
            }
            c.v[i][d] = m / r;
        }
    }
    Some(c)
}

fn covers_of(t: &Tab, ks: &[usize], tries: usize, keep: usize, rng: &mut Rng) -> Vec<Tab> {
    let mut out: Vec<Tab> = vec![];
    for &k in ks {
        let mut got = 0;
        for _ in 0..tries {
            if got >= keep {
                break;
            }
            if let Some(c) = random_cover(t, k, rng) {
                if !out.contains(&c) {
                    out.push(c);
                    got += 1;
                }
            }
        }
    }
    out
}

// ---------------------------------------------------------------------------------
// cases

fn enc_maps(maps: &[Vec<usize>]) -> String {
    enc_lists(maps)
}

fn ismin(ctx: &mut Ctx, kind: usize, t: &Tab, tag: &str) {
    ctx.case("ismin", tag, || format!("{} {}", kind, t.enc()), || {
        let b = if kind == 0 { t.to_partial_dset().is_minimal() } else { t.to_partial_dsym().is_minimal() };
        (if b { "1" } else { "0" }).to_string()
    });
}

fn minimg(ctx: &mut Ctx, t: &Tab, tag: &str) {
    ctx.case("minimg", tag, || t.enc(), || {
        let ds = t.to_partial_dsym();
        let flag = ds.is_minimal();
        let img = minimal_image(&ds);
        format!("{} {}", if flag { 1 } else { 0 }, Tab::from_dsym(&img).enc())
    });
}

fn auts(ctx: &mut Ctx, kind: usize, t: &Tab, tag: &str) {
    ctx.case("auts", tag, || format!("{} {}", kind, t.enc()), || {
        let maps = if kind == 0 { t.to_partial_dset().automorphisms() } else { t.to_partial_dsym().automorphisms() };
        enc_maps(&maps)
    });
}

/// `a.morphism(&b, e)` for every e in 0..=|b|+1 (None = empty list)
fn morph(ctx: &mut Ctx, kind: usize, a: &Tab, b: &Tab, tag: &str) {
    ctx.case("morph", tag, || format!("{} {} {}", kind, a.enc(), b.enc()), || {
        let mut res: Vec<Vec<usize>> = vec![];
        if kind == 0 {
            let (x, y) = (a.to_partial_dset(), b.to_partial_dset());
            for e in 0..=b.size + 1 {
                res.push(x.morphism(&y, e).unwrap_or(vec![]));
            }
        } else {
            let (x, y) = (a.to_partial_dsym(), b.to_partial_dsym());
            for e in 0..=b.size + 1 {
                res.push(x.morphism(&y, e).unwrap_or(vec![]));
            }
        }
        enc_maps(&res)
    });
}

fn cover_case(ctx: &mut Ctx, base: &Tab, cov: &Tab, tag: &str) {
    ctx.case("cover", tag, || format!("{} {}", base.enc(), cov.enc()), || {
        let x = minimal_image(&base.to_partial_dsym());
        let y = minimal_image(&cov.to_partial_dsym());
        format!("{} {}", Tab::from_dsym(&x).enc(), Tab::from_dsym(&y).enc())
    });
}

/// the raw partition through the public API, in this order of calls: `find(&d)` for d = 1..=n,
/// then `find(&(n + 1))` and `find(&0)` (keys the partition has never seen), then
/// `classes(&[1..=n])`.  (Every `find` goes through the `UnsafeCell`: interning and path
/// compression happen in exactly this order in the model as well.)
fn raw_partition(n: usize, p: &Partition<usize>) -> (Vec<usize>, Vec<usize>, Vec<Vec<usize>>) {
    let reps: Vec<usize> = (1..=n).map(|d| p.find(&d)).collect();
    let probes = vec![p.find(&(n + 1)), p.find(&0)];
    let elms: Vec<usize> = (1..=n).collect();
    let classes = p.classes(&elms);
    (reps, probes, classes)
}

/// labels of 1..=n by first member of the class (what the Spec looks at)
fn labels(reps: &[usize]) -> Vec<usize> {
    let n = reps.len();
    (1..=n).map(|d| 1 + (0..n).position(|k| reps[k] == reps[d - 1]).unwrap()).collect()
}

/// flags of the successive `fold`s, first-member labels, then the raw partition: the
/// representatives `find` returns, the two probes, the class listing
fn fold_with<T: DSet>(ds: &T, pairs: &[(usize, usize)]) -> String {
    let mut p: Partition<usize> = Partition::new();
    let mut out: Vec<usize> = vec![];
    for &(d, e) in pairs {
        match ds.fold(&p, d, e) {
            Some(q) => {
                p = q;
                out.push(1);
            }
            None => out.push(0),
        }
    }
    let (reps, probes, classes) = raw_partition(ds.size(), &p);
    out.extend(labels(&reps));
    out.extend(reps);
    out.extend(probes);
    format!("{} {}", join(&out), enc_lists(&classes))
}

fn fold_case(ctx: &mut Ctx, kind: usize, t: &Tab, pairs: &[(usize, usize)], tag: &str) {
    ctx.case(
        "fold",
        tag,
        || {
            let flat: Vec<usize> = pairs.iter().flat_map(|&(d, e)| [d, e]).collect();
            format!("{} {} {} {}", kind, t.enc(), pairs.len(), join(&flat))
        },
        || {
            if kind == 0 {
                fold_with(&t.to_partial_dset(), pairs)
            } else {
                fold_with(&t.to_partial_dsym(), pairs)
            }
        },
    );
}

fn fold_cases(ctx: &mut Ctx, kind: usize, t: &Tab, rng: &mut Rng, exhaustive_pairs: bool, tag: &str) {
    let n = t.size;
    if n < 2 {
        return;
    }
    // what minimal_image does
    let seq: Vec<(usize, usize)> = (2..=n).map(|d| (1, d)).collect();
    fold_case(ctx, kind, t, &seq, tag);
    if exhaustive_pairs {
        for d in 1..=n {
            for e in 1..=n {
                if d != e {
                    fold_case(ctx, kind, t, &[(d, e)], tag);
                }
            }
        }
    }
    // a seeded history
    let len = 2 + rng.below(3);
    let hist: Vec<(usize, usize)> = (0..len).map(|_| (1 + rng.below(n), 1 + rng.below(n))).collect();
    fold_case(ctx, kind, t, &hist, tag);
}

/// everything asked about one symbol
fn symbol_cases(ctx: &mut Ctx, s: &Tab, aut: usize, rng: &mut Rng, exhaustive_pairs: bool, base_tag: &str) {
    let nt = if s.size >= 2 { "nt " } else { "" };
    let tag = format!("{}{}", nt, base_tag);
    let atag = format!("{}{}", if aut > 1 { "nt " } else { "" }, base_tag);
    minimg(ctx, s, &tag);
    auts(ctx, 1, s, &atag);
    morph(ctx, 1, s, s, &tag);
    if ctx.peek_mine() {
        // symbol → its minimal image (the library's answer is only an input here: the Spec
        // searches for morphisms itself)
        let img = Tab::from_dsym(&minimal_image(&s.to_partial_dsym()));
        morph(ctx, 1, s, &img, &tag);
    } else {
        ctx.skip();
    }
    fold_cases(ctx, 1, s, rng, exhaustive_pairs, &tag);
}

// ---------------------------------------------------------------------------------
// the same questions through any implementation of the traits (ops with suffix `_s`)

fn minimg_on<T: DSym>(ctx: &mut Ctx, op: &str, t: &Tab, ds: &T, tag: &str) {
    ctx.case(op, tag, || t.enc(), || {
        let flag = ds.is_minimal();
        let img = minimal_image(ds);
        format!("{} {}", if flag { 1 } else { 0 }, Tab::from_dsym(&img).enc())
    });
}

fn ismin_on<T: DSet>(ctx: &mut Ctx, op: &str, kind: usize, t: &Tab, ds: &T, tag: &str) {
    ctx.case(op, tag, || format!("{} {}", kind, t.enc()), || (if ds.is_minimal() { "1" } else { "0" }).to_string());
}

fn auts_on<T: DSet>(ctx: &mut Ctx, op: &str, kind: usize, t: &Tab, ds: &T, tag: &str) {
    ctx.case(op, tag, || format!("{} {}", kind, t.enc()), || enc_maps(&ds.automorphisms()));
}

/// `a.morphism(b, e)` for every e in 0..=|b|+1; the two sides may be different representations
fn morph_on<A: DSet, B: DSet>(ctx: &mut Ctx, op: &str, kind: usize, ta: &Tab, tb: &Tab, a: &A, b: &B, tag: &str) {
    ctx.case(op, tag, || format!("{} {} {}", kind, ta.enc(), tb.enc()), || {
        let res: Vec<Vec<usize>> = (0..=tb.size + 1).map(|e| a.morphism(b, e).unwrap_or(vec![])).collect();
        enc_maps(&res)
    });
}

fn fold_on<T: DSet>(ctx: &mut Ctx, op: &str, kind: usize, t: &Tab, ds: &T, pairs: &[(usize, usize)], tag: &str) {
    ctx.case(
        op,
        tag,
        || {
            let flat: Vec<usize> = pairs.iter().flat_map(|&(d, e)| [d, e]).collect();
            format!("{} {} {} {}", kind, t.enc(), pairs.len(), join(&flat))
        },
        || fold_with(ds, pairs),
    );
}

/// D-set level questions (kind 0) on one D-set object
fn dset_cases_on<T: DSet>(ctx: &mut Ctx, t: &Tab, ds: &T, rng: &mut Rng, tag: &str) {
    let n = t.size;
    let nt = if n >= 2 { "nt " } else { "" };
    let tag = format!("{}{}", nt, tag);
    ismin_on(ctx, "ismin_s", 0, t, ds, &tag);
    auts_on(ctx, "auts_s", 0, t, ds, &tag);
    morph_on(ctx, "morph_s", 0, t, t, ds, ds, &tag);
    if n >= 2 {
        let seq: Vec<(usize, usize)> = (2..=n).map(|d| (1, d)).collect();
        fold_on(ctx, "fold_s", 0, t, ds, &seq, &tag);
        let len = 2 + rng.below(3);
        let hist: Vec<(usize, usize)> = (0..len).map(|_| (1 + rng.below(n), 1 + rng.below(n))).collect();
        fold_on(ctx, "fold_s", 0, t, ds, &hist, &tag);
    }
}

/// symbol level questions (kind 1) on one symbol object
fn dsym_cases_on<T: DSym>(ctx: &mut Ctx, t: &Tab, ds: &T, rng: &mut Rng, tag: &str) {
    let n = t.size;
    let nt = if n >= 2 { "nt " } else { "" };
    let tag = format!("{}{}", nt, tag);
    minimg_on(ctx, "minimg_s", t, ds, &tag);
    ismin_on(ctx, "ismin_s", 1, t, ds, &tag);
    auts_on(ctx, "auts_s", 1, t, ds, &tag);
    morph_on(ctx, "morph_s", 1, t, t, ds, ds, &tag);
    if ctx.peek_mine() {
        // onto the minimal image, which the library returns as a PartialDSym (mixed representations)
        let img = minimal_image(ds);
        morph_on(ctx, "morph_s", 1, t, &Tab::from_dsym(&img), ds, &img, &tag);
    } else {
        ctx.skip();
    }
    if n >= 2 {
        let seq: Vec<(usize, usize)> = (2..=n).map(|d| (1, d)).collect();
        fold_on(ctx, "fold_s", 1, t, ds, &seq, &tag);
        let len = 2 + rng.below(3);
        let hist: Vec<(usize, usize)> = (0..len).map(|_| (1 + rng.below(n), 1 + rng.below(n))).collect();
        fold_on(ctx, "fold_s", 1, t, ds, &hist, &tag);
    }
}

/// (3) the other implementations of the traits
fn other_representations(ctx: &mut Ctx, th: bool) {
    let mut rng = ctx.rng(5);
    // (3a) the tables of (1)/(2) held as SimpleDSet / SimpleDSym: every D-set, a sample of the
    //      branching assignments (every k-th of the exhaustive list, so symmetric and
    //      symmetry-breaking ones are both met)
    {
        let t = d3_symbol();
        let s: SimpleDSym = t.to_partial_dsym().into();
        dsym_cases_on(ctx, &t, &s, &mut rng, "regress simple dim=2 size=8");
    }
    let plan: &[(usize, usize, usize)] = if th { &[(2, 7, 60), (3, 4, 12)] } else { &[(2, 6, 12), (3, 3, 6)] };
    for &(dim, nmax, per_set) in plan {
        for n in 1..=nmax {
            for (t, _aut) in &dsets_up_to_iso(dim, n, true) {
                let tag = format!("simple dim={} size={}", dim, n);
                let sset: SimpleDSet = t.to_partial_dset().into();
                dset_cases_on(ctx, t, &sset, &mut rng, &tag);
                let all = assignments(t, &[1, 2, 3], 729, &mut rng);
                let step = std::cmp::max(1, all.len() / per_set);
                let picked: Vec<&Tab> = all.iter().step_by(step).take(per_set).collect();
                for (k, s) in picked.iter().enumerate() {
                    let ssym: SimpleDSym = s.to_partial_dsym().into();
                    dsym_cases_on(ctx, s, &ssym, &mut rng, &tag);
                    // a different symbol on the same D-set, target held as PartialDSym
                    let other = picked[(k + 1) % picked.len()];
                    if other != *s {
                        morph_on(ctx, "morph_s", 1, s, other, &ssym, &other.to_partial_dsym(), &format!("nt {}", tag));
                    }
                }
                // one cover of the first symbol, both held as SimpleDSym
                if n >= 2 && n <= 4 {
                    if let Some(s) = picked.first() {
                        for c in covers_of(s, &[2], 40, 1, &mut rng) {
                            let ctag = format!("nt cover simple dim={} size={} sheets=2", dim, c.size.min(18));
                            let (bs, cs): (SimpleDSym, SimpleDSym) = (s.to_partial_dsym().into(), c.to_partial_dsym().into());
                            ctx.case("cover_s", &ctag, || format!("{} {}", s.enc(), c.enc()), || {
                                let x = minimal_image(&bs);
                                let y = minimal_image(&cs);
                                format!("{} {}", Tab::from_dsym(&x).enc(), Tab::from_dsym(&y).enc())
                            });
                            morph_on(ctx, "morph_s", 1, &c, s, &cs, &bs, &ctag);
                            minimg_on(ctx, "minimg_s", &c, &cs, &ctag);
                        }
                    }
                }
            }
        }
    }
    // (3b) the objects the library's generators yield, asked directly (no round trip through
    //      tables; the tables sent to the driver are read off the object through the traits)
    let bounds: &[(usize, usize)] = if th { &[(1, 6), (2, 7), (3, 4)] } else { &[(1, 4), (2, 5), (3, 3)] };
    let per_geom = if th { 24 } else { 4 };
    for &(dim, nmax) in bounds {
        for dset in DSets::new(dim, nmax) {
            let t = Tab::from_dset(&dset);
            let tag = format!("generated dim={} size={}", dim, t.size);
            dset_cases_on(ctx, &t, &dset, &mut rng, &tag);
            if dim != 2 {
                continue;
            }
            for g in [Geometries::Spherical, Geometries::Euclidean, Geometries::Hyperbolic] {
                for ds in DSyms::new(&dset, g).take(per_geom) {
                    let ts = Tab::from_dsym(&ds);
                    dsym_cases_on(ctx, &ts, &ds, &mut rng, &tag);
                }
            }
        }
    }
}

fn d3_symbol() -> Tab {
    // <1.1:8:1 2 3 4 7 8,2 5 6 7 8,3 4 5 6 7 8:4 3 3,6 4 3>
    let op = vec![
        vec![0, 1, 2, 3, 4, 7, 8, 5, 6],
        vec![0, 2, 1, 5, 6, 3, 4, 7, 8],
        vec![0, 3, 4, 1, 2, 5, 6, 7, 8],
    ];
    let mut t = Tab { size: 8, dim: 2, op, v: vec![vec![0; 9]; 2] };
    t.set_v_orbit(0, 1, 2); // r = 2, m = 4
    t.set_v_orbit(0, 3, 1); // r = 3, m = 3
    t.set_v_orbit(0, 4, 1); // r = 3, m = 3
    t.set_v_orbit(1, 1, 1); // r = 6, m = 6
    t.set_v_orbit(1, 7, 4); // r = 1, m = 4
    t.set_v_orbit(1, 8, 3); // r = 1, m = 3
    t
}

fn main() {
    let mut ctx = Ctx::from_args();
    let th = ctx.thorough();
    let mut rng = ctx.rng(4);

    // regression: D3 — `morphism` compared degrees only while a neighbour was unassigned and
    // asked `self.m` for the image chamber: a second "automorphism" was reported here
    {
        let t = d3_symbol();
        auts(&mut ctx, 1, &t, "nt regress dim=2 size=8");
        morph(&mut ctx, 1, &t, &t, "nt regress dim=2 size=8");
        minimg(&mut ctx, &t, "nt regress dim=2 size=8");
        // … and a base image outside 1..|b| was answered with Some (one-chamber symbol, v = 3, 3)
        let mut one = Tab { size: 1, dim: 2, op: vec![vec![0, 1]; 3], v: vec![vec![0; 2]; 2] };
        one.set_v_orbit(0, 1, 3);
        one.set_v_orbit(1, 1, 3);
        morph(&mut ctx, 1, &one, &one, "regress dim=2 size=1");
    }

    // (0) large symbols: finite universal covers of spherical symbols (24–120 chambers; the
    //     library's coset enumeration only supplies the input, the Spec re-derives everything)
    {
        let mut bases = vec!["<1.1:1:1,1,1:3,3>", "<1.1:1:1,1,1:4,3>", "<1.1:2:2,1 2,1 2:2,4 4>"];
        if th {
            bases.push("<1.1:1:1,1,1:5,3>");
            bases.push("<1.1:1 3:1,1,1,1:3,3,3>");
        }
        for b in bases {
            if ctx.peek_mine() {
                let base = b.parse::<PartialDSym>().unwrap();
                let cov = Tab::from_dsym(&finite_universal_cover(&base));
                let tag = format!("nt big dim={} size={}", cov.dim, cov.size);
                minimg(&mut ctx, &cov, &tag);
            } else {
                ctx.skip();
            }
            if ctx.peek_mine() {
                // the union–find behind minimal_image on the same large symbol (deep forests)
                let base = b.parse::<PartialDSym>().unwrap();
                let cov = Tab::from_dsym(&finite_universal_cover(&base));
                let tag = format!("nt big dim={} size={}", cov.dim, cov.size);
                let seq: Vec<(usize, usize)> = (2..=cov.size).map(|d| (1, d)).collect();
                fold_case(&mut ctx, 1, &cov, &seq, &tag);
            } else {
                ctx.skip();
            }
        }
    }

    // (1) 2D: every connected D-set up to isomorphism, symmetry-breaking branching assignments
    let nmax2 = 8;
    for n in 1..=nmax2 {
        let sets = dsets_up_to_iso(2, n, true);
        for (t, aut) in &sets {
            let tag = format!("dim=2 size={}", n);
            let sym = *aut > 1;
            // the plain D-set
            let nt = if n >= 2 { "nt " } else { "" };
            ismin(&mut ctx, 0, t, &format!("{}{}", nt, tag));
            auts(&mut ctx, 0, t, &format!("{}{}", if sym { "nt " } else { "" }, tag));
            morph(&mut ctx, 0, t, t, &format!("{}{}", nt, tag));
            fold_cases(&mut ctx, 0, t, &mut rng, n <= 4, &format!("{}{}", nt, tag));
            // symbols
            let (vals, cap): (&[usize], usize) = if !th {
                match n {
                    1..=5 => (&[1, 2, 3], 729),
                    6 => (&[1, 2, 3], if sym { 729 } else { 81 }),
                    7 => (&[1, 2, 3], if sym { 243 } else { 9 }),
                    // n = 8 (quick): the D-sets with a symmetry only — where defect D3 lived
                    _ => (&[3, 4, 6], if sym { 81 } else { 0 }),
                }
            } else {
                match n {
                    1..=4 => (&[1, 2, 3, 4, 6], 3125),
                    5 | 6 => (&[1, 2, 3], 2187),
                    7 => (&[1, 2, 3], if sym { 2187 } else { 243 }),
                    _ => (&[1, 2, 3], if sym { 729 } else { 81 }),
                }
            };
            if cap == 0 {
                continue;
            }
            let mut syms = assignments(t, vals, cap, &mut rng);
            if th && sym && n >= 5 {
                // larger branching values on the symmetric D-sets
                syms.extend(assignments(t, &[3, 4, 6], if n <= 6 { 243 } else { 729 }, &mut rng));
            }
            for (k, s) in syms.iter().enumerate() {
                symbol_cases(&mut ctx, s, *aut, &mut rng, n <= 3, &tag);
                // a morphism between different symbols on the same D-set (mostly non-existent)
                let other = &syms[(k + 1) % syms.len()];
                if other != s {
                    morph(&mut ctx, 1, s, other, &format!("nt {}", tag));
                }
            }
            // covers of some of the symbols, spread over the assignment list
            let ncov = if th { if n <= 4 { 24 } else if n <= 6 { 8 } else { 2 } } else if n <= 4 { 4 } else if n <= 6 { 1 } else { 0 };
            if ncov > 0 {
                let step = std::cmp::max(1, syms.len() / ncov);
                for s in syms.iter().step_by(step).take(ncov) {
                    for c in covers_of(s, &[2, 3], if th { 120 } else { 40 }, if th { 3 } else { 1 }, &mut rng) {
                        let ctag = format!("nt cover dim=2 size={} sheets={}", c.size.min(18), c.size / s.size);
                        cover_case(&mut ctx, s, &c, &ctag);
                        morph(&mut ctx, 1, &c, s, &ctag);
                        morph(&mut ctx, 1, s, &c, &ctag);
                        auts(&mut ctx, 1, &c, &ctag);
                        minimg(&mut ctx, &c, &ctag);
                        // the union–find behind minimal_image(cover): representatives, classes
                        let seq: Vec<(usize, usize)> = (2..=c.size).map(|d| (1, d)).collect();
                        fold_case(&mut ctx, 1, &c, &seq, &ctag);
                    }
                }
            }
        }
    }

    // (1b) plain D-sets whose operations 0 and 2 do not commute (not D-symbols; the D-set layer
    //      of morphism / automorphisms / fold / is_minimal does not need the axiom)
    let nmaxnc = if th { 6 } else { 5 };
    for n in 3..=nmaxnc {
        for (t, aut) in &dsets_up_to_iso(2, n, false) {
            if t.far_commute() {
                continue;
            }
            let tag = format!("nt noncommuting dim=2 size={}", n);
            ismin(&mut ctx, 0, t, &tag);
            auts(&mut ctx, 0, t, &format!("{}noncommuting dim=2 size={}", if *aut > 1 { "nt " } else { "" }, n));
            morph(&mut ctx, 0, t, t, &tag);
            fold_cases(&mut ctx, 0, t, &mut rng, false, &tag);
        }
    }

    // (2) 3D
    let nmax3 = if th { 5 } else { 4 };
    for n in 1..=nmax3 {
        for (t, aut) in &dsets_up_to_iso(3, n, true) {
            let tag = format!("dim=3 size={}", n);
            let nt = if n >= 2 { "nt " } else { "" };
            ismin(&mut ctx, 0, t, &format!("{}{}", nt, tag));
            auts(&mut ctx, 0, t, &format!("{}{}", if *aut > 1 { "nt " } else { "" }, tag));
            morph(&mut ctx, 0, t, t, &format!("{}{}", nt, tag));
            fold_cases(&mut ctx, 0, t, &mut rng, n <= 3, &format!("{}{}", nt, tag));
            let cap = if th { if n <= 4 { 243 } else if *aut > 1 { 64 } else { 8 } } else if n <= 3 { 81 } else if *aut > 1 { 16 } else { 4 };
            let syms = assignments(t, &[1, 2, 3], cap, &mut rng);
            for (k, s) in syms.iter().enumerate() {
                symbol_cases(&mut ctx, s, *aut, &mut rng, n <= 2, &tag);
                let other = &syms[(k + 1) % syms.len()];
                if other != s {
                    morph(&mut ctx, 1, s, other, &format!("nt {}", tag));
                }
            }
            for s in syms.iter().take(if th { 3 } else { 1 }) {
                for c in covers_of(s, &[2, 3], if th { 80 } else { 40 }, 1, &mut rng) {
                    let ctag = format!("nt cover dim=3 size={} sheets={}", c.size, c.size / s.size);
                    cover_case(&mut ctx, s, &c, &ctag);
                    morph(&mut ctx, 1, &c, s, &ctag);
                    auts(&mut ctx, 1, &c, &ctag);
                    minimg(&mut ctx, &c, &ctag);
                    let seq: Vec<(usize, usize)> = (2..=c.size).map(|d| (1, d)).collect();
                    fold_case(&mut ctx, 1, &c, &seq, &ctag);
                }
            }
        }
    }
    // (3) SimpleDSym / SimpleDSet and generator-native objects (after everything else, so that the
    //     case numbers of (0)–(2) stay what they were)
    other_representations(&mut ctx, th);
    ctx.finish();
}
