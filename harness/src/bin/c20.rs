//! C20 — union-find partitions: drives the real `IntPartition` and `Partition<T>`
//! (T = usize, (usize, usize), String) through whole operation histories.
//!
//! One case = one history.  IN = `nops op…` with
//!   `U k a b` unite on instance k, `F k a` find, `C k len e…` classes, `L i j` slot j := slot i .clone()
//! OUT = every find / classes answer in order.  All instance slots start as `new()`.
//! Elements travel as integers; the generic partitions see them through an injective key map.
use rust_dsymbols::util::partitions::{IntPartition, Partition};
use std::hash::Hash;
use verif_harness::{enc_lists, Ctx, Rng};

#[derive(Clone, Debug)]
enum Op {
    U(usize, usize, usize),
    F(usize, usize),
    C(usize, Vec<usize>),
    L(usize, usize),
}

fn enc_ops(ops: &[Op]) -> String {
    let mut s = ops.len().to_string();
    for o in ops {
        match o {
            Op::U(k, a, b) => s.push_str(&format!(" U {k} {a} {b}")),
            Op::F(k, a) => s.push_str(&format!(" F {k} {a}")),
            Op::C(k, es) => {
                s.push_str(&format!(" C {k} {}", es.len()));
                for e in es {
                    s.push_str(&format!(" {e}"));
                }
            }
            Op::L(i, j) => s.push_str(&format!(" L {i} {j}")),
        }
    }
    s
}

/// the API under test, seen through integers
trait Part: Clone {
    fn new() -> Self;
    fn find(&self, e: usize) -> usize;
    fn unite(&mut self, a: usize, b: usize);
    fn classes(&self, es: &[usize]) -> Vec<Vec<usize>>;
}

impl Part for IntPartition {
    fn new() -> Self {
        IntPartition::new()
    }
    fn find(&self, e: usize) -> usize {
        IntPartition::find(self, e)
    }
    fn unite(&mut self, a: usize, b: usize) {
        IntPartition::unite(self, a, b)
    }
    fn classes(&self, es: &[usize]) -> Vec<Vec<usize>> {
        IntPartition::classes(self, es)
    }
}

/// injective key maps; `back` returns a value outside every universe for a foreign key
trait Key: Clone + Eq + Hash {
    fn of(e: usize) -> Self;
    fn back(&self) -> usize;
}
const FOREIGN: usize = 999_999_999;

#[derive(Clone, PartialEq, Eq, Hash)]
struct Plain(usize);
impl Key for Plain {
    fn of(e: usize) -> Self {
        Plain(e)
    }
    fn back(&self) -> usize {
        self.0
    }
}
#[derive(Clone, PartialEq, Eq, Hash)]
struct Scrambled(usize);
impl Key for Scrambled {
    fn of(e: usize) -> Self {
        Scrambled(e * 1_000_003 + 17)
    }
    fn back(&self) -> usize {
        if self.0 >= 17 && (self.0 - 17) % 1_000_003 == 0 {
            (self.0 - 17) / 1_000_003
        } else {
            FOREIGN
        }
    }
}
impl Key for (usize, usize) {
    fn of(e: usize) -> Self {
        (e / 8, e % 8)
    }
    fn back(&self) -> usize {
        if self.1 < 8 {
            self.0 * 8 + self.1
        } else {
            FOREIGN
        }
    }
}
impl Key for String {
    fn of(e: usize) -> Self {
        format!("k{e}")
    }
    fn back(&self) -> usize {
        self.strip_prefix('k').and_then(|s| s.parse().ok()).unwrap_or(FOREIGN)
    }
}

struct Gen<K: Key>(Partition<K>);
impl<K: Key> Clone for Gen<K> {
    fn clone(&self) -> Self {
        Gen(self.0.clone())
    }
}
impl<K: Key> Part for Gen<K> {
    fn new() -> Self {
        Gen(Partition::new())
    }
    fn find(&self, e: usize) -> usize {
        self.0.find(&K::of(e)).back()
    }
    fn unite(&mut self, a: usize, b: usize) {
        self.0.unite(&K::of(a), &K::of(b))
    }
    fn classes(&self, es: &[usize]) -> Vec<Vec<usize>> {
        let ks: Vec<K> = es.iter().map(|&e| K::of(e)).collect();
        self.0.classes(&ks).iter().map(|c| c.iter().map(|k| k.back()).collect()).collect()
    }
}

/// replay a history on the real implementation; render every answer
fn replay<P: Part>(m: usize, ops: &[Op]) -> String {
    let mut insts: Vec<P> = (0..m).map(|_| P::new()).collect();
    let mut out: Vec<String> = vec![];
    for o in ops {
        match o {
            Op::U(k, a, b) => insts[*k].unite(*a, *b),
            Op::F(k, a) => out.push(insts[*k].find(*a).to_string()),
            Op::C(k, es) => out.push(enc_lists(&insts[*k].classes(es))),
            Op::L(i, j) => {
                let c = insts[*i].clone();
                insts[*j] = c;
            }
        }
    }
    out.join(" ")
}

fn tags(ops: &[Op], free_len: usize, n: usize, m: usize) -> String {
    let unions = ops.iter().filter(|o| matches!(o, Op::U(..))).count();
    let mut cloned = false;
    let mut interleaved = false;
    for o in ops {
        match o {
            Op::L(..) => cloned = true,
            Op::U(..) if cloned => interleaved = true,
            _ => {}
        }
    }
    let lb = if free_len <= 8 { free_len.to_string() } else if free_len <= 50 { "9-50".into() } else if free_len <= 200 { "51-200".into() } else { "201-400".into() };
    format!(
        "{} len={} elems={} insts={}{}",
        if unions > 0 { "nt" } else { "" },
        lb,
        if n <= 4 { n.to_string() } else if n <= 16 { "5-16".into() } else { "17-64".into() },
        m,
        if interleaved { " clone-then-union" } else { "" }
    )
}

fn case<P: Part>(ctx: &mut Ctx, name: &str, m: usize, n: usize, free_len: usize, ops: &[Op]) {
    let t = tags(ops, free_len, n, m);
    ctx.case(name, &t, || enc_ops(ops), || replay::<P>(m, ops));
}

/// fixed epilogue: observe everything on every instance
fn epilogue(m: usize, n: usize) -> Vec<Op> {
    let mut v = vec![];
    for k in 0..m {
        for e in 0..n {
            v.push(Op::F(k, e));
        }
        // a query with a duplicate, not in ascending order
        let mut q: Vec<usize> = vec![n - 1, 0];
        q.extend((1..n).rev());
        v.push(Op::C(k, q));
    }
    v
}

/// full alphabet: every unite with a != b (ordered), every find, classes of the whole universe,
/// every clone; `reduced` keeps only the unites with a < b and drops `classes` (the epilogue has one)
fn alphabet(m: usize, n: usize, reduced: bool) -> Vec<Op> {
    let mut v = vec![];
    for k in 0..m {
        for a in 0..n {
            for b in 0..n {
                if a != b && (!reduced || a < b) {
                    v.push(Op::U(k, a, b));
                }
            }
        }
    }
    for k in 0..m {
        for a in 0..n {
            v.push(Op::F(k, a));
        }
    }
    if !reduced {
        for k in 0..m {
            v.push(Op::C(k, (0..n).collect()));
        }
    }
    for i in 0..m {
        for j in 0..m {
            if i != j {
                v.push(Op::L(i, j));
            }
        }
    }
    v
}

/// every history of exactly `len` operations over the alphabet, each followed by the epilogue,
/// on both partition types
fn exhaustive(ctx: &mut Ctx, m: usize, n: usize, len: usize, reduced: bool, generic_too: bool) {
    let alpha = alphabet(m, n, reduced);
    let epi = epilogue(m, n);
    let a = alpha.len();
    let mut idx = vec![0usize; len];
    loop {
        // two cases (int, generic) per history
        let mine_int = ctx.peek_mine();
        if mine_int {
            let mut ops: Vec<Op> = idx.iter().map(|&i| alpha[i].clone()).collect();
            ops.extend(epi.iter().cloned());
            case::<IntPartition>(ctx, "xint", m, n, len, &ops);
        } else {
            ctx.skip();
        }
        if generic_too {
            if ctx.peek_mine() {
                let mut ops: Vec<Op> = idx.iter().map(|&i| alpha[i].clone()).collect();
                ops.extend(epi.iter().cloned());
                case::<Gen<Plain>>(ctx, "xgen", m, n, len, &ops);
            } else {
                ctx.skip();
            }
        }
        // odometer
        let mut p = len;
        loop {
            if p == 0 {
                return;
            }
            p -= 1;
            idx[p] += 1;
            if idx[p] < a {
                break;
            }
            idx[p] = 0;
        }
    }
}

fn random_history(rng: &mut Rng) -> (usize, usize, usize, Vec<Op>) {
    let m = 1 + rng.below(4);
    let n = match rng.below(4) {
        0 => 2 + rng.below(5),
        1 => 4 + rng.below(13),
        _ => 8 + rng.below(57),
    };
    let len = match rng.below(3) {
        0 => 1 + rng.below(40),
        _ => 1 + rng.below(400),
    };
    // percentage of unions among the operations: sparse, medium, dense
    let pu = [4usize, 12, 35][rng.below(3)];
    let mut ops = Vec::with_capacity(len + 8);
    let mut live = 1usize; // instances that have been touched so far (bias towards clones of used ones)
    for _ in 0..len {
        let r = rng.below(100);
        let k = rng.below(m);
        if r < pu {
            let a = rng.below(n);
            // sometimes a == b (IntPartition: pure extension), sometimes neighbours
            let b = match rng.below(8) {
                0 => a,
                1 => (a + 1) % n,
                _ => rng.below(n),
            };
            ops.push(Op::U(k, a, b));
        } else if r < pu + 4 && m > 1 {
            let i = rng.below(live.min(m));
            let mut j = rng.below(m);
            if j == i {
                j = (i + 1) % m;
            }
            live = live.max(j + 1);
            ops.push(Op::L(i, j));
        } else if r < pu + 16 {
            let ql = match rng.below(4) {
                0 => 0,
                1 => n,
                _ => 1 + rng.below(2 * n),
            };
            let q: Vec<usize> = if ql == n && rng.chance(1, 2) {
                (0..n).collect()
            } else {
                (0..ql).map(|_| rng.below(n)).collect()
            };
            ops.push(Op::C(k, q));
        } else {
            ops.push(Op::F(k, rng.below(n)));
        }
    }
    // observe everything at the end
    for k in 0..m {
        ops.push(Op::C(k, (0..n).collect()));
        for _ in 0..4 {
            ops.push(Op::F(k, rng.below(n)));
        }
    }
    (m, n, len, ops)
}

fn main() {
    let mut ctx = Ctx::from_args();
    let th = ctx.thorough();

    // (0) regression corpus: the crate's own unit-test history, on every type
    {
        let mut ops: Vec<Op> = [(1, 2), (3, 4), (5, 6), (7, 8), (2, 3), (1, 6)].iter().map(|&(a, b)| Op::U(0, a, b)).collect();
        for a in 0..10 {
            ops.push(Op::F(0, a));
        }
        ops.push(Op::C(0, (0..10).collect()));
        case::<IntPartition>(&mut ctx, "int", 1, 10, 6, &ops);
        case::<Gen<Scrambled>>(&mut ctx, "gen_usize", 1, 10, 6, &ops);
        case::<Gen<(usize, usize)>>(&mut ctx, "gen_pair", 1, 10, 6, &ops);
        case::<Gen<String>>(&mut ctx, "gen_string", 1, 10, 6, &ops);
    }

    // (1) exhaustive, both tiers: 2 instances × 4 elements, full alphabet (36 operations),
    //     every history of length ≤ 4, both partition types
    for len in 0..=4 {
        exhaustive(&mut ctx, 2, 4, len, false, true);
    }
    if th {
        // (2a) 2 instances × 4 elements, reduced alphabet (22 operations), length 5, both types
        exhaustive(&mut ctx, 2, 4, 5, true, true);
        // (2b) 1 instance × 4 elements, full alphabet (17 operations): length 5 both types,
        //      length 6 on IntPartition
        exhaustive(&mut ctx, 1, 4, 5, false, true);
        exhaustive(&mut ctx, 1, 4, 6, false, false);
    }

    // (3) seeded random histories, all four types on the same history
    let nrand = if th { 12000 } else { 1200 };
    let mut rng = ctx.rng(20);
    for _ in 0..nrand {
        let (m, n, len, ops) = random_history(&mut rng);
        case::<IntPartition>(&mut ctx, "int", m, n, len, &ops);
        case::<Gen<Scrambled>>(&mut ctx, "gen_usize", m, n, len, &ops);
        case::<Gen<(usize, usize)>>(&mut ctx, "gen_pair", m, n, len, &ops);
        case::<Gen<String>>(&mut ctx, "gen_string", m, n, len, &ops);
    }
    ctx.finish();
}
