//! C09 — fundamental-group presentation: drives the real `fundamental_group` / `inner_edges`.
//!
//! IN  fg    <kmax> <tclimit> <sym>        OUT <FundamentalGroup value, canonical layout>
//! IN  inner <sym>                         OUT n d1 i1 … dn in
//!
//! `kmax`   : subgroup classes are compared for every index 2..=kmax (0/1 = not at all)
//! `tclimit`: coset limit of the order oracle for 3D symbols (0 = not asked; 2D symbols of
//!            positive curvature are always asked)
use rust_dsymbols::covers::{covers, finite_universal_cover};
use rust_dsymbols::delaney2d::toroidal_cover;
use rust_dsymbols::derived::oriented_cover;
use rust_dsymbols::dsyms::{PartialDSym, SimpleDSym};
use rust_dsymbols::fundamental_group::{fundamental_group, inner_edges, FundamentalGroup};
use std::collections::HashSet;
use std::panic::{catch_unwind, AssertUnwindSafe};
use verif_harness::dsgen::{all_vs, involutions, random_dset, random_perm1, random_vs, Tab};
use verif_harness::{Ctx, Rng};

fn enc_word(w: &rust_dsymbols::fpgroups::free_words::FreeWord) -> String {
    let mut s = w.len().to_string();
    for x in w.iter() {
        s.push(' ');
        s.push_str(&x.to_string());
    }
    s
}

/// nr_generators, relators (Vec order), cones (set order), gen_to_edge, edge_to_word (key order)
fn enc_fg(g: &FundamentalGroup) -> String {
    let mut s = g.nr_generators().to_string();
    s.push_str(&format!(" {}", g.relators.len()));
    for r in &g.relators {
        s.push(' ');
        s.push_str(&enc_word(r));
    }
    s.push_str(&format!(" {}", g.cones.len()));
    for (w, deg) in &g.cones {
        s.push(' ');
        s.push_str(&enc_word(w));
        s.push_str(&format!(" {}", deg));
    }
    s.push_str(&format!(" {}", g.gen_to_edge.len()));
    for (gen, (d, i)) in &g.gen_to_edge {
        s.push_str(&format!(" {} {} {}", gen, d, i));
    }
    s.push_str(&format!(" {}", g.edge_to_word.len()));
    for ((d, i), w) in &g.edge_to_word {
        s.push_str(&format!(" {} {} ", d, i));
        s.push_str(&enc_word(w));
    }
    s
}

struct Plan {
    quick: bool,
    /// symbols already emitted by the non-exhaustive generators (covers, renumberings, seeded)
    seen: HashSet<Tab>,
    /// running number of `fg` cases, for the deterministic 1-in-8 sample that gets index 4
    count: u64,
    /// cheap mode: literal clauses and abelianisation only (no subgroup / order oracles)
    cheap: bool,
}

/// index bound for the subgroup-class oracle, from the number of generators the
/// implementation uses (a preview run; the observed call is made again inside the case)
fn kmax_for(ngens: usize, size: usize, quick: bool, sampled: bool) -> usize {
    if size > 48 {
        return 2;
    }
    match ngens {
        0..=3 => 4,
        4..=5 => if !quick && sampled { 4 } else { 3 },
        6..=7 => 3,
        _ => 2,
    }
}

fn fg_case(ctx: &mut Ctx, plan: &mut Plan, t: &Tab, kind: &str, dedupe: bool) {
    if dedupe && !plan.seen.insert(t.clone()) {
        return;
    }
    let k = plan.count;
    plan.count += 1;
    // two cases per symbol (`fg`, `inner`); their order alternates in blocks so that the
    // expensive `fg` cases are spread over all shards
    let half = (ctx.nshards as u64 / 2).max(1);
    let swap = (k / half) % 2 == 1;
    let mut ds: Option<PartialDSym> = None;
    for step in 0..2 {
        let is_fg = (step == 0) != swap;
        if !ctx.peek_mine() {
            ctx.skip();
            continue;
        }
        let ds = ds.get_or_insert_with(|| t.to_partial_dsym());
        if is_fg {
            let preview = catch_unwind(AssertUnwindSafe(|| fundamental_group(ds).nr_generators())).unwrap_or(0);
            let kmax = if plan.cheap { 0 } else { kmax_for(preview, t.size, plan.quick, k % 8 == 0) };
            let tclimit = if plan.cheap { 0 } else if t.dim == 3 { if plan.quick { 2000 } else { 6000 } } else { 0 };
            let sz = size_bucket(t.size);
            let gb = match preview {
                0..=5 => format!("gens={}", preview),
                _ => "gens=6+".to_string(),
            };
            let tags = format!("nt {} dim={} {} {} idx<={}", kind, t.dim, sz, gb, kmax);
            ctx.case("fg", &tags, || format!("{} {} {}", kmax, tclimit, t.enc()), || enc_fg(&fundamental_group(ds)));
        } else {
            inner_case(ctx, t, ds, kind);
        }
    }
}

fn size_bucket(size: usize) -> String {
    match size {
        0..=7 => format!("size={}", size),
        8..=16 => "size=8..16".to_string(),
        17..=48 => "size=17..48".to_string(),
        _ => "size=49+".to_string(),
    }
}

fn inner_case(ctx: &mut Ctx, t: &Tab, ds: &PartialDSym, kind: &str) {
    ctx.case("inner", &format!("nt {} dim={} {}", kind, t.dim, size_bucket(t.size)), || t.enc(), || {
        let e = inner_edges(ds);
        let mut s = e.len().to_string();
        for (d, i) in e {
            s.push_str(&format!(" {} {}", d, i));
        }
        s
    });
}

/// every (dim+1)-tuple of involutions on 1..=n that is a connected complete D-set with
/// commuting far operations, streamed (same order as `dsgen::dsets`)
fn for_each_dset<F: FnMut(&Tab)>(dim: usize, n: usize, mut f: F) {
    let invs = involutions(n, false);
    let mut idx = vec![0usize; dim + 1];
    let mut t = Tab { size: n, dim, op: idx.iter().map(|&k| invs[k].clone()).collect(), v: vec![vec![0; n + 1]; dim] };
    loop {
        if t.far_commute() && t.is_connected() {
            f(&t);
        }
        let mut k = 0;
        loop {
            if k > dim {
                return;
            }
            idx[k] += 1;
            if idx[k] < invs.len() {
                t.op[k] = invs[idx[k]].clone();
                break;
            }
            idx[k] = 0;
            t.op[k] = invs[0].clone();
            k += 1;
        }
    }
}

/// all symbols on the D-set `t` with v <= vmax when they are at most `cap`, otherwise all
/// over {1,2,3} (when at most `cap`) plus `k` seeded assignments over the full range
fn symbols_on(ctx: &mut Ctx, plan: &mut Plan, rng: &mut Rng, t: &Tab, vmax: usize, cap: f64, k: usize, kind: &str) {
    let vals: Vec<usize> = (1..=vmax).collect();
    let norb: usize = (0..t.dim).map(|i| t.orbit_reps2(i).len()).sum();
    if (vals.len() as f64).powi(norb as i32) <= cap {
        for s in all_vs(t, &vals) {
            fg_case(ctx, plan, &s, kind, false);
        }
    } else {
        if vmax > 3 && (3f64).powi(norb as i32) <= cap {
            for s in all_vs(t, &[1, 2, 3]) {
                fg_case(ctx, plan, &s, kind, false);
            }
        }
        for _ in 0..k {
            let s = random_vs(t, rng, &vals);
            fg_case(ctx, plan, &s, kind, false);
        }
    }
}

/// a symbol from the flat protocol tables (`Tab::enc` layout)
fn tab_from(size: usize, dim: usize, ops: &[usize], vs: &[usize]) -> Tab {
    let mut op = vec![vec![0; size + 1]; dim + 1];
    let mut v = vec![vec![0; size + 1]; dim];
    for d in 1..=size {
        for i in 0..=dim {
            op[i][d] = ops[(d - 1) * (dim + 1) + i];
        }
    }
    for i in 0..dim {
        for d in 1..=size {
            v[i][d] = vs[i * size + (d - 1)];
        }
    }
    Tab { size, dim, op, v }
}

fn parse(s: &str) -> Tab {
    Tab::from_dsym(&s.parse::<PartialDSym>().unwrap())
}

fn renumbered_variants(ctx: &mut Ctx, plan: &mut Plan, t: &Tab, rng: &mut Rng, k: usize, kind: &str) {
    fg_case(ctx, plan, t, kind, true);
    for _ in 0..k {
        let p = random_perm1(rng, t.size);
        fg_case(ctx, plan, &t.renumbered(&p), kind, true);
    }
}

fn main() {
    let mut ctx = Ctx::from_args();
    let th = ctx.thorough();
    let mut rng = ctx.rng(9);
    let mut plan = Plan { quick: !th, seen: HashSet::new(), count: 0, cheap: false };

    // (0) the symbols pinned by the library's own tests and the known finite groups
    let pinned = [
        "<1.1:1 3:1,1,1,1:4,3,4>",
        "<1.1:2:2,2,2:4,3>",
        "<1.1:3:1 2 3,1 3,2 3:4 8,3>",
        "<1.1:24:2 4 6 8 10 12 14 16 18 20 22 24,16 3 5 7 9 11 13 15 24 19 21 23,10 9 20 19 14 13 22 21 24 23 18 17:8 4,3 3 3 3>",
        "<1.1:2 3:2,1 2,1 2,2:6,3 2,6>",
        "<1.1:8:2 4 6 8,8 3 5 7,1 2 3 4 5 6 7 8:4,4 6 8 4>",
        "<1.1:12:2 5 7 10 11 12,1 4 6 9 7 12 11,3 5 8 6 11 12 10:4 4,6 3 3>",
        "<1.1:1:1,1,1:3,3>",
        "<1.1:1:1,1,1:4,3>",
        "<1.1:1:1,1,1:3,5>",
        "<1.1:1:1,1,1:3,6>",
        "<1.1:1:1,1,1:4,4>",
        "<1.1:1 3:1,1,1,1:3,3,3>",
        "<1.1:1 3:1,1,1,1:4,3,3>",
        "<1.1:2 3:2,2,2,2:4,3,3>",
        "<1.1:1 3:1,1,1,1:4,3,4>",
    ];
    for s in pinned {
        let t = parse(s);
        renumbered_variants(&mut ctx, &mut plan, &t, &mut rng, if t.size > 1 { 2 } else { 0 }, "pinned");
    }

    // (0b) oracle regression: a 3D symbol whose group has order 8 while HLT coset enumeration of the
    //      returned presentation needs more than 10 000 cosets (the order oracle's first limit)
    {
        let t = tab_from(4, 3, &[2, 1, 4, 3, 1, 2, 3, 4, 4, 3, 2, 1, 3, 4, 1, 2], &[5, 5, 4, 4, 3, 4, 4, 3, 2, 2, 2, 2]);
        fg_case(&mut ctx, &mut plan, &t, "pinned", true);
    }

    // (1) every connected complete 2D D-set (all labellings) up to the size bound; beyond it a
    //     deterministic sample of the labelled D-sets
    //     (n, vmax, cap on exhaustive v-assignments, seeded assignments, keep 1 D-set in `stride`)
    let plan2: &[(usize, usize, f64, usize, usize)] = if th {
        &[(1, 6, 40.0, 6, 1), (2, 6, 40.0, 6, 1), (3, 6, 40.0, 6, 1), (4, 6, 40.0, 6, 1), (5, 6, 40.0, 6, 1),
          (6, 6, 0.0, 3, 1), (7, 6, 0.0, 1, 2)]
    } else {
        &[(1, 3, 30.0, 12, 1), (2, 3, 30.0, 12, 1), (3, 3, 30.0, 12, 1), (4, 3, 30.0, 3, 1), (5, 3, 30.0, 3, 1),
          (6, 4, 0.0, 1, 2)]
    };
    for &(n, vmax, cap, k, stride) in plan2 {
        let mut nr = 0usize;
        for_each_dset(2, n, |t| {
            nr += 1;
            if nr % stride == 0 {
                symbols_on(&mut ctx, &mut plan, &mut rng, t, vmax, cap, k, "all2d");
            }
        });
    }

    if !th {
        // quick: 7 chambers by seeded rejection sampling (enumerating all 12.5 million triples of
        // involutions in every shard is left to the thorough tier)
        for _ in 0..1200 {
            if let Some(t) = random_dset(&mut rng, 2, 7, true) {
                let s = random_vs(&t, &mut rng, &[1, 2, 3, 4]);
                fg_case(&mut ctx, &mut plan, &s, "random", true);
            }
        }
    }

    // (2) 3D
    let plan3: &[(usize, usize, f64, usize)] = if th {
        &[(1, 5, 130.0, 8), (2, 5, 130.0, 8), (3, 5, 130.0, 8), (4, 5, 0.0, 2), (5, 4, 0.0, 1)]
    } else {
        &[(1, 3, 30.0, 4), (2, 3, 30.0, 4), (3, 3, 30.0, 4), (4, 3, 0.0, 1)]
    };
    for &(n, vmax, cap, k) in plan3 {
        for_each_dset(3, n, |t| {
            symbols_on(&mut ctx, &mut plan, &mut rng, t, vmax, cap, k, "all3d");
        });
    }

    // (2b) a wide seeded sample of connected 3D symbols checked with the cheap clauses only (all
    //      words reduced, inverse words on the two sides of a facet, generators on their own facet
    //      pairs, cones / relators = traced 2-orbit words, abelianisation) and the exact model
    //      comparison.  First the two symbols on which an unreduced in-place product (a factor
    //      swallowed whole by `*=`) surfaced in the seeded-change study — such defects only show
    //      for 3D symbols with >= 4 chambers.
    plan.cheap = true;
    for s in [
        "<1.1:4 3:2 4,2 4,3 4,3 4:1 2,4,2 2>",
        "<1.1:6 3:1 4 3 6,2 5 6,1 2 3 4 5 6,3 5 6:6,4 2 4,2 2 4>",
    ] {
        fg_case(&mut ctx, &mut plan, &parse(s), "cheap3d", true);
    }
    {
        // (n, seeded assignments per labelled D-set, keep 1 D-set in `stride`)
        let wide: &[(usize, usize, usize)] = if th { &[(3, 24, 1), (4, 12, 1), (5, 2, 1)] } else { &[(3, 12, 1), (4, 5, 1), (5, 1, 8)] };
        for &(n, k, stride) in wide {
            let mut nr = 0usize;
            for_each_dset(3, n, |t| {
                nr += 1;
                if nr % stride == 0 {
                    for _ in 0..k {
                        let vals: &[usize] = if nr % 2 == 0 { &[1, 2, 3, 4] } else { &[1, 1, 2, 2, 3, 4, 5, 6] };
                        let s = random_vs(t, &mut rng, vals);
                        fg_case(&mut ctx, &mut plan, &s, "cheap3d", true);
                    }
                }
            });
        }
        let nrand = if th { 3000 } else { 400 };
        for k in 0..nrand {
            let n = 5 + k % 3;
            if let Some(t) = random_dset(&mut rng, 3, n, true) {
                let s = random_vs(&t, &mut rng, &[1, 1, 2, 2, 3, 4, 6]);
                fg_case(&mut ctx, &mut plan, &s, "cheap3d", true);
            }
        }
    }
    plan.cheap = false;

    // (3) larger seeded symbols and renumberings
    let nrand = if th { 1500 } else { 120 };
    for k in 0..nrand {
        let dim = if k % 4 == 3 { 3 } else { 2 };
        let n = 5 + rng.below(if dim == 3 { 5 } else { 8 });
        if let Some(t) = random_dset(&mut rng, dim, n, true) {
            let vals: &[usize] = if k % 3 == 0 { &[1, 1, 1, 2, 3] } else { &[1, 2, 3, 4, 6] };
            let s = random_vs(&t, &mut rng, vals);
            fg_case(&mut ctx, &mut plan, &s, "random", true);
        }
    }

    // (4) covers (built by the library; each is just another input symbol, validated by the Spec)
    let bases = [
        "<1.1:1:1,1,1:3,3>",
        "<1.1:1:1,1,1:4,3>",
        "<1.1:1:1,1,1:3,6>",
        "<1.1:1:1,1,1:4,4>",
        "<1.1:2:2,2,2:4,3>",
        "<1.1:2:2,2,2:3,3>",
        "<1.1:3:1 2 3,1 3,2 3:4 8,3>",
        "<1.1:1:1,1,1:3,7>",
        "<1.1:2:1 2,1 2,2:3 4,4>",
    ];
    for (bi, s) in bases.iter().enumerate() {
        let ds = s.parse::<PartialDSym>().unwrap();
        let deg = if th { 6 } else { 4 };
        let covs = catch_unwind(AssertUnwindSafe(|| covers(&ds, deg))).unwrap_or_default();
        let stride = if th { 1 } else { 3 };
        for (k, c) in covs.iter().enumerate() {
            if k % stride == bi % stride {
                let t = Tab::from_dsym(c);
                renumbered_variants(&mut ctx, &mut plan, &t, &mut rng, 1, "cover");
            }
        }
        if let Ok(o) = catch_unwind(AssertUnwindSafe(|| oriented_cover(&ds))) {
            renumbered_variants(&mut ctx, &mut plan, &Tab::from_dsym(&o), &mut rng, 1, "cover");
        }
    }
    let big: &[&str] = if th {
        &["<1.1:1:1,1,1:3,3>", "<1.1:1:1,1,1:4,3>", "<1.1:1:1,1,1:3,5>", "<1.1:2:2,2,2:4,3>", "<1.1:1 3:1,1,1,1:3,3,3>"]
    } else {
        &["<1.1:1:1,1,1:3,3>", "<1.1:1:1,1,1:4,3>"]
    };
    for s in big {
        let ds = s.parse::<PartialDSym>().unwrap();
        if let Ok(c) = catch_unwind(AssertUnwindSafe(|| finite_universal_cover(&ds))) {
            renumbered_variants(&mut ctx, &mut plan, &Tab::from_dsym(&c), &mut rng, 1, "cover");
        }
    }
    let eucl: &[&str] = if th {
        &["<1.1:1:1,1,1:3,6>", "<1.1:1:1,1,1:4,4>", "<1.1:2:2,2,2:4,4>", "<1.1:2:2,2,2:3,6>", "<1.1:3:1 2 3,1 3,2 3:4 8,3>", "<1.1:2:1 2,1 2,2:3 4,4>"]
    } else {
        &["<1.1:1:1,1,1:4,4>", "<1.1:2:2,2,2:3,6>"]
    };
    for s in eucl {
        let ds = s.parse::<PartialDSym>().unwrap();
        if let Ok(c) = catch_unwind(AssertUnwindSafe(|| toroidal_cover(&ds))) {
            renumbered_variants(&mut ctx, &mut plan, &Tab::from_dsym(&c), &mut rng, 1, "cover");
        }
    }
    // (S) the SimpleDSym representation: `fundamental_group` / `inner_edges` are generic over the DSym
    //     trait; a sample of small symbols is asked again held as SimpleDSym (model comparison and the
    //     cheap clauses only: kmax = 0, no order oracle).  Added after seeded change C03-m8 showed that
    //     a defect confined to one trait impl is invisible to a universe that holds every symbol as
    //     PartialDSym.
    {
        let mut k = 0usize;
        let bounds: &[(usize, usize)] = if th { &[(2, 5), (3, 4)] } else { &[(2, 4), (3, 3)] };
        for &(dim, nmax) in bounds {
            for n in 1..=nmax {
                for_each_dset(dim, n, |t0| {
                    k += 1;
                    if k % 3 != 0 && n > 2 {
                        return;
                    }
                    let t = random_vs(t0, &mut rng, &[1, 2, 3, 4, 6]);
                    let tags = format!("nt simple dim={} {}", t.dim, size_bucket(t.size));
                    let ds: SimpleDSym = t.to_partial_dsym().into();
                    ctx.case("fg_s", &tags, || format!("0 0 {}", t.enc()), || enc_fg(&fundamental_group(&ds)));
                    ctx.case("inner_s", &tags, || t.enc(), || {
                        let e = inner_edges(&ds);
                        let mut s = e.len().to_string();
                        for (d, i) in e {
                            s.push_str(&format!(" {} {}", d, i));
                        }
                        s
                    });
                });
            }
        }
    }
    ctx.finish();
}
