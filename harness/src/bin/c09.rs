//! C09 — fundamental-group presentation: drives the real `fundamental_group` / `inner_edges`.
//!
//! IN  fg    <kmax> <tclimit> <sym>        OUT <FundamentalGroup value, canonical layout>
//! IN  inner <sym>                         OUT n d1 i1 … dn in
//!
//! `kmax`   : subgroup classes are compared for every index 2..=kmax (0/1 = not at all)
//! `tclimit`: coset limit of the order oracle for 3D symbols (0 = not asked; 2D symbols of
//!            positive curvature are always asked)
use rust_dsymbols::covers::{covers, finite_universal_cover};
use rust_dsymbols::delaney2d::toroidal_cover;
use rust_dsymbols::derived::oriented_cover;
use rust_dsymbols::dsyms::PartialDSym;
use rust_dsymbols::fundamental_group::{fundamental_group, inner_edges, FundamentalGroup};
use std::collections::HashSet;
use std::panic::{catch_unwind, AssertUnwindSafe};
use verif_harness::dsgen::{all_vs, dsets, random_dset, random_perm1, random_vs, Tab};
use verif_harness::{Ctx, Rng};

fn enc_word(w: &rust_dsymbols::fpgroups::free_words::FreeWord) -> String {
    let mut s = w.len().to_string();
    for x in w.iter() {
        s.push(' ');
        s.push_str(&x.to_string());
    }
    s
}

/// nr_generators, relators (Vec order), cones (set order), gen_to_edge, edge_to_word (key order)
fn enc_fg(g: &FundamentalGroup) -> String {
    let mut s = g.nr_generators().to_string();
    s.push_str(&format!(" {}", g.relators.len()));
    for r in &g.relators {
        s.push(' ');
        s.push_str(&enc_word(r));
    }
    s.push_str(&format!(" {}", g.cones.len()));
    for (w, deg) in &g.cones {
        s.push(' ');
        s.push_str(&enc_word(w));
        s.push_str(&format!(" {}", deg));
    }
    s.push_str(&format!(" {}", g.gen_to_edge.len()));
    for (gen, (d, i)) in &g.gen_to_edge {
        s.push_str(&format!(" {} {} {}", gen, d, i));
    }
    s.push_str(&format!(" {}", g.edge_to_word.len()));
    for ((d, i), w) in &g.edge_to_word {
        s.push_str(&format!(" {} {} ", d, i));
        s.push_str(&enc_word(w));
    }
    s
}

struct Plan {
    quick: bool,
    seen: HashSet<Tab>,
}

/// index bound for the subgroup-class oracle, from the number of generators the
/// implementation uses (a preview run; the observed call is made again inside the case)
fn kmax_for(ngens: usize, size: usize, quick: bool) -> usize {
    if size > 48 {
        return 2;
    }
    if quick {
        match ngens {
            0..=3 => 3,
            4..=5 => 3,
            6..=10 => 2,
            _ => 2,
        }
    } else {
        match ngens {
            0..=3 => 4,
            4..=5 => 4,
            6..=7 => 3,
            _ => 2,
        }
    }
}

fn fg_case(ctx: &mut Ctx, plan: &mut Plan, t: &Tab, kind: &str) {
    if !plan.seen.insert(t.clone()) {
        return;
    }
    let ds: PartialDSym = t.to_partial_dsym();
    if !ctx.peek_mine() {
        // the `fg` case belongs to another shard; the `inner` case may still be ours
        ctx.skip();
        inner_case(ctx, t, &ds, kind);
        return;
    }
    let preview = catch_unwind(AssertUnwindSafe(|| fundamental_group(&ds).nr_generators())).unwrap_or(0);
    let kmax = kmax_for(preview, t.size, plan.quick);
    let tclimit = if t.dim == 3 { if plan.quick { 2000 } else { 6000 } } else { 0 };
    let sz = size_bucket(t.size);
    let gb = match preview {
        0..=5 => format!("gens={}", preview),
        _ => "gens=6+".to_string(),
    };
    let tags = format!("nt {} dim={} {} {} idx<={}", kind, t.dim, sz, gb, kmax);
    ctx.case("fg", &tags, || format!("{} {} {}", kmax, tclimit, t.enc()), || enc_fg(&fundamental_group(&ds)));
    inner_case(ctx, t, &ds, kind);
}

fn size_bucket(size: usize) -> String {
    match size {
        0..=7 => format!("size={}", size),
        8..=16 => "size=8..16".to_string(),
        17..=48 => "size=17..48".to_string(),
        _ => "size=49+".to_string(),
    }
}

fn inner_case(ctx: &mut Ctx, t: &Tab, ds: &PartialDSym, kind: &str) {
    ctx.case("inner", &format!("nt {} dim={} {}", kind, t.dim, size_bucket(t.size)), || t.enc(), || {
        let e = inner_edges(ds);
        let mut s = e.len().to_string();
        for (d, i) in e {
            s.push_str(&format!(" {} {}", d, i));
        }
        s
    });
}

fn parse(s: &str) -> Tab {
    Tab::from_dsym(&s.parse::<PartialDSym>().unwrap())
}

fn renumbered_variants(ctx: &mut Ctx, plan: &mut Plan, t: &Tab, rng: &mut Rng, k: usize, kind: &str) {
    fg_case(ctx, plan, t, kind);
    for _ in 0..k {
        let p = random_perm1(rng, t.size);
        fg_case(ctx, plan, &t.renumbered(&p), kind);
    }
}

fn main() {
    let mut ctx = Ctx::from_args();
    let th = ctx.thorough();
    let mut rng = ctx.rng(9);
    let mut plan = Plan { quick: !th, seen: HashSet::new() };

    // (0) the symbols pinned by the library's own tests and the known finite groups
    let pinned = [
        "<1.1:1 3:1,1,1,1:4,3,4>",
        "<1.1:2:2,2,2:4,3>",
        "<1.1:3:1 2 3,1 3,2 3:4 8,3>",
        "<1.1:24:2 4 6 8 10 12 14 16 18 20 22 24,16 3 5 7 9 11 13 15 24 19 21 23,10 9 20 19 14 13 22 21 24 23 18 17:8 4,3 3 3 3>",
        "<1.1:2 3:2,1 2,1 2,2:6,3 2,6>",
        "<1.1:8:2 4 6 8,8 3 5 7,1 2 3 4 5 6 7 8:4,4 6 8 4>",
        "<1.1:12:2 5 7 10 11 12,1 4 6 9 7 12 11,3 5 8 6 11 12 10:4 4,6 3 3>",
        "<1.1:1:1,1,1:3,3>",
        "<1.1:1:1,1,1:4,3>",
        "<1.1:1:1,1,1:3,5>",
        "<1.1:1:1,1,1:3,6>",
        "<1.1:1:1,1,1:4,4>",
        "<1.1:1 3:1,1,1,1:3,3,3>",
        "<1.1:1 3:1,1,1,1:4,3,3>",
        "<1.1:2 3:2,2,2,2:4,3,3>",
        "<1.1:1 3:1,1,1,1:4,3,4>",
    ];
    for s in pinned {
        let t = parse(s);
        renumbered_variants(&mut ctx, &mut plan, &t, &mut rng, if t.size > 1 { 2 } else { 0 }, "pinned");
    }

    // (1) every connected complete 2D symbol (all labellings) up to the size bound
    let (nmax2, vmax2): (usize, usize) = if th { (7, 6) } else { (5, 3) };
    for n in 1..=nmax2 {
        let sets = dsets(2, n, true, true, false);
        for t in &sets {
            let vals: Vec<usize> = (1..=vmax2).collect();
            let norb: usize = (0..t.dim).map(|i| t.orbit_reps2(i).len()).sum();
            let total = (vals.len() as f64).powi(norb as i32);
            let cap = if th { 40.0 } else { 30.0 };
            if total <= cap {
                for s in all_vs(t, &vals) {
                    fg_case(&mut ctx, &mut plan, &s, "all2d");
                }
            } else {
                // all assignments over {1,2,3} when few, and seeded ones over the full range
                let small: Vec<usize> = vec![1, 2, 3];
                if (3f64).powi(norb as i32) <= cap {
                    for s in all_vs(t, &small) {
                        fg_case(&mut ctx, &mut plan, &s, "all2d");
                    }
                }
                let k = if th { 6 } else if n <= 3 { 12 } else { 3 };
                for _ in 0..k {
                    let s = random_vs(t, &mut rng, &vals);
                    fg_case(&mut ctx, &mut plan, &s, "all2d");
                }
            }
        }
    }

    // (2) 3D
    let (nmax3, vmax3): (usize, usize) = if th { (3, 5) } else { (2, 3) };
    for n in 1..=nmax3 {
        let sets = dsets(3, n, true, true, false);
        for t in &sets {
            let vals: Vec<usize> = (1..=vmax3).collect();
            let norb: usize = (0..t.dim).map(|i| t.orbit_reps2(i).len()).sum();
            let total = (vals.len() as f64).powi(norb as i32);
            let cap = if th { 130.0 } else { 30.0 };
            if total <= cap {
                for s in all_vs(t, &vals) {
                    fg_case(&mut ctx, &mut plan, &s, "all3d");
                }
            } else {
                let k = if th { 8 } else { 4 };
                for _ in 0..k {
                    let s = random_vs(t, &mut rng, &vals);
                    fg_case(&mut ctx, &mut plan, &s, "all3d");
                }
            }
        }
    }

    // (3) larger seeded symbols and renumberings
    let nrand = if th { 1500 } else { 120 };
    for k in 0..nrand {
        let dim = if k % 4 == 3 { 3 } else { 2 };
        let n = 5 + rng.below(if dim == 3 { 5 } else { 8 });
        if let Some(t) = random_dset(&mut rng, dim, n, true) {
            let vals: &[usize] = if k % 3 == 0 { &[1, 1, 1, 2, 3] } else { &[1, 2, 3, 4, 6] };
            let s = random_vs(&t, &mut rng, vals);
            fg_case(&mut ctx, &mut plan, &s, "random");
        }
    }

    // (4) covers (built by the library; each is just another input symbol, validated by the Spec)
    let bases = [
        "<1.1:1:1,1,1:3,3>",
        "<1.1:1:1,1,1:4,3>",
        "<1.1:1:1,1,1:3,6>",
        "<1.1:1:1,1,1:4,4>",
        "<1.1:2:2,2,2:4,3>",
        "<1.1:2:2,2,2:3,3>",
        "<1.1:3:1 2 3,1 3,2 3:4 8,3>",
        "<1.1:1:1,1,1:3,7>",
        "<1.1:2:1 2,1 2,2:3 4,4>",
    ];
    for (bi, s) in bases.iter().enumerate() {
        let ds = s.parse::<PartialDSym>().unwrap();
        let deg = if th { 6 } else { 4 };
        let covs = catch_unwind(AssertUnwindSafe(|| covers(&ds, deg))).unwrap_or_default();
        let stride = if th { 1 } else { 3 };
        for (k, c) in covs.iter().enumerate() {
            if k % stride == bi % stride {
                let t = Tab::from_dsym(c);
                renumbered_variants(&mut ctx, &mut plan, &t, &mut rng, 1, "cover");
            }
        }
        if let Ok(o) = catch_unwind(AssertUnwindSafe(|| oriented_cover(&ds))) {
            renumbered_variants(&mut ctx, &mut plan, &Tab::from_dsym(&o), &mut rng, 1, "cover");
        }
    }
    let big: &[&str] = if th {
        &["<1.1:1:1,1,1:3,3>", "<1.1:1:1,1,1:4,3>", "<1.1:1:1,1,1:3,5>", "<1.1:2:2,2,2:4,3>", "<1.1:1 3:1,1,1,1:3,3,3>"]
    } else {
        &["<1.1:1:1,1,1:3,3>", "<1.1:1:1,1,1:4,3>"]
    };
    for s in big {
        let ds = s.parse::<PartialDSym>().unwrap();
        if let Ok(c) = catch_unwind(AssertUnwindSafe(|| finite_universal_cover(&ds))) {
            renumbered_variants(&mut ctx, &mut plan, &Tab::from_dsym(&c), &mut rng, 1, "cover");
        }
    }
    let eucl: &[&str] = if th {
        &["<1.1:1:1,1,1:3,6>", "<1.1:1:1,1,1:4,4>", "<1.1:2:2,2,2:4,4>", "<1.1:2:2,2,2:3,6>", "<1.1:3:1 2 3,1 3,2 3:4 8,3>", "<1.1:2:1 2,1 2,2:3 4,4>"]
    } else {
        &["<1.1:1:1,1,1:4,4>", "<1.1:2:2,2,2:3,6>"]
    };
    for s in eucl {
        let ds = s.parse::<PartialDSym>().unwrap();
        if let Ok(c) = catch_unwind(AssertUnwindSafe(|| toroidal_cover(&ds))) {
            renumbered_variants(&mut ctx, &mut plan, &Tab::from_dsym(&c), &mut rng, 1, "cover");
        }
    }
    ctx.finish();
}
