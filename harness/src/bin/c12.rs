//! C12 — low-index subgroup enumeration: drives the real `coset_tables`.
use rust_dsymbols::fpgroups::cosets::{coset_tables, CosetTable};
use rust_dsymbols::fpgroups::free_words::FreeWord;
use rust_dsymbols::dsyms::{DSym, PartialDSym};
use rust_dsymbols::fundamental_group::fundamental_group;
use verif_harness::dsgen::{random_dset, random_vs};
use verif_harness::groups::corpus;
use verif_harness::{enc_lists, Ctx, Rng};

fn fw(raw: &[isize]) -> FreeWord {
    FreeWord::new(raw.iter().cloned())
}

fn view(t: &CosetTable) -> Vec<Vec<isize>> {
    (0..t.len())
        .map(|c| t.all_gens().iter().map(|&g| t.get(c, g).map(|d| d as isize).unwrap_or(-1)).collect())
        .collect()
}

fn case(ctx: &mut Ctx, name: &str, nr_gens: usize, rels: &[Vec<isize>], k: usize, kind: &str) {
    case_op(ctx, "lowindex", name, nr_gens, rels, k, kind)
}

/// validity-only: the Spec uses no census (presentations too large for it)
fn case_nc(ctx: &mut Ctx, name: &str, nr_gens: usize, rels: &[Vec<isize>], k: usize, kind: &str) {
    case_op(ctx, "lowindex_nc", name, nr_gens, rels, k, kind)
}

fn case_op(ctx: &mut Ctx, op: &str, name: &str, nr_gens: usize, rels: &[Vec<isize>], k: usize, kind: &str) {
    let nt = if k >= 2 { "nt " } else { "" };
    let tags = format!("{nt}gens={} k={k} kind={kind}", nr_gens.min(9));
    ctx.case(
        op,
        &tags,
        || format!("{} {} {} {}", name, nr_gens, enc_lists(rels), k),
        || {
            let r: Vec<FreeWord> = rels.iter().map(|w| fw(w)).collect();
            let tables: Vec<CosetTable> = coset_tables(nr_gens, &r, k).collect();
            let mut s = tables.len().to_string();
            for t in &tables {
                s.push(' ');
                s.push_str(&enc_lists(&view(t)));
            }
            s
        },
    );
}

/// presentation of the fundamental group of a D-symbol, as the library computes it
fn fg_presentation<T: DSym>(ds: &T) -> (usize, Vec<Vec<isize>>) {
    let g = fundamental_group(ds);
    (g.nr_generators(), g.relators.iter().map(|w| w.iter().cloned().collect()).collect())
}

/// largest k <= kmax for which the enumeration stays below `cap` tables (universe
/// selection only: keeps the quadratic inequivalence clause affordable)
fn capped_k(nr_gens: usize, rels: &[Vec<isize>], kmax: usize, cap: usize) -> usize {
    let r: Vec<FreeWord> = rels.iter().map(|w| fw(w)).collect();
    let mut k = kmax;
    while k > 1 {
        let r2 = r.clone();
        let n = std::panic::catch_unwind(std::panic::AssertUnwindSafe(|| coset_tables(nr_gens, &r2, k).take(cap + 1).count()))
            .unwrap_or(0);
        if n <= cap {
            break;
        }
        k -= 1;
    }
    k
}

fn sym_cases(ctx: &mut Ctx, sym: &str, ks: &[usize], kind: &str) {
    let ds: PartialDSym = sym.parse().expect("hard-coded symbol");
    let (ng, rels) = fg_presentation(&ds);
    let name: String = sym.chars().map(|c| if c == ' ' { '_' } else { c }).collect();
    for &k in ks {
        case_nc(ctx, &name, ng, &rels, k, kind);
    }
}

fn random_relator(rng: &mut Rng, g: usize, len: usize) -> Vec<isize> {
    (0..len)
        .map(|_| {
            let x = rng.range(1, g as i64) as isize;
            if rng.chance(1, 2) { x } else { -x }
        })
        .collect()
}

fn pw(w: &[isize], k: usize) -> Vec<isize> {
    let mut v = vec![];
    for _ in 0..k {
        v.extend_from_slice(w);
    }
    v
}

fn comm(a: isize, b: isize) -> Vec<isize> {
    vec![a, b, -a, -b]
}

/// all cyclically reduced words of the given length over the letters ±1..±g, each with the flags
/// (least member of its class under rotation and inversion, has a border = a proper prefix that
/// is also a suffix).  The implementation starts from the word as given, so the choice of the
/// cyclic representative is part of the input.
fn short_relators(g: isize, len: usize) -> Vec<(Vec<isize>, bool, bool)> {
    let letters: Vec<isize> = (1..=g).flat_map(|x| [x, -x]).collect();
    let mut out = vec![];
    let total = letters.len().pow(len as u32);
    for mut code in 0..total {
        let mut w = Vec::with_capacity(len);
        for _ in 0..len {
            w.push(letters[code % letters.len()]);
            code /= letters.len();
        }
        if (0..len).any(|i| w[i] == -w[(i + 1) % len]) {
            continue;
        }
        let inv: Vec<isize> = w.iter().rev().map(|&x| -x).collect();
        let mut least = w.clone();
        for base in [&w, &inv] {
            for r in 0..len {
                let rot: Vec<isize> = (0..len).map(|i| base[(i + r) % len]).collect();
                if rot < least {
                    least = rot;
                }
            }
        }
        let bordered = (1..len).any(|p| (p..len).all(|k| w[k] == w[k - p]));
        let is_least = least == w;
        out.push((w, is_least, bordered));
    }
    out
}

fn word_name(w: &[isize]) -> String {
    w.iter()
        .map(|&x| {
            let c = (b'a' + (x.unsigned_abs() as u8 - 1)) as char;
            if x > 0 { c.to_string() } else { c.to_ascii_uppercase().to_string() }
        })
        .collect()
}

/// a relator on the pair of generators (i, j): the commutator (1 in 3) or the Coxeter-like
/// (ij)^m with m = 2..5
fn pair_relator(rng: &mut Rng, i: isize, j: isize) -> Vec<isize> {
    if rng.chance(1, 3) {
        comm(i, j)
    } else {
        let m = 2 + rng.below(4);
        pw(&[i, j], m)
    }
}

/// sparse presentation on `g` generators: the given short relators, `np` pair relators on
/// distinct random pairs, `nw` random words of length 2-5, in shuffled order
fn sparse_presentation(rng: &mut Rng, g: usize, short: &[Vec<isize>], np: usize, nw: usize) -> Vec<Vec<isize>> {
    let mut rels: Vec<Vec<isize>> = short.to_vec();
    let mut pairs = vec![];
    for i in 1..=g as isize {
        for j in (i + 1)..=g as isize {
            pairs.push((i, j));
        }
    }
    rng.shuffle(&mut pairs);
    for &(i, j) in pairs.iter().take(np) {
        rels.push(pair_relator(rng, i, j));
    }
    for _ in 0..nw {
        let l = 2 + rng.below(4);
        rels.push(random_relator(rng, g, l));
    }
    rng.shuffle(&mut rels);
    rels
}

fn pres_name(rels: &[Vec<isize>]) -> String {
    rels.iter().map(|w| word_name(w)).collect::<Vec<_>>().join(",")
}

fn main() {
    let mut ctx = Ctx::from_args();
    let th = ctx.thorough();

    // (0) regression: D10 — the empty relator made coset_tables panic
    case(&mut ctx, "F2+empty-relator", 2, &[vec![]], 3, "regress");
    case(&mut ctx, "Z2xZ2+trivial-relator", 2, &[vec![1, 1], vec![2, -2], vec![2, 2], vec![1, 2, 1, 2]], 4, "regress");

    // D15: a generator killed by a length-1 relator; deductions filled entries out of
    // row-major order and is_canonical pruned partial tables whose completion is canonical
    case(&mut ctx, "Z4+killed-a", 2, &[vec![1], vec![2, 2, 2, 2]], 4, "regress");
    case(&mut ctx, "Z4+killed-b", 2, &[vec![1, 1, 1, 1], vec![2]], 4, "regress");
    case(&mut ctx, "c=1,c=a^-1b^2", 3, &[vec![3], vec![3, -1, 2, 2]], 5, "regress");

    // C12-m9 (round-4 seeded change: the stand-in for an undefined entry of the re-based table in
    // compare_renumbered_from was n-1 instead of n; a partial table whose row 0 refers to the
    // last row several times was pruned although its completion is canonical): the witness and
    // its three-relator core
    if std::env::var("VERIF_C12_NO_WITNESS").is_err() {
        let w = vec![pw(&[4], 2), comm(1, 2), pw(&[1, 3], 3), pw(&[2, 3], 5), pw(&[3, 4], 3)];
        case(&mut ctx, "d^2,[a,b],(ac)^3,(bc)^5,(cd)^3", 4, &w, 5, "regress");
        case(&mut ctx, "d^2,[a,b],(ac)^3", 4, &w[..3], 5, "regress");
    }

    // (1d) sparse presentations on >= 4 generators with one short relator, as a rule on the LAST
    //      generator (an involution d^2: every definition 0.d = m at once fills the later
    //      columns d^-1 of rows 0 and m while earlier columns of row m stay undefined, so the
    //      canonicity test compares defined entries of row 0 that refer to the highest row with
    //      undefined entries of the re-based copy — and few relators keep those entries
    //      undefined for long and leave thousands of tables to complete them): d^2 plus 2-4 pair
    //      relators (commutators and Coxeter-like (xy)^m on random pairs) and possibly a random
    //      word, at index 5 on 4 generators and index 4 on 5 generators; the same with the short
    //      relator elsewhere or of another shape (a^2, b^2, c^2, d^3, d^4, d = x^±1 redundant,
    //      d killed, c^2 and d^2); 3 generators at index 6.  The index is lowered until at most
    //      12000 tables.  Census clauses up to the brute-force limit (index 4 on 4 generators);
    //      beyond it the verdict is the comparison with the proved model's sequence.
    {
        let mut rng = ctx.rng(1203);
        let m = if th { 5 } else { 1 };
        // (generators, index, which short relators, pair relators, random words, how many)
        let plan: Vec<(usize, usize, usize, usize, usize, usize)> = vec![
            (4, 5, 0, 3, 0, 20 * m),
            (4, 5, 0, 4, 0, 8 * m),
            (4, 5, 0, 2, 0, 4 * m),
            (4, 5, 0, 2, 1, 6 * m),
            (4, 5, 0, 1, 1, if th { 20 } else { 0 }),
            (5, 4, 0, 3, 0, 4 * m),
            (5, 4, 0, 4, 0, 4 * m),
            (5, 5, 0, 5, 0, if th { 8 } else { 0 }),
            (4, 5, 1, 3, 0, 9 * m),
            (3, 6, 0, 1, 0, 2 * m),
        ];
        for (g, k, which, np, nw, count) in plan {
            let d = g as isize;
            for i in 0..count {
                let o = 1 + rng.below(g - 1) as isize;
                let short: Vec<Vec<isize>> = if which == 0 {
                    vec![vec![d, d]]
                } else {
                    match i % 9 {
                        0 => vec![vec![1, 1]],
                        1 => vec![vec![2, 2]],
                        2 => vec![vec![3, 3]],
                        3 => vec![vec![d, d, d]],
                        4 => vec![vec![d, d, d, d]],
                        5 => vec![vec![d, o]],
                        6 => vec![vec![d, -o]],
                        7 => vec![vec![d]],
                        _ => vec![vec![d - 1, d - 1], vec![d, d]],
                    }
                };
                let rels = sparse_presentation(&mut rng, g, &short, np, nw);
                let kk = if ctx.peek_mine() { capped_k(g, &rels, k, 12000) } else { k };
                let nm = format!("sparse-{}", pres_name(&rels));
                if g <= 4 {
                    case(&mut ctx, &nm, g, &rels, kk, "sparse-late-short-relator");
                } else {
                    case_nc(&mut ctx, &nm, g, &rels, kk, "sparse-late-short-relator");
                }
            }
        }
    }

    // (1a) trivial and redundant generators: every base presentation with one extra
    //      generator inserted at every position and killed by a length-1 relator (also one
    //      that only reduces to length 1), or identified with another generator / a word
    {
        let base: Vec<(&str, usize, Vec<Vec<isize>>)> = vec![
            ("Z2", 1, vec![pw(&[1], 2)]),
            ("Z3", 1, vec![pw(&[1], 3)]),
            ("Z4", 1, vec![pw(&[1], 4)]),
            ("Z6", 1, vec![pw(&[1], 6)]),
            ("F1", 1, vec![]),
            ("F2", 2, vec![]),
            ("Z^2", 2, vec![comm(1, 2)]),
            ("S3", 2, vec![pw(&[1], 2), pw(&[2], 2), pw(&[1, 2], 3)]),
            ("Z2xZ4", 2, vec![pw(&[1], 2), pw(&[2], 4), comm(1, 2)]),
            ("Q8", 2, vec![pw(&[1], 4), vec![1, 1, -2, -2], vec![-2, 1, 2, 1]]),
            ("T233", 2, vec![pw(&[1], 2), pw(&[2], 3), pw(&[1, 2], 3)]),
        ];
        let kq = if th { 7 } else { 5 };
        for (name, ng, rels) in &base {
            for pos in 1..=(*ng as isize + 1) {
                // shift letters >= pos up by one
                let shifted: Vec<Vec<isize>> = rels
                    .iter()
                    .map(|w| w.iter().map(|&x| if x.abs() >= pos { x + x.signum() } else { x }).collect())
                    .collect();
                let other: isize = if pos == 1 { 2 } else { 1 };
                let variants: Vec<(&str, Vec<isize>)> = vec![
                    ("killed", vec![pos]),
                    ("killed-inv", vec![-pos]),
                    ("killed-unreduced", vec![other, pos, -other]),
                    ("equal", vec![pos, -other]),
                    ("equal-inv", vec![pos, other]),
                    ("word", vec![pos, -other, -other]),
                ];
                for (vn, extra) in variants {
                    for first in [true, false] {
                        let mut r = shifted.clone();
                        if first {
                            r.insert(0, extra.clone());
                        } else {
                            r.push(extra.clone());
                        }
                        let kmax = if *ng == 2 && rels.is_empty() { kq.min(4) } else { kq };
                        let nm = format!("{name}+gen{pos}-{vn}");
                        for k in 1..=kmax {
                            case(&mut ctx, &nm, ng + 1, &r, k, "redundant-generator");
                        }
                    }
                }
            }
        }
        // two killed generators, and the lead's example
        for k in 1..=kq {
            case(&mut ctx, "Z4+two-killed", 3, &[vec![1], vec![2, 2, 2, 2], vec![3]], k, "redundant-generator");
            case(&mut ctx, "Z4+two-killed'", 3, &[vec![2], vec![3], vec![1, 1, 1, 1]], k, "redundant-generator");
            case(&mut ctx, "c=1,c=a^-1b^2", 3, &[vec![3], vec![3, -1, 2, 2]], k, "redundant-generator");
        }
    }

    // C12-m6 / C12-m7 (round-3 seeded changes): relators of which a rotation was never scanned
    case(&mut ctx, "abc,b^3,ccbac", 3, &[vec![1, 2, 3], pw(&[2], 3), vec![3, 3, 2, 1, 3]], 4, "regress");
    case(&mut ctx, "ababa", 2, &[vec![1, 2, 1, 2, 1]], 6, "regress");

    // (1c) short relators, systematically: every one-relator presentation on two generators
    //      with a cyclically reduced relator of length <= 5 (quick) / <= 6 (thorough) — one word
    //      per class under rotation and inversion plus every bordered word (uv)^m u such as
    //      ababa, abaBa in all its rotations (quick), every word (thorough) — at index 6, where
    //      the last rotation of a relator is the one to close; pairs of such relators; three
    //      generators with abc and two short relators
    {
        let lmax = if th { 6 } else { 5 };
        let mut pool: Vec<Vec<isize>> = vec![];
        for len in 1..=lmax {
            for (w, is_least, bordered) in short_relators(2, len) {
                // quick: one word per class, and every bordered word (all its rotations and
                // inverses are separate inputs); thorough: every cyclically reduced word
                if th || is_least || bordered {
                    case(&mut ctx, &format!("1rel-{}", word_name(&w)), 2, &[w.clone()], 6, "short-relator");
                }
                if is_least {
                    if th {
                        for k in [4, 5] {
                            case(&mut ctx, &format!("1rel-{}", word_name(&w)), 2, &[w.clone()], k, "short-relator");
                        }
                    }
                    pool.push(w.clone());
                }
                if bordered && !is_least {
                    pool.push(w);
                }
            }
        }
        let mut rng = ctx.rng(1202);
        let np = if th { 400 } else { 40 };
        for _ in 0..np {
            let a = pool[rng.below(pool.len())].clone();
            let b = pool[rng.below(pool.len())].clone();
            let nm = format!("2rel-{}-{}", word_name(&a), word_name(&b));
            case(&mut ctx, &nm, 2, &[a, b], 6, "short-relator");
        }
        let n3 = if th { 300 } else { 40 };
        for _ in 0..n3 {
            let l1 = 2 + rng.below(4);
            let l2 = 2 + rng.below(4);
            let r1 = random_relator(&mut rng, 3, l1);
            let r2 = random_relator(&mut rng, 3, l2);
            let nm = format!("abc-{}-{}", word_name(&r1), word_name(&r2));
            case(&mut ctx, &nm, 3, &[vec![1, 2, 3], r1, r2], 4, "short-relator");
        }
    }

    // (1b) validity-only cases on presentations beyond the census: many generators / long
    //      relators at a moderate index (a deduction queue that does not rescan a row emits
    //      complete tables in which a relator does not close only there)
    {
        // the four symbols on which the "never re-queue a row" change was first visible
        let ks: Vec<usize> = if th { (1..=6).collect() } else { (1..=4).collect() };
        sym_cases(&mut ctx, "<1.1:8:1 2 3 4 5 6 8,1 3 5 7 8,2 4 6 8:3 4 4 3,8>", &ks, "dsym2d");
        sym_cases(&mut ctx, "<1.1:4 3:2 4,2 4,3 4,2 4:4 4,4,6>", &ks, "dsym3d");
        sym_cases(&mut ctx, "<1.1:4 3:1 4 3,2 4,1 4 3,3 4:4,4,4 3>", &ks, "dsym3d");
        let ks9: Vec<usize> = if th { (1..=9).collect() } else { (1..=6).collect() };
        sym_cases(&mut ctx, "<1.1:3:1 2 3,1 3,2 3:3 10,3>", &ks9, "dsym2d");
        // seeded samples: 2D symbols with 6-8 chambers, 3D symbols with 2-4 chambers
        let mut rng = ctx.rng(1200);
        let n2 = if th { 60 } else { 12 };
        for i in 0..n2 {
            let n = 6 + rng.below(3);
            if let Some(t) = random_dset(&mut rng, 2, n, true) {
                let t = random_vs(&t, &mut rng, &[1, 1, 2, 3]);
                let ds = t.to_partial_dsym();
                let (ng, rels) = fg_presentation(&ds);
                let kmax = capped_k(ng, &rels, if th { 6 } else { 4 }, 1500);
                for k in [kmax.max(2) - 1, kmax] {
                    case_nc(&mut ctx, &format!("rand2d-{i}-n{n}"), ng, &rels, k, "dsym2d");
                }
            }
        }
        let n3 = if th { 60 } else { 12 };
        for i in 0..n3 {
            let n = 2 + rng.below(3);
            if let Some(t) = random_dset(&mut rng, 3, n, true) {
                let t = random_vs(&t, &mut rng, &[1, 1, 2, 3]);
                let ds = t.to_partial_dsym();
                let (ng, rels) = fg_presentation(&ds);
                let kmax = capped_k(ng, &rels, if th { 6 } else { 4 }, 1500);
                for k in [kmax.max(2) - 1, kmax] {
                    case_nc(&mut ctx, &format!("rand3d-{i}-n{n}"), ng, &rels, k, "dsym3d");
                }
            }
        }
        // long-relator abstract presentations
        let tri = |l: usize, m: usize, n: usize| vec![pw(&[1], l), pw(&[2], m), pw(&[1, 2], n)];
        let kt = if th { 9 } else { 8 };
        for k in 5..=kt {
            case_nc(&mut ctx, "triangle-2-3-7", 2, &tri(2, 3, 7), k, "long-relators");
            case_nc(&mut ctx, "triangle-2-4-5", 2, &tri(2, 4, 5), k, "long-relators");
            case_nc(&mut ctx, "triangle-3-3-4", 2, &tri(3, 3, 4), k, "long-relators");
        }
        let surf = vec![[comm(1, 2), comm(3, 4)].concat()];
        for k in 1..=4 {
            case_nc(&mut ctx, "surface-genus-2", 4, &surf, k, "long-relators");
        }
        let mut rng = ctx.rng(1201);
        let nr = if th { 150 } else { 30 };
        for i in 0..nr {
            let g = 3 + rng.below(2);
            let nrel = 3 + rng.below(3);
            let rels: Vec<Vec<isize>> = (0..nrel)
                .map(|_| {
                    let len = 4 + rng.below(7);
                    random_relator(&mut rng, g, len)
                })
                .collect();
            let kmax = capped_k(g, &rels, if th { 5 } else { 4 }, 1500);
            case_nc(&mut ctx, &format!("random-{i}"), g, &rels, kmax, "random-presentation");
        }
    }

    // (1) infinite groups: (name, gens, relators, kmax quick, kmax thorough)
    let mut inf: Vec<(&str, usize, Vec<Vec<isize>>, usize, usize)> = vec![
        ("F0", 0, vec![], 2, 3),
        ("F1", 1, vec![], 8, 12),
        ("F2", 2, vec![], 6, 7),
        ("F3", 3, vec![], 3, 4),
        ("Z^2", 2, vec![comm(1, 2)], 8, 12),
        ("Z^3", 3, vec![comm(1, 2), comm(1, 3), comm(2, 3)], 5, 8),
        ("surface-genus-2", 4, vec![[comm(1, 2), comm(3, 4)].concat()], 3, 4),
        ("klein-bottle", 2, vec![vec![1, 2, -1, 2]], 6, 8),
        ("nonorientable-genus-3", 3, vec![vec![1, 1, 2, 2, 3, 3]], 4, 5),
        ("triangle-2-3-7", 2, vec![pw(&[1], 2), pw(&[2], 3), pw(&[1, 2], 7)], 8, 14),
        ("triangle-2-4-5", 2, vec![pw(&[1], 2), pw(&[2], 4), pw(&[1, 2], 5)], 7, 10),
        ("triangle-2-3-6", 2, vec![pw(&[1], 2), pw(&[2], 3), pw(&[1, 2], 6)], 7, 9),
        (
            "coxeter-2-3-7",
            3,
            vec![pw(&[1], 2), pw(&[2], 2), pw(&[3], 2), pw(&[1, 2], 2), pw(&[2, 3], 3), pw(&[1, 3], 7)],
            4,
            7,
        ),
        ("modular-Z2*Z3", 2, vec![pw(&[1], 2), pw(&[2], 3)], 7, 10),
        ("infinite-dihedral", 2, vec![pw(&[1], 2), pw(&[2], 2)], 8, 12),
        ("BS-1-2", 2, vec![vec![1, 2, -1, -2, -2]], 6, 8),
        ("trefoil", 2, vec![vec![1, 2, 1, -2, -1, -2]], 6, 7),
        // relators that are not cyclically reduced / reduce on construction
        ("F2-conj-relator", 2, vec![vec![1, 2, -1]], 5, 7),
        ("Z-padded", 2, vec![vec![1, -1, 2, 2, -2]], 5, 7),
    ];
    for (name, ng, rels, kq, kt) in inf.drain(..) {
        let kmax = if th { kt } else { kq };
        for k in 1..=kmax {
            case(&mut ctx, name, ng, &rels, k, "infinite");
        }
    }

    // (2) the finite corpus groups
    for g in corpus() {
        if !th && !g.quick {
            continue;
        }
        let kmax = (if th { 7 } else { 5 }).min(g.order.max(1));
        for k in 1..=kmax {
            case(&mut ctx, &g.name, g.nr_gens, &g.rels, k, "finite");
        }
        // the whole subgroup lattice up to conjugacy for small groups
        if g.order <= (if th { 24 } else { 12 }) && g.order > kmax {
            case(&mut ctx, &g.name, g.nr_gens, &g.rels, g.order, "finite-all");
        }
    }
    ctx.finish();
}
