//! C12 — low-index subgroup enumeration: drives the real `coset_tables`.
use rust_dsymbols::fpgroups::cosets::{coset_tables, CosetTable};
use rust_dsymbols::fpgroups::free_words::FreeWord;
use verif_harness::groups::corpus;
use verif_harness::{enc_lists, Ctx};

fn fw(raw: &[isize]) -> FreeWord {
    FreeWord::new(raw.iter().cloned())
}

fn view(t: &CosetTable) -> Vec<Vec<isize>> {
    (0..t.len())
        .map(|c| t.all_gens().iter().map(|&g| t.get(c, g).map(|d| d as isize).unwrap_or(-1)).collect())
        .collect()
}

fn case(ctx: &mut Ctx, name: &str, nr_gens: usize, rels: &[Vec<isize>], k: usize, kind: &str) {
    let nt = if k >= 2 { "nt " } else { "" };
    let tags = format!("{nt}gens={nr_gens} k={k} kind={kind}");
    ctx.case(
        "lowindex",
        &tags,
        || format!("{} {} {} {}", name, nr_gens, enc_lists(rels), k),
        || {
            let r: Vec<FreeWord> = rels.iter().map(|w| fw(w)).collect();
            let tables: Vec<CosetTable> = coset_tables(nr_gens, &r, k).collect();
            let mut s = tables.len().to_string();
            for t in &tables {
                s.push(' ');
                s.push_str(&enc_lists(&view(t)));
            }
            s
        },
    );
}

fn pw(w: &[isize], k: usize) -> Vec<isize> {
    let mut v = vec![];
    for _ in 0..k {
        v.extend_from_slice(w);
    }
    v
}

fn comm(a: isize, b: isize) -> Vec<isize> {
    vec![a, b, -a, -b]
}

fn main() {
    let mut ctx = Ctx::from_args();
    let th = ctx.thorough();

    // (0) regression: D10 — the empty relator made coset_tables panic
    case(&mut ctx, "F2+empty-relator", 2, &[vec![]], 3, "regress");
    case(&mut ctx, "Z2xZ2+trivial-relator", 2, &[vec![1, 1], vec![2, -2], vec![2, 2], vec![1, 2, 1, 2]], 4, "regress");

    // D15: a generator killed by a length-1 relator; deductions filled entries out of
    // row-major order and is_canonical pruned partial tables whose completion is canonical
    case(&mut ctx, "Z4+killed-a", 2, &[vec![1], vec![2, 2, 2, 2]], 4, "regress");
    case(&mut ctx, "Z4+killed-b", 2, &[vec![1, 1, 1, 1], vec![2]], 4, "regress");
    case(&mut ctx, "c=1,c=a^-1b^2", 3, &[vec![3], vec![3, -1, 2, 2]], 5, "regress");

    // (1a) trivial and redundant generators: every base presentation with one extra
    //      generator inserted at every position and killed by a length-1 relator (also one
    //      that only reduces to length 1), or identified with another generator / a word
    {
        let base: Vec<(&str, usize, Vec<Vec<isize>>)> = vec![
            ("Z2", 1, vec![pw(&[1], 2)]),
            ("Z3", 1, vec![pw(&[1], 3)]),
            ("Z4", 1, vec![pw(&[1], 4)]),
            ("Z6", 1, vec![pw(&[1], 6)]),
            ("F1", 1, vec![]),
            ("F2", 2, vec![]),
            ("Z^2", 2, vec![comm(1, 2)]),
            ("S3", 2, vec![pw(&[1], 2), pw(&[2], 2), pw(&[1, 2], 3)]),
            ("Z2xZ4", 2, vec![pw(&[1], 2), pw(&[2], 4), comm(1, 2)]),
            ("Q8", 2, vec![pw(&[1], 4), vec![1, 1, -2, -2], vec![-2, 1, 2, 1]]),
            ("T233", 2, vec![pw(&[1], 2), pw(&[2], 3), pw(&[1, 2], 3)]),
        ];
        let kq = if th { 7 } else { 5 };
        for (name, ng, rels) in &base {
            for pos in 1..=(*ng as isize + 1) {
                // shift letters >= pos up by one
                let shifted: Vec<Vec<isize>> = rels
                    .iter()
                    .map(|w| w.iter().map(|&x| if x.abs() >= pos { x + x.signum() } else { x }).collect())
                    .collect();
                let other: isize = if pos == 1 { 2 } else { 1 };
                let variants: Vec<(&str, Vec<isize>)> = vec![
                    ("killed", vec![pos]),
                    ("killed-inv", vec![-pos]),
                    ("killed-unreduced", vec![other, pos, -other]),
                    ("equal", vec![pos, -other]),
                    ("equal-inv", vec![pos, other]),
                    ("word", vec![pos, -other, -other]),
                ];
                for (vn, extra) in variants {
                    for first in [true, false] {
                        let mut r = shifted.clone();
                        if first {
                            r.insert(0, extra.clone());
                        } else {
                            r.push(extra.clone());
                        }
                        let kmax = if *ng == 2 && rels.is_empty() { kq.min(4) } else { kq };
                        let nm = format!("{name}+gen{pos}-{vn}");
                        for k in 1..=kmax {
                            case(&mut ctx, &nm, ng + 1, &r, k, "redundant-generator");
                        }
                    }
                }
            }
        }
        // two killed generators, and the lead's example
        for k in 1..=kq {
            case(&mut ctx, "Z4+two-killed", 3, &[vec![1], vec![2, 2, 2, 2], vec![3]], k, "redundant-generator");
            case(&mut ctx, "Z4+two-killed'", 3, &[vec![2], vec![3], vec![1, 1, 1, 1]], k, "redundant-generator");
            case(&mut ctx, "c=1,c=a^-1b^2", 3, &[vec![3], vec![3, -1, 2, 2]], k, "redundant-generator");
        }
    }

    // (1) infinite groups: (name, gens, relators, kmax quick, kmax thorough)
    let mut inf: Vec<(&str, usize, Vec<Vec<isize>>, usize, usize)> = vec![
        ("F0", 0, vec![], 2, 3),
        ("F1", 1, vec![], 8, 12),
        ("F2", 2, vec![], 6, 7),
        ("F3", 3, vec![], 3, 4),
        ("Z^2", 2, vec![comm(1, 2)], 8, 12),
        ("Z^3", 3, vec![comm(1, 2), comm(1, 3), comm(2, 3)], 5, 8),
        ("surface-genus-2", 4, vec![[comm(1, 2), comm(3, 4)].concat()], 3, 4),
        ("klein-bottle", 2, vec![vec![1, 2, -1, 2]], 6, 8),
        ("nonorientable-genus-3", 3, vec![vec![1, 1, 2, 2, 3, 3]], 4, 5),
        ("triangle-2-3-7", 2, vec![pw(&[1], 2), pw(&[2], 3), pw(&[1, 2], 7)], 8, 14),
        ("triangle-2-4-5", 2, vec![pw(&[1], 2), pw(&[2], 4), pw(&[1, 2], 5)], 7, 10),
        ("triangle-2-3-6", 2, vec![pw(&[1], 2), pw(&[2], 3), pw(&[1, 2], 6)], 7, 9),
        (
            "coxeter-2-3-7",
            3,
            vec![pw(&[1], 2), pw(&[2], 2), pw(&[3], 2), pw(&[1, 2], 2), pw(&[2, 3], 3), pw(&[1, 3], 7)],
            4,
            7,
        ),
        ("modular-Z2*Z3", 2, vec![pw(&[1], 2), pw(&[2], 3)], 7, 10),
        ("infinite-dihedral", 2, vec![pw(&[1], 2), pw(&[2], 2)], 8, 12),
        ("BS-1-2", 2, vec![vec![1, 2, -1, -2, -2]], 6, 8),
        ("trefoil", 2, vec![vec![1, 2, 1, -2, -1, -2]], 6, 7),
        // relators that are not cyclically reduced / reduce on construction
        ("F2-conj-relator", 2, vec![vec![1, 2, -1]], 5, 7),
        ("Z-padded", 2, vec![vec![1, -1, 2, 2, -2]], 5, 7),
    ];
    for (name, ng, rels, kq, kt) in inf.drain(..) {
        let kmax = if th { kt } else { kq };
        for k in 1..=kmax {
            case(&mut ctx, name, ng, &rels, k, "infinite");
        }
    }

    // (2) the finite corpus groups
    for g in corpus() {
        if !th && !g.quick {
            continue;
        }
        let kmax = (if th { 7 } else { 5 }).min(g.order.max(1));
        for k in 1..=kmax {
            case(&mut ctx, &g.name, g.nr_gens, &g.rels, k, "finite");
        }
        // the whole subgroup lattice up to conjugacy for small groups
        if g.order <= (if th { 24 } else { 12 }) && g.order > kmax {
            case(&mut ctx, &g.name, g.nr_gens, &g.rels, g.order, "finite-all");
        }
    }
    ctx.finish();
}
