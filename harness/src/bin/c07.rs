//! C07 — the D-symbol generator `DSyms` is sound, complete and irredundant per geometry.
//!
//! One case per (D-set, geometry):
//!   IN  gen <geom 0..3 = S,E,H,All> <D-set tables, all v = 0>
//!   OUT <k> { <symbol_count> <symbol tables> <curvature num> <curvature den> <orbifold_symbol> }^k
//! in emission order.  The D-sets are fed to `DSyms::new` as `SimpleDSet`s, as the real
//! pipeline does: those of the library's own `DSets::new(2, n)` untouched, and every labelled
//! connected complete 2D D-set of the harness' own enumeration (`dsgen::dsets`) converted by
//! `SimpleDSet::from(PartialDSet)`.
use rust_dsymbols::covers::finite_universal_cover;
use rust_dsymbols::delaney2d::{curvature, orbifold_symbol};
use rust_dsymbols::dsets::{DSet, SimpleDSet};
use rust_dsymbols::generators::dset_generators::DSets;
use rust_dsymbols::generators::dsym_generators::{DSyms, Geometries};
use verif_harness::dsgen::{all_vs, dsets, random_perm1, Tab};
use verif_harness::Ctx;

fn geom(k: usize) -> Geometries {
    match k {
        0 => Geometries::Spherical,
        1 => Geometries::Euclidean,
        2 => Geometries::Hyperbolic,
        _ => Geometries::All,
    }
}

fn gen_case(ctx: &mut Ctx, ds: &SimpleDSet, t: &Tab, g: usize, tag: &str) {
    ctx.case(
        "gen",
        tag,
        || format!("{} {}", g, t.enc()),
        || {
            let mut parts: Vec<String> = vec![];
            for sym in DSyms::new(ds, geom(g)) {
                let tt = Tab::from_dsym(&sym);
                let k = curvature(&sym);
                parts.push(format!(
                    "{} {} {} {} {}",
                    sym.symbol_count(),
                    tt.enc(),
                    k.numer(),
                    k.denom(),
                    orbifold_symbol(&sym)
                ));
            }
            format!("{} {}", parts.len(), parts.join(" "))
        },
    );
}

fn all_geoms(ctx: &mut Ctx, ds: &SimpleDSet, t: &Tab, src: &str) {
    let gnames = ["S", "E", "H", "All"];
    for g in 0..4 {
        let tag = format!(
            "{}src={} size={} geom={}",
            if t.size >= 2 { "nt " } else { "" },
            src,
            t.size,
            gnames[g]
        );
        gen_case(ctx, ds, t, g, &tag);
    }
}

/// the D-set of the finite universal cover of the spherical symbol `s`, as a SimpleDSet
fn big_case(ctx: &mut Ctx, s: &Tab) {
    let cov = finite_universal_cover(&s.to_partial_dsym());
    let t = Tab::from_dset(&cov);
    let ds: SimpleDSet = t.to_partial_dset().into();
    all_geoms(ctx, &ds, &t, "flags");
}

fn main() {
    let mut ctx = Ctx::from_args();
    let th = ctx.thorough();
    let mut rng = ctx.rng(7);

    // (1) every labelled connected complete 2D D-set (harness' own enumeration)
    let nl = if th { 6 } else { 5 };
    for n in 1..=nl {
        for t in dsets(2, n, true, true, false) {
            let ds: SimpleDSet = t.to_partial_dset().into();
            all_geoms(&mut ctx, &ds, &t, "labelled");
        }
    }

    // (2) the library's own D-set generator output, untouched (one per isomorphism class),
    //     and seeded random relabellings of the larger ones
    let nlib = if th { 9 } else { 8 };
    let nrel = if th { 4 } else { 1 };
    for ds in DSets::new(2, nlib) {
        let t = Tab::from_dset(&ds);
        all_geoms(&mut ctx, &ds, &t, "library");
        if t.size > nl && t.size <= 8 {
            for _ in 0..nrel {
                let p = random_perm1(&mut rng, t.size);
                let t2 = t.renumbered(&p);
                let ds2: SimpleDSet = t2.to_partial_dset().into();
                all_geoms(&mut ctx, &ds2, &t2, "relabelled");
            }
        }
    }
    // (3) full flag sets of spherical tilings: the D-set of the finite universal cover of a small
    //     spherical symbol.  Only there does a symbol with trivial symmetry group exist (all v = 1,
    //     curvature exactly 4, the upper end of the spherical window).
    //     one chamber: (v01, v12); two chambers: index of the D-set among dsets(2,2) and its v's
    // (3,5) — 120 flags, 32 orbits — is left out: the oracle's candidate set there has ~10^7 vectors
    let one: &[(usize, usize)] = if th { &[(3, 3), (3, 4), (4, 3)] } else { &[(3, 3), (4, 3)] };
    for &(a, b) in one {
        let t1 = dsets(2, 1, true, true, false).remove(0);
        let mut s = all_vs(&t1, &[a]).remove(0);
        s.set_v_orbit(1, 1, b);
        big_case(&mut ctx, &s);
    }
    if th {
        // 2-chamber spherical symbols: every D-set of size 2 with the smallest admissible v's,
        // kept when the universal cover is finite and small
        for t2 in dsets(2, 2, true, true, false) {
            let mut s = t2.clone();
            for i in 0..2 {
                for d in t2.orbit_reps2(i) {
                    let r = t2.r(i, i + 1, d);
                    s.set_v_orbit(i, d, if r == 1 { 3 } else { 2 });
                }
            }
            let sym = s.to_partial_dsym();
            let k = curvature(&sym);
            // curvature 4/N for a cover with N sheets: keep covers of 24..=48 flags
            if *k.numer() > 0 && (8 * k.denom() / k.numer()) as usize >= 24 && (8 * k.denom() / k.numer()) as usize <= 48 {
                big_case(&mut ctx, &s);
            }
        }
    }
    ctx.finish();
}
