//! C08 — 2D curvature, orbifold symbol and geometry class are mutually consistent.
//!
//! Universe: every connected complete 2D D-set (labelled: all triples of involutions with
//! commuting s0, s2) up to a size bound × every branching assignment up to a bound on v
//! (all of them while the product stays below a cap, a seeded sample beyond), and per
//! symbol a random renumbering, the dual (library `derived::dual`), and 2- and 3-sheeted
//! covers built with `derived::cover` from explicit Z/2- resp. Z/3-voltage assignments
//! found by linear algebra in this file (plus, on a sub-sample, the library's own
//! `covers::covers(&ds, 3)`).
use rust_dsymbols::covers::covers;
use rust_dsymbols::delaney2d::{curvature, is_euclidean, is_hyperbolic, is_spherical, orbifold_symbol};
use rust_dsymbols::derived::{cover, dual};
use rust_dsymbols::dsets::DSet;
use rust_dsymbols::dsyms::{DSym, PartialDSym, SimpleDSym};
use std::panic::{catch_unwind, AssertUnwindSafe};
use std::collections::HashSet;
use verif_harness::dsgen::{all_vs, dsets, involutions, random_dset, random_perm1, random_vs, Tab};
use verif_harness::{enc_list, Ctx, Rng};

fn b(x: bool) -> u8 {
    if x { 1 } else { 0 }
}

fn answers<T: DSym>(ds: &T) -> String {
    let k = curvature(ds);
    format!(
        "{} {} {} {} {} {}",
        k.numer(),
        k.denom(),
        b(is_euclidean(ds)),
        b(is_hyperbolic(ds)),
        b(is_spherical(ds)),
        orbifold_symbol(ds)
    )
}

fn ks<T: DSym>(ds: &T) -> String {
    let k = curvature(ds);
    format!("{} {} {}", k.numer(), k.denom(), orbifold_symbol(ds))
}

fn konly<T: DSym>(ds: &T) -> String {
    let k = curvature(ds);
    format!("{} {}", k.numer(), k.denom())
}

fn geo(ctx: &mut Ctx, t: &Tab, tag: &str) {
    ctx.case("geo", tag, || t.enc(), || {
        let psym: PartialDSym = t.to_partial_dsym();
        let a = answers(&psym);
        let ssym: SimpleDSym = psym.into();
        let c = answers(&ssym);
        format!("{} {}", a, c)
    });
}

fn geo1(ctx: &mut Ctx, t: &Tab, tag: &str) {
    ctx.case("geo1", tag, || t.enc(), || answers(&t.to_partial_dsym()));
}

fn renum(ctx: &mut Ctx, t: &Tab, perm: &[usize], tag: &str) {
    ctx.case("renum", tag, || format!("{} {}", t.enc(), enc_list(&perm[1..])), || {
        let a = ks(&t.to_partial_dsym());
        let v = t.renumbered(perm).to_partial_dsym();
        let c = ks(&v);
        // the tables the implementation really saw, for the Spec's "is a renumbering" clause
        format!("{} {} {}", a, c, Tab::from_dsym(&v).enc())
    });
}

fn dual_case(ctx: &mut Ctx, t: &Tab, tag: &str) {
    ctx.case("dual", tag, || t.enc(), || {
        let psym = t.to_partial_dsym();
        let a = ks(&psym);
        let d = dual(&psym);
        let c = ks(&d);
        format!("{} {} {}", a, c, Tab::from_dsym(&d).enc())
    });
}

fn cover_case(ctx: &mut Ctx, t: &Tab, k: usize, cov: &Tab, tag: &str) {
    ctx.case("cover", tag, || format!("{} {} {}", t.enc(), k, cov.enc()), || {
        let a = konly(&t.to_partial_dsym());
        let c = konly(&cov.to_partial_dsym());
        format!("{} {}", a, c)
    });
}

// ---------------------------------------------------------------------------------
// k-sheeted cyclic covers from voltage assignments (k prime)

/// edges (i, d) with d <= op_i(d); loops carry a voltage only for k = 2
fn edges(t: &Tab, k: usize) -> Vec<(usize, usize)> {
    let mut out = vec![];
    for i in 0..=2 {
        for d in 1..=t.size {
            let e = t.op[i][d];
            if e > d || (e == d && k == 2) {
                out.push((i, d));
            }
        }
    }
    out
}

/// coefficient (mod k) with which the voltage unknowns enter the step d --i--> op_i(d)
fn step_coeff(t: &Tab, idx: &[Vec<usize>], k: usize, i: usize, d: usize, row: &mut [usize]) {
    let e = t.op[i][d];
    if d <= e {
        let u = idx[i][d];
        if u != usize::MAX {
            row[u] = (row[u] + 1) % k;
        }
    } else {
        let u = idx[i][e];
        row[u] = (row[u] + k - 1) % k;
    }
}

/// basis of the solution space of the compatibility equations over Z/k
fn voltage_space(t: &Tab, k: usize) -> (Vec<(usize, usize)>, Vec<Vec<usize>>) {
    let es = edges(t, k);
    let mut idx = vec![vec![usize::MAX; t.size + 1]; 3];
    for (u, &(i, d)) in es.iter().enumerate() {
        idx[i][d] = u;
    }
    let ne = es.len();
    let mut rows: Vec<Vec<usize>> = vec![];
    for &(i, j) in &[(0usize, 1usize), (1, 2), (0, 2)] {
        for d in 1..=t.size {
            let m = if j == i + 1 { t.r(i, j, d) * t.v[i][d] } else { 2 };
            let mut row = vec![0usize; ne];
            let mut e = d;
            for _ in 0..m {
                step_coeff(t, &idx, k, i, e, &mut row);
                e = t.op[i][e];
                step_coeff(t, &idx, k, j, e, &mut row);
                e = t.op[j][e];
            }
            assert!(e == d);
            if row.iter().any(|&x| x != 0) {
                rows.push(row);
            }
        }
    }
    // Gaussian elimination mod k (k prime)
    let inv = |a: usize| (1..k).find(|&x| (a * x) % k == 1).unwrap();
    let mut pivots: Vec<usize> = vec![];
    let mut r = 0;
    for c in 0..ne {
        if let Some(p) = (r..rows.len()).find(|&p| rows[p][c] != 0) {
            rows.swap(r, p);
            let s = inv(rows[r][c]);
            for x in rows[r].iter_mut() {
                *x = (*x * s) % k;
            }
            for q in 0..rows.len() {
                if q != r && rows[q][c] != 0 {
                    let f = rows[q][c];
                    for x in 0..ne {
                        rows[q][x] = (rows[q][x] + (k - f) * rows[r][x]) % k;
                    }
                }
            }
            pivots.push(c);
            r += 1;
        }
    }
    let mut basis = vec![];
    for c in 0..ne {
        if pivots.contains(&c) {
            continue;
        }
        let mut vct = vec![0usize; ne];
        vct[c] = 1;
        for (ri, &pc) in pivots.iter().enumerate() {
            vct[pc] = (k - rows[ri][c]) % k;
        }
        basis.push(vct);
    }
    (es, basis)
}

/// a connected k-sheeted cover of `t` built by the library's `derived::cover`
fn voltage_cover(t: &Tab, k: usize, rng: &mut Rng) -> Option<Tab> {
    let (es, basis) = voltage_space(t, k);
    if basis.is_empty() {
        return None;
    }
    for _ in 0..6 {
        let mut volt = vec![0usize; es.len()];
        for bv in &basis {
            let c = rng.below(k);
            for x in 0..volt.len() {
                volt[x] = (volt[x] + c * bv[x]) % k;
            }
        }
        if volt.iter().all(|&x| x == 0) {
            continue;
        }
        let mut vt = vec![vec![0usize; t.size + 1]; 3];
        for (u, &(i, d)) in es.iter().enumerate() {
            let e = t.op[i][d];
            vt[i][d] = volt[u];
            if e != d {
                vt[i][e] = (k - volt[u]) % k;
            }
        }
        let psym = t.to_partial_dsym();
        let res = catch_unwind(AssertUnwindSafe(|| cover(&psym, k, |s, i, d| (s + vt[i][d]) % k)));
        if let Ok(c) = res {
            let ct = Tab::from_dsym(&c);
            if ct.is_connected() {
                return Some(ct);
            }
        }
    }
    None
}

fn symbol_cases(ctx: &mut Ctx, s: &Tab, serial: usize, with_lib_covers: bool, tag: &str) {
    // randomness per symbol, independent of sharding
    let mut rng = ctx.rng(1000 + 4 * serial as u64);
    geo(ctx, s, tag);
    let p = random_perm1(&mut rng, s.size);
    renum(ctx, s, &p, tag);
    dual_case(ctx, s, tag);
    for k in [2usize, 3] {
        // one reserved case id per sheet number; the cover is only built by the shard that owns it
        if ctx.peek_mine() {
            let mut r = ctx.rng(1000 + 4 * serial as u64 + k as u64 - 1);
            match voltage_cover(s, k, &mut r) {
                Some(c) => cover_case(ctx, s, k, &c, &format!("{} sheets={}", tag, k)),
                None => ctx.skip(),
            }
        } else {
            ctx.skip();
        }
    }
    if with_lib_covers {
        for slot in 0..4 {
            if !ctx.peek_mine() {
                ctx.skip();
                continue;
            }
            let psym = s.to_partial_dsym();
            let mut done = false;
            if let Ok(cs) = catch_unwind(AssertUnwindSafe(|| covers(&psym, 3))) {
                let elig: Vec<&PartialDSym> =
                    cs.iter().filter(|c| c.size() >= 2 * s.size && c.size() % s.size == 0).collect();
                if slot < elig.len() {
                    let c = elig[slot];
                    let k = c.size() / s.size;
                    cover_case(ctx, s, k, &Tab::from_dsym(c), &format!("{} libcover sheets={}", tag, k));
                    done = true;
                }
            }
            if !done {
                ctx.skip();
            }
        }
    }
}

fn nr_orbits(t: &Tab) -> usize {
    t.orbit_reps2(0).len() + t.orbit_reps2(1).len()
}

/// least table over all breadth-first renumberings (one per start chamber): a complete
/// isomorphism invariant of a connected D-set
fn canon_key(t: &Tab) -> Vec<usize> {
    let n = t.size;
    let mut best: Option<Vec<usize>> = None;
    for start in 1..=n {
        let mut num = vec![0usize; n + 1];
        let mut order = vec![start];
        num[start] = 1;
        let mut next = 2;
        let mut qi = 0;
        while qi < order.len() {
            let d = order[qi];
            qi += 1;
            for i in 0..=t.dim {
                let e = t.op[i][d];
                if num[e] == 0 {
                    num[e] = next;
                    next += 1;
                    order.push(e);
                }
            }
        }
        let mut key = vec![];
        for &d in &order {
            for i in 0..=t.dim {
                key.push(num[t.op[i][d]]);
            }
        }
        if best.is_none() || key < *best.as_ref().unwrap() {
            best = Some(key);
        }
    }
    best.unwrap()
}

/// one representative of every isomorphism class of connected complete 2D D-sets with n
/// chambers: s0 is taken in the normal form (1 2)(3 4)…(2k-1 2k) (every D-set can be
/// renumbered so), s2 runs over the involutions commuting with it, s1 over all involutions;
/// classes are separated by `canon_key`.  For n ≤ 7 this gives the same class counts as the
/// filter over all triples of involutions `dsgen::dsets(2, n, true, true, false)`
/// (1, 7, 3, 22, 13, 70, 67; then 315, 393 for n = 8, 9).
fn classes(n: usize) -> Vec<Tab> {
    let invs = involutions(n, false);
    let mut seen = HashSet::new();
    let mut out = vec![];
    for k in 0..=n / 2 {
        let mut a: Vec<usize> = (0..=n).collect();
        for c in 0..k {
            a[2 * c + 1] = 2 * c + 2;
            a[2 * c + 2] = 2 * c + 1;
        }
        for c in &invs {
            if !(1..=n).all(|d| a[c[d]] == c[a[d]]) {
                continue;
            }
            for bb in &invs {
                let t = Tab { size: n, dim: 2, op: vec![a.clone(), bb.clone(), c.clone()], v: vec![vec![0; n + 1]; 2] };
                if !t.is_connected() {
                    continue;
                }
                if seen.insert(canon_key(&t)) {
                    out.push(t);
                }
            }
        }
    }
    out
}

fn main() {
    let mut ctx = Ctx::from_args();
    let th = ctx.thorough();
    let mut rng = ctx.rng(8);

    // (0) outside the quantifier: the assertions (dim = 2, complete) — model observable only
    for dim in [1usize, 3] {
        for n in 1..=2 {
            for t in dsets(dim, n, true, true, false) {
                let s = random_vs(&t, &mut rng, &[1, 2, 3]);
                geo1(&mut ctx, &s, &format!("assert dim={}", dim));
            }
        }
    }
    for n in 1..=2 {
        for t in dsets(2, n, true, true, false) {
            for s in all_vs(&t, &[0, 1, 3]) {
                let incomplete = (0..2).any(|i| (1..=n).any(|d| s.v[i][d] == 0));
                if incomplete {
                    geo1(&mut ctx, &s, "assert incomplete");
                }
            }
        }
    }

    // (1) exhaustive: every isomorphism class of connected D-sets up to the size bound ×
    //     every branching assignment with values from the list for that size
    let plan: Vec<(usize, Vec<usize>)> = if th {
        vec![
            (1, (1..=12).collect()),
            (2, (1..=12).collect()),
            (3, (1..=12).collect()),
            (4, vec![1, 2, 3, 4, 5, 6, 7, 8, 10, 12]),
            (5, (1..=8).collect()),
            (6, (1..=6).collect()),
            (7, (1..=6).collect()),
            (8, (1..=4).collect()),
            (9, (1..=3).collect()),
        ]
    } else {
        vec![
            (1, vec![1, 2, 3, 4, 5, 6, 7, 8, 10, 12]),
            (2, vec![1, 2, 3, 4, 5, 6, 7, 8, 10, 12]),
            (3, vec![1, 2, 3, 4, 5, 6, 7, 8, 10, 12]),
            (4, vec![1, 2, 3, 4, 5, 6, 10]),
            (5, (1..=4).collect()),
            (6, (1..=4).collect()),
            (7, (1..=3).collect()),
        ]
    };
    let mut serial = 0usize;
    for (n, vals) in &plan {
        let n = *n;
        // the labelled universe for the smallest sizes (every triple of involutions), class
        // representatives beyond
        let sets = if n <= 3 { dsets(2, n, true, true, false) } else { classes(n) };
        for t in sets.iter() {
            let no = nr_orbits(t);
            for s in &all_vs(t, vals) {
                serial += 1;
                let nontrivial = (0..2).any(|i| (1..=n).any(|d| s.v[i][d] > 1))
                    || (0..=2).any(|i| (1..=n).any(|d| s.op[i][d] == d));
                let tag = format!("{}size={} orbits={}", if nontrivial { "nt " } else { "" }, n, no);
                let lib = n <= 3 && serial % (if th { 5 } else { 40 }) == 0;
                symbol_cases(&mut ctx, s, serial, lib, &tag);
            }
        }
    }

    // (2) a seeded sample of larger symbols with large branching numbers
    let (nlo, nhi, cnt) = if th { (10usize, 14usize, 3000usize) } else { (8, 10, 300) };
    for c in 0..cnt {
        let n = nlo + c % (nhi - nlo + 1);
        if let Some(t) = random_dset(&mut rng, 2, n, true) {
            let s = random_vs(&t, &mut rng, &[1, 1, 2, 3, 4, 5, 6, 9, 10, 12, 15]);
            let tag = format!("nt random size={}", n);
            serial += 1;
            symbol_cases(&mut ctx, &s, serial, false, &tag);
        }
    }
    ctx.finish();
}
