//! C08 — 2D curvature, orbifold symbol and geometry class are mutually consistent.
//!
//! Universe: every connected complete 2D D-set (labelled: all triples of involutions with
//! commuting s0, s2) up to a size bound × every branching assignment up to a bound on v
//! (all of them while the product stays below a cap, a seeded sample beyond), and per
//! symbol a random renumbering, the dual (library `derived::dual`), and 2- and 3-sheeted
//! covers built with `derived::cover` from explicit Z/2- resp. Z/3-voltage assignments
//! found by linear algebra in this file (plus, on a sub-sample, the library's own
//! `covers::covers(&ds, 3)`).
//!
//! Covers from every constructor of the library (C05): `derived::cover` (voltage covers
//! above), `derived::oriented_cover`, `covers::covers` (= `cover_for_table` on every table of
//! `coset_tables`), `covers::subgroup_cover` with random subgroup generators and
//! `covers::finite_universal_cover` (the last two on symbols of positive curvature, whose
//! groups are finite, so the coset enumeration ends).
//!
//! Symbols yielded by the library's own generator (op `geog`): `DSyms::new(&dset, Geometries::All)`
//! builds its `SimpleDSym`s through another constructor (`PartialDSym::from_fields` +
//! `SimpleDSym::from_partial(_, counter)`) than the conversions above; the five answers are taken
//! on the yielded object itself and on a `PartialDSym` rebuilt from its tables.
//!
//! Symbols that are NOT connected (outside the property's quantifier; op `geod`): disjoint
//! unions of two or three small connected symbols, chambers shuffled; the five answers are
//! taken one by one (each under its own `catch_unwind`), on `PartialDSym` and `SimpleDSym`,
//! and compared with the model answer by answer — `orbifold_symbol` panics (capacity overflow
//! of `vec!["o"; (2 - chi) as usize]`) exactly when the capped surfaces of the components have
//! Euler characteristics adding up to more than 2.
use rust_dsymbols::covers::{covers, finite_universal_cover, subgroup_cover};
use rust_dsymbols::fpgroups::free_words::FreeWord;
use rust_dsymbols::fundamental_group::fundamental_group;
use rust_dsymbols::delaney2d::{curvature, is_euclidean, is_hyperbolic, is_spherical, orbifold_symbol};
use rust_dsymbols::derived::{cover, dual, oriented_cover};
use rust_dsymbols::dsets::{DSet, SimpleDSet};
use rust_dsymbols::generators::dset_generators::DSets;
use rust_dsymbols::generators::dsym_generators::{DSyms, Geometries};
use rust_dsymbols::dsyms::{DSym, PartialDSym, SimpleDSym};
use std::panic::{catch_unwind, AssertUnwindSafe};
use std::collections::HashSet;
use verif_harness::dsgen::{all_vs, dsets, involutions, random_dset, random_perm1, random_vs, Tab};
use verif_harness::{enc_list, Ctx, Rng};

fn b(x: bool) -> u8 {
    if x { 1 } else { 0 }
}

fn answers<T: DSym>(ds: &T) -> String {
    let k = curvature(ds);
    format!(
        "{} {} {} {} {} {}",
        k.numer(),
        k.denom(),
        b(is_euclidean(ds)),
        b(is_hyperbolic(ds)),
        b(is_spherical(ds)),
        orbifold_symbol(ds)
    )
}

fn ks<T: DSym>(ds: &T) -> String {
    let k = curvature(ds);
    format!("{} {} {}", k.numer(), k.denom(), orbifold_symbol(ds))
}

fn konly<T: DSym>(ds: &T) -> String {
    let k = curvature(ds);
    format!("{} {}", k.numer(), k.denom())
}

fn geo(ctx: &mut Ctx, t: &Tab, tag: &str) {
    ctx.case("geo", tag, || t.enc(), || {
        let psym: PartialDSym = t.to_partial_dsym();
        let a = answers(&psym);
        let ssym: SimpleDSym = psym.into();
        let c = answers(&ssym);
        format!("{} {}", a, c)
    });
}

/// op `geov` (alias of `geo` in the driver): the five answers in both representations on a
/// VARIANT of an explored symbol (its renumbering, its library dual, a cover) — so that every
/// symbol the harness touches is seen by the five functions as PartialDSym and as SimpleDSym
fn geo_variant<F: FnOnce() -> Option<Tab>>(ctx: &mut Ctx, make: F, tag: &str) {
    if !ctx.peek_mine() {
        ctx.skip();
        return;
    }
    match make() {
        Some(t) => ctx.case("geov", tag, || t.enc(), || {
            let psym: PartialDSym = t.to_partial_dsym();
            let a = answers(&psym);
            let ssym: SimpleDSym = psym.into();
            let c = answers(&ssym);
            format!("{} {}", a, c)
        }),
        None => ctx.skip(),
    }
}

fn geo1(ctx: &mut Ctx, t: &Tab, tag: &str) {
    ctx.case("geo1", tag, || t.enc(), || answers(&t.to_partial_dsym()));
}

fn renum(ctx: &mut Ctx, t: &Tab, perm: &[usize], tag: &str) {
    ctx.case("renum", tag, || format!("{} {}", t.enc(), enc_list(&perm[1..])), || {
        let a = ks(&t.to_partial_dsym());
        let v = t.renumbered(perm).to_partial_dsym();
        let c = ks(&v);
        // the tables the implementation really saw, for the Spec's "is a renumbering" clause
        format!("{} {} {}", a, c, Tab::from_dsym(&v).enc())
    });
}

fn dual_case(ctx: &mut Ctx, t: &Tab, tag: &str) {
    ctx.case("dual", tag, || t.enc(), || {
        let psym = t.to_partial_dsym();
        let a = ks(&psym);
        let d = dual(&psym);
        let c = ks(&d);
        format!("{} {} {}", a, c, Tab::from_dsym(&d).enc())
    });
}

fn cover_case(ctx: &mut Ctx, t: &Tab, k: usize, cov: &Tab, tag: &str) {
    // small connected covers also go through the five functions in both representations (library
    // covers of a connected base are connected; the voltage covers are filtered for it); the
    // oriented covers of the exhaustive universe are sub-sampled
    let take = cov.size <= 48
        && cov.is_connected()
        && (!tag.contains("cover=oriented") || (cov.size + t.v[0][1] + t.v[1][1]) % 5 == 0);
    ctx.case("cover", tag, || format!("{} {} {} {}", t.enc(), k, cov.enc(), b(take)), || {
        let a = konly(&t.to_partial_dsym());
        let psym = cov.to_partial_dsym();
        let c = konly(&psym);
        if take {
            let x = answers(&psym);
            let ssym: SimpleDSym = psym.into();
            let y = answers(&ssym);
            format!("{} {} {} {}", a, c, x, y)
        } else {
            format!("{} {}", a, c)
        }
    });
}

// ---------------------------------------------------------------------------------
// symbols yielded by the library's generator

/// op `geog`: every symbol `DSyms::new(ds, All)` yields over the D-set `t`, with the five answers
/// on the yielded `SimpleDSym` and on the `PartialDSym` rebuilt from its tables
fn geog(ctx: &mut Ctx, ds: &SimpleDSet, t: &Tab, tag: &str) {
    ctx.case("geog", tag, || t.enc(), || {
        let mut parts: Vec<String> = vec![];
        for sym in DSyms::new(ds, Geometries::All) {
            let tt = Tab::from_dsym(&sym);
            let a = answers(&sym);
            let c = answers(&tt.to_partial_dsym());
            parts.push(format!("{} {} {}", tt.enc(), a, c));
        }
        format!("{} {}", parts.len(), parts.join(" "))
    });
}

// ---------------------------------------------------------------------------------
// symbols that are not connected

fn one<R>(f: impl FnOnce() -> R) -> Option<R> {
    catch_unwind(AssertUnwindSafe(f)).ok()
}

fn bsep(x: Option<bool>) -> String {
    match x {
        Some(true) => "1".to_string(),
        Some(false) => "0".to_string(),
        None => "!".to_string(),
    }
}

fn ksep<T: DSym>(ds: &T) -> String {
    match one(|| curvature(ds)) {
        Some(k) => format!("{} {}", k.numer(), k.denom()),
        None => "! !".to_string(),
    }
}

/// the five answers, each taken under its own `catch_unwind` (`!` = that call panicked)
fn answers_sep<T: DSym>(ds: &T) -> String {
    format!(
        "{} {} {} {} {}",
        ksep(ds),
        bsep(one(|| is_euclidean(ds))),
        bsep(one(|| is_hyperbolic(ds))),
        bsep(one(|| is_spherical(ds))),
        one(|| orbifold_symbol(ds)).unwrap_or("!".to_string())
    )
}

/// disjoint union of the parts (chambers of part c shifted behind those of the parts before
/// it), then renumbered by `perm`; returns the table and the part number (1-based) of every chamber
fn union(parts: &[&Tab], perm: &[usize]) -> (Tab, Vec<usize>) {
    let n: usize = parts.iter().map(|p| p.size).sum();
    let mut t = Tab { size: n, dim: 2, op: vec![vec![0; n + 1]; 3], v: vec![vec![0; n + 1]; 2] };
    let mut lab = vec![0usize; n + 1];
    let mut off = 0;
    for (c, p) in parts.iter().enumerate() {
        for d in 1..=p.size {
            for i in 0..=2 {
                t.op[i][off + d] = off + p.op[i][d];
            }
            for i in 0..2 {
                t.v[i][off + d] = p.v[i][d];
            }
            lab[off + d] = c + 1;
        }
        off += p.size;
    }
    let u = t.renumbered(perm);
    let mut l2 = vec![0usize; n + 1];
    for d in 1..=n {
        l2[perm[d]] = lab[d];
    }
    (u, l2)
}

/// the part `c` of a labelled table, chambers renumbered in increasing order
fn part_of(t: &Tab, lab: &[usize], c: usize) -> Tab {
    let ch: Vec<usize> = (1..=t.size).filter(|&d| lab[d] == c).collect();
    let mut num = vec![0usize; t.size + 1];
    for (k, &d) in ch.iter().enumerate() {
        num[d] = k + 1;
    }
    let m = ch.len();
    let mut p = Tab { size: m, dim: 2, op: vec![vec![0; m + 1]; 3], v: vec![vec![0; m + 1]; 2] };
    for &d in &ch {
        for i in 0..=2 {
            p.op[i][num[d]] = num[t.op[i][d]];
        }
        for i in 0..2 {
            p.v[i][num[d]] = t.v[i][d];
        }
    }
    p
}

/// op `geod`: the answers on a union, one by one, in both representations, and curvature and
/// orbifold symbol of every part taken as a symbol of its own
fn geod(ctx: &mut Ctx, parts: &[&Tab], perm: &[usize], tag: &str) {
    let (u, lab) = union(parts, perm);
    let k = parts.len();
    ctx.case("geod", tag, || format!("{} {} {}", u.enc(), k, enc_list(&lab[1..])), || {
        let psym: PartialDSym = u.to_partial_dsym();
        let a = answers_sep(&psym);
        let ssym: SimpleDSym = psym.into();
        let c = answers_sep(&ssym);
        let mut out = format!("{} {}", a, c);
        for cc in 1..=k {
            let p = part_of(&u, &lab, cc).to_partial_dsym();
            out.push_str(&format!(" {} {}", ksep(&p), one(|| orbifold_symbol(&p)).unwrap_or("!".to_string())));
        }
        out
    });
}

// ---------------------------------------------------------------------------------
// k-sheeted cyclic covers from voltage assignments (k prime)

/// edges (i, d) with d <= op_i(d); loops carry a voltage only for k = 2
fn edges(t: &Tab, k: usize) -> Vec<(usize, usize)> {
    let mut out = vec![];
    for i in 0..=2 {
        for d in 1..=t.size {
            let e = t.op[i][d];
            if e > d || (e == d && k == 2) {
                out.push((i, d));
            }
        }
    }
    out
}

/// coefficient (mod k) with which the voltage unknowns enter the step d --i--> op_i(d)
fn step_coeff(t: &Tab, idx: &[Vec<usize>], k: usize, i: usize, d: usize, row: &mut [usize]) {
    let e = t.op[i][d];
    if d <= e {
        let u = idx[i][d];
        if u != usize::MAX {
            row[u] = (row[u] + 1) % k;
        }
    } else {
        let u = idx[i][e];
        row[u] = (row[u] + k - 1) % k;
    }
}

/// basis of the solution space of the compatibility equations over Z/k
fn voltage_space(t: &Tab, k: usize) -> (Vec<(usize, usize)>, Vec<Vec<usize>>) {
    let es = edges(t, k);
    let mut idx = vec![vec![usize::MAX; t.size + 1]; 3];
    for (u, &(i, d)) in es.iter().enumerate() {
        idx[i][d] = u;
    }
    let ne = es.len();
    let mut rows: Vec<Vec<usize>> = vec![];
    for &(i, j) in &[(0usize, 1usize), (1, 2), (0, 2)] {
        for d in 1..=t.size {
            let m = if j == i + 1 { t.r(i, j, d) * t.v[i][d] } else { 2 };
            let mut row = vec![0usize; ne];
            let mut e = d;
            for _ in 0..m {
                step_coeff(t, &idx, k, i, e, &mut row);
                e = t.op[i][e];
                step_coeff(t, &idx, k, j, e, &mut row);
                e = t.op[j][e];
            }
            assert!(e == d);
            if row.iter().any(|&x| x != 0) {
                rows.push(row);
            }
        }
    }
    // Gaussian elimination mod k (k prime)
    let inv = |a: usize| (1..k).find(|&x| (a * x) % k == 1).unwrap();
    let mut pivots: Vec<usize> = vec![];
    let mut r = 0;
    for c in 0..ne {
        if let Some(p) = (r..rows.len()).find(|&p| rows[p][c] != 0) {
            rows.swap(r, p);
            let s = inv(rows[r][c]);
            for x in rows[r].iter_mut() {
                *x = (*x * s) % k;
            }
            for q in 0..rows.len() {
                if q != r && rows[q][c] != 0 {
                    let f = rows[q][c];
                    for x in 0..ne {
                        rows[q][x] = (rows[q][x] + (k - f) * rows[r][x]) % k;
                    }
                }
            }
            pivots.push(c);
            r += 1;
        }
    }
    let mut basis = vec![];
    for c in 0..ne {
        if pivots.contains(&c) {
            continue;
        }
        let mut vct = vec![0usize; ne];
        vct[c] = 1;
        for (ri, &pc) in pivots.iter().enumerate() {
            vct[pc] = (k - rows[ri][c]) % k;
        }
        basis.push(vct);
    }
    (es, basis)
}

/// a connected k-sheeted cover of `t` built by the library's `derived::cover`
fn voltage_cover(t: &Tab, k: usize, rng: &mut Rng) -> Option<Tab> {
    let (es, basis) = voltage_space(t, k);
    if basis.is_empty() {
        return None;
    }
    for _ in 0..6 {
        let mut volt = vec![0usize; es.len()];
        for bv in &basis {
            let c = rng.below(k);
            for x in 0..volt.len() {
                volt[x] = (volt[x] + c * bv[x]) % k;
            }
        }
        if volt.iter().all(|&x| x == 0) {
            continue;
        }
        let mut vt = vec![vec![0usize; t.size + 1]; 3];
        for (u, &(i, d)) in es.iter().enumerate() {
            let e = t.op[i][d];
            vt[i][d] = volt[u];
            if e != d {
                vt[i][e] = (k - volt[u]) % k;
            }
        }
        let psym = t.to_partial_dsym();
        let res = catch_unwind(AssertUnwindSafe(|| cover(&psym, k, |s, i, d| (s + vt[i][d]) % k)));
        if let Ok(c) = res {
            let ct = Tab::from_dsym(&c);
            if ct.is_connected() {
                return Some(ct);
            }
        }
    }
    None
}

fn symbol_cases(ctx: &mut Ctx, s: &Tab, serial: usize, with_lib_covers: bool, tag: &str) {
    // randomness per symbol, independent of sharding
    let mut rng = ctx.rng(1000 + 4 * serial as u64);
    geo(ctx, s, tag);
    let p = random_perm1(&mut rng, s.size);
    renum(ctx, s, &p, tag);
    geo_variant(ctx, || Some(s.renumbered(&p)), &format!("{} variant=renumbered", tag));
    dual_case(ctx, s, tag);
    geo_variant(
        ctx,
        || catch_unwind(AssertUnwindSafe(|| Tab::from_dsym(&dual(&s.to_partial_dsym())))).ok(),
        &format!("{} variant=dual", tag),
    );
    for k in [2usize, 3] {
        // one reserved case id per sheet number; the cover is only built by the shard that owns it
        if ctx.peek_mine() {
            let mut r = ctx.rng(1000 + 4 * serial as u64 + k as u64 - 1);
            match voltage_cover(s, k, &mut r) {
                Some(c) => cover_case(ctx, s, k, &c, &format!("{} cover=voltage sheets={}", tag, k)),
                None => ctx.skip(),
            }
        } else {
            ctx.skip();
        }
    }
    // the library's oriented cover (1 sheet for an oriented symbol, else 2)
    if s.size <= 6 {
        if ctx.peek_mine() {
            let psym = s.to_partial_dsym();
            match catch_unwind(AssertUnwindSafe(|| oriented_cover(&psym))) {
                Ok(c) if c.size() % s.size == 0 => {
                    let k = c.size() / s.size;
                    cover_case(ctx, s, k, &Tab::from_dsym(&c), &format!("{} cover=oriented sheets={}", tag, k));
                }
                _ => ctx.skip(),
            }
        } else {
            ctx.skip();
        }
    }
    if with_lib_covers {
        for slot in 0..4 {
            if !ctx.peek_mine() {
                ctx.skip();
                continue;
            }
            let psym = s.to_partial_dsym();
            let mut done = false;
            if let Ok(cs) = catch_unwind(AssertUnwindSafe(|| covers(&psym, 3))) {
                let elig: Vec<&PartialDSym> =
                    cs.iter().filter(|c| c.size() >= 2 * s.size && c.size() % s.size == 0).collect();
                if slot < elig.len() {
                    let c = elig[slot];
                    let k = c.size() / s.size;
                    cover_case(ctx, s, k, &Tab::from_dsym(c), &format!("{} cover=table sheets={}", tag, k));
                    done = true;
                }
            }
            if !done {
                ctx.skip();
            }
        }
    }
}

fn nr_orbits(t: &Tab) -> usize {
    t.orbit_reps2(0).len() + t.orbit_reps2(1).len()
}

/// least table over all breadth-first renumberings (one per start chamber): a complete
/// isomorphism invariant of a connected D-set
fn canon_key(t: &Tab) -> Vec<usize> {
    let n = t.size;
    let mut best: Option<Vec<usize>> = None;
    for start in 1..=n {
        let mut num = vec![0usize; n + 1];
        let mut order = vec![start];
        num[start] = 1;
        let mut next = 2;
        let mut qi = 0;
        while qi < order.len() {
            let d = order[qi];
            qi += 1;
            for i in 0..=t.dim {
                let e = t.op[i][d];
                if num[e] == 0 {
                    num[e] = next;
                    next += 1;
                    order.push(e);
                }
            }
        }
        let mut key = vec![];
        for &d in &order {
            for i in 0..=t.dim {
                key.push(num[t.op[i][d]]);
            }
        }
        if best.is_none() || key < *best.as_ref().unwrap() {
            best = Some(key);
        }
    }
    best.unwrap()
}

/// one representative of every isomorphism class of connected complete 2D D-sets with n
/// chambers: s0 is taken in the normal form (1 2)(3 4)…(2k-1 2k) (every D-set can be
/// renumbered so), s2 runs over the involutions commuting with it, s1 over all involutions;
/// classes are separated by `canon_key`.  For n ≤ 7 this gives the same class counts as the
/// filter over all triples of involutions `dsgen::dsets(2, n, true, true, false)`
/// (1, 7, 3, 22, 13, 70, 67; then 315, 393 for n = 8, 9).
fn classes(n: usize) -> Vec<Tab> {
    let invs = involutions(n, false);
    let mut seen = HashSet::new();
    let mut out = vec![];
    for k in 0..=n / 2 {
        let mut a: Vec<usize> = (0..=n).collect();
        for c in 0..k {
            a[2 * c + 1] = 2 * c + 2;
            a[2 * c + 2] = 2 * c + 1;
        }
        for c in &invs {
            if !(1..=n).all(|d| a[c[d]] == c[a[d]]) {
                continue;
            }
            for bb in &invs {
                let t = Tab { size: n, dim: 2, op: vec![a.clone(), bb.clone(), c.clone()], v: vec![vec![0; n + 1]; 2] };
                if !t.is_connected() {
                    continue;
                }
                if seen.insert(canon_key(&t)) {
                    out.push(t);
                }
            }
        }
    }
    out
}

/// sign of the curvature of a table, by exact integer arithmetic (for choosing inputs only)
fn curvature_sign(t: &Tab) -> i64 {
    // 4 * L * K with L = lcm of all degrees: sum of 4L/m01 + 4L/m12 - 2L
    fn gcd(a: i128, b: i128) -> i128 {
        if b == 0 { a } else { gcd(b, a % b) }
    }
    let mut l: i128 = 1;
    let mut ms = vec![];
    for d in 1..=t.size {
        for i in 0..2 {
            let m = (t.r(i, i + 1, d) * t.v[i][d]) as i128;
            ms.push(m);
            l = l / gcd(l, m) * m;
        }
    }
    let mut tot: i128 = 0;
    for m in &ms {
        tot += 4 * l / m;
    }
    tot -= 2 * l * t.size as i128;
    tot.signum() as i64
}

/// number of sheets of the universal cover of a symbol of positive curvature if it is a good
/// orbifold: 4 / K  (None if not an integer)
fn sheets_bound(t: &Tab) -> Option<usize> {
    let k = curvature(&t.to_partial_dsym());
    if *k.numer() <= 0 {
        return None;
    }
    let q = num_rational::Rational64::from(4) / k;
    Some((*q.numer() / *q.denom()) as usize + 1)
}

/// covers of symbols of positive curvature (finite groups): `finite_universal_cover` and
/// `subgroup_cover` for a few random subgroups
fn finite_group_covers(ctx: &mut Ctx, s: &Tab, serial: usize, tag: &str) {
    let cap = 360usize;
    // universal cover
    if ctx.peek_mine() {
        let psym = s.to_partial_dsym();
        let small = sheets_bound(s).map(|b| b * s.size <= cap).unwrap_or(false);
        let res = if small { catch_unwind(AssertUnwindSafe(|| finite_universal_cover(&psym))).ok() } else { None };
        match res {
            Some(c) if c.size() % s.size == 0 => {
                let k = c.size() / s.size;
                cover_case(ctx, s, k, &Tab::from_dsym(&c), &format!("{} cover=universal sheets={}", tag, k));
            }
            _ => ctx.skip(),
        }
    } else {
        ctx.skip();
    }
    // subgroup covers
    for slot in 0..3u64 {
        if !ctx.peek_mine() {
            ctx.skip();
            continue;
        }
        let mut r = ctx.rng(900_000 + 4 * serial as u64 + slot);
        let psym = s.to_partial_dsym();
        let ng = catch_unwind(AssertUnwindSafe(|| fundamental_group(&psym).nr_generators())).unwrap_or(0);
        if ng == 0 {
            ctx.skip();
            continue;
        }
        let nw = 1 + r.below(3);
        let subs: Vec<FreeWord> = (0..nw)
            .map(|_| {
                let len = 1 + r.below(6);
                FreeWord::new((0..len).map(|_| {
                    let x = 1 + r.below(ng) as isize;
                    if r.chance(1, 2) { x } else { -x }
                }))
            })
            .collect();
        match catch_unwind(AssertUnwindSafe(|| subgroup_cover(&psym, &subs))) {
            Ok(c) if c.size() % s.size == 0 && c.size() <= cap => {
                let k = c.size() / s.size;
                cover_case(ctx, s, k, &Tab::from_dsym(&c), &format!("{} cover=subgroup sheets={}", tag, k));
            }
            _ => ctx.skip(),
        }
    }
}

/// every entry of `covers::covers(ds, kmax)` (one case per entry, at most `slots`)
fn table_covers(ctx: &mut Ctx, s: &Tab, kmax: usize, slots: usize, tag: &str) {
    for slot in 0..slots {
        if !ctx.peek_mine() {
            ctx.skip();
            continue;
        }
        let psym = s.to_partial_dsym();
        let mut done = false;
        if let Ok(cs) = catch_unwind(AssertUnwindSafe(|| covers(&psym, kmax))) {
            let elig: Vec<&PartialDSym> = cs.iter().filter(|c| c.size() % s.size == 0).collect();
            if slot < elig.len() {
                let c = elig[slot];
                let k = c.size() / s.size;
                cover_case(ctx, s, k, &Tab::from_dsym(c), &format!("{} cover=table sheets={}", tag, k));
                done = true;
            }
        }
        if !done {
            ctx.skip();
        }
    }
}

fn is_nontrivial(s: &Tab) -> bool {
    (0..2).any(|i| (1..=s.size).any(|d| s.v[i][d] > 1)) || (0..=2).any(|i| (1..=s.size).any(|d| s.op[i][d] == d))
}

fn main() {
    let mut ctx = Ctx::from_args();
    let th = ctx.thorough();
    let mut rng = ctx.rng(8);

    // (0) outside the quantifier: the assertions (dim = 2, complete) — model observable only
    for dim in [1usize, 3] {
        for n in 1..=2 {
            for t in dsets(dim, n, true, true, false) {
                let s = random_vs(&t, &mut rng, &[1, 2, 3]);
                geo1(&mut ctx, &s, &format!("assert dim={}", dim));
            }
        }
    }
    for n in 1..=2 {
        for t in dsets(2, n, true, true, false) {
            for s in all_vs(&t, &[0, 1, 3]) {
                let incomplete = (0..2).any(|i| (1..=n).any(|d| s.v[i][d] == 0));
                if incomplete {
                    geo1(&mut ctx, &s, "assert incomplete");
                }
            }
        }
    }

    // (1) exhaustive: every isomorphism class of connected D-sets up to the size bound ×
    //     every branching assignment with values from the list for that size
    let plan: Vec<(usize, Vec<usize>)> = if th {
        vec![
            (1, (1..=12).collect()),
            (2, (1..=12).collect()),
            (3, (1..=12).collect()),
            (4, vec![1, 2, 3, 4, 5, 6, 7, 8, 10, 12]),
            (5, (1..=8).collect()),
            (6, (1..=6).collect()),
            (7, (1..=6).collect()),
            (8, (1..=4).collect()),
            (9, (1..=3).collect()),
        ]
    } else {
        vec![
            (1, vec![1, 2, 3, 4, 5, 6, 7, 8, 10, 12]),
            (2, vec![1, 2, 3, 4, 5, 6, 7, 8, 10, 12]),
            (3, vec![1, 2, 3, 4, 5, 6, 7, 8, 10, 12]),
            (4, vec![1, 2, 3, 4, 5, 6, 10]),
            (5, (1..=4).collect()),
            (6, (1..=4).collect()),
            (7, (1..=3).collect()),
        ]
    };
    let mut serial = 0usize;
    for (n, vals) in &plan {
        let n = *n;
        // the labelled universe for the smallest sizes (every triple of involutions), class
        // representatives beyond
        let sets = if n <= 3 { dsets(2, n, true, true, false) } else { classes(n) };
        for t in sets.iter() {
            let no = nr_orbits(t);
            for s in &all_vs(t, vals) {
                serial += 1;
                let nontrivial = (0..2).any(|i| (1..=n).any(|d| s.v[i][d] > 1))
                    || (0..=2).any(|i| (1..=n).any(|d| s.op[i][d] == d));
                let tag = format!("{}size={} orbits={}", if nontrivial { "nt " } else { "" }, n, no);
                let lib = n <= 3 && serial % (if th { 5 } else { 40 }) == 0;
                symbol_cases(&mut ctx, s, serial, lib, &tag);
            }
        }
    }

    // (2) a seeded sample of larger symbols with large branching numbers
    let (nlo, nhi, cnt) = if th { (10usize, 14usize, 3000usize) } else { (8, 10, 300) };
    for c in 0..cnt {
        let n = nlo + c % (nhi - nlo + 1);
        if let Some(t) = random_dset(&mut rng, 2, n, true) {
            let s = random_vs(&t, &mut rng, &[1, 1, 2, 3, 4, 5, 6, 9, 10, 12, 15]);
            let tag = format!("nt random size={}", n);
            serial += 1;
            symbol_cases(&mut ctx, &s, serial, false, &tag);
        }
    }
    // (3) covers from the other constructors of the library: `finite_universal_cover` and
    //     `subgroup_cover` on the symbols of positive curvature with n <= 3 (finite groups),
    //     every entry of `covers::covers(ds, 4)` (= `cover_for_table` over `coset_tables`) on
    //     all symbols with n <= 2 over {1,2,3,4} resp. {1,2,3}
    {
        let mut cs = 0usize;
        for n in 1..=3usize {
            let vals: &[usize] = if n <= 2 { &[1, 2, 3, 4, 5] } else { &[1, 2, 3, 5] };
            for t in dsets(2, n, true, true, false) {
                for s in all_vs(&t, vals) {
                    cs += 1;
                    if curvature_sign(&s) > 0 && (th || n <= 2 || cs % 4 == 0) {
                        let tag = format!("{}finite size={}", if is_nontrivial(&s) { "nt " } else { "" }, n);
                        finite_group_covers(&mut ctx, &s, cs, &tag);
                    }
                }
            }
        }
        for n in 1..=2usize {
            let vals: &[usize] = if n == 1 { &[1, 2, 3, 4] } else { &[1, 2, 3] };
            for t in dsets(2, n, true, true, false) {
                for s in all_vs(&t, vals) {
                    cs += 1;
                    if th || cs % 3 == 0 {
                        let tag = format!("{}tables size={}", if is_nontrivial(&s) { "nt " } else { "" }, n);
                        table_covers(&mut ctx, &s, 4, if th { 12 } else { 6 }, &tag);
                    }
                }
            }
        }
    }

    // (3b) symbols yielded by the library's own generator, over every D-set class up to the
    //      size bound (converted from the harness' tables) and over the D-sets of the library's
    //      own `DSets::new(2, n)` (the real pipeline)
    {
        let nmax = if th { 7 } else { 6 };
        for n in 1..=nmax {
            let sets = if n <= 3 { dsets(2, n, true, true, false) } else { classes(n) };
            for t in sets.iter() {
                let ds: SimpleDSet = t.to_partial_dset().into();
                geog(&mut ctx, &ds, t, &format!("nt generated src=harness size={}", n));
            }
        }
        for ds in DSets::new(2, if th { 6 } else { 5 }) {
            let t = Tab::from_dset(&ds);
            geog(&mut ctx, &ds, &t, &format!("nt generated src=library size={}", t.size));
        }
    }

    // (4) symbols that are not connected (outside the property's quantifier): unions of two or
    //     three connected symbols
    {
        let mut rngd = ctx.rng(88);
        let mut small: Vec<Tab> = vec![];
        for n in 1..=2usize {
            for t in dsets(2, n, true, true, false) {
                // labelled D-sets: keep one per class
                small.extend(all_vs(&t, &[1, 2, 3]));
            }
        }
        // one representative per isomorphism class of D-set is enough here
        {
            let mut seen = HashSet::new();
            small.retain(|s| {
                let mut key = canon_key(s);
                let mut vs: Vec<usize> = vec![];
                for i in 0..2 {
                    let mut o: Vec<usize> = s.orbit_reps2(i).iter().map(|&d| s.v[i][d] * 1000 + s.orbit2(i, i + 1, d).len()).collect();
                    o.sort();
                    vs.push(usize::MAX);
                    vs.extend(o);
                }
                key.extend(vs);
                seen.insert(key)
            });
        }
        let mut mid: Vec<Tab> = vec![];
        for n in 3..=(if th { 8 } else { 7 }) {
            for t in classes(n) {
                let mut one = t.clone();
                for i in 0..2 {
                    for d in 1..=n {
                        one.v[i][d] = 1;
                    }
                }
                mid.push(one);
                mid.push(random_vs(&t, &mut rngd, &[1, 2, 3, 4]));
            }
        }
        let ident = |n: usize| -> Vec<usize> { (0..=n).collect() };
        // Euler genus (2·handles + cross-caps) of a connected symbol, read off the library's own
        // answer — used only to choose inputs: a union answers iff the Euler genera of its k
        // parts add up to at least 2(k − 1)
        let genus = |t: &Tab| -> usize {
            let s = one(|| orbifold_symbol(&t.to_partial_dsym())).unwrap_or_default();
            2 * s.matches('o').count() + s.matches('x').count()
        };
        let mut high: Vec<Tab> = mid.iter().filter(|t| genus(t) >= 1).cloned().collect();
        // tori, Klein bottles, … need at least 8 chambers: taken from a seeded sample of D-sets
        // with 8–10 chambers
        for c in 0..(if th { 3000 } else { 500 }) {
            if let Some(t) = random_dset(&mut rngd, 2, 8 + c % 3, true) {
                let s = random_vs(&t, &mut rngd, &[1, 1, 2, 3]);
                if genus(&s) >= 2 {
                    high.push(s);
                }
            }
        }
        let mut cnt = 0usize;
        let mut emit = |ctx: &mut Ctx, parts: &[&Tab], rngd: &mut Rng| {
            cnt += 1;
            let n: usize = parts.iter().map(|p| p.size).sum();
            let perm = if cnt % 2 == 0 { ident(n) } else { random_perm1(rngd, n) };
            let nt = parts.iter().any(|p| is_nontrivial(p));
            let tag = format!("{}disconnected parts={} size={}", if nt { "nt " } else { "" }, parts.len(), n);
            geod(ctx, parts, &perm, &tag);
        };
        // (a) unordered pairs of small symbols (all of them in the thorough tier)
        for a in 0..small.len() {
            for b in a..small.len() {
                if th || (a * 31 + b * 17) % 5 == 0 {
                    emit(&mut ctx, &[&small[a], &small[b]], &mut rngd);
                }
            }
        }
        // (b) every D-set class with 3..6 chambers next to small, mid-size and higher-genus symbols
        for a in 0..mid.len() {
            for _ in 0..2 {
                let b = rngd.below(small.len());
                emit(&mut ctx, &[&mid[a], &small[b]], &mut rngd);
            }
            let b = rngd.below(mid.len());
            emit(&mut ctx, &[&mid[a], &mid[b]], &mut rngd);
            for _ in 0..3 {
                let b = rngd.below(high.len());
                emit(&mut ctx, &[&mid[a], &high[b]], &mut rngd);
            }
        }
        // (c) pairs and triples of higher-genus symbols; in two cases out of three the parts are
        //     redrawn until their Euler genera add up to at least 2(k − 1), so that the
        //     answering branch of `orbifold_symbol` is explored as often as the panicking one
        let gs: Vec<usize> = high.iter().map(|t| genus(t)).collect();
        // tori, Klein bottles, … are rare among the small D-sets: drawn half of the time
        let g2: Vec<usize> = (0..high.len()).filter(|&i| gs[i] >= 2).collect();
        for c in 0..(if th { 9000 } else { 1200 }) {
            let k = 2 + (c % 5) / 3;
            let mut idx: Vec<usize> = vec![];
            for _ in 0..40 {
                idx = (0..k)
                    .map(|_| if !g2.is_empty() && rngd.chance(1, 2) { g2[rngd.below(g2.len())] } else { rngd.below(high.len()) })
                    .collect();
                let g: usize = idx.iter().map(|&i| gs[i]).sum();
                if c % 3 == 0 || g >= 2 * (k - 1) {
                    break;
                }
            }
            let parts: Vec<&Tab> = idx.iter().map(|&i| &high[i]).collect();
            emit(&mut ctx, &parts, &mut rngd);
        }
        for _ in 0..(if th { 3000 } else { 300 }) {
            let pick = |r: &mut Rng| -> usize { r.below(small.len() + mid.len()) };
            let (x, y, z) = (pick(&mut rngd), pick(&mut rngd), pick(&mut rngd));
            let get = |i: usize| -> &Tab { if i < small.len() { &small[i] } else { &mid[i - small.len()] } };
            emit(&mut ctx, &[get(x), get(y), get(z)], &mut rngd);
        }
    }
    ctx.finish();
}
