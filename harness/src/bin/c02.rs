//! C02 — basic D-set queries in every representation.
use rust_dsymbols::derived::{as_dset, as_dsym, as_partial_dsym, canonical, dual, minimal_image, oriented_cover};
use rust_dsymbols::generators::dset_generators::DSets;
use rust_dsymbols::generators::dsym_generators::{DSyms, Geometries};
use rust_dsymbols::dsets::{DSet, PartialDSet, Sign, SimpleDSet};
use rust_dsymbols::dsyms::{collect_orbits, DSym, PartialDSym, SimpleDSym};
use std::panic::{catch_unwind, AssertUnwindSafe};
use verif_harness::dsgen::{all_vs, dsets, random_dset, random_perm1, random_vs, Tab};
use verif_harness::{enc_list, join, Ctx, Rng};

fn q<F: FnOnce() -> Option<usize>>(f: F) -> i64 {
    match catch_unwind(AssertUnwindSafe(f)) {
        Ok(Some(x)) => x as i64,
        Ok(None) => -1,
        Err(_) => -2,
    }
}

/// the dense grid of the `tables` op: one out-of-range value on each side
fn dense_grid(size: usize, dim: usize) -> (Vec<usize>, Vec<usize>) {
    ((0..=dim + 1).collect(), (0..=size + 1).collect())
}

/// the sparse far grid of the `probe` op: indices 0..=dim+6, 1000, MAX-1, MAX (so that pairs of
/// two bad indices that are equal, adjacent and far apart all occur, also at the top of the
/// `usize` range) and chambers 0, 1, size, size+1, MAX (duplicates dropped, first occurrence kept)
fn probe_grid(size: usize, dim: usize) -> (Vec<usize>, Vec<usize>) {
    let mut is: Vec<usize> = (0..=dim + 6).collect();
    is.extend([1000, usize::MAX - 1, usize::MAX]);
    let mut ds: Vec<usize> = vec![];
    for d in [0, 1, size, size + 1, usize::MAX] {
        if !ds.contains(&d) {
            ds.push(d);
        }
    }
    (is, ds)
}

fn tables_set<T: DSet>(ds: &T, grid: &(Vec<usize>, Vec<usize>), out: &mut Vec<i64>) {
    for &i in &grid.0 {
        for &d in &grid.1 {
            out.push(q(|| ds.op(i, d)));
        }
    }
    for &i in &grid.0 {
        for &j in &grid.0 {
            for &d in &grid.1 {
                out.push(q(|| ds.r(i, j, d)));
                out.push(q(|| ds.m(i, j, d)));
            }
        }
    }
}

fn tables_sym<T: DSym>(ds: &T, grid: &(Vec<usize>, Vec<usize>), out: &mut Vec<i64>) {
    for &i in &grid.0 {
        for &d in &grid.1 {
            out.push(q(|| ds.op(i, d)));
        }
    }
    for &i in &grid.0 {
        for &j in &grid.0 {
            for &d in &grid.1 {
                out.push(q(|| ds.r(i, j, d)));
                out.push(q(|| ds.m(i, j, d)));
                out.push(q(|| ds.v(i, j, d)));
            }
        }
    }
}

/// mask: 1 = PartialDSet, 2 = SimpleDSet, 4 = PartialDSym, 8 = SimpleDSym,
/// 16 = as_dset(&PartialDSym), 32 = as_dsym(&SimpleDSet) (branching numbers all 1: only asked on
/// tables whose v is constant 1), 64 = as_partial_dsym(&PartialDSym)
fn answer_tables(t: &Tab, mask: usize, grid: &(Vec<usize>, Vec<usize>)) -> String {
    let mut out = vec![];
    let pset: PartialDSet = t.to_partial_dset();
    if mask & 1 != 0 {
        tables_set(&pset, grid, &mut out);
    }
    if mask & 2 != 0 {
        let sset: SimpleDSet = t.to_partial_dset().into();
        tables_set(&sset, grid, &mut out);
    }
    if mask & 12 != 0 {
        let psym: PartialDSym = t.to_partial_dsym();
        if mask & 4 != 0 {
            tables_sym(&psym, grid, &mut out);
        }
        if mask & 8 != 0 {
            let ssym: SimpleDSym = psym.into();
            tables_sym(&ssym, grid, &mut out);
        }
    }
    if mask & 16 != 0 {
        let psym: PartialDSym = t.to_partial_dsym();
        let copy: PartialDSet = as_dset(&psym);
        tables_set(&copy, grid, &mut out);
    }
    if mask & 32 != 0 {
        let sset: SimpleDSet = t.to_partial_dset().into();
        let copy: PartialDSym = as_dsym(&sset);
        tables_sym(&copy, grid, &mut out);
    }
    if mask & 64 != 0 {
        let psym: PartialDSym = t.to_partial_dsym();
        let copy: PartialDSym = as_partial_dsym(&psym);
        tables_sym(&copy, grid, &mut out);
    }
    join(&out)
}

fn tables(ctx: &mut Ctx, t: &Tab, mask: usize, valid: bool, tag: &str) {
    ctx.case(
        "tables",
        tag,
        || format!("{} {} {}", mask, if valid { 1 } else { 0 }, t.enc()),
        || answer_tables(t, mask, &dense_grid(t.size, t.dim)),
    );
}

/// the same questions on the far grid (see `probe_grid`)
fn probe(ctx: &mut Ctx, t: &Tab, mask: usize, valid: bool, tag: &str) {
    ctx.case(
        "probe",
        tag,
        || format!("{} {} {}", mask, if valid { 1 } else { 0 }, t.enc()),
        || answer_tables(t, mask, &probe_grid(t.size, t.dim)),
    );
}

/// the table with all branching numbers 1 (what `as_dsym` builds)
fn with_v1(t: &Tab) -> Tab {
    let mut s = t.clone();
    for i in 0..s.dim {
        for d in 1..=s.size {
            s.v[i][d] = 1;
        }
    }
    s
}

/// all representations and conversion copies, dense and far grid.  On sets whose far operations do
/// not commute the table-based `r` of the symbol types is not the orbit length for |i-j| > 1
/// (DESIGN §5.2), so there the plain and the symbol representations are asked in separate cases.
fn copies_and_probes(ctx: &mut Ctx, s: &Tab, valid: bool, tag: &str) {
    let s1 = with_v1(s);
    if valid {
        // conversion copies against the PartialDSym they were made from
        tables(ctx, s, 4 | 16 | 64, valid, tag);
        probe(ctx, s, 1 | 2 | 4 | 8 | 16 | 64, valid, tag);
    } else {
        tables(ctx, s, 1 | 16, valid, tag);
        tables(ctx, s, 4 | 64, valid, tag);
        probe(ctx, s, 1 | 2 | 16, valid, tag);
        probe(ctx, s, 4 | 8 | 64, valid, tag);
    }
    tables(ctx, &s1, 4 | 32, valid, tag);
    probe(ctx, &s1, 4 | 32, valid, tag);
}

/// `set_count` / `symbol_count` of the four types: the counters given at construction
fn counts(ctx: &mut Ctx, t: &Tab, c: usize, k: usize, tag: &str) {
    ctx.case(
        "counts",
        tag,
        || format!("{} {} {}", c, k, t.enc()),
        || {
            let pset = t.to_partial_dset();
            let sset = SimpleDSet::from_partial(t.to_partial_dset(), c);
            let mut psym: PartialDSym = SimpleDSet::from_partial(t.to_partial_dset(), c).into();
            for i in 0..t.dim {
                for d in 1..=t.size {
                    psym.set_v(i, d, t.v[i][d]);
                }
            }
            let out = vec![pset.set_count(), pset.symbol_count(), sset.set_count(), sset.symbol_count(),
                           psym.set_count(), psym.symbol_count()];
            let ssym = SimpleDSym::from_partial(psym, k);
            let mut out = out;
            out.push(ssym.set_count());
            out.push(ssym.symbol_count());
            join(&out)
        },
    );
}

fn enc_trav(items: Vec<(Option<usize>, usize, usize)>) -> String {
    let mut v: Vec<i64> = vec![];
    for (i, d, di) in items {
        v.push(i.map(|x| x as i64).unwrap_or(-1));
        v.push(d as i64);
        v.push(di as i64);
    }
    join(&v)
}

fn with_rep<R>(t: &Tab, rep: &str, f: &dyn Fn(&dyn Fn(&[usize], &[usize], &str) -> R) -> R) -> R
where
    R: Sized,
{
    // not used (kept simple below)
    let _ = (t, rep);
    f(&|_, _, _| unreachable!())
}

fn sgn(s: Sign) -> usize {
    match s {
        Sign::ZERO => 0,
        Sign::PLUS => 1,
        Sign::MINUS => 2,
    }
}

fn graph_ops<T: DSet>(ctx: &mut Ctx, rep: &str, ds: &T, is_complete_override: Option<bool>, t: &Tab, idxs: &[Vec<usize>], seedss: &[Vec<usize>], tag: &str) {
    let _ = is_complete_override;
    for idx in idxs {
        for seeds in seedss {
            let inp = || format!("{} {} {} {}", rep, t.enc(), enc_list(idx), enc_list(seeds));
            ctx.case("trav", tag, inp, || enc_trav(ds.traversal(idx.iter().cloned(), seeds.iter().cloned()).collect()));
            ctx.case("orbit_reps", tag, inp, || join(&ds.orbit_reps(idx.iter().cloned(), seeds.iter().cloned())));
            if seeds.len() == 1 {
                ctx.case("orbit", tag, inp, || join(&ds.orbit(idx.iter().cloned(), seeds[0])));
            }
        }
    }
    let inp = || format!("{} {}", rep, t.enc());
    ctx.case("preds", tag, inp, || {
        let b = |x: bool| if x { 1 } else { 0 };
        format!("{} {} {} {} {}", b(ds.is_connected()), b(ds.is_complete()), b(ds.is_loopless()), b(ds.is_weakly_oriented()), b(ds.is_oriented()))
    });
    ctx.case("ori", tag, inp, || join(&ds.partial_orientation().into_iter().map(sgn).collect::<Vec<_>>()));
    for i in 0..=t.dim {
        for j in 0..=t.dim {
            ctx.case("reps2d", tag, || format!("{} {} {} {}", rep, t.enc(), i, j), || join(&ds.orbit_reps_2d(i, j)));
        }
    }
}

fn subsets(xs: &[usize]) -> Vec<Vec<usize>> {
    let mut out = vec![];
    for mask in 1u32..(1 << xs.len()) {
        out.push(xs.iter().enumerate().filter(|(k, _)| mask & (1 << k) != 0).map(|(_, &x)| x).collect());
    }
    out
}

fn index_and_seed_sets(t: &Tab, rng: &mut Rng, exhaustive: bool) -> (Vec<Vec<usize>>, Vec<Vec<usize>>) {
    let all_i: Vec<usize> = (0..=t.dim).collect();
    let all_d: Vec<usize> = (1..=t.size).collect();
    if exhaustive && t.size <= 3 {
        let mut ii = subsets(&all_i);
        // a reversed and a shuffled index order as well (order must not matter for the laws)
        let mut r = all_i.clone();
        r.reverse();
        ii.push(r);
        let mut ss = subsets(&all_d);
        let mut r = all_d.clone();
        r.reverse();
        ss.push(r);
        (ii, ss)
    } else {
        let mut ii = vec![all_i.clone()];
        let mut ss = vec![all_d.clone(), vec![1 + rng.below(t.size)]];
        for _ in 0..2 {
            let mut i: Vec<usize> = all_i.iter().cloned().filter(|_| rng.chance(1, 2)).collect();
            if i.is_empty() {
                i.push(rng.below(t.dim + 1));
            }
            rng.shuffle(&mut i);
            ii.push(i);
            let mut s: Vec<usize> = all_d.iter().cloned().filter(|_| rng.chance(1, 3)).collect();
            if s.is_empty() {
                s.push(1 + rng.below(t.size));
            }
            rng.shuffle(&mut s);
            ss.push(s);
        }
        (ii, ss)
    }
}

fn graph_all_reps(ctx: &mut Ctx, t: &Tab, rng: &mut Rng, complete: bool, has_v: bool, exhaustive: bool, tag: &str) {
    let (ii, ss) = index_and_seed_sets(t, rng, exhaustive);
    let pset = t.to_partial_dset();
    graph_ops(ctx, "pset", &pset, None, t, &ii, &ss, tag);
    if complete {
        let sset: SimpleDSet = t.to_partial_dset().into();
        graph_ops(ctx, "sset", &sset, None, t, &ii[..1], &ss[..1], tag);
        let psym = t.to_partial_dsym();
        graph_ops(ctx, "psym", &psym, None, t, &ii[..1], &ss[..1], tag);
        if has_v {
            let ssym: SimpleDSym = t.to_partial_dsym().into();
            graph_ops(ctx, "ssym", &ssym, None, t, &ii, &ss[..1], tag);
        }
        ctx.case("collect", tag, || t.enc(), || {
            let sset: SimpleDSet = t.to_partial_dset().into();
            let (rs, ch, ix) = collect_orbits(&sset);
            let mut v: Vec<i64> = rs.iter().map(|&x| x as i64).collect();
            v.push(-9);
            v.extend(ch.iter().map(|&b| if b { 1 } else { 0 }));
            v.push(-9);
            for row in ix {
                v.extend(row.iter().map(|&x| x as i64));
            }
            join(&v)
        });
    }
}

/// Tab of a library-produced symbol, derived WITHOUT trusting its r/v: images from `op`, and the
/// branching number as m(i,i+1,d) divided by the orbit length walked here on the images
/// (0 when the object does not answer or the quotient is not exact — the model then disagrees).
fn tab_of_object<T: DSym>(ds: &T) -> Tab {
    let mut t = Tab::from_dset(ds);
    for i in 0..t.dim {
        for d in 1..=t.size {
            let (mut e, mut k) = (d, 0usize);
            loop {
                let f = t.op[i][e];
                e = if f == 0 { 0 } else { t.op[i + 1][f] };
                k += 1;
                if e == d || e == 0 || k > 2 * t.size {
                    break;
                }
            }
            let m = ds.m(i, i + 1, d).unwrap_or(0);
            t.v[i][d] = if e == d && m % k == 0 { m / k } else { 0 };
        }
    }
    t
}

/// op `gentables`: the r/m/v/op questions of `tables`, asked of an object the LIBRARY built, in the
/// representation it was built in (mask 2 = SimpleDSet, 4 = PartialDSym, 8 = SimpleDSym); the
/// driver answers from the transmitted tables with the model of that representation.
fn gentables_sym<T: DSym>(ctx: &mut Ctx, ds: &T, mask: usize, tag: &str) {
    let t = tab_of_object(ds);
    ctx.case(
        "gentables",
        tag,
        || format!("{} 1 {}", mask, t.enc()),
        || {
            let mut out = vec![];
            tables_sym(ds, &dense_grid(t.size, t.dim), &mut out);
            join(&out)
        },
    );
}

fn gentables_set<T: DSet>(ctx: &mut Ctx, ds: &T, mask: usize, tag: &str) {
    let t = Tab::from_dset(ds);
    ctx.case(
        "gentables",
        tag,
        || format!("{} 1 {}", mask, t.enc()),
        || {
            let mut out = vec![];
            tables_set(ds, &dense_grid(t.size, t.dim), &mut out);
            join(&out)
        },
    );
}

/// (6) objects built by the library itself, each in its native representation: the generators'
/// SimpleDSet / SimpleDSym, parsed text, dual, canonical, minimal image, oriented cover
/// (found missing by the seeded change C02-m8: `PartialDSym::from_fields` and its only caller, the
/// symbol generator, disagreeing on the order of the r and v tables)
fn library_objects(ctx: &mut Ctx, th: bool) {
    let bounds: &[(usize, usize)] = if th { &[(1, 6), (2, 6), (3, 4)] } else { &[(1, 4), (2, 5), (3, 3)] };
    for &(dim, nmax) in bounds {
        for dset in DSets::new(dim, nmax) {
            let tag = format!("nt generated dim={} size={}", dim, dset.size());
            gentables_set(ctx, &dset, 2, &tag);
            if dim != 2 {
                continue;
            }
            let geoms = [Geometries::Spherical, Geometries::Euclidean, Geometries::Hyperbolic];
            for g in geoms {
                for (k, ds) in DSyms::new(&dset, g).enumerate() {
                    if k >= (if th { 40 } else { 6 }) {
                        break;
                    }
                    gentables_sym(ctx, &ds, 8, &tag);
                    if k < 2 {
                        let tagd = format!("nt derived dim={} size={}", dim, dset.size());
                        if let Ok(p) = ds.to_string().parse::<PartialDSym>() {
                            gentables_sym(ctx, &p, 4, &tagd);
                        }
                        gentables_sym(ctx, &dual(&ds), 4, &tagd);
                        gentables_sym(ctx, &canonical(&ds), 4, &tagd);
                        gentables_sym(ctx, &minimal_image(&ds), 4, &tagd);
                        gentables_sym(ctx, &oriented_cover(&ds), 4, &tagd);
                        let simple: SimpleDSym = dual(&ds).into();
                        gentables_sym(ctx, &simple, 8, &tagd);
                    }
                }
            }
        }
    }
}

fn main() {
    let mut ctx = Ctx::from_args();
    let th = ctx.thorough();
    let mut rng = ctx.rng(2);
    // separate stream for the sampling of the copy / far-grid cases (keeps the older universe fixed)
    let mut rng3 = ctx.rng(3);
    let _ = with_rep::<()>;

    // regression: D2 — SimpleDSym::r/v(0, j >= 2, d) underflowed `i - 1`
    {
        let mut t = dsets(2, 1, true, true, false).remove(0);
        t = all_vs(&t, &[3]).remove(0);
        tables(&mut ctx, &t, 15, true, "nt regress dim=2");
    }
    // regression: seeded change C02-m7 — table-based r(i, j, d) with BOTH indices out of range and
    // |i - j| >= 2 answered Some(1) (e.g. r(dim+1, dim+3, 1), r(usize::MAX, dim+1, 1))
    {
        let mut t = dsets(1, 1, true, true, false).remove(0);
        t = all_vs(&t, &[1]).remove(0);
        probe(&mut ctx, &t, 12, true, "nt regress probe dim=1");
        let mut t = dsets(3, 2, true, true, false).remove(0);
        t = all_vs(&t, &[2]).remove(0);
        copies_and_probes(&mut ctx, &t, true, "nt regress probe dim=3");
        counts(&mut ctx, &t, 7, 11, "nt regress counts");
    }

    // (1) valid D-symbols: commuting far operations, complete, all representations
    let bounds: &[(usize, usize)] = if th { &[(1, 6), (2, 6), (3, 5)] } else { &[(1, 4), (2, 4), (3, 4)] };
    for &(dim, nmax) in bounds {
        for n in 1..=nmax {
            let sets = dsets(dim, n, true, false, false);
            let big = sets.len() > 3000;
            for t in &sets {
                // thin out the largest families in the graph ops; the tables are always asked
                let tag = format!("nt dim={} size={}", dim, n);
                let vals: &[usize] = if n <= 2 { &[1, 2, 3] } else { &[1, 3] };
                let syms = if n <= 3 && dim <= 2 { all_vs(t, vals) } else { vec![random_vs(t, &mut rng, &[1, 2, 3, 4, 6])] };
                for s in &syms {
                    tables(&mut ctx, s, 15, true, &tag);
                }
                // conversion copies (as_dset, as_dsym, as_partial_dsym) and the far grid of
                // out-of-range arguments: every symbol up to 2 chambers, a sample beyond
                if n <= 2 || rng3.chance(1, if th { 6 } else { 24 }) {
                    let tagp = format!("nt copies+probe dim={} size={}", dim, n);
                    copies_and_probes(&mut ctx, &syms[syms.len() - 1], true, &tagp);
                    counts(&mut ctx, &syms[0], 1 + rng3.below(9), 1 + rng3.below(9), &tagp);
                }
                if !big || rng.chance(1, 8) {
                    graph_all_reps(&mut ctx, &syms[0], &mut rng, true, true, true, &tag);
                }
            }
        }
    }
    // (2) arbitrary tuples of involutions (far operations need not commute): the two
    //     plain D-set representations, and the symbol representations' op/adjacent answers
    let bounds: &[(usize, usize)] = if th { &[(1, 5), (2, 5), (3, 4)] } else { &[(1, 4), (2, 4), (3, 3)] };
    for &(dim, nmax) in bounds {
        for n in 1..=nmax {
            for t in dsets(dim, n, false, false, false) {
                if t.far_commute() {
                    continue; // already covered in (1)
                }
                let tag = format!("nt noncommuting dim={} size={}", dim, n);
                tables(&mut ctx, &t, 3, false, &tag);
                let s = random_vs(&t, &mut rng, &[1, 2, 3]);
                tables(&mut ctx, &s, 12, false, &tag);
                if rng3.chance(1, if th { 8 } else { 32 }) {
                    let tagp = format!("nt noncommuting copies+probe dim={} size={}", dim, n);
                    copies_and_probes(&mut ctx, &s, false, &tagp);
                }
                if rng.chance(1, 4) {
                    graph_all_reps(&mut ctx, &s, &mut rng, true, true, true, &tag);
                }
            }
        }
    }
    // (3) incomplete D-sets (partial involutions): PartialDSet only
    let bounds: &[(usize, usize)] = if th { &[(1, 4), (2, 4), (3, 3)] } else { &[(1, 3), (2, 3), (3, 2)] };
    for &(dim, nmax) in bounds {
        for n in 1..=nmax {
            for t in dsets(dim, n, false, false, true) {
                if t.is_complete_set() {
                    continue;
                }
                let tag = format!("nt partial dim={} size={}", dim, n);
                // the default `r` of PartialDSet on incomplete sets: the walk returns None when it
                // meets an undefined image (and terminates: defined entries are involutive)
                tables(&mut ctx, &t, 1, false, &tag);
                if rng3.chance(1, if th { 8 } else { 32 }) {
                    probe(&mut ctx, &t, 1, false, &format!("nt partial probe dim={} size={}", dim, n));
                }
                if rng.chance(1, if th { 4 } else { 10 }) {
                    graph_all_reps(&mut ctx, &t, &mut rng, false, false, false, &tag);
                }
            }
        }
    }
    // (4) larger random symbols and renumberings
    let nrand = if th { 3000 } else { 300 };
    for k in 0..nrand {
        let dim = 1 + k % 3;
        let n = 5 + rng.below(if dim == 3 { 6 } else { 10 });
        if let Some(t) = random_dset(&mut rng, dim, n, false) {
            let s = random_vs(&t, &mut rng, &[1, 2, 3, 4, 5, 6]);
            let p = random_perm1(&mut rng, n);
            let s2 = s.renumbered(&p);
            let tag = format!("nt random dim={} size={}", dim, n.min(16));
            tables(&mut ctx, &s, 15, true, &tag);
            tables(&mut ctx, &s2, 15, true, &tag);
            if k % (if th { 4 } else { 10 }) == 0 {
                copies_and_probes(&mut ctx, &s2, true, &format!("nt random copies+probe dim={} size={}", dim, n.min(16)));
            }
            graph_all_reps(&mut ctx, &s2, &mut rng, true, true, false, &tag);
        }
    }
    library_objects(&mut ctx, th);
    ctx.finish();
}
