//! C17 — 3D euclidicity verdicts are total, invariant and never contradictory.
//!
//! Drives the public `euclidicity::is_euclidean`, `delaney3d::{orbifold_graph,
//! pseudo_toroidal_cover}` and `covers::covers` (the latter only to construct inputs).
//!
//!   euc         IN deep rep sym                 OUT class reason t c [cover]    | PANIC
//!                                               (class yes/no/maybe; reason = message with `_`
//!                                               for spaces, `-` for yes — INFORMATIONAL, compared
//!                                               by nobody; t = INVARIANTS.contains(orbifold_invariant),
//!                                               c = pseudo_toroidal_cover is Some (`-` when t = 0),
//!                                               both through the hooks; on yes the cover follows)
//!   euc_s, euc_corpus_s, ograph_s, oinv_s       the same on the symbol held as a SimpleDSym
//!   euc_corpus  as euc; Spec demands yes
//!   eucinv      IN k sym ren_1 … ren_k dual     OUT one class per variant (panic = `panic`)
//!   euccov      IN sym m cover_1 … cover_m      OUT class(sym) class(cover_1) … class(cover_m)
//!   ograph      IN sym                          OUT nl label… ne v w …          | PANIC
//!
//! Hooks of the cascade (`euclidicity::verif_hooks`, cfg odf_rust_dsymbols_verif), each compared
//! EXACTLY with its Lean model:
//!   oinv        IN sym                          OUT string 0|1   (orbifold_invariant; is it in INVARIANTS)
//!   intable     IN token                        OUT 0|1          (invariants_contains)
//!   bsc         IN index expected n rels        OUT 0|1          (bad_subgroup_count)
//!   bsi         IN index expected… n rels       OUT 0|1          (bad_subgroup_invariants)
//!   bcc         IN sym (any dimension)          OUT 0|1          (bad_connected_components)
//!
//! Universe: the 3D universe of C15 (`d3gen`), covers with ≤ 2 (quick) / 3 (thorough) sheets
//! (≤ 4 sheets for n ≤ 2 quick / n ≤ 3 thorough),
//! the corpus (thorough: every corpus input 3 times — `simplify` iterates a HashSet, §5.9);
//! products and twisted stackings (prisms over 2D symbols with a mid-height mirror, or stacked with
//! an automorphism of the base: screw axes and glides) — over a euclidean base the symbol is
//! euclidean by construction and `yes` is demanded (`euc_corpus`).
use rust_dsymbols::covers::covers;
use rust_dsymbols::delaney3d::{orbifold_graph, pseudo_toroidal_cover};
use rust_dsymbols::dsyms::{DSym, SimpleDSym};
use rust_dsymbols::euclidicity::verif_hooks as hooks;
use rust_dsymbols::euclidicity::{is_euclidean, Euclidean};
use rust_dsymbols::fpgroups::cosets::coset_tables;
use rust_dsymbols::fpgroups::free_words::FreeWord;
use rust_dsymbols::fpgroups::invariants::abelian_invariants;
use rust_dsymbols::fundamental_group::{fundamental_group, FundamentalGroup};
use std::collections::{BTreeMap, BTreeSet};
use std::panic::{catch_unwind, AssertUnwindSafe};
use verif_harness::d3gen::{
    automorphisms, classes, corpus, curvature2, euclidean_2d, in_domain_3d, labelled, mirror_prisms, parse_symbol,
    perm_order, stacked_prisms, symbols_2d_cryst, symbols_3d,
};
use verif_harness::dsgen::{all_vs, random_perm1, Tab};
use verif_harness::{enc_list, enc_lists, Ctx, Rng};

fn verdict_of<T: DSym>(ds: &T) -> (String, String) {
    match is_euclidean(ds) {
        Euclidean::Yes => ("yes".to_string(), "-".to_string()),
        Euclidean::No(s) => ("no".to_string(), s.replace(' ', "_")),
        Euclidean::Maybe(s, _) => ("maybe".to_string(), s.replace(' ', "_")),
    }
}

fn verdict(t: &Tab) -> (String, String) {
    verdict_of(&t.to_partial_dsym())
}

fn class_of(t: &Tab) -> String {
    match catch_unwind(AssertUnwindSafe(|| verdict(t).0)) {
        Ok(c) => c,
        Err(_) => "panic".to_string(),
    }
}

/// the observable of one `is_euclidean` call: class, message (informational: compared by nobody),
/// the two facts decided before `simplify` as the code itself evaluates them through the hooks —
/// `INVARIANTS.contains(orbifold_invariant(ds))` and, when that holds, whether
/// `pseudo_toroidal_cover(ds)` is `Some` (else `-`) —, and on `yes` the cover
fn euc_out<T: DSym>(ds: &T) -> String {
    let (c, r) = verdict_of(ds);
    let t = hooks::invariants_contains(&hooks::orbifold_invariant(ds));
    if !t {
        return format!("{} {} 0 -", c, r);
    }
    match pseudo_toroidal_cover(ds) {
        Some(cov) if c == "yes" => format!("{} {} 1 1 {}", c, r, Tab::from_dsym(&cov).enc()),
        Some(_) => format!("{} {} 1 1", c, r),
        None => format!("{} {} 1 0", c, r),
    }
}

/// `simple`: the same symbol held as a `SimpleDSym` (op suffix `_s`); `is_euclidean` and its callees
/// are generic over the `DSym` implementation
fn euc_as(ctx: &mut Ctx, op: &str, s: &Tab, deep: bool, rep: usize, extra: &str, simple: bool) {
    if !ctx.peek_mine() {
        ctx.skip();
        return;
    }
    let (cls, reason) = match catch_unwind(AssertUnwindSafe(|| verdict(s))) {
        Ok(v) => v,
        Err(_) => ("panic".to_string(), "-".to_string()),
    };
    // non-trivial: the verdict is not settled by the invariant table alone
    let nt = reason != "orbifold_invariants_do_not_match";
    let tag = format!("{}size={} class={} reason={} {}", if nt { "nt " } else { "" }, s.size, cls, reason, extra);
    let op = if simple { format!("{}_s", op) } else { op.to_string() };
    ctx.case(
        &op,
        &tag,
        || format!("{} {} {}", if deep { 1 } else { 0 }, rep, s.enc()),
        || {
            if simple {
                let ds: SimpleDSym = s.to_partial_dsym().into();
                euc_out(&ds)
            } else {
                euc_out(&s.to_partial_dsym())
            }
        },
    );
}

fn euc(ctx: &mut Ctx, op: &str, s: &Tab, deep: bool, rep: usize, extra: &str) {
    euc_as(ctx, op, s, deep, rep, extra, false)
}

/// the `SimpleDSym` stream: verdict, orbifold graph and invariant string of the same symbol
fn simple_stream(ctx: &mut Ctx, op: &str, s: &Tab, extra: &str) {
    euc_as(ctx, op, s, false, 0, extra, true);
    let tag = format!("size={} {}", s.size, extra);
    ctx.case("ograph_s", &tag, || s.enc(), || {
        let ds: SimpleDSym = s.to_partial_dsym().into();
        enc_graph(orbifold_graph(&ds))
    });
    ctx.case("oinv_s", &tag, || s.enc(), || {
        let ds: SimpleDSym = s.to_partial_dsym().into();
        let inv = hooks::orbifold_invariant(&ds);
        let c = hooks::invariants_contains(&inv);
        format!("{} {}", inv, bit(c))
    });
}

fn enc_graph(g: (Vec<String>, Vec<(usize, usize)>)) -> String {
    let (labels, edges) = g;
    let mut out = vec![labels.len().to_string()];
    out.extend(labels);
    out.push(edges.len().to_string());
    for (v, w) in edges {
        out.push(v.to_string());
        out.push(w.to_string());
    }
    out.join(" ")
}

fn variants(s: &Tab, rng: &mut Rng, k: usize) -> Vec<Tab> {
    let mut vs = vec![s.clone()];
    for _ in 0..k {
        vs.push(s.renumbered(&random_perm1(rng, s.size)));
    }
    vs.push(s.dual());
    vs
}

fn eucinv(ctx: &mut Ctx, vs: &[Tab], extra: &str) {
    let k = vs.len() - 2;
    let tag = format!("nt size={} variants={} {}", vs[0].size, vs.len(), extra);
    ctx.case(
        "eucinv",
        &tag,
        || format!("{} {}", k, vs.iter().map(|t| t.enc()).collect::<Vec<_>>().join(" ")),
        || vs.iter().map(class_of).collect::<Vec<_>>().join(" "),
    );
}

fn euccov(ctx: &mut Ctx, s: &Tab, sheets: usize, extra: &str) {
    euccov_capped(ctx, s, sheets, usize::MAX, extra)
}

/// at most `cap` of the covers (seeded sample local to the case, order kept)
fn euccov_capped(ctx: &mut Ctx, s: &Tab, sheets: usize, cap: usize, extra: &str) {
    if !ctx.peek_mine() {
        ctx.skip();
        return;
    }
    // the covers are inputs here (their construction is property C05's subject)
    let covs: Vec<Tab> = match catch_unwind(AssertUnwindSafe(|| {
        covers(&s.to_partial_dsym(), sheets).iter().map(Tab::from_dsym).collect::<Vec<_>>()
    })) {
        Ok(c) => c,
        Err(_) => {
            ctx.skip();
            return;
        }
    };
    let covs: Vec<Tab> = if covs.len() <= cap {
        covs
    } else {
        let mut rng = Rng::new(ctx.seed.wrapping_mul(7919).wrapping_add(covs.len() as u64 * 31 + s.size as u64));
        let mut idx: Vec<usize> = (0..covs.len()).collect();
        rng.shuffle(&mut idx);
        let mut keep = idx[..cap].to_vec();
        keep.sort();
        keep.into_iter().map(|i| covs[i].clone()).collect()
    };
    // the first entry of `covers` is the one-sheeted cover (the symbol itself): kept, it is a
    // renumbering-free repeat and costs little
    let tag = format!("nt size={} covers={} {}", s.size, covs.len(), extra);
    ctx.case(
        "euccov",
        &tag,
        || format!("{} {} {}", s.enc(), covs.len(), covs.iter().map(|t| t.enc()).collect::<Vec<_>>().join(" ")),
        || {
            let mut out = vec![class_of(s)];
            out.extend(covs.iter().map(class_of));
            out.join(" ")
        },
    );
}

fn ograph(ctx: &mut Ctx, s: &Tab, extra: &str) {
    let tag = format!("size={} {}", s.size, extra);
    ctx.case("ograph", &tag, || s.enc(), || enc_graph(orbifold_graph(&s.to_partial_dsym())));
}

// ---------------------------------------------------------------------------------------------
// hooks of the cascade
// ---------------------------------------------------------------------------------------------

fn bit(b: bool) -> &'static str {
    if b { "1" } else { "0" }
}

/// `orbifold_invariant` (full string) and `INVARIANTS.contains` of it
fn oinv(ctx: &mut Ctx, s: &Tab, extra: &str) {
    let tag = format!("size={} {}", s.size, extra);
    ctx.case("oinv", &tag, || s.enc(), || {
        let inv = hooks::orbifold_invariant(&s.to_partial_dsym());
        let c = hooks::invariants_contains(&inv);
        format!("{} {}", inv, bit(c))
    });
}

fn intable(ctx: &mut Ctx, tok: &str, extra: &str) {
    ctx.case("intable", extra, || tok.to_string(), || bit(hooks::invariants_contains(tok)).to_string());
}

/// a presentation ⟨1..n | rels⟩ as it is handed to the hooks (they read `gen_to_edge.len()` and
/// `relators` only)
#[derive(Clone)]
struct Pres {
    name: String,
    n: usize,
    rels: Vec<Vec<isize>>,
}

impl Pres {
    fn new(name: &str, n: usize, rels: &[&[isize]]) -> Pres {
        // through FreeWord, so that what is transmitted is what the hook sees (free reduction)
        let rels = rels.iter().map(|w| FreeWord::from(w.to_vec()).iter().cloned().collect()).collect();
        Pres { name: name.to_string(), n, rels }
    }
    fn of_fg(name: &str, fg: &FundamentalGroup) -> Pres {
        Pres {
            name: name.to_string(),
            n: fg.gen_to_edge.len(),
            rels: fg.relators.iter().map(|w| w.iter().cloned().collect()).collect(),
        }
    }
    fn of_sym(name: &str, t: &Tab) -> Pres {
        Pres::of_fg(name, &fundamental_group(&t.to_partial_dsym()))
    }
    fn fg(&self) -> FundamentalGroup {
        FundamentalGroup {
            relators: self.rels.iter().map(|w| FreeWord::from(w.clone())).collect(),
            cones: BTreeSet::new(),
            gen_to_edge: (1..=self.n).map(|g| (g, (g, 0))).collect::<BTreeMap<_, _>>(),
            edge_to_word: BTreeMap::new(),
        }
    }
    fn enc(&self) -> String {
        format!("{} {}", self.n, enc_lists(&self.rels))
    }
    fn total_len(&self) -> usize {
        self.rels.iter().map(|w| w.len()).sum()
    }
    fn h1(&self) -> Vec<usize> {
        let fg = self.fg();
        abelian_invariants(self.n, &fg.relators)
    }
    /// number of tables `coset_tables` yields up to `cap + 1` (input construction only)
    fn classes(&self, index: usize, cap: usize) -> usize {
        let fg = self.fg();
        coset_tables(self.n, &fg.relators, index).take(cap + 1).count()
    }
}

fn bsc(ctx: &mut Ctx, g: &Pres, index: usize, expected: usize, extra: &str) {
    let tag = format!("nt gens={} index={} expected={} group={} {}", g.n, index, expected, g.name, extra);
    ctx.case("bsc", &tag, || format!("{} {} {}", index, expected, g.enc()), || {
        bit(hooks::bad_subgroup_count(&g.fg(), index, expected)).to_string()
    });
}

fn bsi(ctx: &mut Ctx, g: &Pres, index: usize, expected: &[usize], extra: &str) {
    let tag = format!("nt gens={} index={} expected={} group={} {}", g.n, index, expected.len(), g.name, extra);
    ctx.case("bsi", &tag, || format!("{} {} {}", index, enc_list(expected), g.enc()), || {
        bit(hooks::bad_subgroup_invariants(&g.fg(), index, expected.to_vec())).to_string()
    });
}

/// every hook case of one group; `deep`: also the expensive indices
fn group_cases(ctx: &mut Ctx, g: &Pres, deep: bool, extra: &str) {
    let small = g.n <= 3 && g.total_len() <= 60;
    let h1 = g.h1();
    // bad_subgroup_count: the two calls of the cascade (the second is commented out in the code),
    // and expectations around the actual number of classes, so that both outcomes and the
    // `take(expected + 1)` cap occur
    bsc(ctx, g, 2, 8, extra);
    bsc(ctx, g, 1, 1, extra);
    bsc(ctx, g, 2, 0, extra);
    let c2 = g.classes(2, 64);
    bsc(ctx, g, 2, c2, extra);
    bsc(ctx, g, 2, c2 + 1, extra);
    if c2 >= 2 {
        bsc(ctx, g, 2, c2 - 1, extra);
    }
    if small || deep {
        bsc(ctx, g, 3, 21, extra);
        let c3 = g.classes(3, 64);
        bsc(ctx, g, 3, c3, extra);
    }
    // bad_subgroup_invariants: the calls of the cascade and of bad_connected_components, and
    // expectations that are met by the whole group (index 1)
    bsi(ctx, g, 2, &[0, 0, 0], extra);
    bsi(ctx, g, 1, &h1, extra);
    bsi(ctx, g, 2, &h1, extra);
    bsi(ctx, g, 1, &[0, 0, 0], extra);
    if small {
        bsi(ctx, g, 5, &[], extra);
        bsi(ctx, g, 3, &h1, extra);
    }
}

fn bcc(ctx: &mut Ctx, s: &Tab, extra: &str) {
    let tag = format!("nt size={} dim={} {}", s.size, s.dim, extra);
    ctx.case("bcc", &tag, || s.enc(), || {
        bit(hooks::bad_connected_components(&s.to_partial_dsym())).to_string()
    });
}

/// one more index `dim + 1` acting as the identity with branching number 1: the components that
/// `bad_connected_components` inspects (`subsymbol(ds, 0..ds.dim(), d)`, the range EXCLUDES
/// `ds.dim()`) are then the connected components of `t` itself
fn lift(t: &Tab) -> Tab {
    let mut u = t.clone();
    u.dim = t.dim + 1;
    u.op.push((0..=t.size).collect());
    let mut v = vec![1; t.size + 1];
    v[0] = 0;
    u.v.push(v);
    u
}

/// disjoint union
fn union(a: &Tab, b: &Tab) -> Tab {
    assert_eq!(a.dim, b.dim);
    let mut u = a.clone();
    u.size = a.size + b.size;
    for i in 0..=a.dim {
        for d in 1..=b.size {
            u.op[i].push(b.op[i][d] + a.size);
        }
    }
    for i in 0..a.dim {
        for d in 1..=b.size {
            u.v[i].push(b.v[i][d]);
        }
    }
    u
}

/// the square torus (one square, 8 chambers, group p1) with a cone point of order `v01` in the
/// middle of the square: for `v01 = 1` euclidean, otherwise the hyperbolic orbifold T²(v01)
fn torus_base(v01: usize) -> Tab {
    let id = |c: usize, s: usize| 2 * (c % 4) + s + 1;
    let mut op = vec![vec![0usize; 9]; 3];
    for c in 0..4 {
        op[1][id(c, 0)] = id(c, 1);
        op[1][id(c, 1)] = id(c, 0);
        op[0][id(c, 1)] = id(c + 1, 0);
        op[0][id(c + 1, 0)] = id(c, 1);
    }
    for ((a, b), (c, d)) in [((0, 1), (3, 0)), ((1, 0), (2, 1)), ((1, 1), (0, 0)), ((2, 0), (3, 1))] {
        op[2][id(a, b)] = id(c, d);
        op[2][id(c, d)] = id(a, b);
    }
    let mut v = vec![vec![1usize; 9]; 2];
    v[0][0] = 0;
    v[1][0] = 0;
    for d in 1..=8 {
        v[0][d] = v01;
    }
    Tab { size: 8, dim: 2, op, v }
}

/// T²(k) × S¹ as a 3D symbol (48 chambers): H₁ = Z³, and for k > 1 a subgroup of index 2 with
/// another H₁ — the only way found to reach `bad subgroups` behind `H₁ = Z³`
fn torus_cone_prism(k: usize) -> Tab {
    let b = torus_base(k);
    let id: Vec<usize> = (0..=b.size).collect();
    stacked_prisms(&b, &id).expect("prism over the square torus")
}

fn synthetic_groups() -> Vec<Pres> {
    let c = |a: isize, b: isize| vec![a, b, -a, -b];
    let mut out = vec![
        Pres::new("F0", 0, &[]),
        Pres::new("F1", 1, &[]),
        Pres::new("F2", 2, &[]),
        Pres::new("F3", 3, &[]),
        Pres::new("F4", 4, &[]),
        Pres::new("Z2free", 2, &[&[1, -1], &[]]),
        Pres::new("Z^2", 2, &[&c(1, 2)]),
        Pres::new("Z^3", 3, &[&c(1, 2), &c(1, 3), &c(2, 3)]),
        Pres::new("Z^3+1", 4, &[&c(1, 2), &c(1, 3), &c(2, 3), &[4]]),
        Pres::new("Z^3red", 4, &[&c(1, 2), &c(1, 3), &c(2, 3), &[4, -1, -2]]),
        Pres::new("Z^4", 4, &[&c(1, 2), &c(1, 3), &c(1, 4), &c(2, 3), &c(2, 4), &c(3, 4)]),
        Pres::new("ZxF2", 3, &[&c(1, 2), &c(1, 3)]),
        Pres::new("Z^2*Z", 3, &[&c(1, 2)]),
        Pres::new("Z^3xZ2", 4, &[&c(1, 2), &c(1, 3), &c(2, 3), &c(1, 4), &c(2, 4), &c(3, 4), &[4, 4]]),
        Pres::new("Z^2xZ2", 3, &[&c(1, 2), &c(1, 3), &c(2, 3), &[3, 3]]),
        Pres::new("Heis", 3, &[&[1, 2, -1, -2, -3], &c(1, 3), &c(2, 3)]),
        Pres::new("Klein", 2, &[&[1, 2, -1, 2]]),
        Pres::new("KleinxZ", 3, &[&[1, 2, -1, 2], &c(1, 3), &c(2, 3)]),
        Pres::new("G2", 3, &[&c(1, 2), &[3, 1, -3, 1], &[3, 2, -3, 2]]),
        Pres::new("T2(2)xZ", 3, &[&[1, 2, -1, -2, 1, 2, -1, -2], &c(1, 3), &c(2, 3)]),
        Pres::new("Z^3*Z2", 4, &[&c(1, 2), &c(1, 3), &c(2, 3), &[4, 4]]),
        Pres::new("Z^3*A5", 5, &[&c(1, 2), &c(1, 3), &c(2, 3), &[4, 4], &[5, 5, 5], &[4, 5, 4, 5, 4, 5, 4, 5, 4, 5]]),
        Pres::new("2I", 2, &[&[1, 1, 1, 1, 1, -2, -2, -2], &[2, 2, 2, -1, -2, -1, -2]]),
        Pres::new("Z5", 1, &[&[1, 1, 1, 1, 1]]),
        Pres::new("L(7,1)", 2, &[&[1, 1, 1, 1, 1, 1, 1], &[2]]),
        Pres::new("Z2^3", 3, &[&c(1, 2), &c(1, 3), &c(2, 3), &[1, 1], &[2, 2], &[3, 3]]),
        Pres::new("Z*Z2", 2, &[&[2, 2]]),
        Pres::new("Z2*Z2*Z2", 3, &[&[1, 1], &[2, 2], &[3, 3]]),
    ];
    // seven classes of index 2 without H1 = Z^3: Z2^3 above; eight classes: Z^3 and Z^3*A5
    out.push(Pres::new("Z^3x3", 3, &[&c(1, 2), &c(1, 3), &c(2, 3), &[1, 1, 1]]));
    out
}

/// the new cases of this round: hooks of the cascade
fn hook_cases(ctx: &mut Ctx, th: bool) {
    // (h1) INVARIANTS.contains on every token of the data file (kept and dropped ones), on
    //      perturbed entries and on a few foreign strings
    let data = std::fs::read_to_string("/repo/src/data/euclideanInvariants.data").expect("euclideanInvariants.data");
    let toks: Vec<&str> = data.split_whitespace().collect();
    for (k, t) in toks.iter().enumerate() {
        intable(ctx, t, if t.starts_with('#') { "kind=comment" } else { "nt kind=token" });
        if !t.starts_with('#') && t.contains('/') && (th || k % 4 == 0) {
            intable(ctx, &t[..t.len() - 1], "kind=no-trailing-slash");
            intable(ctx, &format!("{}/", t), "kind=double-slash");
            intable(ctx, &format!("{}0/", t), "kind=extra-field");
            if let Some(rest) = t.strip_prefix('1') {
                intable(ctx, &format!("2{}", rest), "kind=first-digit");
            }
        }
    }
    for t in ["", "/", "0/0/0/0/", "Dup", "dup:", "#", "symbols", "1/1*/0/0/1/2/", "x"] {
        if !t.is_empty() {
            intable(ctx, t, "kind=foreign");
        }
    }

    // (h2) groups: synthetic presentations, the finite-group corpus, groups of symbols
    for g in synthetic_groups() {
        group_cases(ctx, &g, false, "synthetic");
    }
    for g in verif_harness::groups::corpus() {
        if !(g.quick || th) || g.nr_gens > 3 || g.rels.iter().map(|w| w.len()).sum::<usize>() > 60 {
            continue;
        }
        let rels: Vec<&[isize]> = g.rels.iter().map(|w| &w[..]).collect();
        group_cases(ctx, &Pres::new(&g.name, g.nr_gens, &rels), false, "finite");
    }
    // pseudo-toroidal covers of the corpus (3-torus groups), T²(k) × S¹
    let covs: Vec<Tab> = corpus()
        .iter()
        .filter_map(|s| pseudo_toroidal_cover(&s.to_partial_dsym()).map(|c| Tab::from_dsym(&c)))
        .collect();
    for (k, c) in covs.iter().enumerate() {
        group_cases(ctx, &Pres::of_sym(&format!("torus{}", k), c), false, "corpus-cover");
    }
    for k in [1, 2, 3, 4, 6] {
        group_cases(ctx, &Pres::of_sym(&format!("T2({})xS1", k), &torus_cone_prism(k)), false, "torus-cone-prism");
    }
    // orbifold groups of the 3D universe
    let stride = if th { 1 } else { 5 };
    let mut serial = 0usize;
    for n in 1..=(if th { 3 } else { 2 }) {
        for t in &classes(3, n) {
            for s in symbols_3d(t) {
                serial += 1;
                if serial % stride != 0 {
                    continue;
                }
                group_cases(ctx, &Pres::of_sym(&format!("orb{}", serial), &s), false, "universe");
            }
        }
    }

    // (h3) bad_connected_components
    let sphere = parse_enc("2 3 2 2 2 2 1 1 1 1 1 1 1 1 1 1");
    let trivial1 = parse_enc("2 3 2 2 2 2 1 1 1 1 3 3 1 1 1 1");
    let perfect = parse_enc("2 3 2 2 2 2 1 1 1 1 3 3 3 3 3 3");
    let trivial2 = parse_enc("2 3 2 2 2 2 1 1 1 1 3 3 3 3 1 1");
    let cyclic2 = parse_enc("2 3 2 2 2 2 1 1 1 1 2 2 1 1 1 1");
    let cone2 = torus_cone_prism(2);
    let small: Vec<&Tab> = covs.iter().filter(|c| c.size <= 96).collect();
    for (k, c) in covs.iter().enumerate() {
        if th || k < 6 {
            bcc(ctx, c, "cover");
            bcc(ctx, &lift(c), "cover lifted");
        }
    }
    for (name, p) in [("sphere", &sphere), ("trivial1", &trivial1), ("perfect", &perfect), ("trivial2", &trivial2), ("cyclic2", &cyclic2), ("cone2", &cone2)] {
        bcc(ctx, p, name);
        bcc(ctx, &lift(p), &format!("{} lifted", name));
        bcc(ctx, &lift(&union(p, p)), &format!("{0}+{0} lifted", name));
        if let Some(c) = small.first() {
            bcc(ctx, &union(c, p), &format!("cover+{}", name));
            bcc(ctx, &lift(&union(c, p)), &format!("cover+{} lifted", name));
            bcc(ctx, &lift(&union(p, c)), &format!("{}+cover lifted", name));
            bcc(ctx, &lift(&union(&union(p, c), p)), &format!("{0}+cover+{0} lifted", name));
        }
    }
    for (i, a) in small.iter().enumerate().take(3) {
        for b in small.iter().skip(i).take(2) {
            bcc(ctx, &union(a, b), "cover+cover");
            bcc(ctx, &lift(&union(a, b)), "cover+cover lifted");
            bcc(ctx, &lift(&union(&union(&sphere, a), &union(&sphere, b))), "sphere+cover+sphere+cover lifted");
        }
    }
    // symbols of the universe: their tiles (dimension 3), themselves (lifted), unions
    let stride = if th { 1 } else { 7 };
    let mut serial = 0usize;
    let mut prev: Option<Tab> = None;
    for n in 1..=(if th { 3 } else { 2 }) {
        for t in &classes(3, n) {
            for s in symbols_3d(t) {
                serial += 1;
                if serial % stride != 0 {
                    continue;
                }
                bcc(ctx, &s, "universe");
                bcc(ctx, &lift(&s), "universe lifted");
                if let Some(p) = &prev {
                    bcc(ctx, &union(p, &s), "universe+universe");
                    if serial % (4 * stride) == 0 {
                        bcc(ctx, &lift(&union(&sphere, &s)), "sphere+universe lifted");
                    }
                }
                prev = Some(s);
            }
        }
    }
    // other dimensions (the hook takes any PartialDSym): 2D symbols and their lifts
    for n in 1..=2 {
        for t in &labelled(2, n) {
            for (k, b) in symbols_2d_cryst(t).into_iter().enumerate() {
                if th || k % 3 == 0 {
                    bcc(ctx, &b, "dim2");
                    bcc(ctx, &lift(&b), "dim2 lifted");
                }
            }
        }
    }

    // (h4) orbifold_invariant outside the domain of is_euclidean: arbitrary branching numbers
    //      (two-digit ones are bracketed in the labels), no sphericity filter
    let vals = [1usize, 2, 3, 5, 7, 10, 12];
    let stride = if th { 3 } else { 17 };
    let mut serial = 0usize;
    for n in 1..=2 {
        for t in &classes(3, n) {
            for s in all_vs(t, &vals) {
                serial += 1;
                if serial % stride == 0 && !in_domain_3d(&s) {
                    oinv(ctx, &s, "outside");
                }
            }
        }
    }
    for k in [1, 2, 3, 4, 6] {
        oinv(ctx, &torus_cone_prism(k), "torus-cone-prism");
    }
}

fn parse_enc(s: &str) -> Tab {
    let x: Vec<usize> = s.split_whitespace().map(|t| t.parse().unwrap()).collect();
    let (size, dim) = (x[0], x[1]);
    let mut op = vec![vec![0usize; size + 1]; dim + 1];
    let mut v = vec![vec![0usize; size + 1]; dim];
    let mut k = 2;
    for d in 1..=size {
        for i in 0..=dim {
            op[i][d] = x[k];
            k += 1;
        }
    }
    for i in 0..dim {
        for d in 1..=size {
            v[i][d] = x[k];
            k += 1;
        }
    }
    Tab { size, dim, op, v }
}

fn main() {
    let mut ctx = Ctx::from_args();
    let th = ctx.thorough();
    let mut rng = ctx.rng(17);
    let sheets = if th { 3 } else { 2 };

    // (0) regression corpus.  D16: `<1.1:3 3:1 2 3,1 3,2 3,1 2 3:6 4,3,4 3>` is euclidean (yes) but
    //     one of its 4-sheeted covers — H1 = Z6 × Z6, whose table entry listed the invariants as
    //     2,3,6 instead of the invariant factors 6,6 that abelian_invariants returns — was
    //     reported non-euclidean ("orbifold invariants do not match"); same for the dual.
    {
        let base = parse_symbol("<1.1:3 3:1 2 3,1 3,2 3,1 2 3:6 4,3,4 3>").expect("D16 base symbol");
        euc(&mut ctx, "euc", &base, true, 0, "regress-D16");
        euccov(&mut ctx, &base, 4, "regress-D16");
        euccov(&mut ctx, &base.dual(), 4, "regress-D16");
    }

    // (0') seeded-change study round 3 (see c15.rs): mirror prisms over the hyperbolic 2D symbol
    //      <1.1:4:2 4,3 4,2 4:8,4> (no cover exists: `no`), and the P6_2 / P6_4 stackings of
    //      triangular prisms (euclidean by construction: `yes` demanded)
    {
        let b = parse_symbol("<1.1:4:2 4,3 4,2 4:8,4>").expect("4222 base");
        let id: Vec<usize> = (0..=b.size).collect();
        let s = mirror_prisms(&b, &id).expect("hyperbolic prisms");
        euc(&mut ctx, "euc", &s, false, 0, "witness prism hyp");
        let l = parse_symbol("<1.1:6:2 5 6,3 4 6,2 5 6:3,6>").expect("p2 triangle layer");
        for tau in [vec![0, 4, 6, 2, 5, 1, 3], vec![0, 5, 3, 6, 1, 4, 2]] {
            let s = stacked_prisms(&l, &tau).expect("twisted prisms");
            euc(&mut ctx, "euc_corpus", &s, false, 0, "witness stack euc order=3");
        }
    }

    // (1) corpus: yes expected; thorough: three runs of every input
    let reps = if th { 3 } else { 1 };
    for s in corpus() {
        for rep in 0..reps {
            euc(&mut ctx, "euc_corpus", &s, true, rep, "corpus");
        }
        ograph(&mut ctx, &s, "corpus");
        oinv(&mut ctx, &s, "corpus");
        simple_stream(&mut ctx, "euc_corpus", &s, "corpus");
        let vs = variants(&s, &mut rng, 3);
        eucinv(&mut ctx, &vs, "corpus");
        // the corpus is closed under covers with few sheets: ≤ 2 (quick), ≤ 4 capped (thorough)
        if th {
            euccov_capped(&mut ctx, &s, 4, 40, "corpus");
        } else {
            euccov(&mut ctx, &s, 2, "corpus");
        }
        if th {
            for (k, v) in vs[1..].iter().enumerate() {
                euc(&mut ctx, "euc_corpus", v, k == 0, 0, "corpus-variant");
            }
        }
    }

    // (2) the 3D universe: exhaustive for n ≤ 3 (quick) / n ≤ 4 (thorough); beyond, every
    //     `stride`-th symbol of the next size at a seeded offset
    let nfull = if th { 4 } else { 3 };
    let nren = if th { 3 } else { 1 };
    let stride = if th { 3 } else { 6 };
    let offset = rng.below(stride);
    let mut serial = 0usize;
    for n in 1..=nfull + 1 {
        for t in &classes(3, n) {
            for s in symbols_3d(t) {
                serial += 1;
                let exhaustive = n <= nfull;
                if !(exhaustive || serial % stride == offset) {
                    continue;
                }
                let extra = if exhaustive { "exhaustive" } else { "sampled" };
                euc(&mut ctx, "euc", &s, th || n <= 2, 0, extra);
                ograph(&mut ctx, &s, extra);
                oinv(&mut ctx, &s, extra);
                // not on every symbol, also in thorough: a fixed number of cases per symbol would
                // alias with the 16 shards (case id mod 16) and put one op on one shard
                if (th && serial % 3 != 0) || (!th && serial % 4 == 0) {
                    simple_stream(&mut ctx, "euc", &s, extra);
                }
                let vs = variants(&s, &mut rng, nren);
                eucinv(&mut ctx, &vs, extra);
                if exhaustive || th {
                    // covers with up to 4 sheets for the small symbols (n ≤ 2 quick, n ≤ 3 thorough)
                    let k = if n <= 2 || (th && n <= 3) { 4 } else if n <= 4 { sheets } else { 2 };
                    euccov(&mut ctx, &s, k, extra);
                }
            }
        }
    }
    // (3) products and twisted stackings (families of c15.rs (4)); euclidean base ⇒ `yes` demanded.
    //     quick:    euclidean bases: mirror prisms n ≤ 3 all, n = 4 every 4th; stackings n ≤ 3 all,
    //               n = 4 every 4th, n = 5, 6 automorphisms of order ≥ 3; other bases: n ≤ 2 every 2nd,
    //               n = 3 spherical every 8th, hyperbolic every 64th
    //     thorough: euclidean bases n ≤ 4 all, n = 5, 6 all stackings; other bases n ≤ 2 all,
    //               n = 3 spherical all, hyperbolic every 8th; n = 4 every 32nd
    let mut prng = ctx.rng(1717);
    let off = prng.below(64);
    // one serial per family, so that the strides sample each family evenly
    let mut serials = [0usize; 2];
    for n in 1..=6 {
        let sets = if n <= 3 { labelled(2, n) } else { classes(2, n) };
        for t in &sets {
            let bases = if n <= 4 { symbols_2d_cryst(t) } else { euclidean_2d(t, 6) };
            for b in bases {
                if (0..2).any(|i| (1..=b.size).any(|d| ![1, 2, 3, 4, 6].contains(&b.v[i][d]))) {
                    continue;
                }
                let k = curvature2(&b).0;
                let cls = if k > 0 { "sph" } else if k == 0 { "euc" } else { "hyp" };
                for (ai, a) in automorphisms(&b).iter().enumerate() {
                    let o = perm_order(a);
                    let mut items: Vec<(&str, Tab)> = vec![];
                    if o <= 2 && n <= 4 {
                        if let Some(p) = mirror_prisms(&b, a).filter(in_domain_3d) {
                            items.push(("mirror", p));
                        }
                    }
                    if n <= 4 || o >= 3 || th {
                        if let Some(p) = stacked_prisms(&b, a).filter(in_domain_3d) {
                            items.push(("stack", p));
                        }
                    }
                    for (kind, p) in items {
                        let si = if kind == "mirror" { 0 } else { 1 };
                        serials[si] += 1;
                        let pserial = serials[si];
                        let stride = match (th, n, cls) {
                            (_, 1..=3, "euc") => 1,
                            (true, _, "euc") => 1,
                            (false, 4, "euc") => 4,
                            (false, _, "euc") => 1,
                            (true, 1..=2, _) => 1,
                            (false, 1..=2, _) => 2,
                            (true, 3, "sph") => 1,
                            (false, 3, "sph") => 8,
                            (true, 3, _) => 8,
                            (false, 3, _) => 64,
                            (true, 4, _) => 32,
                            _ => 0,
                        };
                        if stride == 0 || (pserial + off) % stride != 0 {
                            continue;
                        }
                        let extra = format!("prism {} {} base={} aut={} order={}", kind, cls, n, ai, o);
                        euc(&mut ctx, if cls == "euc" { "euc_corpus" } else { "euc" }, &p, false, 0, &extra);
                        ograph(&mut ctx, &p, &extra);
                        oinv(&mut ctx, &p, &extra);
                        if (pserial + off) % 4 == 0 {
                            simple_stream(&mut ctx, if cls == "euc" { "euc_corpus" } else { "euc" }, &p, &extra);
                        }
                        if (pserial + off) % (8 * stride) == 0 {
                            let vs = variants(&p, &mut prng, 1);
                            eucinv(&mut ctx, &vs, &extra);
                        }
                    }
                }
            }
        }
    }
    // (4) the hooks of the cascade, each against its model
    hook_cases(&mut ctx, th);
    ctx.finish();
}
