//! scratch measurement (to be replaced)
use verif_harness::d3gen::*;
use std::time::Instant;
fn main() {
    let t0 = Instant::now();
    for n in 6..=8 {
        let cl = classes(2, n);
        let mut cnt = 0;
        for t in &cl { cnt += euclidean_2d(t, 6).len(); }
        eprintln!("2D n={} sets={} euclid={} t={:?}", n, cl.len(), cnt, t0.elapsed());
    }
    let cs = classes(3, 5);
    eprintln!("3D n=5 classes={} t={:?}", cs.len(), t0.elapsed());
    let mut cnt = 0;
    for t in &cs { cnt += symbols_3d(t).len(); }
    eprintln!("3D n=5 syms={} t={:?}", cnt, t0.elapsed());
}
