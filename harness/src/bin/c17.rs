//! C17 — 3D euclidicity verdicts are total, invariant and never contradictory.
//!
//! Drives the public `euclidicity::is_euclidean`, `delaney3d::{orbifold_graph,
//! pseudo_toroidal_cover}` and `covers::covers` (the latter only to construct inputs).
//!
//!   euc         IN deep rep sym                 OUT class reason [0 | 1 cover]  | PANIC
//!                                               (class yes/no/maybe; reason = message with `_`
//!                                               for spaces, `-` for yes; on yes the result of the
//!                                               public pseudo_toroidal_cover follows)
//!   euc_corpus  as euc; Spec demands yes
//!   eucinv      IN k sym ren_1 … ren_k dual     OUT one class per variant (panic = `panic`)
//!   euccov      IN sym m cover_1 … cover_m      OUT class(sym) class(cover_1) … class(cover_m)
//!   ograph      IN sym                          OUT nl label… ne v w …          | PANIC
//!
//! Universe: the 3D universe of C15 (`d3gen`), covers with ≤ 2 (quick) / 3 (thorough) sheets
//! (≤ 4 sheets for n ≤ 2 quick / n ≤ 3 thorough),
//! the corpus (thorough: every corpus input 3 times — `simplify` iterates a HashSet, §5.9);
//! products and twisted stackings (prisms over 2D symbols with a mid-height mirror, or stacked with
//! an automorphism of the base: screw axes and glides) — over a euclidean base the symbol is
//! euclidean by construction and `yes` is demanded (`euc_corpus`).
use rust_dsymbols::covers::covers;
use rust_dsymbols::delaney3d::{orbifold_graph, pseudo_toroidal_cover};
use rust_dsymbols::euclidicity::{is_euclidean, Euclidean};
use std::panic::{catch_unwind, AssertUnwindSafe};
use verif_harness::d3gen::{
    automorphisms, classes, corpus, curvature2, euclidean_2d, in_domain_3d, labelled, mirror_prisms, parse_symbol,
    perm_order, stacked_prisms, symbols_2d_cryst, symbols_3d,
};
use verif_harness::dsgen::{random_perm1, Tab};
use verif_harness::{Ctx, Rng};

fn verdict(t: &Tab) -> (String, String) {
    match is_euclidean(&t.to_partial_dsym()) {
        Euclidean::Yes => ("yes".to_string(), "-".to_string()),
        Euclidean::No(s) => ("no".to_string(), s.replace(' ', "_")),
        Euclidean::Maybe(s, _) => ("maybe".to_string(), s.replace(' ', "_")),
    }
}

fn class_of(t: &Tab) -> String {
    match catch_unwind(AssertUnwindSafe(|| verdict(t).0)) {
        Ok(c) => c,
        Err(_) => "panic".to_string(),
    }
}

fn euc(ctx: &mut Ctx, op: &str, s: &Tab, deep: bool, rep: usize, extra: &str) {
    if !ctx.peek_mine() {
        ctx.skip();
        return;
    }
    let (cls, reason) = match catch_unwind(AssertUnwindSafe(|| verdict(s))) {
        Ok(v) => v,
        Err(_) => ("panic".to_string(), "-".to_string()),
    };
    // non-trivial: the verdict is not settled by the invariant table alone
    let nt = reason != "orbifold_invariants_do_not_match";
    let tag = format!("{}size={} class={} reason={} {}", if nt { "nt " } else { "" }, s.size, cls, reason, extra);
    ctx.case(
        op,
        &tag,
        || format!("{} {} {}", if deep { 1 } else { 0 }, rep, s.enc()),
        || {
            let (c, r) = verdict(s);
            if c == "yes" {
                match pseudo_toroidal_cover(&s.to_partial_dsym()) {
                    Some(cov) => format!("{} {} 1 {}", c, r, Tab::from_dsym(&cov).enc()),
                    None => format!("{} {} 0", c, r),
                }
            } else {
                format!("{} {}", c, r)
            }
        },
    );
}

fn variants(s: &Tab, rng: &mut Rng, k: usize) -> Vec<Tab> {
    let mut vs = vec![s.clone()];
    for _ in 0..k {
        vs.push(s.renumbered(&random_perm1(rng, s.size)));
    }
    vs.push(s.dual());
    vs
}

fn eucinv(ctx: &mut Ctx, vs: &[Tab], extra: &str) {
    let k = vs.len() - 2;
    let tag = format!("nt size={} variants={} {}", vs[0].size, vs.len(), extra);
    ctx.case(
        "eucinv",
        &tag,
        || format!("{} {}", k, vs.iter().map(|t| t.enc()).collect::<Vec<_>>().join(" ")),
        || vs.iter().map(class_of).collect::<Vec<_>>().join(" "),
    );
}

fn euccov(ctx: &mut Ctx, s: &Tab, sheets: usize, extra: &str) {
    euccov_capped(ctx, s, sheets, usize::MAX, extra)
}

/// at most `cap` of the covers (seeded sample local to the case, order kept)
fn euccov_capped(ctx: &mut Ctx, s: &Tab, sheets: usize, cap: usize, extra: &str) {
    if !ctx.peek_mine() {
        ctx.skip();
        return;
    }
    // the covers are inputs here (their construction is property C05's subject)
    let covs: Vec<Tab> = match catch_unwind(AssertUnwindSafe(|| {
        covers(&s.to_partial_dsym(), sheets).iter().map(Tab::from_dsym).collect::<Vec<_>>()
    })) {
        Ok(c) => c,
        Err(_) => {
            ctx.skip();
            return;
        }
    };
    let covs: Vec<Tab> = if covs.len() <= cap {
        covs
    } else {
        let mut rng = Rng::new(ctx.seed.wrapping_mul(7919).wrapping_add(covs.len() as u64 * 31 + s.size as u64));
        let mut idx: Vec<usize> = (0..covs.len()).collect();
        rng.shuffle(&mut idx);
        let mut keep = idx[..cap].to_vec();
        keep.sort();
        keep.into_iter().map(|i| covs[i].clone()).collect()
    };
    // the first entry of `covers` is the one-sheeted cover (the symbol itself): kept, it is a
    // renumbering-free repeat and costs little
    let tag = format!("nt size={} covers={} {}", s.size, covs.len(), extra);
    ctx.case(
        "euccov",
        &tag,
        || format!("{} {} {}", s.enc(), covs.len(), covs.iter().map(|t| t.enc()).collect::<Vec<_>>().join(" ")),
        || {
            let mut out = vec![class_of(s)];
            out.extend(covs.iter().map(class_of));
            out.join(" ")
        },
    );
}

fn ograph(ctx: &mut Ctx, s: &Tab, extra: &str) {
    let tag = format!("size={} {}", s.size, extra);
    ctx.case("ograph", &tag, || s.enc(), || {
        let (labels, edges) = orbifold_graph(&s.to_partial_dsym());
        let mut out = vec![labels.len().to_string()];
        out.extend(labels);
        out.push(edges.len().to_string());
        for (v, w) in edges {
            out.push(v.to_string());
            out.push(w.to_string());
        }
        out.join(" ")
    });
}

fn main() {
    let mut ctx = Ctx::from_args();
    let th = ctx.thorough();
    let mut rng = ctx.rng(17);
    let sheets = if th { 3 } else { 2 };

    // (0) regression corpus.  D16: `<1.1:3 3:1 2 3,1 3,2 3,1 2 3:6 4,3,4 3>` is euclidean (yes) but
    //     one of its 4-sheeted covers — H1 = Z6 × Z6, whose table entry listed the invariants as
    //     2,3,6 instead of the invariant factors 6,6 that abelian_invariants returns — was
    //     reported non-euclidean ("orbifold invariants do not match"); same for the dual.
    {
        let base = parse_symbol("<1.1:3 3:1 2 3,1 3,2 3,1 2 3:6 4,3,4 3>").expect("D16 base symbol");
        euc(&mut ctx, "euc", &base, true, 0, "regress-D16");
        euccov(&mut ctx, &base, 4, "regress-D16");
        euccov(&mut ctx, &base.dual(), 4, "regress-D16");
    }

    // (0') seeded-change study round 3 (see c15.rs): mirror prisms over the hyperbolic 2D symbol
    //      <1.1:4:2 4,3 4,2 4:8,4> (no cover exists: `no`), and the P6_2 / P6_4 stackings of
    //      triangular prisms (euclidean by construction: `yes` demanded)
    {
        let b = parse_symbol("<1.1:4:2 4,3 4,2 4:8,4>").expect("4222 base");
        let id: Vec<usize> = (0..=b.size).collect();
        let s = mirror_prisms(&b, &id).expect("hyperbolic prisms");
        euc(&mut ctx, "euc", &s, false, 0, "witness prism hyp");
        let l = parse_symbol("<1.1:6:2 5 6,3 4 6,2 5 6:3,6>").expect("p2 triangle layer");
        for tau in [vec![0, 4, 6, 2, 5, 1, 3], vec![0, 5, 3, 6, 1, 4, 2]] {
            let s = stacked_prisms(&l, &tau).expect("twisted prisms");
            euc(&mut ctx, "euc_corpus", &s, false, 0, "witness stack euc order=3");
        }
    }

    // (1) corpus: yes expected; thorough: three runs of every input
    let reps = if th { 3 } else { 1 };
    for s in corpus() {
        for rep in 0..reps {
            euc(&mut ctx, "euc_corpus", &s, true, rep, "corpus");
        }
        ograph(&mut ctx, &s, "corpus");
        let vs = variants(&s, &mut rng, 3);
        eucinv(&mut ctx, &vs, "corpus");
        // the corpus is closed under covers with few sheets: ≤ 2 (quick), ≤ 4 capped (thorough)
        if th {
            euccov_capped(&mut ctx, &s, 4, 40, "corpus");
        } else {
            euccov(&mut ctx, &s, 2, "corpus");
        }
        if th {
            for (k, v) in vs[1..].iter().enumerate() {
                euc(&mut ctx, "euc_corpus", v, k == 0, 0, "corpus-variant");
            }
        }
    }

    // (2) the 3D universe: exhaustive for n ≤ 3 (quick) / n ≤ 4 (thorough); beyond, every
    //     `stride`-th symbol of the next size at a seeded offset
    let nfull = if th { 4 } else { 3 };
    let nren = if th { 3 } else { 1 };
    let stride = if th { 3 } else { 6 };
    let offset = rng.below(stride);
    let mut serial = 0usize;
    for n in 1..=nfull + 1 {
        for t in &classes(3, n) {
            for s in symbols_3d(t) {
                serial += 1;
                let exhaustive = n <= nfull;
                if !(exhaustive || serial % stride == offset) {
                    continue;
                }
                let extra = if exhaustive { "exhaustive" } else { "sampled" };
                euc(&mut ctx, "euc", &s, th || n <= 2, 0, extra);
                ograph(&mut ctx, &s, extra);
                let vs = variants(&s, &mut rng, nren);
                eucinv(&mut ctx, &vs, extra);
                if exhaustive || th {
                    // covers with up to 4 sheets for the small symbols (n ≤ 2 quick, n ≤ 3 thorough)
                    let k = if n <= 2 || (th && n <= 3) { 4 } else if n <= 4 { sheets } else { 2 };
                    euccov(&mut ctx, &s, k, extra);
                }
            }
        }
    }
    // (3) products and twisted stackings (families of c15.rs (4)); euclidean base ⇒ `yes` demanded.
    //     quick:    euclidean bases: mirror prisms n ≤ 3 all, n = 4 every 4th; stackings n ≤ 3 all,
    //               n = 4 every 4th, n = 5, 6 automorphisms of order ≥ 3; other bases: n ≤ 2 every 2nd,
    //               n = 3 spherical every 8th, hyperbolic every 64th
    //     thorough: euclidean bases n ≤ 4 all, n = 5, 6 all stackings; other bases n ≤ 2 all,
    //               n = 3 spherical all, hyperbolic every 8th; n = 4 every 32nd
    let mut prng = ctx.rng(1717);
    let off = prng.below(64);
    // one serial per family, so that the strides sample each family evenly
    let mut serials = [0usize; 2];
    for n in 1..=6 {
        let sets = if n <= 3 { labelled(2, n) } else { classes(2, n) };
        for t in &sets {
            let bases = if n <= 4 { symbols_2d_cryst(t) } else { euclidean_2d(t, 6) };
            for b in bases {
                if (0..2).any(|i| (1..=b.size).any(|d| ![1, 2, 3, 4, 6].contains(&b.v[i][d]))) {
                    continue;
                }
                let k = curvature2(&b).0;
                let cls = if k > 0 { "sph" } else if k == 0 { "euc" } else { "hyp" };
                for (ai, a) in automorphisms(&b).iter().enumerate() {
                    let o = perm_order(a);
                    let mut items: Vec<(&str, Tab)> = vec![];
                    if o <= 2 && n <= 4 {
                        if let Some(p) = mirror_prisms(&b, a).filter(in_domain_3d) {
                            items.push(("mirror", p));
                        }
                    }
                    if n <= 4 || o >= 3 || th {
                        if let Some(p) = stacked_prisms(&b, a).filter(in_domain_3d) {
                            items.push(("stack", p));
                        }
                    }
                    for (kind, p) in items {
                        let si = if kind == "mirror" { 0 } else { 1 };
                        serials[si] += 1;
                        let pserial = serials[si];
                        let stride = match (th, n, cls) {
                            (_, 1..=3, "euc") => 1,
                            (true, _, "euc") => 1,
                            (false, 4, "euc") => 4,
                            (false, _, "euc") => 1,
                            (true, 1..=2, _) => 1,
                            (false, 1..=2, _) => 2,
                            (true, 3, "sph") => 1,
                            (false, 3, "sph") => 8,
                            (true, 3, _) => 8,
                            (false, 3, _) => 64,
                            (true, 4, _) => 32,
                            _ => 0,
                        };
                        if stride == 0 || (pserial + off) % stride != 0 {
                            continue;
                        }
                        let extra = format!("prism {} {} base={} aut={} order={}", kind, cls, n, ai, o);
                        euc(&mut ctx, if cls == "euc" { "euc_corpus" } else { "euc" }, &p, false, 0, &extra);
                        ograph(&mut ctx, &p, &extra);
                        if (pserial + off) % (8 * stride) == 0 {
                            let vs = variants(&p, &mut prng, 1);
                            eucinv(&mut ctx, &vs, &extra);
                        }
                    }
                }
            }
        }
    }
    ctx.finish();
}
