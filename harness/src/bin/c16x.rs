//! scratch experiment (not registered): are the intermediate states of simplify() inside the domain
//! (spherical tiles and vertex figures) after every single step?
use rust_dsymbols::covers::subgroup_cover;
use rust_dsymbols::delaney3d::pseudo_toroidal_cover;
use rust_dsymbols::derived::build_set;
use rust_dsymbols::dsets::{DSet, PartialDSet};
use rust_dsymbols::dsyms::PartialDSym;
use rust_dsymbols::fpgroups::free_words::FreeWord;
use rust_dsymbols::fundamental_group::fundamental_group;
use rust_dsymbols::simplify::verif_hooks as hk;
use std::collections::BTreeMap;
use std::panic::{catch_unwind, AssertUnwindSafe};
use verif_harness::dsgen::Tab;

fn spheres(t: &Tab, a: usize) -> bool {
    let n = t.size; let idx = [a, a + 1, a + 2];
    let mut comp = vec![0usize; n + 1]; let mut nc = 0;
    for d in 1..=n { if comp[d] != 0 { continue; } nc += 1; comp[d] = nc; let mut st = vec![d];
        while let Some(e) = st.pop() { for &i in &idx { let f = t.op[i][e]; if f == 0 || f == e { return false; } if comp[f] == 0 { comp[f] = nc; st.push(f); } } } }
    let mut chi = vec![0i64; nc + 1];
    for (i, j, s) in [(a, a + 1, 1i64), (a, a + 2, -1), (a + 1, a + 2, 1)] {
        let mut seen = vec![false; n + 1];
        for d in 1..=n { if !seen[d] { for e in t.orbit2(i, j, d) { seen[e] = true; } chi[comp[d]] += s; } }
    }
    (1..=nc).all(|c| chi[c] == 2)
}
fn differ(t: &Tab) -> bool { (0..=3).all(|i| ((i + 2)..=3).all(|j| (1..=t.size).all(|d| t.op[i][d] != t.op[j][d]))) }
fn status(ds: &PartialDSet) -> String {
    let t = Tab::from_dset(ds);
    format!("axioms={} differ={} tiles={} vfigs={}", t.is_complete_set() && t.far_commute(), differ(&t), spheres(&t, 0), spheres(&t, 1))
}
fn dual_ds(ds: &PartialDSet) -> PartialDSet { let n = ds.dim(); build_set(ds.size(), n, |i, d| ds.op(n - i, d)) }

fn run(ds0: PartialDSet, stats: &mut BTreeMap<String, u64>) {
    let mut bump = |k: String| *stats.entry(k).or_insert(0) += 1;
    let merge_all = |ds: PartialDSet, bump: &mut dyn FnMut(String)| -> Option<PartialDSet> {
        let mut cur = ds;
        for k in 0..6 {
            let (name, r): (&str, Option<Option<PartialDSet>>) = match k % 3 {
                0 => ("merge_tiles", hk::merge_tiles(&cur)),
                1 => ("merge_facets", hk::merge_facets(&cur)),
                _ => ("dual", Some(Some(dual_ds(&cur)))),
            };
            match r { Some(Some(n)) => { if k % 3 != 2 { bump(format!("{:16} {}", name, status(&n))); } cur = n; } Some(None) => return None, None => {} }
        }
        Some(cur)
    };
    let Some(mut state) = merge_all(ds0, &mut bump) else { return };
    for _ in 0..80 {
        let mut changed = false;
        let ops: [(&str, fn(&PartialDSet) -> Option<Option<PartialDSet>>); 4] = [("fix1", hk::fix_local_1_vertex), ("fix2", hk::fix_local_2_vertex), ("fnd", hk::fix_non_disk_face), ("split_and_glue", hk::split_and_glue)];
        for (name, f) in ops {
            match f(&state) {
                None => continue,
                Some(None) => return,
                Some(Some(n)) => { bump(format!("{:16} {}", name, status(&n))); match merge_all(n, &mut bump) { Some(s) => state = s, None => return }; changed = true; break; }
            }
        }
        if !changed { break; }
    }
}

fn main() {
    std::panic::set_hook(Box::new(|_| {}));
    let mut stats = BTreeMap::new();
    let txt = std::fs::read_to_string("/verif/corpus/euclidean3d.txt").unwrap();
    for line in txt.lines().filter(|l| !l.starts_with('#') && !l.trim().is_empty()) {
        let sym: PartialDSym = line.trim().parse().unwrap();
        if let Some(c) = pseudo_toroidal_cover(&sym) { let ds = Tab::from_dsym(&c).to_partial_dset(); let _ = catch_unwind(AssertUnwindSafe(|| run(ds, &mut stats))); }
    }
    for p in 2..=6usize { for q in 2..=6usize { for a in 1..p { for b in 1..q {
        let sym: PartialDSym = format!("<1.1:1 3:1,1,1,1:{},2,{}>", p, q).parse().unwrap();
        let fg = fundamental_group(&sym);
        let gen = |i: usize| fg.gen_to_edge.iter().find(|(_, &e)| e == (1, i)).map(|(&g, _)| g as isize).unwrap();
        let mut w = vec![]; for _ in 0..a { w.push(gen(0)); w.push(gen(1)); } for _ in 0..b { w.push(gen(2)); w.push(gen(3)); }
        if let Ok(c) = catch_unwind(AssertUnwindSafe(|| subgroup_cover(&sym, &vec![FreeWord::new(w)]))) {
            let t = Tab::from_dsym(&c);
            if (0..3).all(|i| (1..=t.size).all(|d| t.v[i][d] == 1)) && differ(&t) && spheres(&t, 0) && spheres(&t, 1) {
                let ds = t.to_partial_dset(); let _ = catch_unwind(AssertUnwindSafe(|| run(ds, &mut stats)));
            }
        }
    }}}}
    for (k, v) in stats { println!("{:70} {}", k, v); }
}
