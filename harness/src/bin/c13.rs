//! C13 — stabiliser presentation, core and intersection tables: drives the real
//! `stabilizer`, `core_table`, `intersection_table`.
//!
//! group header  G = <name> <nr_gens> <rels> (F <order> <degree> <images> | I)
//! IN  stab  G <table> <base>            OUT <generators> <relators>
//! IN  core  G <table> <seed>            OUT <core table> <core table, BFS renumbered from row 0>
//! IN  inter G <table a> <table b> <seed> OUT <table> <table, BFS renumbered from row 0>
//!
//! Tables are the public view (`get` under `all_gens()`); they are produced by the real
//! `coset_table` (corpus groups × subgroups) and `coset_tables` (low index).
use rust_dsymbols::dsyms::PartialDSym;
use rust_dsymbols::fpgroups::cosets::{coset_table, coset_tables, core_table, intersection_table, CosetTable};
use rust_dsymbols::fpgroups::free_words::FreeWord;
use rust_dsymbols::fpgroups::stabilizer::stabilizer;
use rust_dsymbols::fundamental_group::fundamental_group;
use std::collections::HashSet;
use std::panic::{catch_unwind, AssertUnwindSafe};
use verif_harness::groups::{corpus, Group};
use verif_harness::{enc_lists, Ctx, Rng};

fn fw(raw: &[isize]) -> FreeWord {
    FreeWord::new(raw.iter().cloned())
}

fn letters(w: &FreeWord) -> Vec<isize> {
    w.iter().cloned().collect()
}

type View = Vec<Vec<isize>>;

fn view(t: &CosetTable) -> View {
    (0..t.len())
        .map(|c| t.all_gens().iter().map(|&g| t.get(c, g).map(|d| d as isize).unwrap_or(-1)).collect())
        .collect()
}

/// rows renamed in breadth-first order from row 0; empty if some row is not reached
fn bfs_view(v: &[Vec<isize>]) -> View {
    let n = v.len();
    if n == 0 {
        return vec![];
    }
    let mut o2n = vec![usize::MAX; n];
    let mut order = vec![0usize];
    o2n[0] = 0;
    let mut i = 0;
    while i < order.len() {
        let c = order[i];
        for &d in &v[c] {
            if d >= 0 && (d as usize) < n && o2n[d as usize] == usize::MAX {
                o2n[d as usize] = order.len();
                order.push(d as usize);
            }
        }
        i += 1;
    }
    if order.len() != n {
        return vec![];
    }
    order
        .iter()
        .map(|&c| v[c].iter().map(|&d| if d >= 0 && (d as usize) < n { o2n[d as usize] as isize } else { -1 }).collect())
        .collect()
}

struct Grp {
    name: String,
    nr_gens: usize,
    rels: Vec<Vec<isize>>,
    /// `F order degree images` or `I`
    kind: String,
    finite: bool,
}

impl Grp {
    fn finite(g: &Group) -> Grp {
        Grp {
            name: g.name.clone(),
            nr_gens: g.nr_gens,
            rels: g.rels.clone(),
            kind: format!("F {} {} {}", g.order, g.degree, enc_lists(&g.perms)),
            finite: true,
        }
    }
    fn infinite(name: &str, nr_gens: usize, rels: Vec<Vec<isize>>) -> Grp {
        Grp { name: name.to_string(), nr_gens, rels, kind: "I".to_string(), finite: false }
    }
    fn header(&self) -> String {
        format!("{} {} {} {}", self.name, self.nr_gens, enc_lists(&self.rels), self.kind)
    }
    fn relators(&self) -> Vec<FreeWord> {
        self.rels.iter().map(|w| fw(w)).collect()
    }
}

fn bucket(rows: usize) -> &'static str {
    match rows {
        0..=1 => "rows=1",
        2..=4 => "rows<=4",
        5..=12 => "rows<=12",
        13..=64 => "rows<=64",
        _ => "rows>64",
    }
}

struct Tables {
    tabs: Vec<(CosetTable, View, &'static str)>,
    seen: HashSet<View>,
}

impl Tables {
    fn new() -> Tables {
        Tables { tabs: vec![], seen: HashSet::new() }
    }
    fn add(&mut self, t: CosetTable, src: &'static str) {
        let v = view(&t);
        if self.seen.insert(v.clone()) {
            self.tabs.push((t, v, src));
        }
    }
}

fn stab_case(ctx: &mut Ctx, g: &Grp, t: &CosetTable, v: &View, base: usize, src: &str) {
    let nt = if v.len() >= 2 { "nt " } else { "" };
    let tags = format!("{nt}op=stab grp={} src={src} {}", if g.finite { "finite" } else { "infinite" }, bucket(v.len()));
    ctx.case(
        "stab",
        &tags,
        || format!("{} {} {}", g.header(), enc_lists(v), base),
        || {
            let (gens, rels) = stabilizer(base, g.relators(), t);
            let gl: Vec<Vec<isize>> = gens.iter().map(letters).collect();
            let rl: Vec<Vec<isize>> = rels.iter().map(letters).collect();
            format!("{} {}", enc_lists(&gl), enc_lists(&rl))
        },
    );
}

fn core_case(ctx: &mut Ctx, g: &Grp, t: &CosetTable, v: &View, seed: u64, src: &str) {
    let nt = if v.len() >= 2 { "nt " } else { "" };
    let tags = format!("{nt}op=core grp={} src={src} {}", if g.finite { "finite" } else { "infinite" }, bucket(v.len()));
    ctx.case(
        "core",
        &tags,
        || format!("{} {} {}", g.header(), enc_lists(v), seed),
        || {
            let c = view(&core_table(t));
            format!("{} {}", enc_lists(&c), enc_lists(&bfs_view(&c)))
        },
    );
}

fn inter_case(ctx: &mut Ctx, g: &Grp, ta: &CosetTable, va: &View, tb: &CosetTable, vb: &View, seed: u64) {
    let nt = if va.len() >= 2 && vb.len() >= 2 { "nt " } else { "" };
    let tags = format!(
        "{nt}op=inter grp={} {}",
        if g.finite { "finite" } else { "infinite" },
        bucket(va.len() * vb.len()).replace("rows", "product")
    );
    ctx.case(
        "inter",
        &tags,
        || format!("{} {} {} {}", g.header(), enc_lists(va), enc_lists(vb), seed),
        || {
            let x = view(&intersection_table(ta, tb));
            format!("{} {}", enc_lists(&x), enc_lists(&bfs_view(&x)))
        },
    );
}

/// every op on the collected tables of one group
fn explore(ctx: &mut Ctx, g: &Grp, tabs: &Tables, rng: &mut Rng, th: bool, stab: bool) {
    let all_bases = if th { 48 } else { 8 };
    let core_rows = if th { 1200 } else { 400 };
    for (t, v, src) in &tabs.tabs {
        let rows = v.len();
        if stab {
            if rows <= all_bases {
                for b in 0..rows {
                    stab_case(ctx, g, t, v, b, src);
                }
            } else {
                let mut bases = vec![0, 1, rows - 1];
                for _ in 0..(if th { 4 } else { 2 }) {
                    bases.push(rng.below(rows));
                }
                bases.sort();
                bases.dedup();
                for b in bases {
                    stab_case(ctx, g, t, v, b, src);
                }
            }
        }
        if rows <= core_rows {
            core_case(ctx, g, t, v, rng.next_u64() >> 16, src);
        }
    }
    // all ordered pairs of tables with a bounded product (sampled by a stride if too many)
    let bound = if th { 256 } else { 64 };
    let cap = if th { 3000 } else { 120 };
    let mut pairs = vec![];
    for (i, a) in tabs.tabs.iter().enumerate() {
        for (j, b) in tabs.tabs.iter().enumerate() {
            if a.1.len() * b.1.len() <= bound {
                pairs.push((i, j));
            }
        }
    }
    let stride = (pairs.len() + cap - 1) / cap.max(1);
    let off = if stride > 1 { rng.below(stride) } else { 0 };
    for (k, (i, j)) in pairs.iter().enumerate() {
        if stride <= 1 || k % stride == off {
            let (ta, va, _) = &tabs.tabs[*i];
            let (tb, vb, _) = &tabs.tabs[*j];
            inter_case(ctx, g, ta, va, tb, vb, rng.next_u64() >> 16);
        }
    }
}

fn low_index(g: &Grp, k: usize, tabs: &mut Tables) {
    let r = g.relators();
    let n = g.nr_gens;
    if let Ok(ts) = catch_unwind(AssertUnwindSafe(|| coset_tables(n, &r, k).collect::<Vec<_>>())) {
        for t in ts {
            tabs.add(t, "lowindex");
        }
    }
}

fn enumerated(g: &Grp, subs: &[Vec<isize>], tabs: &mut Tables) {
    let r = g.relators();
    let s: Vec<FreeWord> = subs.iter().map(|w| fw(w)).collect();
    let n = g.nr_gens;
    if let Ok(t) = catch_unwind(AssertUnwindSafe(|| coset_table(n, &r, &s))) {
        tabs.add(t, "enumeration");
    }
}

fn random_word(rng: &mut Rng, g: usize, maxlen: usize) -> Vec<isize> {
    let len = 1 + rng.below(maxlen);
    (0..len)
        .map(|_| {
            let x = rng.range(1, g as i64) as isize;
            if rng.chance(1, 2) { x } else { -x }
        })
        .collect()
}

fn pw(w: &[isize], k: usize) -> Vec<isize> {
    let mut v = vec![];
    for _ in 0..k {
        v.extend_from_slice(w);
    }
    v
}

fn comm(a: isize, b: isize) -> Vec<isize> {
    vec![a, b, -a, -b]
}

fn main() {
    let mut ctx = Ctx::from_args();
    let th = ctx.thorough();

    // (0) regression corpus: the inputs on which defects D13 and D14 were reported
    {
        let mut rng = ctx.rng(1300);
        // D13: a letter that starts no rotation of a relator (free groups, free factors,
        //      relators that are freely but not cyclically reduced)
        for (name, n, rels, k) in [
            ("F1", 1usize, vec![], 2usize),
            ("F2", 2, vec![], 2),
            ("Z2*Z", 2, vec![vec![1, 1]], 2),
            ("Z-conj-relator", 2, vec![vec![1, 2, -1]], 2),
            // D14: the empty relator, and a relator that reduces to it
            ("Z^2+empty-relator", 2, vec![vec![], comm(1, 2)], 2),
            ("Z^2+trivial-relator", 2, vec![vec![1, -1], comm(1, 2)], 2),
        ] {
            let g = Grp::infinite(name, n, rels);
            let mut tabs = Tables::new();
            low_index(&g, k, &mut tabs);
            explore(&mut ctx, &g, &tabs, &mut rng, th, true);
        }
    }

    // (1) the finite corpus groups: coset enumeration over a few subgroups + low index
    for (gi, cg) in corpus().iter().enumerate() {
        if !th && !cg.quick {
            continue;
        }
        let g = Grp::finite(cg);
        let mut rng = ctx.rng(1310 + gi as u64);
        let mut tabs = Tables::new();
        let ng = cg.nr_gens as isize;
        if cg.order <= (if th { 1200 } else { 400 }) {
            enumerated(&g, &[], &mut tabs);
        }
        for x in 1..=ng {
            enumerated(&g, &[vec![x]], &mut tabs);
        }
        let all: Vec<Vec<isize>> = (1..=ng).map(|x| vec![x]).collect();
        enumerated(&g, &all, &mut tabs);
        if ng >= 2 {
            enumerated(&g, &[vec![1, 2]], &mut tabs);
            enumerated(&g, &[vec![1, 1], vec![2]], &mut tabs);
        }
        for _ in 0..(if th { 30 } else { 5 }) {
            let k = 1 + rng.below(2);
            let subs: Vec<Vec<isize>> = (0..k).map(|_| random_word(&mut rng, cg.nr_gens, 5)).collect();
            enumerated(&g, &subs, &mut tabs);
        }
        low_index(&g, (if th { 6 } else { 5 }).min(cg.order.max(1)), &mut tabs);
        explore(&mut ctx, &g, &tabs, &mut rng, th, true);
    }

    // (2) infinite groups: (name, gens, relators, index bound quick, thorough)
    let inf: Vec<(&str, usize, Vec<Vec<isize>>, usize, usize)> = vec![
        ("F2", 2, vec![], 4, 5),
        ("F3", 3, vec![], 2, 3),
        ("Z^2", 2, vec![comm(1, 2)], 5, 8),
        ("Z^3", 3, vec![comm(1, 2), comm(1, 3), comm(2, 3)], 3, 5),
        ("surface-genus-2", 4, vec![[comm(1, 2), comm(3, 4)].concat()], 2, 3),
        ("klein-bottle", 2, vec![vec![1, 2, -1, 2]], 5, 7),
        ("nonorientable-genus-3", 3, vec![vec![1, 1, 2, 2, 3, 3]], 3, 4),
        ("triangle-2-3-7", 2, vec![pw(&[1], 2), pw(&[2], 3), pw(&[1, 2], 7)], 7, 9),
        ("triangle-2-4-5", 2, vec![pw(&[1], 2), pw(&[2], 4), pw(&[1, 2], 5)], 6, 8),
        ("triangle-2-3-6", 2, vec![pw(&[1], 2), pw(&[2], 3), pw(&[1, 2], 6)], 4, 8),
        ("modular-Z2*Z3", 2, vec![pw(&[1], 2), pw(&[2], 3)], 6, 7),
        ("infinite-dihedral", 2, vec![pw(&[1], 2), pw(&[2], 2)], 6, 8),
        ("BS-1-2", 2, vec![vec![1, 2, -1, -2, -2]], 5, 7),
        ("trefoil", 2, vec![vec![1, 2, 1, -2, -1, -2]], 4, 6),
        ("Z2*Z", 2, vec![vec![1, 1]], 3, 4),
        ("Z-conj-relator", 2, vec![vec![1, 2, -1]], 4, 6),
    ];
    for (gi, (name, ng, rels, kq, kt)) in inf.iter().enumerate() {
        let g = Grp::infinite(name, *ng, rels.clone());
        let mut rng = ctx.rng(1400 + gi as u64);
        let mut tabs = Tables::new();
        low_index(&g, if th { *kt } else { *kq }, &mut tabs);
        explore(&mut ctx, &g, &tabs, &mut rng, th, true);
    }

    // (3) fundamental groups of euclidean and hyperbolic symbols, tables of index <= 4
    let symbols: Vec<(&str, &str)> = vec![
        ("e2", "<1.1:1:1,1,1:3,6>"),
        ("e2", "<1.1:1:1,1,1:4,4>"),
        ("e2", "<1.1:2:2,2,2:4,4>"),
        ("e2", "<1.1:2:2,2,2:3,6>"),
        ("e2", "<1.1:3:1 2 3,1 3,2 3:4 8,3>"),
        ("e2", "<1.1:2:1 2,1 2,2:3 4,4>"),
        ("h2", "<1.1:1:1,1,1:3,7>"),
        ("h2", "<1.1:1:1,1,1:4,5>"),
        ("h2", "<1.1:2:2,2,2:4,5>"),
        ("h2", "<1.1:2:1 2,1 2,2:3 4,5>"),
        ("e3", "<1.1:1 3:1,1,1,1:4,3,4>"),
        ("e3", "<1.1:2 3:2,1 2,1 2,2:6,3 2,6>"),
        ("e3", "<1.1:2 3:2,2,2,2:4,3,4>"),
    ];
    for (si, (kind, s)) in symbols.iter().enumerate() {
        let ds = match s.parse::<PartialDSym>() {
            Ok(d) => d,
            Err(_) => continue,
        };
        let fg = match catch_unwind(AssertUnwindSafe(|| fundamental_group(&ds))) {
            Ok(f) => f,
            Err(_) => continue,
        };
        let rels: Vec<Vec<isize>> = fg.relators.iter().map(letters).collect();
        let g = Grp::infinite(&format!("pi1-{kind}-{si}"), fg.nr_generators(), rels);
        let mut rng = ctx.rng(1500 + si as u64);
        let mut tabs = Tables::new();
        low_index(&g, if th { 4 } else if g.nr_gens <= 3 { 4 } else { 3 }, &mut tabs);
        explore(&mut ctx, &g, &tabs, &mut rng, th, true);
    }
    ctx.finish();
}
