//! probe (temporary)
use rust_dsymbols::fpgroups::cosets::{coset_table, coset_tables, core_table, intersection_table, CosetTable};
use rust_dsymbols::fpgroups::free_words::FreeWord;
use rust_dsymbols::fpgroups::stabilizer::stabilizer;
use std::panic::{catch_unwind, AssertUnwindSafe};

fn fw(raw: &[isize]) -> FreeWord { FreeWord::new(raw.iter().cloned()) }
fn view(t: &CosetTable) -> Vec<Vec<isize>> {
    (0..t.len()).map(|c| t.all_gens().iter().map(|&g| t.get(c, g).map(|d| d as isize).unwrap_or(-1)).collect()).collect()
}
fn show(name: &str, n: usize, rels: &[Vec<isize>], k: usize) {
    let r: Vec<FreeWord> = rels.iter().map(|w| fw(w)).collect();
    for t in coset_tables(n, &r, k) {
        for b in 0..t.len() {
            let res = catch_unwind(AssertUnwindSafe(|| stabilizer(b, r.clone(), &t)));
            match res {
                Ok((g, s)) => println!("{name} rows={} base={b} table={:?} gens={:?} rels={:?}", t.len(), view(&t),
                    g.iter().map(|w| w.iter().cloned().collect::<Vec<_>>()).collect::<Vec<_>>(),
                    s.iter().map(|w| w.iter().cloned().collect::<Vec<_>>()).collect::<Vec<_>>()),
                Err(_) => println!("{name} rows={} base={b} table={:?} PANIC", t.len(), view(&t)),
            }
        }
    }
}
fn main() {
    std::panic::set_hook(Box::new(|_| {}));
    show("F2", 2, &[], 2);
    show("Z2", 2, &[vec![1,2,-1,-2]], 2);
    show("Z+free", 2, &[vec![1,1]], 2);
    show("conj", 2, &[vec![1,2,-1]], 2);
    show("empty-rel", 2, &[vec![], vec![1,2,-1,-2]], 2);
    show("S3", 2, &[vec![1,1], vec![2,2], vec![1,2,1,2,1,2]], 3);
    let _ = (coset_table(1, &vec![], &vec![]).len(), core_table as fn(&CosetTable)->CosetTable, intersection_table as fn(&CosetTable,&CosetTable)->CosetTable);
}
