//! C16 — simplification keeps a 3D tiling a valid manifold of the same topology.
//!
//! Inputs: pseudo-toroidal covers of the literature corpus and of enumerated 3D symbols with
//! spherical tiles and vertex figures; finite universal covers and fixed-point-free subgroup
//! covers of 3D symbols with finite orbifold group; renumberings of all of them.
//!
//! Ops: `simplify` / `simplify_inv` (Spec observables only) and every rewriting primitive through
//! the `simplify::verif_hooks` wrappers, on the argument values the real pipeline produces: the
//! pipeline of `simplify()` is replayed here with the hooks (merge_all, then the fix_* / split
//! moves in the order `simplify` applies them, outputs fed forward) and every (primitive, input,
//! args, output) is its own case, compared with the Lean model.
//!
//! Case ids: every candidate input owns a block of `SLOTS * nshards` ids, all of whose used ids
//! belong to one shard, so only that shard builds the covers and replays the pipeline.
use rust_dsymbols::covers::{finite_universal_cover, subgroup_cover};
use rust_dsymbols::delaney2d::is_spherical;
use rust_dsymbols::delaney3d::pseudo_toroidal_cover;
use rust_dsymbols::derived::{as_dsym, build_set, canonical, minimal_image, subsymbol};
use rust_dsymbols::dsets::{DSet, PartialDSet, SimpleDSet};
use rust_dsymbols::dsyms::{DSym, PartialDSym, SimpleDSym};
use rust_dsymbols::fpgroups::free_words::FreeWord;
use rust_dsymbols::fundamental_group::{fundamental_group, inner_edges};
use rust_dsymbols::simplify::{simplify, verif_hooks as hk};
use rust_dsymbols::util::cutsets::min_vertex_cut_undirected;
use std::panic::{catch_unwind, AssertUnwindSafe};
use verif_harness::dsgen::{all_vs, dsets, random_perm1, random_vs, Tab};
use verif_harness::{enc_list, Ctx, Rng};

const SLOTS: usize = 320;
/// size of the id blocks of the cut-network family (6)
const SLOTS_CUT: usize = 1200;
/// `split_and_glue` is compared with the model (all admissible choices of `start` tried) up to this
/// size; above it the step is judged by the Spec clauses only (op `split_and_glue_s`)
const SG_LIMIT: usize = 100;

fn sg_op(name: &'static str, ds: &PartialDSet) -> &'static str {
    if name == "split_and_glue" && ds.size() > SG_LIMIT { "split_and_glue_s" } else { name }
}

// ---------------------------------------------------------------------------------
// encoders

fn enc_ds<T: DSet>(ds: &T) -> String {
    let mut s = format!("{} {}", ds.size(), ds.dim());
    for d in 1..=ds.size() {
        for i in 0..=ds.dim() {
            s.push(' ');
            s.push_str(&ds.op(i, d).unwrap_or(0).to_string());
        }
    }
    s
}

fn enc_oo(o: Option<Option<PartialDSet>>) -> String {
    match o {
        None => "N".into(),
        Some(None) => "E".into(),
        Some(Some(ds)) => format!("D {}", enc_ds(&ds)),
    }
}

fn enc_o(o: Option<PartialDSet>) -> String {
    match o {
        None => "N".into(),
        Some(ds) => format!("D {}", enc_ds(&ds)),
    }
}

fn enc_pairs(ps: &[(usize, usize)]) -> String {
    let mut s = ps.len().to_string();
    for &(a, b) in ps {
        s.push_str(&format!(" {} {}", a, b));
    }
    s
}

fn enc_sym_out(o: Option<PartialDSym>) -> String {
    match o {
        None => "N".into(),
        Some(ds) => format!("D {}", Tab::from_dsym(&ds).enc()),
    }
}

fn tab_to_ds(t: &Tab) -> PartialDSet {
    t.to_partial_dset()
}

// ---------------------------------------------------------------------------------
// the domain of the property, decided on plain tables (independent of the library)

/// every component of the D-set restricted to the three consecutive indices `a, a+1, a+2` is a
/// sphere: no fixed points, and #(a,a+1)-orbits - #(a,a+2)-orbits + #(a+1,a+2)-orbits = 2
fn components_are_spheres(t: &Tab, a: usize) -> bool {
    let n = t.size;
    let idx = [a, a + 1, a + 2];
    let mut comp = vec![0usize; n + 1];
    let mut ncomp = 0;
    for d in 1..=n {
        if comp[d] != 0 {
            continue;
        }
        ncomp += 1;
        comp[d] = ncomp;
        let mut stack = vec![d];
        while let Some(e) = stack.pop() {
            for &i in &idx {
                let f = t.op[i][e];
                if f == 0 || f == e {
                    return false;
                }
                if comp[f] == 0 {
                    comp[f] = ncomp;
                    stack.push(f);
                }
            }
        }
    }
    let mut chi = vec![0i64; ncomp + 1];
    for (i, j, sign) in [(a, a + 1, 1i64), (a, a + 2, -1), (a + 1, a + 2, 1)] {
        let mut seen = vec![false; n + 1];
        for d in 1..=n {
            if !seen[d] {
                for e in t.orbit2(i, j, d) {
                    seen[e] = true;
                }
                chi[comp[d]] += sign;
            }
        }
    }
    (1..=ncomp).all(|c| chi[c] == 2)
}

/// far operations differ everywhere (r_02 = r_03 = r_13 = 2: no hidden branching number 2)
fn far_differ(t: &Tab) -> bool {
    (0..=t.dim).all(|i| ((i + 2)..=t.dim).all(|j| (1..=t.size).all(|d| t.op[i][d] != t.op[j][d])))
}

fn in_domain(t: &Tab) -> bool {
    t.dim == 3
        && t.is_complete_set()
        && t.far_commute()
        && far_differ(t)
        && components_are_spheres(t, 0)
        && components_are_spheres(t, 1)
}

// ---------------------------------------------------------------------------------
// pending cases and id blocks

struct Pending {
    op: &'static str,
    tags: String,
    input: String,
    run: Box<dyn FnOnce() -> String>,
}

fn pend<F: FnOnce() -> String + 'static>(out: &mut Vec<Pending>, op: &'static str, tags: &str, input: String, f: F) {
    out.push(Pending { op, tags: tags.to_string(), input, run: Box::new(f) });
}

struct Blocks {
    next_block: u64,
    /// id of the first case of the next block
    next_id: u64,
}

impl Blocks {
    /// the block of the next candidate input; `build` runs only in the owning shard
    fn run<F: FnOnce() -> Vec<Pending>>(&mut self, ctx: &mut Ctx, build: F) {
        self.run_n(ctx, SLOTS, build)
    }

    /// a block of `slots * nshards` ids.  Blocks of the default size come first (families 1-5),
    /// so `first_id` of a default block is `k * SLOTS * nshards` as before; the larger blocks of
    /// family (6) follow them.
    fn run_n<F: FnOnce() -> Vec<Pending>>(&mut self, ctx: &mut Ctx, slots: usize, build: F) {
        let stride = ctx.nshards as u64;
        let span = slots as u64 * stride;
        let k = self.next_block;
        self.next_block += 1;
        let first = self.next_id;
        self.next_id += span;
        let (mine, off) = match ctx.only {
            Some(o) => (o >= first && o < first + span, o % stride),
            None => (k % stride == ctx.shard as u64, ctx.shard as u64),
        };
        if !mine {
            for _ in 0..span {
                ctx.skip();
            }
            return;
        }
        let mut all = build();
        if all.len() > slots {
            // keep the head (simplify cases) and an evenly spaced selection of the rest
            let head = 16.min(all.len());
            let rest: Vec<Pending> = all.split_off(head);
            let want = slots - head;
            let total = rest.len();
            for (k, p) in rest.into_iter().enumerate() {
                if (k * want) / total != ((k + 1) * want) / total {
                    all.push(p);
                }
            }
        }
        let mut pending = all.into_iter();
        for j in 0..span {
            if j % stride == off {
                if let Some(p) = pending.next() {
                    let Pending { op, tags, input, run } = p;
                    ctx.case(op, &tags, move || input, run);
                    continue;
                }
            }
            ctx.skip();
        }
    }
}

fn pre<T, F: FnOnce() -> T>(f: F) -> Option<T> {
    catch_unwind(AssertUnwindSafe(f)).ok()
}

fn size_tag(n: usize) -> &'static str {
    match n {
        0..=24 => "size<=24",
        25..=48 => "size<=48",
        49..=96 => "size<=96",
        97..=192 => "size<=192",
        193..=384 => "size<=384",
        _ => "size>384",
    }
}

// ---------------------------------------------------------------------------------
// hook cases

type OO = Option<Option<PartialDSet>>;

fn case_oo(out: &mut Vec<Pending>, op: &'static str, src: &str, ds: &PartialDSet, extra: String, nt: bool, f: fn(&PartialDSet) -> OO) {
    let tags = format!("{}src={} {}", if nt { "nt " } else { "" }, src, size_tag(ds.size()));
    let d = ds.clone();
    let input = if extra.is_empty() { enc_ds(ds) } else { format!("{} {}", enc_ds(ds), extra) };
    pend(out, op, &tags, input, move || enc_oo(f(&d)));
}

fn case_collapse(out: &mut Vec<Pending>, src: &str, ds: &PartialDSet, remove: Vec<usize>, connector: usize) {
    let tags = format!("nt src={} {}", src, size_tag(ds.size()));
    let d = ds.clone();
    let input = format!("{} {} {}", enc_ds(ds), enc_list(&remove), connector);
    pend(out, "collapse", &tags, input, move || enc_oo(hk::collapse(&d, remove, connector)));
}

fn case_reglue(out: &mut Vec<Pending>, src: &str, ds: &PartialDSet, pairs: Vec<(usize, usize)>, index: usize) {
    let tags = format!("nt src={} {}", src, size_tag(ds.size()));
    let d = ds.clone();
    let input = format!("{} {} {}", enc_ds(ds), enc_pairs(&pairs), index);
    pend(out, "reglue", &tags, input, move || enc_o(hk::reglue(&d, pairs, index)));
}

fn case_grow(out: &mut Vec<Pending>, src: &str, ds: &PartialDSet, m: usize) {
    let tags = format!("nt src={} {}", src, size_tag(ds.size()));
    let d = ds.clone();
    pend(out, "grow", &tags, format!("{} {}", enc_ds(ds), m), move || format!("D {}", enc_ds(&hk::grow(&d, m))));
}

fn case_cut_face(out: &mut Vec<Pending>, src: &str, ds: &PartialDSet, d1: usize, d2: usize) {
    let tags = format!("nt src={} {}", src, size_tag(ds.size()));
    let d = ds.clone();
    pend(out, "cut_face", &tags, format!("{} {} {}", enc_ds(ds), d1, d2), move || format!("D {}", enc_ds(&hk::cut_face(&d, d1, d2))));
}

fn case_cut_tile(out: &mut Vec<Pending>, src: &str, ds: &PartialDSet, cut: Vec<usize>) {
    let tags = format!("nt src={} {}", src, size_tag(ds.size()));
    let d = ds.clone();
    pend(out, "cut_tile", &tags, format!("{} {}", enc_ds(ds), enc_list(&cut)), move || format!("D {}", enc_ds(&hk::cut_tile(&d, &cut))));
}

fn case_squeeze(out: &mut Vec<Pending>, src: &str, ds: &PartialDSet, d1: usize, e1: usize) {
    let tags = format!("nt src={} {}", src, size_tag(ds.size()));
    let d = ds.clone();
    pend(out, "squeeze", &tags, format!("{} {} {}", enc_ds(ds), d1, e1), move || format!("D {}", enc_ds(&hk::squeeze_tile_3d(&d, d1, e1))));
}

fn case_skeleton(out: &mut Vec<Pending>, src: &str, ds: &PartialDSet) {
    let tags = format!("nt src={} {}", src, size_tag(ds.size()));
    let d = ds.clone();
    pend(out, "skeleton", &tags, enc_ds(ds), move || {
        let (e2i, reps, edges) = hk::make_skeleton(&d);
        format!("{} {} {}", enc_list(&e2i), enc_list(&reps), enc_pairs(&edges))
    });
}

/// `r(ds, i, j, d)` of simplify.rs on a complete set
fn rr(ds: &PartialDSet, i: usize, j: usize, d: usize) -> usize {
    ds.r(i, j, d).unwrap_or(0)
}

fn o(ds: &PartialDSet, i: usize, d: usize) -> usize {
    ds.op(i, d).unwrap()
}

/// the junk list `merge_tiles` hands to `collapse`
fn tiles_junk(ds: &PartialDSet) -> (Vec<(usize, usize)>, Vec<usize>) {
    let inner = inner_edges(&as_dsym(ds));
    let junk = inner.iter().cloned().filter(|&(_, i)| i == 3).flat_map(|(d, _)| ds.orbit([3], d)).collect();
    (inner, junk)
}

/// the junk list `merge_facets` hands to `collapse`
fn facets_junk(ds: &PartialDSet) -> Vec<usize> {
    ds.orbit_reps([2, 3], 1..ds.size()).into_iter().filter(|&d| rr(ds, 2, 3, d) == 2).flat_map(|d| ds.orbit([2, 3], d)).collect()
}

fn dual_ds(ds: &PartialDSet) -> PartialDSet {
    let n = ds.dim();
    build_set(ds.size(), n, |i, d| ds.op(n - i, d))
}

/// `merge_all` with every inner call as its own case; returns the new state (None = empty)
fn step_merge_all(out: &mut Vec<Pending>, src: &str, ds: &PartialDSet, detail: bool, full_limit: usize) -> Option<Option<PartialDSet>> {
    case_oo(out, if ds.size() <= full_limit { "merge_all" } else { "merge_all_s" }, src, ds, String::new(), true, hk::merge_all);
    if detail {
        let mut cur = ds.clone();
        for k in 0..6 {
            match k % 3 {
                0 => {
                    if let Some((inner, junk)) = pre(|| tiles_junk(&cur)) {
                        let nt = !junk.is_empty();
                        if cur.size() <= full_limit {
                            case_oo(out, "merge_tiles", src, &cur, String::new(), nt, hk::merge_tiles);
                        }
                        case_oo(out, "merge_tiles_g", src, &cur, enc_pairs(&inner), nt, hk::merge_tiles);
                        if nt {
                            case_collapse(out, src, &cur, junk, 3);
                        }
                    }
                    match pre(|| hk::merge_tiles(&cur)) {
                        Some(Some(Some(n))) => cur = n,
                        Some(Some(None)) => break,
                        Some(None) => {}
                        None => break,
                    }
                }
                1 => {
                    if let Some(junk) = pre(|| facets_junk(&cur)) {
                        let nt = !junk.is_empty();
                        case_oo(out, "merge_facets", src, &cur, String::new(), nt, hk::merge_facets);
                        if nt {
                            case_collapse(out, src, &cur, junk, 2);
                        }
                    }
                    match pre(|| hk::merge_facets(&cur)) {
                        Some(Some(Some(n))) => cur = n,
                        Some(Some(None)) => break,
                        Some(None) => {}
                        None => break,
                    }
                }
                _ => match pre(|| dual_ds(&cur)) {
                    Some(n) => cur = n,
                    None => break,
                },
            }
        }
    }
    match pre(|| hk::merge_all(ds)) {
        Some(Some(x)) => Some(x),
        Some(None) => Some(Some(ds.clone())),
        None => None,
    }
}


/// are the eight chambers a local move re-glues pairwise distinct?  (the hypothesis of the invariant
/// theorems squeeze_/fix_local_*_/fix_non_disk_face_preserves_axioms; recorded as a tag of the
/// pipeline case so that the evidence shows how many moves the theorems cover)
fn tag_general_position(out: &mut Vec<Pending>, chambers: &[usize]) {
    let mut v = chambers.to_vec();
    v.sort();
    v.dedup();
    let tag = if v.len() == chambers.len() { " move=general-position" } else { " move=degenerate" };
    if let Some(p) = out.last_mut() {
        p.tags.push_str(tag);
    }
}

/// argument values of the inner calls of `fix_local_1_vertex`
fn detail_fix1(out: &mut Vec<Pending>, src: &str, ds: &PartialDSet) {
    let _ = pre(|| {
        for c in ds.orbit_reps([1, 2], 1..ds.size()) {
            if ds.op(1, c) == ds.op(2, c) {
                let d = o(ds, 0, o(ds, 1, c));
                let e = o(ds, 1, o(ds, 0, c));
                let f = o(ds, 3, d);
                let g = o(ds, 3, e);
                let pairs = vec![(d, o(ds, 1, e)), (e, o(ds, 1, d)), (f, o(ds, 1, g)), (g, o(ds, 1, f))];
                case_reglue(out, src, ds, pairs.clone(), 1);
                tag_general_position(out, &[d, o(ds, 1, e), e, o(ds, 1, d), f, o(ds, 1, g), g, o(ds, 1, f)]);
                if let Some(tmp) = hk::reglue(ds, pairs, 1) {
                    let orb = tmp.orbit([0, 1, 3], c);
                    case_collapse(out, src, &tmp, orb, 3);
                }
                return;
            }
        }
    });
}

/// argument values of the inner calls of `fix_local_2_vertex`
fn detail_fix2(out: &mut Vec<Pending>, src: &str, ds0: &PartialDSet) {
    let mut local: Vec<Pending> = vec![];
    let ok = pre(|| {
        for d in ds0.orbit_reps([1, 2], 1..ds0.size()) {
            if rr(ds0, 1, 2, d) == 2 {
                let e = o(ds0, 3, o(ds0, 2, d));
                if d == e || d == o(ds0, 1, o(ds0, 0, e)) || d == o(ds0, 0, o(ds0, 1, e)) {
                    continue;
                }
                let mut ds = ds0.clone();
                let e = o(&ds, 2, o(&ds, 1, d));
                for x in [d, e] {
                    if rr(&ds, 0, 1, x) > 3 {
                        let (a, b) = (o(&ds, 0, x), o(&ds, 0, o(&ds, 1, x)));
                        case_cut_face(&mut local, src, &ds, a, b);
                        ds = hk::cut_face(&ds, a, b);
                    }
                }
                let (a, b) = (o(&ds, 1, o(&ds, 0, d)), o(&ds, 1, o(&ds, 0, e)));
                case_squeeze(&mut local, src, &ds, a, b);
                tag_general_position(
                    &mut local,
                    &[o(&ds, 0, b), a, o(&ds, 0, a), b, o(&ds, 2, o(&ds, 0, b)), o(&ds, 2, a), o(&ds, 2, o(&ds, 0, a)), o(&ds, 2, b)],
                );
                ds = hk::squeeze_tile_3d(&ds, a, b);
                let orb = ds.orbit([0, 1, 3], d);
                case_collapse(&mut local, src, &ds, orb, 3);
                return;
            }
        }
    });
    let _ = ok;
    out.append(&mut local);
}

/// argument values of the inner call of `fix_non_disk_face`
fn detail_fnd(out: &mut Vec<Pending>, src: &str, ds: &PartialDSet, res: &PartialDSet) {
    // the four pairs are read off the result: the chambers whose 1-neighbour changed
    let mut pairs = vec![];
    for d in 1..=ds.size() {
        let e = o(res, 1, d);
        if o(ds, 1, d) != e && d <= e {
            pairs.push((d, e));
        }
    }
    let flat: Vec<usize> = pairs.iter().flat_map(|&(a, b)| [a, b]).collect();
    let full = pairs.len() == 4;
    case_reglue(out, src, ds, pairs, 1);
    if full {
        tag_general_position(out, &flat);
    } else if let Some(p) = out.last_mut() {
        p.tags.push_str(" move=degenerate");
    }
}

/// seeded direct calls on a complete D-set
fn seeded(out: &mut Vec<Pending>, src: &str, ds: &PartialDSet, rng: &mut Rng, rounds: usize) {
    let n = ds.size();
    if n < 2 {
        return;
    }
    let pick = |rng: &mut Rng| 1 + rng.below(n);
    case_skeleton(out, src, ds);
    for round in 0..rounds {
        case_grow(out, src, ds, [0usize, 1, 2, 8][rng.below(4)]);
        // reglue: a matching on a union of index-orbits (valid), sometimes perturbed
        {
            let index = rng.below(4);
            let mut members: Vec<usize> = vec![];
            for _ in 0..(1 + rng.below(3)) {
                let d = pick(rng);
                for e in [d, o(ds, index, d)] {
                    if !members.contains(&e) {
                        members.push(e);
                    }
                }
            }
            rng.shuffle(&mut members);
            let mut pairs = vec![];
            let mut k = 0;
            while k < members.len() {
                if k + 1 < members.len() && rng.chance(5, 6) {
                    pairs.push((members[k], members[k + 1]));
                    k += 2;
                } else {
                    pairs.push((members[k], members[k]));
                    k += 1;
                }
            }
            if rng.chance(1, 4) && !pairs.is_empty() {
                let p = pairs[0];
                pairs.push(if rng.chance(1, 2) { p } else { (p.1, p.0) });
            }
            case_reglue(out, src, ds, pairs, index);
            // arbitrary pairs: the assertions of `set` may fire
            let bad: Vec<(usize, usize)> = (0..(1 + rng.below(2))).map(|_| (pick(rng), pick(rng))).collect();
            case_reglue(out, src, ds, bad, rng.below(5));
            if round == 0 {
                case_reglue(out, src, ds, vec![], 1);
            }
        }
        // collapse: (2,3)-orbits of length 2 (connector 2), inner tile walls (connector 3), arbitrary sets
        {
            let d = pick(rng);
            if rr(ds, 2, 3, d) == 2 {
                case_collapse(out, src, ds, ds.orbit([2, 3], d), 2);
            }
            let d = pick(rng);
            let rem = ds.orbit([3], d);
            if collapse_terminates(ds, &rem, 3) {
                case_collapse(out, src, ds, rem, 3);
            }
            let k = 1 + rng.below(3);
            let mut rem: Vec<usize> = (0..k).map(|_| pick(rng)).collect();
            if rng.chance(1, 3) {
                rem.push(rem[0]);
            }
            let c = rng.below(4);
            if collapse_terminates(ds, &rem, c) {
                case_collapse(out, src, ds, rem, c);
            }
            // a random set closed under the connector: the inner while loops walk several steps
            {
                let c = rng.below(4);
                let mut rem: Vec<usize> = vec![];
                for _ in 0..(1 + rng.below(6)) {
                    let d = pick(rng);
                    rem.push(d);
                    rem.push(o(ds, c, d));
                }
                let distinct: std::collections::BTreeSet<usize> = rem.iter().cloned().collect();
                if distinct.len() < n && collapse_terminates(ds, &rem, c) {
                    let tags = format!("nt closed-under-connector src={} {}", src, size_tag(ds.size()));
                    let d = ds.clone();
                    let input = format!("{} {} {}", enc_ds(ds), enc_list(&rem), c);
                    pend(out, "collapse", &tags, input, move || enc_oo(hk::collapse(&d, rem, c)));
                }
            }
            if round == 0 {
                case_collapse(out, src, ds, vec![], 3);
                case_collapse(out, src, ds, (1..=n).collect(), 3);
            }
        }
        // cut_face: two chambers of one face / arbitrary
        {
            let d = pick(rng);
            let len = rr(ds, 0, 1, d).max(1);
            let mut e = d;
            for _ in 0..(1 + rng.below(len)) {
                e = o(ds, 0, o(ds, 1, e));
            }
            case_cut_face(out, src, ds, d, e);
            case_cut_face(out, src, ds, pick(rng), pick(rng));
        }
        // cut_tile: distinct chambers, no two 2-neighbours (valid); sometimes odd / repeated / empty
        {
            let m = 2 * (1 + rng.below(3));
            let mut cut: Vec<usize> = vec![];
            let mut guard = 0;
            while cut.len() < m && guard < 200 {
                guard += 1;
                let d = pick(rng);
                if !cut.contains(&d) && !cut.contains(&o(ds, 2, d)) && o(ds, 2, d) != d {
                    cut.push(d);
                }
            }
            if cut.len() == m {
                case_cut_tile(out, src, ds, cut.clone());
            }
            match rng.below(6) {
                0 => {
                    cut.pop();
                    case_cut_tile(out, src, ds, cut);
                }
                1 => {
                    if !cut.is_empty() {
                        cut[0] = cut[cut.len() - 1];
                    }
                    case_cut_tile(out, src, ds, cut);
                }
                2 => case_cut_tile(out, src, ds, vec![]),
                _ => {}
            }
        }
        // squeeze_tile_3d
        case_squeeze(out, src, ds, pick(rng), pick(rng));
    }
}

/// does every `while src2img[e] == 0` loop of `collapse` terminate on these arguments?
fn collapse_terminates(ds: &PartialDSet, remove: &[usize], connector: usize) -> bool {
    let n = ds.size();
    let mut rem = vec![false; n + 1];
    let mut cnt = 0;
    for &d in remove {
        if d >= 1 && d <= n && !rem[d] {
            rem[d] = true;
            cnt += 1;
        }
    }
    if cnt == 0 || cnt >= n {
        return true;
    }
    for i in 0..=ds.dim() {
        if i == connector {
            continue;
        }
        for d in 1..=n {
            if rem[d] {
                continue;
            }
            let mut e = match ds.op(i, d) {
                Some(e) => e,
                None => return true,
            };
            let mut steps = 0;
            while rem[e] {
                e = match ds.op(connector, e).and_then(|c| ds.op(i, c)) {
                    Some(e) => e,
                    None => return true,
                };
                steps += 1;
                if steps > n + 1 {
                    return false;
                }
            }
        }
    }
    true
}

/// every hooked move called directly on one D-set (not only on the states `simplify` reaches)
fn direct(out: &mut Vec<Pending>, src: &str, ds: &PartialDSet, full_limit: usize) {
    let ops: [(&'static str, fn(&PartialDSet) -> OO); 4] = [
        ("fix1", hk::fix_local_1_vertex),
        ("fix2", hk::fix_local_2_vertex),
        ("fnd", hk::fix_non_disk_face),
        ("split_and_glue", hk::split_and_glue),
    ];
    for (name, f) in ops {
        let res = pre(|| f(ds));
        let nt = matches!(res, Some(Some(_)));
        case_oo(out, sg_op(name, ds), src, ds, String::new(), nt, f);
        if let Some(Some(Some(next))) = res {
            match name {
                "fix1" => detail_fix1(out, src, ds),
                "fix2" => detail_fix2(out, src, ds),
                "fnd" => detail_fnd(out, src, ds, &next),
                _ => {}
            }
        }
    }
    if let Some((inner, junk)) = pre(|| tiles_junk(ds)) {
        if ds.size() <= full_limit {
            case_oo(out, "merge_tiles", src, ds, String::new(), !junk.is_empty(), hk::merge_tiles);
        }
        case_oo(out, "merge_tiles_g", src, ds, enc_pairs(&inner), !junk.is_empty(), hk::merge_tiles);
    }
    case_oo(out, "merge_facets", src, ds, String::new(), true, hk::merge_facets);
    case_skeleton(out, src, ds);
}

/// replay of `simplify()` with the hooks; every call is a case
fn replay(out: &mut Vec<Pending>, src: &str, ds0: &PartialDSet, rng: &mut Rng, full_limit: usize, max_steps: usize) {
    let mut detail_budget = 3usize;
    let mut state = match step_merge_all(out, src, ds0, true, full_limit) {
        Some(Some(ds)) => ds,
        _ => return,
    };
    let mut seeded_done = 0;
    for _step in 0..max_steps {
        let mut changed = false;
        let ops: [(&'static str, fn(&PartialDSet) -> OO); 4] = [
            ("fix1", hk::fix_local_1_vertex),
            ("fix2", hk::fix_local_2_vertex),
            ("fnd", hk::fix_non_disk_face),
            ("split_and_glue", hk::split_and_glue),
        ];
        for (name, f) in ops {
            let res = pre(|| f(&state));
            let nt = matches!(res, Some(Some(_)));
            case_oo(out, sg_op(name, &state), src, &state, String::new(), nt, f);
            match res {
                None => return,
                Some(None) => continue,
                Some(Some(None)) => return,
                Some(Some(Some(next))) => {
                    match name {
                        "fix1" => detail_fix1(out, src, &state),
                        "fix2" => detail_fix2(out, src, &state),
                        "fnd" => detail_fnd(out, src, &state, &next),
                        _ => {}
                    }
                    if seeded_done < 2 && rng.chance(1, 3) {
                        seeded(out, src, &next, rng, 1);
                        seeded_done += 1;
                    }
                    let detail = detail_budget > 0;
                    if detail {
                        detail_budget -= 1;
                    }
                    state = match step_merge_all(out, src, &next, detail, full_limit) {
                        Some(Some(ds)) => ds,
                        _ => return,
                    };
                    changed = true;
                    break;
                }
            }
        }
        if !changed {
            break;
        }
    }
    seeded(out, src, &state, rng, 1);
}

// ---------------------------------------------------------------------------------
// the cut network of split_and_glue: network_edges, cut_with_insides, network_cut,
// cut_pairs_in_order, make_key, split_and_glue_attempt — each through its own hook

/// what `network_cut(ds, d, mode)` computes before it picks `start` (re-computed here with the
/// hooks and the public `min_vertex_cut_undirected`), and the chambers `find` can return
struct CutData {
    e2i: Vec<usize>,
    reps: Vec<usize>,
    edges: Vec<(usize, usize)>,
    source: usize,
    sink: usize,
    cut_vertices: Vec<usize>,
    inside_vertices: Vec<usize>,
    marked: Vec<usize>,
    special: Vec<usize>,
    starts: Vec<usize>,
}

fn cut_data(ds: &PartialDSet, d: usize, mode: bool) -> CutData {
    let (e2i, reps, edges) = hk::make_skeleton(ds);
    let source = e2i.iter().cloned().max().unwrap_or(0) + 1;
    let sink = source + 1;
    let net = hk::network_edges(ds, d, mode, e2i.clone(), edges.clone(), source, sink);
    let raw = min_vertex_cut_undirected(net, source, sink);
    let ins = hk::cut_with_insides(raw.cut_vertices.clone(), raw.inside_vertices.clone(), reps.clone(), ds, d);
    let marked: std::collections::BTreeSet<usize> = ins.iter().flat_map(|&e| ds.orbit([1, 2], e)).collect();
    let special: Vec<usize> = ds.orbit([0, 1], ds.op(3, d).unwrap());
    let starts: Vec<usize> = marked.iter().cloned().filter(|&e| matches!(ds.op(0, e), Some(f) if !marked.contains(&f))).collect();
    CutData {
        e2i,
        reps,
        edges,
        source,
        sink,
        cut_vertices: raw.cut_vertices,
        inside_vertices: raw.inside_vertices,
        marked: marked.into_iter().collect(),
        special,
        starts,
    }
}

enum Sim {
    Done(Vec<(usize, usize)>),
    Panics,
    Diverges,
}

/// bounded re-run of `cut_pairs_in_order`: only used to keep arguments on which the Rust loops do
/// not terminate away from the hook (and to count the classes of results)
fn sim_cut_pairs(ds: &PartialDSet, start: usize, marked: &[usize], special: &[usize]) -> Sim {
    let n = ds.size();
    let mut mk = vec![false; n + 2];
    let mut sp = vec![false; n + 2];
    for &x in marked {
        if x <= n {
            mk[x] = true;
        }
    }
    for &x in special {
        if x <= n {
            sp[x] = true;
        }
    }
    macro_rules! op {
        ($i:expr, $d:expr) => {
            match ds.op($i, $d) {
                Some(x) => x,
                None => return Sim::Panics,
            }
        };
    }
    let mut result = vec![];
    let mut d = start;
    let mut rounds = 0usize;
    while result.len() < n + 1 {
        rounds += 1;
        if rounds > (n + 2) * (n + 2) {
            return Sim::Diverges;
        }
        let mut e = op!(1, d);
        let mut hops = 0;
        while mk[op!(0, e)] {
            e = op!(1, op!(0, e));
            hops += 1;
            if hops > n + 1 {
                return Sim::Diverges;
            }
        }
        if sp[d] {
            let mut dd = d;
            let mut hops = 0;
            while ds.op(1, dd) != Some(e) {
                result.push((dd, op!(1, op!(0, op!(1, dd)))));
                dd = op!(0, op!(1, dd));
                hops += 1;
                if hops > n + 1 {
                    return Sim::Diverges;
                }
            }
        } else if ds.op(1, d) != Some(e) {
            result.push((d, e));
        }
        d = op!(2, e);
        if d == start {
            break;
        }
    }
    Sim::Done(result)
}

fn is_rotation(a: &[(usize, usize)], b: &[(usize, usize)]) -> bool {
    if a.len() != b.len() {
        return false;
    }
    a.is_empty() || (0..a.len()).any(|k| (0..a.len()).all(|i| a[(i + k) % a.len()] == b[i]))
}

fn mirror(a: &[(usize, usize)]) -> Vec<(usize, usize)> {
    a.iter().rev().map(|&(x, y)| (y, x)).collect()
}

/// does `split_and_glue_attempt` terminate on these arguments (its only unbounded loops are the
/// inner loops of the final `collapse`)?
fn attempt_terminates(ds: &PartialDSet, glue: usize, ordered: &[(usize, usize)]) -> bool {
    let r = pre(|| {
        let mut cur = rust_dsymbols::derived::as_dset(ds);
        let mut cut = vec![];
        for &(d, e) in ordered {
            if cur.walk(d, [1, 0, 1]) != Some(e) {
                if cur.orbit([0, 1], d).contains(&e) {
                    cur = hk::cut_face(&cur, d, e);
                } else {
                    return None;
                }
            }
            cut.push(cur.op(1, d).unwrap());
            cut.push(cur.op(1, e).unwrap());
        }
        let cur = hk::cut_tile(&cur, &cut);
        let junk = cur.orbit([0, 1, 3], glue);
        Some((cur, junk))
    });
    match r {
        Some(Some((cur, junk))) => collapse_terminates(&cur, &junk, 3),
        _ => true,
    }
}

fn case_make_key(out: &mut Vec<Pending>, tags: &str, ds: &PartialDSet, d: usize, ordered: &[(usize, usize)]) {
    let dd = ds.clone();
    let ord = ordered.to_vec();
    pend(out, "make_key", &format!("nt {}", tags), format!("{} {} {}", enc_ds(ds), d, enc_pairs(ordered)), move || {
        let k = hk::make_key(&dd, d, &ord);
        format!("{} {} {}", k.0, k.1, k.2)
    });
}

fn case_attempt(out: &mut Vec<Pending>, tags: &str, ds: &PartialDSet, glue: usize, ordered: &[(usize, usize)]) {
    if !attempt_terminates(ds, glue, ordered) {
        return;
    }
    let dd = ds.clone();
    let ord = ordered.to_vec();
    let nt = matches!(pre(|| hk::split_and_glue_attempt(ds, glue, ordered.to_vec())), Some(Some(_)));
    pend(out, "sg_attempt", &format!("{}{}", if nt { "nt " } else { "" }, tags), format!("{} {} {}", enc_ds(ds), glue, enc_pairs(ordered)), move || {
        enc_oo(hk::split_and_glue_attempt(&dd, glue, ord))
    });
}

fn case_cut_pairs(out: &mut Vec<Pending>, tags: &str, ds: &PartialDSet, start: usize, marked: &[usize], special: &[usize]) {
    if matches!(sim_cut_pairs(ds, start, marked, special), Sim::Diverges) {
        return;
    }
    let dd = ds.clone();
    let (mk, sp) = (marked.to_vec(), special.to_vec());
    pend(out, "cut_pairs", &format!("nt {}", tags), format!("{} {} {} {}", enc_ds(ds), start, enc_list(marked), enc_list(special)), move || {
        enc_pairs(&hk::cut_pairs_in_order(&dd, start, mk, sp))
    });
}

fn case_net_edges(out: &mut Vec<Pending>, tags: &str, ds: &PartialDSet, d: usize, mode: bool, e2i: &[usize], edges: &[(usize, usize)], source: usize, sink: usize) {
    let dd = ds.clone();
    let (a, b) = (e2i.to_vec(), edges.to_vec());
    let input = format!("{} {} {} {} {} {} {}", enc_ds(ds), d, mode as usize, enc_list(e2i), enc_pairs(edges), source, sink);
    pend(out, "net_edges", &format!("nt {}", tags), input, move || {
        let k = b.len();
        let mut net = hk::network_edges(&dd, d, mode, a, b, source, sink);
        // the two stars come out of HashSets: canonical order after the deterministic prefix
        if net.len() > k {
            net[k..].sort();
        }
        enc_pairs(&net)
    });
}

fn case_cut_insides(out: &mut Vec<Pending>, tags: &str, ds: &PartialDSet, d: usize, cutv: &[usize], insv: &[usize], reps: &[usize]) {
    let dd = ds.clone();
    let (a, b, c) = (cutv.to_vec(), insv.to_vec(), reps.to_vec());
    let input = format!("{} {} {} {} {}", enc_list(cutv), enc_list(insv), enc_list(reps), enc_ds(ds), d);
    pend(out, "cut_insides", &format!("nt {}", tags), input, move || enc_list(&hk::cut_with_insides(a, b, c, &dd, d)));
}

fn enc_cut(o: Option<Vec<(usize, usize)>>) -> String {
    match o {
        None => "N".into(),
        Some(v) => format!("S {}", enc_pairs(&v)),
    }
}

/// all cases of one call `network_cut(ds, d, mode)`; returns the distinct results over the
/// admissible starts
fn cut_cases(out: &mut Vec<Pending>, src: &str, ds: &PartialDSet, d: usize, mode: bool, real: bool, rng: &mut Rng, max_starts: usize) -> Vec<Vec<(usize, usize)>> {
    let base = format!("src={} {} mode={} call={}", src, size_tag(ds.size()), if mode { "edge" } else { "face" }, if real { "real" } else { "extra" });
    let Some(cd) = pre(|| cut_data(ds, d, mode)) else {
        // a panic before `start` is picked: the same for every iteration order
        let dd = ds.clone();
        pend(out, "net_cut", &format!("{} outcome=panics-before-start", base), format!("{} {} {}", enc_ds(ds), d, mode as usize), move || enc_cut(hk::network_cut(&dd, d, mode)));
        return vec![];
    };
    case_net_edges(out, &base, ds, d, mode, &cd.e2i, &cd.edges, cd.source, cd.sink);
    case_cut_insides(out, &base, ds, d, &cd.cut_vertices, &cd.inside_vertices, &cd.reps);
    let sims: Vec<Sim> = cd.starts.iter().map(|&s| sim_cut_pairs(ds, s, &cd.marked, &cd.special)).collect();
    if sims.iter().any(|s| matches!(s, Sim::Diverges)) {
        // the real loop would not end for some choice of start: not called
        for (&s, sim) in cd.starts.iter().zip(sims.iter()) {
            if !matches!(sim, Sim::Diverges) {
                case_cut_pairs(out, &base, ds, s, &cd.marked, &cd.special);
            }
        }
        return vec![];
    }
    let mut distinct: Vec<Vec<(usize, usize)>> = vec![];
    let mut classes: Vec<Vec<(usize, usize)>> = vec![];
    let mut curves: Vec<Vec<(usize, usize)>> = vec![];
    for sim in &sims {
        if let Sim::Done(r) = sim {
            if !distinct.contains(r) {
                distinct.push(r.clone());
            }
            if !classes.iter().any(|c| is_rotation(c, r)) {
                classes.push(r.clone());
            }
            if !curves.iter().any(|c| is_rotation(c, r) || is_rotation(&mirror(c), r)) {
                curves.push(r.clone());
            }
        }
    }
    {
        // how much the result depends on the choice of start: `curves` = classes of results up to
        // rotation and reversal (closed curves the walk can follow), `rot` = classes up to rotation
        let tags = format!("{}{} starts={} rot-classes={} curves={}", if cd.starts.is_empty() { "" } else { "nt " }, base, cd.starts.len().min(17), classes.len(), curves.len());
        let dd = ds.clone();
        pend(out, "net_cut", &tags, format!("{} {} {}", enc_ds(ds), d, mode as usize), move || enc_cut(hk::network_cut(&dd, d, mode)));
    }
    let mut starts = cd.starts.clone();
    if starts.len() > max_starts {
        rng.shuffle(&mut starts);
        starts.truncate(max_starts);
    }
    for &s in &starts {
        case_cut_pairs(out, &base, ds, s, &cd.marked, &cd.special);
    }
    distinct
}

/// keys and attempts for the results of one call, as `split_and_glue` would use them
fn key_and_attempt_cases(out: &mut Vec<Pending>, src: &str, ds: &PartialDSet, d: usize, mode: bool, real: bool, results: &[Vec<(usize, usize)>], rng: &mut Rng, max_results: usize) {
    let base = format!("src={} {} mode={} call={}", src, size_tag(ds.size()), if mode { "edge" } else { "face" }, if real { "real" } else { "extra" });
    let mut idx: Vec<usize> = (0..results.len()).collect();
    if idx.len() > max_results {
        rng.shuffle(&mut idx);
        idx.truncate(max_results);
    }
    for k in idx {
        let ordered = &results[k];
        case_make_key(out, &base, ds, d, ordered);
        let wanted = pre(|| hk::make_key(ds, d, ordered)).map(|key| if mode { key.0 == 0 } else { key.0 < 0 }).unwrap_or(false);
        if (real && wanted) || rng.chance(1, 3) {
            let tags = format!("{} attempt={}", base, if real && wanted { "as-in-split-and-glue" } else { "other-key" });
            case_attempt(out, &tags, ds, d, ordered);
        }
    }
}

/// the calls `split_and_glue` makes on this state (`real`), plus `extra` further (chamber, mode)
/// pairs
fn cutnet_state(out: &mut Vec<Pending>, src: &str, ds: &PartialDSet, rng: &mut Rng, extra: usize, max_starts: usize, max_results: usize) {
    let n = ds.size();
    let mut calls: Vec<(usize, bool, bool)> = vec![];
    if let Some(reps) = pre(|| ds.orbit_reps([0, 1, 3], 1..=n)) {
        for d in reps {
            calls.push((d, false, true));
        }
    }
    if let Some(reps) = pre(|| ds.orbit_reps([0], 1..=n)) {
        for d in reps {
            if ds.r(2, 3, d) == Some(3) {
                calls.push((d, true, true));
            }
        }
    }
    let mut others: Vec<(usize, bool, bool)> = vec![];
    for d in 1..=n {
        for mode in [false, true] {
            if !calls.contains(&(d, mode, true)) {
                others.push((d, mode, false));
            }
        }
    }
    rng.shuffle(&mut others);
    others.truncate(extra);
    calls.extend(others);
    for (d, mode, real) in calls {
        let results = cut_cases(out, src, ds, d, mode, real, rng, max_starts);
        key_and_attempt_cases(out, src, ds, d, mode, real, &results, rng, max_results);
    }
}

/// deliberately odd arguments for the six hooks (index panics, unwraps, chambers out of range,
/// arbitrary marked sets and pair lists)
fn cutnet_seeded(out: &mut Vec<Pending>, src: &str, ds: &PartialDSet, rng: &mut Rng, rounds: usize) {
    let n = ds.size();
    if n < 1 {
        return;
    }
    let base = format!("src={} {} call=seeded", src, size_tag(n));
    let pick = |rng: &mut Rng| 1 + rng.below(n);
    let Some((e2i, reps, edges)) = pre(|| hk::make_skeleton(ds)) else { return };
    let source = e2i.iter().cloned().max().unwrap_or(0) + 1;
    for _ in 0..rounds {
        // network_edges: chamber out of range, truncated elm_to_index, arbitrary source / sink
        let d = [0, n + 1, pick(rng), pick(rng)][rng.below(4)];
        let mode = rng.chance(1, 2);
        let mut a = e2i.clone();
        if rng.chance(1, 3) {
            a.truncate(rng.below(a.len() + 1));
        }
        let (so, si) = if rng.chance(1, 2) { (source, source + 1) } else { (rng.below(source + 3), rng.below(source + 3)) };
        case_net_edges(out, &base, ds, d, mode, &a, &edges, so, si);
        // cut_with_insides: vertices beyond `reps`
        let nv = reps.len();
        let cutv: Vec<usize> = (0..rng.below(4))
            .map(|_| {
                let beyond = if rng.chance(1, 4) { 2 } else { 0 };
                rng.below((nv + beyond).max(1))
            })
            .collect();
        let insv: Vec<usize> = (0..rng.below(5)).map(|_| rng.below(nv + 3)).collect();
        case_cut_insides(out, &base, ds, d, &cutv, &insv, &reps);
        // cut_pairs_in_order: arbitrary start, marked = union of a few vertex orbits (or arbitrary chambers)
        let mut marked: Vec<usize> = vec![];
        for _ in 0..(1 + rng.below(4)) {
            let x = pick(rng);
            if rng.chance(3, 4) {
                if let Some(orb) = pre(|| ds.orbit([1, 2], x)) {
                    marked.extend(orb);
                }
            } else {
                marked.push(x);
            }
        }
        let special: Vec<usize> = if rng.chance(1, 2) { pre(|| ds.orbit([0, 1], pick(rng))).unwrap_or_default() } else { vec![pick(rng)] };
        let start = if rng.chance(3, 4) && !marked.is_empty() { marked[rng.below(marked.len())] } else { [0, n + 1, pick(rng)][rng.below(3)] };
        case_cut_pairs(out, &base, ds, start, &marked, &special);
        // make_key / split_and_glue_attempt: arbitrary pairs
        let ordered: Vec<(usize, usize)> = (0..rng.below(4))
            .map(|_| {
                let x = pick(rng);
                let y = match rng.below(4) {
                    0 => ds.walk(x, [1, 0, 1]).unwrap_or(x),
                    1 => ds.walk(x, [1, 0, 1, 0, 1]).unwrap_or(x),
                    2 => pick(rng),
                    _ => [0, n + 1, x][rng.below(3)],
                };
                (x, y)
            })
            .collect();
        let g = [0, n + 1, pick(rng), pick(rng)][rng.below(4)];
        case_make_key(out, &base, ds, g, &ordered);
        case_attempt(out, &base, ds, g, &ordered);
    }
}

/// the states on which `simplify` calls `split_and_glue` when started from `ds0` (the start choices
/// inside are the implementation's own), each with its cut-network cases; the input itself and its
/// merged form come first
fn cutnet_pipeline(out: &mut Vec<Pending>, src: &str, ds0: &PartialDSet, rng: &mut Rng, max_states: usize, extra: usize, max_starts: usize, max_results: usize) {
    cutnet_state(out, &format!("{}-unmerged", src), ds0, rng, extra, max_starts, max_results);
    let mut state = match pre(|| hk::merge_all(ds0)) {
        Some(Some(Some(s))) => s,
        Some(None) => ds0.clone(),
        _ => return,
    };
    let mut visited = 0;
    for _step in 0..60 {
        let mut next: Option<PartialDSet> = None;
        let mut stop = false;
        let ops: [(&'static str, fn(&PartialDSet) -> OO); 4] = [
            ("fix1", hk::fix_local_1_vertex),
            ("fix2", hk::fix_local_2_vertex),
            ("fnd", hk::fix_non_disk_face),
            ("split_and_glue", hk::split_and_glue),
        ];
        for (name, f) in ops {
            if name == "split_and_glue" {
                cutnet_state(out, src, &state, rng, extra, max_starts, max_results);
                if visited == 0 {
                    cutnet_seeded(out, src, &state, rng, 3);
                }
                visited += 1;
                if visited >= max_states {
                    return;
                }
            }
            match pre(|| f(&state)) {
                Some(Some(Some(s))) => {
                    next = Some(s);
                    break;
                }
                Some(None) => {}
                _ => {
                    stop = true;
                    break;
                }
            }
        }
        if stop {
            return;
        }
        match next {
            Some(s) => {
                state = match pre(|| hk::merge_all(&s)) {
                    Some(Some(Some(t))) => t,
                    Some(None) => s,
                    _ => return,
                }
            }
            None => return,
        }
    }
}

// ---------------------------------------------------------------------------------
// simplify cases

/// hyp: 0 = domain only, 1 = finite fundamental group, 2 = pseudo-toroidal cover of a corpus
/// symbol, 3 = pseudo-toroidal cover of another symbol
fn case_simplify(out: &mut Vec<Pending>, src: &str, hyp: usize, t: &Tab) {
    let tags = format!("nt src={} hyp={} {}", src, hyp, size_tag(t.size));
    let ds = tab_to_ds(t);
    pend(out, "simplify", &tags, format!("{} {}", hyp, enc_ds(&ds)), move || enc_sym_out(simplify(&ds)));
}

/// `simplify<T: DSet>` is generic over the trait: the same input held in the other two
/// representations (`SimpleDSet::from(PartialDSet)`, `SimpleDSym::from(PartialDSym)`), judged by the
/// same Spec clauses as `simplify` (ops `simplify_sds`, `simplify_ssym`)
fn case_simplify_simple(out: &mut Vec<Pending>, src: &str, hyp: usize, t: &Tab, as_sym: bool) {
    let tags = format!("nt src={} hyp={} {} repr={}", src, hyp, size_tag(t.size), if as_sym { "SimpleDSym" } else { "SimpleDSet" });
    let ds = tab_to_ds(t);
    let input = format!("{} {}", hyp, enc_ds(&ds));
    if as_sym {
        pend(out, "simplify_ssym", &tags, input, move || enc_sym_out(simplify(&SimpleDSym::from(as_dsym(&ds)))));
    } else {
        pend(out, "simplify_sds", &tags, input, move || enc_sym_out(simplify(&SimpleDSet::from(ds))));
    }
}

/// the same input under several numberings, each simplified `runs` times; every output goes out
/// together with the library's `canonical(minimal_image(_))` of it
fn case_simplify_inv(out: &mut Vec<Pending>, src: &str, tabs: Vec<Tab>, runs: usize) {
    let tags = format!("nt src={} {}", src, size_tag(tabs[0].size));
    let mut input = format!("{} {}", tabs.len(), runs);
    for t in &tabs {
        input.push(' ');
        input.push_str(&enc_ds(&tab_to_ds(t)));
    }
    pend(out, "simplify_inv", &tags, input, move || {
        let mut s = String::new();
        for t in &tabs {
            let ds = tab_to_ds(t);
            for _ in 0..runs {
                match simplify(&ds) {
                    None => s.push_str("N "),
                    Some(res) => {
                        let key = canonical(&minimal_image(&res));
                        s.push_str(&format!("D {} {} ", Tab::from_dsym(&res).enc(), Tab::from_dsym(&key).enc()));
                    }
                }
            }
        }
        s
    });
}

fn renumberings(t: &Tab, rng: &mut Rng, k: usize) -> Vec<Tab> {
    (0..k).map(|_| t.renumbered(&random_perm1(rng, t.size))).collect()
}

/// a finer cell decomposition of the same manifold: faces (or, through the dual, edge figures)
/// are cut by new edges with the `cut_face` hook; every step is kept only if the result is again
/// inside the domain (tables checked here, independently)
fn subdivide(t: &Tab, rng: &mut Rng, steps: usize) -> Option<Tab> {
    let mut cur = t.clone();
    let mut done = 0;
    for _ in 0..(4 * steps) {
        if done == steps {
            break;
        }
        let dualize = rng.chance(1, 2);
        let base = if dualize { cur.dual() } else { cur.clone() };
        let ds = tab_to_ds(&base);
        let d1 = 1 + rng.below(base.size);
        let len = base.r(0, 1, d1);
        let mut d2 = base.op[0][d1];
        for _ in 0..rng.below(len) {
            d2 = base.op[0][base.op[1][d2]];
        }
        let Some(res) = pre(|| hk::cut_face(&ds, d1, d2)) else { continue };
        let mut rt = Tab::from_dset(&res);
        if dualize {
            rt = rt.dual();
        }
        if in_domain(&rt) && rt.is_connected() == cur.is_connected() {
            cur = rt;
            done += 1;
        }
    }
    if done > 0 { Some(cur) } else { None }
}

/// all cases of one manifold input
fn input_cases(out: &mut Vec<Pending>, src: &str, hyp: usize, cov: &Tab, rng: &mut Rng, nren: usize, do_replay: bool, full_limit: usize, max_steps: usize) {
    if !in_domain(cov) {
        return;
    }
    // all Spec cases first: their ids do not depend on the HashSet-order dependent replay below
    case_simplify(out, src, hyp, cov);
    let rens = renumberings(cov, rng, nren);
    for r in &rens {
        case_simplify(out, src, hyp, r);
    }
    // the same manifold with a finer decomposition (outside the quantifier of the property
    // unless the group is finite: only the manifold clauses are asked of it; the point is to
    // drive the rewriting primitives along their other paths for the model comparison)
    let mut subs: Vec<Tab> = vec![];
    if do_replay {
        for _ in 0..2 {
            let steps = 1 + rng.below(4);
            if let Some(sub) = subdivide(cov, rng, steps) {
                if sub.size <= 400 {
                    subs.push(sub);
                }
            }
        }
    }
    let tag = format!("{}-subdivided", src);
    for sub in &subs {
        case_simplify(out, &tag, if hyp == 1 { 1 } else { 0 }, sub);
    }
    // the other two implementations of the DSet trait (after the cases above: their ids stay)
    case_simplify_simple(out, src, hyp, cov, false);
    match rens.first() {
        Some(r) => case_simplify_simple(out, src, hyp, r, true),
        None => case_simplify_simple(out, src, hyp, cov, true),
    }
    if do_replay {
        replay(out, src, &tab_to_ds(cov), rng, full_limit, max_steps);
        for sub in &subs {
            replay(out, &tag, &tab_to_ds(sub), rng, full_limit, max_steps);
        }
    }
}

fn has_spherical_parts(ds: &PartialDSym) -> bool {
    let ok = |idx: [usize; 3]| {
        let mut seen = vec![false; ds.size() + 1];
        for d in 1..=ds.size() {
            if !seen[d] {
                for e in ds.orbit(idx, d) {
                    seen[e] = true;
                }
                if !is_spherical(&subsymbol(ds, idx, d)) {
                    return false;
                }
            }
        }
        true
    };
    ok([0, 1, 2]) && ok([1, 2, 3])
}

fn crystallographic(t: &Tab) -> bool {
    (0..t.dim).all(|i| (1..=t.size).all(|d| t.v[i][d] <= 6 && t.v[i][d] != 5 && t.v[i][d] >= 1))
}

fn main() {
    let mut ctx = Ctx::from_args();
    let thorough = ctx.thorough();
    let mut blocks = Blocks { next_block: 0, next_id: 0 };
    let full_limit = if thorough { 260 } else { 150 };
    let max_steps = if thorough { 60 } else { 40 };
    let nren = if thorough { 5 } else { 2 };

    // (1) the literature corpus: pseudo-toroidal covers, renumberings of the symbol and of the cover
    let corpus: Vec<String> = std::fs::read_to_string("/verif/corpus/euclidean3d.txt")
        .expect("corpus")
        .lines()
        .filter(|l| !l.starts_with('#') && !l.trim().is_empty())
        .map(|l| l.trim().to_string())
        .collect();
    for (k, line) in corpus.iter().enumerate() {
        let mut rng = ctx.rng(1000 + k as u64);
        let line = line.clone();
        blocks.run(&mut ctx, move || {
            let mut out = vec![];
            let sym: PartialDSym = line.parse().expect("corpus symbol");
            let base = Tab::from_dsym(&sym);
            let Some(cov) = pre(|| pseudo_toroidal_cover(&sym)).flatten() else {
                pend(&mut out, "corpus_cover", "nt src=corpus", base.enc(), || "N".to_string());
                return out;
            };
            let cov = Tab::from_dsym(&cov);
            pend(&mut out, "corpus_cover", "nt src=corpus", base.enc(), {
                let c = cov.clone();
                move || format!("D {}", c.enc())
            });
            // invariance: renumber the symbol (cover recomputed) and renumber the cover
            let mut tabs = vec![cov.clone()];
            for r in renumberings(&base, &mut rng, nren) {
                if let Some(c) = pre(|| pseudo_toroidal_cover(&r.to_partial_dsym())).flatten() {
                    tabs.push(Tab::from_dsym(&c));
                }
            }
            tabs.extend(renumberings(&cov, &mut rng, nren));
            case_simplify_inv(&mut out, "corpus", tabs, 3);
            input_cases(&mut out, "corpus", 2, &cov, &mut rng, nren, true, full_limit, max_steps);
            out
        });
    }

    // (2) symbols with finite orbifold group: universal covers and fixed-point-free subgroup covers
    let mut finite: Vec<&str> = vec![
        "<1.1:1 3:1,1,1,1:3,3,3>",
        "<1.1:1 3:1,1,1,1:4,3,3>",
        "<1.1:2 3:2,2,2,2:4,3,3>",
        "<1.1:1 3:1,1,1,1:3,3,4>",
        "<1.1:1 3:1,1,1,1:3,2,3>",
        "<1.1:1 3:1,1,1,1:4,2,4>",
        "<1.1:1 3:1,1,1,1:3,2,5>",
        "<1.1:1 3:1,1,1,1:2,2,2>",
        "<1.1:1 3:1,1,1,1:3,3,2>",
        "<1.1:1 3:1,1,1,1:4,3,2>",
        "<1.1:1 3:1,1,1,1:2,3,4>",
        "<1.1:1 3:1,1,1,1:5,2,5>",
        "<1.1:1 3:1,1,1,1:6,2,4>",
    ];
    if thorough {
        finite.push("<1.1:1 3:1,1,1,1:3,4,3>");
        finite.push("<1.1:1 3:1,1,1,1:5,3,2>");
        finite.push("<1.1:1 3:1,1,1,1:6,2,6>");
    }
    for (k, s) in finite.iter().enumerate() {
        let nsub = if thorough { 40 } else { 12 };
        // block 0: the universal cover; further blocks: one random subgroup each
        for j in 0..=nsub {
            let mut rng = ctx.rng(2000 + 100 * k as u64 + j as u64);
            let s = s.to_string();
            blocks.run(&mut ctx, move || {
                let mut out = vec![];
                let sym: PartialDSym = s.parse().expect("finite symbol");
                if j == 0 {
                    let cov = Tab::from_dsym(&finite_universal_cover(&sym));
                    input_cases(&mut out, "finite-universal", 1, &cov, &mut rng, nren, cov.size <= 400, full_limit, max_steps);
                } else {
                    let fg = fundamental_group(&sym);
                    let ng = fg.nr_generators() as isize;
                    if ng == 0 {
                        return out;
                    }
                    let nw = 1 + rng.below(2);
                    let words: Vec<FreeWord> = (0..nw)
                        .map(|_| {
                            let len = 2 + rng.below(5);
                            FreeWord::new((0..len).map(|_| {
                                let g = 1 + rng.below(ng as usize) as isize;
                                if rng.chance(1, 2) { g } else { -g }
                            }))
                        })
                        .collect();
                    let Some(cov) = pre(|| subgroup_cover(&sym, &words)) else { return out };
                    let cov = Tab::from_dsym(&cov);
                    let branch_free = (0..cov.dim).all(|i| (1..=cov.size).all(|d| cov.v[i][d] == 1));
                    if branch_free && cov.size >= 2 {
                        input_cases(&mut out, "finite-quotient", 1, &cov, &mut rng, nren, true, full_limit, max_steps);
                    }
                }
                out
            });
        }
    }

    // (3) enumerated 3D symbols with spherical tiles and vertex figures that have a pseudo-toroidal cover
    let nmax = if thorough { 4 } else { 3 };
    let vals = [1usize, 2, 3, 4, 6];
    let mut cand = 0u64;
    for n in 1..=nmax {
        for set in dsets(3, n, true, true, false) {
            let norb: usize = (0..3).map(|i| set.orbit_reps2(i).len()).sum();
            let syms: Vec<Tab> = if norb <= 6 && (thorough || n <= 1) {
                all_vs(&set, &vals)
            } else {
                let mut rng = ctx.rng(3000 + cand);
                let k = match (thorough, n) {
                    (false, 2) => 5000,
                    (false, _) => 1200,
                    (true, 3) => 6000,
                    (true, _) => 1500,
                };
                (0..k).map(|_| random_vs(&set, &mut rng, &vals)).collect()
            };
            for t in syms {
                cand += 1;
                if !crystallographic(&t) {
                    continue;
                }
                // cheap necessary condition first: positive curvature sums of both 2D parts
                let pos = |a: usize| {
                    let mut k = 0.0f64;
                    for d in 1..=t.size {
                        let m1 = (t.r(a, a + 1, d) * t.v[a][d]) as f64;
                        let m2 = (t.r(a + 1, a + 2, d) * t.v[a + 1][d]) as f64;
                        k += 1.0 / m1 + 1.0 / m2 - 0.5;
                    }
                    k > 1e-9
                };
                if !(pos(0) && pos(1)) {
                    continue;
                }
                let mut rng = ctx.rng(4000 + cand);
                let do_replay = thorough || cand % 4 == 0;
                blocks.run(&mut ctx, move || {
                    let mut out = vec![];
                    let sym = t.to_partial_dsym();
                    if !pre(|| has_spherical_parts(&sym)).unwrap_or(false) {
                        return out;
                    }
                    let Some(cov) = pre(|| pseudo_toroidal_cover(&sym)).flatten() else { return out };
                    let cov = Tab::from_dsym(&cov);
                    input_cases(&mut out, "universe", 3, &cov, &mut rng, if thorough { 2 } else { 1 }, do_replay, full_limit, max_steps);
                    out
                });
            }
        }
    }

    // (4) crafted: the double of a ball whose boundary sphere is cut by a figure-eight (one vertex,
    // two loops, three faces, the outer one touching the vertex twice: a non-disk face, and two
    // one-edge faces), and finer decompositions of it — S^3, trivial group.  Drives
    // fix_non_disk_face / fix_local_* directly.
    {
        let s0 = [0usize, 3, 4, 1, 2, 7, 8, 5, 6];
        let s1 = [0usize, 3, 8, 1, 6, 7, 4, 5, 2];
        let s2 = [0usize, 2, 1, 4, 3, 6, 5, 8, 7];
        let mut op = vec![vec![0usize; 17]; 4];
        for d in 1..=8 {
            for (i, t) in [&s0, &s1, &s2].iter().enumerate() {
                op[i][d] = t[d];
                op[i][d + 8] = t[d] + 8;
            }
            op[3][d] = d + 8;
            op[3][d + 8] = d;
        }
        let fig8 = Tab { size: 16, dim: 3, op, v: vec![vec![0; 17]; 3] };
        let nvar = if thorough { 200 } else { 32 };
        for j in 0..nvar {
            let mut rng = ctx.rng(5000 + j as u64);
            let fig8 = fig8.clone();
            blocks.run(&mut ctx, move || {
                let mut out = vec![];
                let t = if j == 0 {
                    fig8.clone()
                } else {
                    let steps = 1 + rng.below(5);
                    let Some(t) = subdivide(&fig8, &mut rng, steps) else { return out };
                    if j % 2 == 0 { t.renumbered(&random_perm1(&mut rng, t.size)) } else { t }
                };
                if !in_domain(&t) {
                    return out;
                }
                let ds = tab_to_ds(&t);
                case_simplify(&mut out, "crafted", 1, &t);
                direct(&mut out, "crafted", &ds, full_limit);
                replay(&mut out, "crafted", &ds, &mut rng, full_limit, max_steps);
                out
            });
        }
    }
    // (5) prism family: the one-chamber symbols [p,2,q] (group D_p x D_q of order 4pq acting on
    // S^3) and ALL their manifold covers: a subgroup acts freely iff it is cyclic, generated by
    // (s0 s1)^a (s2 s3)^b with both rotation components of the same order n — lens spaces with
    // fundamental group Z/n.  Each in the natural numbering and 6 (thorough 10) renumberings.
    // The first block is the literal 24-chamber Z/6 cover of [6,2,6] of the seeded-change study.
    {
        let nren_prism = if thorough { 10 } else { 6 };
        {
            let mut rng = ctx.rng(6000);
            blocks.run(&mut ctx, move || {
                let mut out = vec![];
                let cover: PartialDSym = "<1.1:24 3:2 9 7 8 11 14 16 17 19 22 24 23,3 6 8 10 12 13 15 18 20 21 23 24,4 7 8 9 12 13 16 17 20 21 24 23,5 8 10 6 11 14 15 18 19 22 23 24:6 6,2 2 2 2 2 2,6 6>"
                    .parse()
                    .expect("witness cover");
                input_cases(&mut out, "prism-lens", 1, &Tab::from_dsym(&cover), &mut rng, nren_prism, true, full_limit, max_steps);
                out
            });
        }
        fn gcd(a: usize, b: usize) -> usize {
            if b == 0 { a } else { gcd(b, a % b) }
        }
        let mut k = 0u64;
        for p in 2..=6usize {
            for q in 2..=6usize {
                for a in 1..p {
                    for b in 1..q {
                        if p / gcd(a, p) != q / gcd(b, q) {
                            continue;
                        }
                        k += 1;
                        let mut rng = ctx.rng(6000 + k);
                        blocks.run(&mut ctx, move || {
                            let mut out = vec![];
                            let sym: PartialDSym = format!("<1.1:1 3:1,1,1,1:{},2,{}>", p, q).parse().expect("prism symbol");
                            let fg = fundamental_group(&sym);
                            let gen = |i: usize| fg.gen_to_edge.iter().find(|(_, &e)| e == (1, i)).map(|(&g, _)| g as isize);
                            let (Some(g0), Some(g1), Some(g2), Some(g3)) = (gen(0), gen(1), gen(2), gen(3)) else { return out };
                            let mut w: Vec<isize> = vec![];
                            for _ in 0..a {
                                w.push(g0);
                                w.push(g1);
                            }
                            for _ in 0..b {
                                w.push(g2);
                                w.push(g3);
                            }
                            let Some(cov) = pre(|| subgroup_cover(&sym, &vec![FreeWord::new(w)])) else { return out };
                            let cov = Tab::from_dsym(&cov);
                            let branch_free = (0..cov.dim).all(|i| (1..=cov.size).all(|d| cov.v[i][d] == 1));
                            if branch_free {
                                input_cases(&mut out, "prism-lens", 1, &cov, &mut rng, nren_prism, true, full_limit, max_steps);
                            }
                            out
                        });
                    }
                }
            }
        }
    }
    // (6) the cut network of split_and_glue: network_edges, cut_with_insides, network_cut (all
    // admissible starts), cut_pairs_in_order, make_key, split_and_glue_attempt through their hooks,
    // on the states on which `simplify` calls `split_and_glue` (replayed from the corpus covers, a
    // finer decomposition of each, prism and Coxeter covers, the crafted family), on the inputs
    // themselves before merging, and on all small D-sets (n <= 4 complete with commuting far
    // operations, n <= 2 partial); in every state the calls `split_and_glue` makes plus further
    // (chamber, mode) pairs (quick: 6 per state; thorough: every chamber, both modes)
    {
        let (max_states, extra, max_starts, max_results) = if thorough { (12usize, usize::MAX, usize::MAX, usize::MAX) } else { (3usize, 6usize, 16usize, 3usize) };
        for (k, line) in corpus.iter().enumerate() {
            let mut rng = ctx.rng(7000 + k as u64);
            let line = line.clone();
            blocks.run_n(&mut ctx, SLOTS_CUT, move || {
                let mut out = vec![];
                let sym: PartialDSym = line.parse().expect("corpus symbol");
                let Some(cov) = pre(|| pseudo_toroidal_cover(&sym)).flatten() else { return out };
                let cov = Tab::from_dsym(&cov);
                cutnet_pipeline(&mut out, "corpus", &tab_to_ds(&cov), &mut rng, max_states, extra, max_starts, max_results);
                if let Some(sub) = subdivide(&cov, &mut rng, 3) {
                    if sub.size <= 400 {
                        cutnet_pipeline(&mut out, "corpus-subdivided", &tab_to_ds(&sub), &mut rng, max_states, extra, max_starts, max_results);
                    }
                }
                out
            });
        }
        let pq_max = if thorough { 6 } else { 4 };
        for p in 2..=pq_max {
            for q in 2..=pq_max {
                let mut rng = ctx.rng(7100 + (10 * p + q) as u64);
                blocks.run_n(&mut ctx, SLOTS_CUT, move || {
                    let mut out = vec![];
                    let sym: PartialDSym = format!("<1.1:1 3:1,1,1,1:{},2,{}>", p, q).parse().expect("prism symbol");
                    let cov = Tab::from_dsym(&finite_universal_cover(&sym));
                    if in_domain(&cov) {
                        cutnet_pipeline(&mut out, "prism-universal", &tab_to_ds(&cov), &mut rng, max_states, extra, max_starts, max_results);
                        if let Some(sub) = subdivide(&cov, &mut rng, 2) {
                            cutnet_pipeline(&mut out, "prism-universal-subdivided", &tab_to_ds(&sub), &mut rng, max_states, extra, max_starts, max_results);
                        }
                    }
                    out
                });
            }
        }
        for (k, s) in finite.iter().enumerate() {
            let mut rng = ctx.rng(7200 + k as u64);
            let s = s.to_string();
            blocks.run_n(&mut ctx, SLOTS_CUT, move || {
                let mut out = vec![];
                let sym: PartialDSym = s.parse().expect("finite symbol");
                let cov = Tab::from_dsym(&finite_universal_cover(&sym));
                if cov.size <= 200 && in_domain(&cov) {
                    cutnet_pipeline(&mut out, "finite-universal", &tab_to_ds(&cov), &mut rng, max_states, extra, max_starts, max_results);
                }
                out
            });
        }
        // small D-sets, every chamber and both modes
        let mut small: Vec<(String, Tab)> = vec![];
        for n in 1..=4usize {
            for (j, t) in dsets(3, n, true, true, false).into_iter().enumerate() {
                if thorough || n <= 3 || j % 8 == 0 {
                    small.push(("small-complete".to_string(), t));
                }
            }
        }
        for n in 1..=2usize {
            for (j, t) in dsets(3, n, false, false, true).into_iter().enumerate() {
                if thorough || j % 4 == 0 {
                    small.push(("small-partial".to_string(), t));
                }
            }
        }
        for (k, chunk) in small.chunks(25).enumerate() {
            let mut rng = ctx.rng(7300 + k as u64);
            let chunk: Vec<(String, Tab)> = chunk.to_vec();
            blocks.run_n(&mut ctx, SLOTS_CUT, move || {
                let mut out = vec![];
                for (src, t) in &chunk {
                    let ds = tab_to_ds(t);
                    cutnet_state(&mut out, src, &ds, &mut rng, usize::MAX, usize::MAX, usize::MAX);
                    cutnet_seeded(&mut out, src, &ds, &mut rng, 2);
                }
                out
            });
        }
    }
    ctx.finish();
}
