//! exploration (temporary)
use rust_dsymbols::covers::finite_universal_cover;
use rust_dsymbols::delaney3d::pseudo_toroidal_cover;
use rust_dsymbols::dsets::DSet;
use rust_dsymbols::dsyms::PartialDSym;
use rust_dsymbols::simplify::simplify;
use std::time::Instant;

fn main() {
    let txt = std::fs::read_to_string("/verif/corpus/euclidean3d.txt").unwrap();
    for line in txt.lines() {
        if line.starts_with('#') || line.trim().is_empty() {
            continue;
        }
        let ds: PartialDSym = line.parse().unwrap();
        let t0 = Instant::now();
        let cov = pseudo_toroidal_cover(&ds);
        let t1 = t0.elapsed();
        match cov {
            Some(c) => {
                let t0 = Instant::now();
                let out = simplify(&c);
                let t2 = t0.elapsed();
                println!("{} cover size {} ({:?}) simplify -> {:?} ({:?})", line, c.size(), t1, out.map(|o| o.size()), t2);
            }
            None => println!("{} no cover", line),
        }
    }
    for s in ["<1.1:1 3:1,1,1,1:3,3,3>", "<1.1:1 3:1,1,1,1:4,3,3>", "<1.1:2 3:2,2,2,2:4,3,3>"] {
        let ds: PartialDSym = s.parse().unwrap();
        let t0 = Instant::now();
        let c = finite_universal_cover(&ds);
        let t1 = t0.elapsed();
        let t0 = Instant::now();
        let out = simplify(&c);
        let t2 = t0.elapsed();
        println!("{} fuc size {} ({:?}) simplify -> {:?} ({:?})", s, c.size(), t1, out.map(|o| o.size()), t2);
    }
}
