//! C15 — toroidal and pseudo-toroidal covers are branch-free tori.
//!
//! Drives the public `delaney2d::toroidal_cover` and `delaney3d::pseudo_toroidal_cover`.
//!
//!   tor2        IN sym                          OUT cover | PANIC
//!   ptc         IN sym                          OUT 0 | 1 cover | PANIC          (model compared)
//!   ptc_corpus  IN sym                          OUT as ptc; Spec also demands a cover
//!   ptc_nomodel IN sym                          OUT as ptc; Spec only (variants of sampled symbols)
//!   ptcinv      IN k sym ren_1 … ren_k dual     OUT one integer per variant: -2 panic, -1 None,
//!                                                else the size of the returned cover
//!
//! Universes (all built by `d3gen`, never by the library's generators or predicates):
//! every euclidean 2D symbol over every isomorphism class of connected D-sets (all labelled
//! D-sets for n ≤ 3) with v ≤ 6; every 3D symbol with v ∈ {1,2,3,4,6} and spherical tiles and
//! vertex figures over every isomorphism class of connected D-sets; the corpus, closed under
//! covers with few sheets (`covers::covers`), and hard-coded witnesses; PRODUCTS AND TWISTED
//! STACKINGS: prisms over the tiles of 2D symbols with v ∈ {1,2,3,4,6} — spherical, euclidean and
//! hyperbolic bases — with a mirror at mid-height (3n chambers; cap crossing = reflection followed by
//! an involutive automorphism) or stacked with an automorphism of the base from layer to layer
//! (6n chambers: translations, glides, screw axes 2₁ 3₁ 4₁ 6₁…6₅).  Over a euclidean base the
//! result is euclidean by construction (E² × R modulo a discrete cocompact group), so a cover is
//! demanded (`ptc_corpus`).
//! Sizes: see `main` and conf/C15.json.
use rust_dsymbols::covers::covers;
use rust_dsymbols::delaney2d::toroidal_cover;
use rust_dsymbols::delaney3d::pseudo_toroidal_cover;
use rust_dsymbols::dsets::DSet;
use rust_dsymbols::dsyms::SimpleDSym;
use std::panic::{catch_unwind, AssertUnwindSafe};
use verif_harness::d3gen::{
    automorphisms, classes, corpus, curvature2, euclidean_2d, in_domain_3d, is_oriented, labelled, mirror_prisms,
    parse_symbol, perm_order, stacked_prisms, symbols_2d_cryst, symbols_3d,
};
use verif_harness::dsgen::{random_perm1, Tab};
use verif_harness::{Ctx, Rng};

fn tor2(ctx: &mut Ctx, s: &Tab, extra: &str) {
    let nontrivial = !is_oriented(s) || (0..2).any(|i| (1..=s.size).any(|d| s.v[i][d] > 1));
    let tag = format!("{}dim=2 size={} {}", if nontrivial { "nt " } else { "" }, s.size, extra);
    ctx.case("tor2", &tag, || s.enc(), || Tab::from_dsym(&toroidal_cover(&s.to_partial_dsym())).enc());
    // the same symbol held as SimpleDSym (toroidal_cover is generic over the DSym trait; a defect can
    // sit in one impl only — lesson of seeded change C03-m8): every third symbol
    if s.size % 3 == 1 {
        ctx.case("tor2_s", &tag, || s.enc(), || {
            let ds: SimpleDSym = s.to_partial_dsym().into();
            Tab::from_dsym(&toroidal_cover(&ds)).enc()
        });
    }
}

fn ptc_answer(s: &Tab) -> Option<Tab> {
    pseudo_toroidal_cover(&s.to_partial_dsym()).map(|c| Tab::from_dsym(&c))
}

fn ptc(ctx: &mut Ctx, op: &str, s: &Tab, extra: &str) {
    if !ctx.peek_mine() {
        ctx.skip();
        return;
    }
    // tag needs the answer: computed once here (panics caught), again inside the case
    let found = catch_unwind(AssertUnwindSafe(|| pseudo_toroidal_cover(&s.to_partial_dsym()).map(|c| c.size())));
    let tag = match &found {
        Ok(Some(n)) => format!("nt dim=3 size={} found=1 sheets={} {}", s.size, n / s.size, extra),
        Ok(None) => format!("dim=3 size={} found=0 {}", s.size, extra),
        Err(_) => format!("nt dim=3 size={} found=panic {}", s.size, extra),
    };
    ctx.case(op, &tag, || s.enc(), || match ptc_answer(s) {
        Some(c) => format!("1 {}", c.enc()),
        None => "0".to_string(),
    });
}

/// `ptc` asked of the same symbol held as SimpleDSym (a sample)
fn ptc_simple(ctx: &mut Ctx, s: &Tab, extra: &str) {
    let tag = format!("nt dim=3 size={} simple {}", s.size, extra);
    ctx.case("ptc_s", &tag, || s.enc(), || {
        let ds: SimpleDSym = s.to_partial_dsym().into();
        match pseudo_toroidal_cover(&ds).map(|c| Tab::from_dsym(&c)) {
            Some(c) => format!("1 {}", c.enc()),
            None => "0".to_string(),
        }
    });
}

fn variants(s: &Tab, rng: &mut Rng, k: usize) -> Vec<Tab> {
    let mut vs = vec![s.clone()];
    for _ in 0..k {
        vs.push(s.renumbered(&random_perm1(rng, s.size)));
    }
    vs.push(s.dual());
    vs
}

fn ptcinv(ctx: &mut Ctx, vs: &[Tab], extra: &str) {
    let k = vs.len() - 2;
    let tag = format!("nt dim=3 size={} variants={} {}", vs[0].size, vs.len(), extra);
    ctx.case(
        "ptcinv",
        &tag,
        || format!("{} {}", k, vs.iter().map(|t| t.enc()).collect::<Vec<_>>().join(" ")),
        || {
            vs.iter()
                .map(|t| match catch_unwind(AssertUnwindSafe(|| ptc_answer(t))) {
                    Ok(Some(c)) => c.size as i64,
                    Ok(None) => -1,
                    Err(_) => -2,
                })
                .map(|x| x.to_string())
                .collect::<Vec<_>>()
                .join(" ")
        },
    );
}

/// proper covers of `s` with at most `k` sheets from `covers::covers` (inputs here: their
/// construction is property C05's subject; the Spec's domain filter re-checks each), at most
/// `cap` of them (seeded sample, order kept).  Euclidicity is closed under finite covers, so
/// covers of corpus symbols belong to the known-euclidean corpus (DESIGN §3.5, §5.8).
fn cover_inputs(s: &Tab, k: usize, cap: usize, rng: &mut Rng) -> Vec<Tab> {
    let all: Vec<Tab> = match catch_unwind(AssertUnwindSafe(|| {
        covers(&s.to_partial_dsym(), k).iter().map(Tab::from_dsym).collect::<Vec<_>>()
    })) {
        Ok(c) => c.into_iter().filter(|c| c.size > s.size).collect(),
        Err(_) => vec![],
    };
    if all.len() <= cap {
        return all;
    }
    let mut idx: Vec<usize> = (0..all.len()).collect();
    rng.shuffle(&mut idx);
    let mut keep: Vec<usize> = idx[..cap].to_vec();
    keep.sort();
    keep.into_iter().map(|i| all[i].clone()).collect()
}

fn main() {
    let mut ctx = Ctx::from_args();
    let th = ctx.thorough();
    let mut rng = ctx.rng(15);
    // separate stream for the prism families, so that the older sections keep their samples
    let mut prng = ctx.rng(1515);

    // (0) regression corpus (seeded-change study): euclidean symbols whose orientation-preserving
    //     point group is cyclic of order 4 resp. 6 generated by a rotation of that order — finite
    //     covers of corpus symbols, hence euclidean; a cover must be found
    for w in [
        "<1.1:6 3:2 3 4 6,4 3 6,5 6 4,2 4 5 6:4 4,3,4 4>",
        "<1.1:6 3:2 3 4 6,4 3 6,5 6 4,2 4 5 6:4 3,3,4 6>",
    ] {
        let s = parse_symbol(w).expect("witness symbol");
        ptc(&mut ctx, "ptc_corpus", &s, "witness");
        let vs = variants(&s, &mut rng, 1);
        ptcinv(&mut ctx, &vs, "witness");
    }

    // (0') seeded-change study round 3: a non-euclidean symbol with a 4-cone and a Z6 quotient whose
    //      kernel has H1 = Z^3 but unwinds the 4-cone only halfway (mirror prisms over the hyperbolic
    //      2D symbol <1.1:4:2 4,3 4,2 4:8,4>, orbifold 4222; None expected), and a euclidean symbol
    //      with group P6_2 — sixfold screw axes, only twofold rotation axes (triangular prisms over
    //      <1.1:6:2 5 6,3 4 6,2 5 6:3,6> stacked with its automorphism (1 4 5)(2 6 3); a cover must
    //      be found).  Both are members of the prism families of (4); listed first as regressions.
    {
        let b = parse_symbol("<1.1:4:2 4,3 4,2 4:8,4>").expect("4222 base");
        let id: Vec<usize> = (0..=b.size).collect();
        let s = mirror_prisms(&b, &id).expect("hyperbolic prisms");
        ptc(&mut ctx, "ptc", &s, "witness prism hyp");
        let vs = variants(&s, &mut prng, 1);
        ptcinv(&mut ctx, &vs, "witness prism hyp");
        let l = parse_symbol("<1.1:6:2 5 6,3 4 6,2 5 6:3,6>").expect("p2 triangle layer");
        for tau in [vec![0, 4, 6, 2, 5, 1, 3], vec![0, 5, 3, 6, 1, 4, 2]] {
            let s = stacked_prisms(&l, &tau).expect("twisted prisms");
            ptc(&mut ctx, "ptc_corpus", &s, "witness stack euc order=3");
            let vs = variants(&s, &mut prng, 1);
            ptcinv(&mut ctx, &vs, "witness stack euc");
        }
    }

    // (1) the known-euclidean corpus: a cover must be found; invariance with 3 renumberings
    for s in corpus() {
        ptc(&mut ctx, "ptc_corpus", &s, "corpus");
        ptc_simple(&mut ctx, &s, "corpus");
        let vs = variants(&s, &mut rng, 3);
        ptcinv(&mut ctx, &vs, "corpus");
        if th {
            for v in &vs[1..] {
                ptc(&mut ctx, "ptc_nomodel", v, "corpus-variant");
            }
        }
        // the corpus is closed under covers with few sheets: ≤ 2 sheets (quick), ≤ 4 (thorough)
        let (k, cap) = if th { (4, 24) } else { (2, 6) };
        for c in cover_inputs(&s, k, cap, &mut rng) {
            ptc(&mut ctx, "ptc_corpus", &c, "corpus-cover");
        }
    }
    if th {
        // 5- and 6-sheeted covers of the one-chamber cubic symbol
        let cube = parse_symbol("<1.1:1 3:1,1,1,1:4,3,4>").expect("cube");
        let cs: Vec<Tab> = cover_inputs(&cube, 6, 1000, &mut rng).into_iter().filter(|c| c.size >= 5).collect();
        for c in cs {
            ptc(&mut ctx, "ptc_corpus", &c, "corpus-cover");
        }
    }

    // (2) 2D: every euclidean symbol with v ≤ 6
    let n2 = if th { 8 } else { 6 };
    for n in 1..=n2 {
        let sets = if n <= 3 { labelled(2, n) } else { classes(2, n) };
        for t in &sets {
            for s in euclidean_2d(t, 6) {
                tor2(&mut ctx, &s, "");
            }
        }
    }

    // (3) 3D: every symbol with spherical tiles and vertex figures, v ∈ {1,2,3,4,6}:
    //     exhaustive for n ≤ 3 (quick) / n ≤ 4 (thorough); beyond, every `stride`-th symbol of
    //     the next size (seeded offset): n = 4 stride 6 (quick), n = 5 stride 3 (thorough)
    let nfull = if th { 4 } else { 3 };
    let nren = if th { 3 } else { 1 };
    let stride = if th { 3 } else { 6 };
    let offset = rng.below(stride);
    let mut serial = 0usize;
    for n in 1..=nfull + 1 {
        for t in &classes(3, n) {
            for s in symbols_3d(t) {
                serial += 1;
                let sampled = n <= nfull || serial % stride == offset;
                if !sampled {
                    continue;
                }
                let extra = if n <= nfull { "exhaustive" } else { "sampled" };
                ptc(&mut ctx, "ptc", &s, extra);
                if serial % 5 == 0 {
                    ptc_simple(&mut ctx, &s, extra);
                }
                let vs = variants(&s, &mut rng, nren);
                ptcinv(&mut ctx, &vs, extra);
                if th && n <= 3 {
                    // every variant is an input in its own right
                    for v in &vs[1..] {
                        ptc(&mut ctx, "ptc_nomodel", v, "variant");
                    }
                }
            }
        }
    }
    // (4) products and twisted stackings over 2D symbols with v ∈ {1,2,3,4,6}.
    //     class of the base by the sign of its curvature (d3gen's own exact sum); euclidean base ⇒
    //     the 3D symbol is euclidean ⇒ `ptc_corpus` (a cover is demanded).
    //     quick:    mirror prisms: n ≤ 2 all; n = 3: spherical + euclidean all, hyperbolic every 4th;
    //               n = 4: euclidean all, spherical every 8th, hyperbolic every 64th;
    //               stackings: euclidean bases n ≤ 4 all automorphisms, n = 5, 6 automorphisms of
    //               order ≥ 3; other bases n ≤ 2 all, n = 3 spherical all, hyperbolic every 32nd
    //     thorough: both families n ≤ 3 all, n = 4 spherical + euclidean all, hyperbolic mirror prisms
    //               every 8th and hyperbolic stackings every 24th (n = 3: stackings every 2nd);
    //               stackings over all euclidean bases n ≤ 6 and, for n = 7, 8, with automorphisms
    //               of order ≥ 3; invariance (ptcinv) on every 5th member
    let nprism = if th { 8 } else { 6 };
    let off = prng.below(48);
    // one serial per family, so that the strides sample each family evenly
    let mut mserial = 0usize;
    let mut sserial = 0usize;
    for n in 1..=nprism {
        let sets = if n <= 3 { labelled(2, n) } else { classes(2, n) };
        for t in &sets {
            let bases = if n <= 4 { symbols_2d_cryst(t) } else { euclidean_2d(t, 6) };
            for b in bases {
                if (0..2).any(|i| (1..=b.size).any(|d| ![1, 2, 3, 4, 6].contains(&b.v[i][d]))) {
                    continue;
                }
                let k = curvature2(&b).0;
                let cls = if k > 0 { "sph" } else if k == 0 { "euc" } else { "hyp" };
                for (ai, a) in automorphisms(&b).iter().enumerate() {
                    let o = perm_order(a);
                    // mirror prisms
                    if o <= 2 && n <= 4 {
                        if let Some(p) = mirror_prisms(&b, a).filter(in_domain_3d) {
                            mserial += 1;
                            let stride = match (th, n, cls) {
                                (_, 1..=2, _) => 1,
                                (true, 3, _) => 1,
                                (true, _, "hyp") => 8,
                                (true, _, _) => 1,
                                (false, 3, "hyp") => 4,
                                (false, 3, _) => 1,
                                (false, _, "euc") => 1,
                                (false, _, "sph") => 8,
                                (false, _, _) => 64,
                            };
                            if (mserial + off) % stride == 0 {
                                let extra = format!("prism mirror {} base={} aut={} order={}", cls, n, ai, o);
                                ptc(&mut ctx, if cls == "euc" { "ptc_corpus" } else { "ptc" }, &p, &extra);
                                if (mserial + off) % (5 * stride) == 0 {
                                    let vs = variants(&p, &mut prng, 1);
                                    ptcinv(&mut ctx, &vs, &extra);
                                }
                            }
                        }
                    }
                    // stackings
                    let want = match (th, n, cls) {
                        (_, 1..=4, "euc") => true,
                        (true, 5..=6, "euc") => true,
                        (_, 5..=8, "euc") => o >= 3,
                        (_, 1..=2, _) => true,
                        (true, 3, _) => true,
                        (true, 4, _) => true,
                        (false, 3, "sph") => true,
                        (false, 3, _) => true,
                        _ => false,
                    };
                    if want {
                        if let Some(p) = stacked_prisms(&b, a).filter(in_domain_3d) {
                            sserial += 1;
                            let stride = match (th, n, cls) {
                                (true, 4, "hyp") => 24,
                                (true, 3, "hyp") => 2,
                                (false, 3, "hyp") => 32,
                                _ => 1,
                            };
                            if (sserial + off) % stride == 0 {
                                let extra = format!("prism stack {} base={} aut={} order={}", cls, n, ai, o);
                                ptc(&mut ctx, if cls == "euc" { "ptc_corpus" } else { "ptc" }, &p, &extra);
                                if (sserial + off) % (5 * stride) == 0 {
                                    let vs = variants(&p, &mut prng, 1);
                                    ptcinv(&mut ctx, &vs, &extra);
                                }
                            }
                        }
                    }
                }
            }
        }
    }
    ctx.finish();
}
