//! C15 — toroidal and pseudo-toroidal covers are branch-free tori.
//!
//! Drives the public `delaney2d::toroidal_cover` and `delaney3d::pseudo_toroidal_cover`.
//!
//!   tor2        IN sym                          OUT cover | PANIC
//!   ptc         IN h sym                        OUT 0 | 1 cover | PANIC          (model compared;
//!                                               h = 1 iff the decidable hypotheses of the
//!                                               phase-2 theorems hold for the library's
//!                                               presentation of the oriented cover)
//!   ptc_corpus  IN h sym                          OUT as ptc; Spec also demands a cover
//!   ptc_nomodel IN h sym                          OUT as ptc; Spec only (variants of sampled symbols)
//!   ptcinv      IN k sym ren_1 … ren_k dual     OUT one integer per variant: -2 panic, -1 None,
//!                                                else the size of the returned cover
//!
//! Universes (all built by `d3gen`, never by the library's generators or predicates):
//! every euclidean 2D symbol over every isomorphism class of connected D-sets (all labelled
//! D-sets for n ≤ 3) with v ≤ 6; every 3D symbol with v ∈ {1,2,3,4,6} and spherical tiles and
//! vertex figures over every isomorphism class of connected D-sets; the corpus, closed under
//! covers with few sheets (`covers::covers`), and two hard-coded witnesses.
//! Sizes: see `main` and conf/C15.json.
use rust_dsymbols::covers::covers;
use rust_dsymbols::delaney2d::toroidal_cover;
use rust_dsymbols::delaney3d::pseudo_toroidal_cover;
use rust_dsymbols::derived::oriented_cover;
use rust_dsymbols::fundamental_group::fundamental_group;
use rust_dsymbols::dsets::DSet;
use std::panic::{catch_unwind, AssertUnwindSafe};
use verif_harness::d3gen::{classes, corpus, euclidean_2d, is_oriented, labelled, parse_symbol, symbols_3d};
use verif_harness::dsgen::{random_perm1, Tab};
use verif_harness::{Ctx, Rng};

fn tor2(ctx: &mut Ctx, s: &Tab, extra: &str) {
    let nontrivial = !is_oriented(s) || (0..2).any(|i| (1..=s.size).any(|d| s.v[i][d] > 1));
    let tag = format!("{}dim=2 size={} {}", if nontrivial { "nt " } else { "" }, s.size, extra);
    ctx.case("tor2", &tag, || s.enc(), || Tab::from_dsym(&toroidal_cover(&s.to_partial_dsym())).enc());
}

fn ptc_answer(s: &Tab) -> Option<Tab> {
    pseudo_toroidal_cover(&s.to_partial_dsym()).map(|c| Tab::from_dsym(&c))
}

/// the decidable hypotheses of the theorems of Props/C15 §4–§6 on the library's own presentation
/// of the oriented cover: relators and cone words over the letters ±1..±n.  Statistics only (tag `groupok=`); the Lean driver re-evaluates the same
/// monitor on the model's run and a disagreement is a harness error.
fn group_ok(s: &Tab) -> bool {
    catch_unwind(AssertUnwindSafe(|| {
        let oc = oriented_cover(&s.to_partial_dsym());
        let fg = fundamental_group(&oc);
        let n = fg.nr_generators() as isize;
        let in_range = |w: &Vec<isize>| w.iter().all(|&x| x != 0 && x.abs() <= n);
        fg.relators.iter().all(|r| in_range(&r.iter().cloned().collect()))
            && fg.cones.iter().all(|(c, _)| in_range(&c.iter().cloned().collect()))
    }))
    .unwrap_or(false)
}

fn ptc(ctx: &mut Ctx, op: &str, s: &Tab, extra: &str) {
    if !ctx.peek_mine() {
        ctx.skip();
        return;
    }
    // tag needs the answer: computed once here (panics caught), again inside the case
    let found = catch_unwind(AssertUnwindSafe(|| pseudo_toroidal_cover(&s.to_partial_dsym()).map(|c| c.size())));
    let gok = if group_ok(s) { 1 } else { 0 };
    let tag = match &found {
        Ok(Some(n)) => format!("nt dim=3 size={} found=1 sheets={} groupok={} {}", s.size, n / s.size, gok, extra),
        Ok(None) => format!("dim=3 size={} found=0 groupok={} {}", s.size, gok, extra),
        Err(_) => format!("nt dim=3 size={} found=panic groupok={} {}", s.size, gok, extra),
    };
    ctx.case(op, &tag, || format!("{} {}", gok, s.enc()), || match ptc_answer(s) {
        Some(c) => format!("1 {}", c.enc()),
        None => "0".to_string(),
    });
}

fn variants(s: &Tab, rng: &mut Rng, k: usize) -> Vec<Tab> {
    let mut vs = vec![s.clone()];
    for _ in 0..k {
        vs.push(s.renumbered(&random_perm1(rng, s.size)));
    }
    vs.push(s.dual());
    vs
}

fn ptcinv(ctx: &mut Ctx, vs: &[Tab], extra: &str) {
    let k = vs.len() - 2;
    let tag = format!("nt dim=3 size={} variants={} {}", vs[0].size, vs.len(), extra);
    ctx.case(
        "ptcinv",
        &tag,
        || format!("{} {}", k, vs.iter().map(|t| t.enc()).collect::<Vec<_>>().join(" ")),
        || {
            vs.iter()
                .map(|t| match catch_unwind(AssertUnwindSafe(|| ptc_answer(t))) {
                    Ok(Some(c)) => c.size as i64,
                    Ok(None) => -1,
                    Err(_) => -2,
                })
                .map(|x| x.to_string())
                .collect::<Vec<_>>()
                .join(" ")
        },
    );
}

/// proper covers of `s` with at most `k` sheets from `covers::covers` (inputs here: their
/// construction is property C05's subject; the Spec's domain filter re-checks each), at most
/// `cap` of them (seeded sample, order kept).  Euclidicity is closed under finite covers, so
/// covers of corpus symbols belong to the known-euclidean corpus (DESIGN §3.5, §5.8).
fn cover_inputs(s: &Tab, k: usize, cap: usize, rng: &mut Rng) -> Vec<Tab> {
    let all: Vec<Tab> = match catch_unwind(AssertUnwindSafe(|| {
        covers(&s.to_partial_dsym(), k).iter().map(Tab::from_dsym).collect::<Vec<_>>()
    })) {
        Ok(c) => c.into_iter().filter(|c| c.size > s.size).collect(),
        Err(_) => vec![],
    };
    if all.len() <= cap {
        return all;
    }
    let mut idx: Vec<usize> = (0..all.len()).collect();
    rng.shuffle(&mut idx);
    let mut keep: Vec<usize> = idx[..cap].to_vec();
    keep.sort();
    keep.into_iter().map(|i| all[i].clone()).collect()
}

fn main() {
    let mut ctx = Ctx::from_args();
    let th = ctx.thorough();
    let mut rng = ctx.rng(15);

    // (0) regression corpus (seeded-change study): euclidean symbols whose orientation-preserving
    //     point group is cyclic of order 4 resp. 6 generated by a rotation of that order — finite
    //     covers of corpus symbols, hence euclidean; a cover must be found
    for w in [
        "<1.1:6 3:2 3 4 6,4 3 6,5 6 4,2 4 5 6:4 4,3,4 4>",
        "<1.1:6 3:2 3 4 6,4 3 6,5 6 4,2 4 5 6:4 3,3,4 6>",
    ] {
        let s = parse_symbol(w).expect("witness symbol");
        ptc(&mut ctx, "ptc_corpus", &s, "witness");
        let vs = variants(&s, &mut rng, 1);
        ptcinv(&mut ctx, &vs, "witness");
    }

    // (1) the known-euclidean corpus: a cover must be found; invariance with 3 renumberings
    for s in corpus() {
        ptc(&mut ctx, "ptc_corpus", &s, "corpus");
        let vs = variants(&s, &mut rng, 3);
        ptcinv(&mut ctx, &vs, "corpus");
        if th {
            for v in &vs[1..] {
                ptc(&mut ctx, "ptc_nomodel", v, "corpus-variant");
            }
        }
        // the corpus is closed under covers with few sheets: ≤ 2 sheets (quick), ≤ 4 (thorough)
        let (k, cap) = if th { (4, 24) } else { (2, 6) };
        for c in cover_inputs(&s, k, cap, &mut rng) {
            ptc(&mut ctx, "ptc_corpus", &c, "corpus-cover");
        }
    }
    if th {
        // 5- and 6-sheeted covers of the one-chamber cubic symbol
        let cube = parse_symbol("<1.1:1 3:1,1,1,1:4,3,4>").expect("cube");
        let cs: Vec<Tab> = cover_inputs(&cube, 6, 1000, &mut rng).into_iter().filter(|c| c.size >= 5).collect();
        for c in cs {
            ptc(&mut ctx, "ptc_corpus", &c, "corpus-cover");
        }
    }

    // (2) 2D: every euclidean symbol with v ≤ 6
    let n2 = if th { 8 } else { 6 };
    for n in 1..=n2 {
        let sets = if n <= 3 { labelled(2, n) } else { classes(2, n) };
        for t in &sets {
            for s in euclidean_2d(t, 6) {
                tor2(&mut ctx, &s, "");
            }
        }
    }

    // (3) 3D: every symbol with spherical tiles and vertex figures, v ∈ {1,2,3,4,6}:
    //     exhaustive for n ≤ 3 (quick) / n ≤ 4 (thorough); beyond, every `stride`-th symbol of
    //     the next size (seeded offset): n = 4 stride 6 (quick), n = 5 stride 3 (thorough)
    let nfull = if th { 4 } else { 3 };
    let nren = if th { 3 } else { 1 };
    let stride = if th { 3 } else { 6 };
    let offset = rng.below(stride);
    let mut serial = 0usize;
    for n in 1..=nfull + 1 {
        for t in &classes(3, n) {
            for s in symbols_3d(t) {
                serial += 1;
                let sampled = n <= nfull || serial % stride == offset;
                if !sampled {
                    continue;
                }
                let extra = if n <= nfull { "exhaustive" } else { "sampled" };
                ptc(&mut ctx, "ptc", &s, extra);
                let vs = variants(&s, &mut rng, nren);
                ptcinv(&mut ctx, &vs, extra);
                if th && n <= 3 {
                    // every variant is an input in its own right
                    for v in &vs[1..] {
                        ptc(&mut ctx, "ptc_nomodel", v, "variant");
                    }
                }
            }
        }
    }
    ctx.finish();
}
