//! scratch measurement (to be replaced)
use verif_harness::d3gen::*;
use std::time::Instant;
use rust_dsymbols::delaney3d::pseudo_toroidal_cover;
use rust_dsymbols::delaney2d::toroidal_cover;
use rust_dsymbols::dsets::DSet;
use rust_dsymbols::euclidicity::{is_euclidean, Euclidean};
fn main() {
    let t0 = Instant::now();
    for n in 1..=7 {
        let cl = if n <= 3 { labelled(2, n) } else { classes(2, n) };
        let mut cnt = 0; let mut maxsz=0;
        for t in &cl { for s in euclidean_2d(t, 6) { cnt += 1; let c = toroidal_cover(&s.to_partial_dsym()); maxsz = maxsz.max(c.size()); } }
        eprintln!("2D n={} sets={} euclid={} maxcover={} t={:?}", n, cl.len(), cnt, maxsz, t0.elapsed());
    }
    for n in 1..=4 {
        let ls = labelled(3, n);
        let cs = classes(3, n);
        let mut cnt = 0; let mut ccnt = 0;
        let mut some = 0; let mut maxsz = 0;
        let mut yes=0; let mut no=0; let mut maybe=0;
        for t in &ls { cnt += symbols_3d(t).len(); }
        let t1 = Instant::now();
        for t in &cs { for s in symbols_3d(t) { ccnt += 1;
            let ds = s.to_partial_dsym();
            if let Some(c) = pseudo_toroidal_cover(&ds) { some += 1; maxsz = maxsz.max(c.size()); }
        } }
        let t2 = Instant::now();
        for t in &cs { for s in symbols_3d(t) {
            let ds = s.to_partial_dsym();
            match is_euclidean(&ds) { Euclidean::Yes => yes+=1, Euclidean::No(_) => no+=1, Euclidean::Maybe(..) => maybe+=1 }
        } }
        eprintln!("3D n={} labelled sets={} syms={} classes={} syms={} some={} maxcover={} ptc-time={:?} euc: y{} n{} m{} time={:?}", n, ls.len(), cnt, cs.len(), ccnt, some, maxsz, t2-t1, yes,no,maybe, t2.elapsed());
    }
    let c = corpus();
    eprintln!("corpus {}", c.len());
    for s in &c {
        let ds = s.to_partial_dsym();
        let t1 = Instant::now();
        let r = pseudo_toroidal_cover(&ds).map(|c| c.size());
        let t2 = Instant::now();
        let e = match is_euclidean(&ds) { Euclidean::Yes => "yes".to_string(), Euclidean::No(s) => s, Euclidean::Maybe(s,_) => s };
        eprintln!("  size {} ptc {:?} {:?} euc {} {:?} locsph={}", s.size, r, t2-t1, e, t2.elapsed(), locally_spherical(s));
    }
}
