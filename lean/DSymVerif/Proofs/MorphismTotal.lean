/-
Helper lemmas for property C04, part 2: on a connected source and a complete target the
morphism search is total and exact (`morphism_ok_iff`), and `automorphisms` lists exactly
the endomorphisms, ordered by base image.

  `Connected a`     every chamber 1..size lies in every set that contains chamber 1 and is
                    closed under the operations 0..dim (i.e. is reachable from chamber 1)
  `Complete b n`    operations 0..n of `b` are defined on 1..size with values in 1..size
  `InRange a b g`   g maps 1..|a| into 1..|b|
-/
import DSymVerif.Proofs.Morphism

namespace DSymVerif.Mor

def Connected (a : MV) : Prop :=
  ∀ R : Nat → Prop, R 1 →
    (∀ d i di, 1 ≤ d → d ≤ a.size → i ≤ a.dim → R d → a.op i d = some di → R di) →
    ∀ d, 1 ≤ d → d ≤ a.size → R d

def Complete (b : MV) (n : Nat) : Prop :=
  ∀ i, i ≤ n → ∀ x, 1 ≤ x → x ≤ b.size → ∃ y, b.op i x = some y ∧ 1 ≤ y ∧ y ≤ b.size

def InRange (a b : MV) (g : Nat → Nat) : Prop :=
  ∀ d, 1 ≤ d → d ≤ a.size → 1 ≤ g d ∧ g d ≤ b.size

/-- a returned vector is total on a connected source when the target is complete -/
theorem morphism_total (a b : MV) (hb : OpPos b) (hc : Complete b a.dim) (hconn : Connected a)
    (e : Nat) (he1 : 1 ≤ e) (he2 : e ≤ b.size) (f : Array Nat) (h : morphism a b e = .ok f) :
    InRange a b (gv f) := by
  have s := morphism_sound' a b hb e (by omega) f h
  apply hconn (fun d => 1 ≤ gv f d ∧ gv f d ≤ b.size)
  · rw [s.2.1]; exact ⟨he1, he2⟩
  · intro d i di _ _ hi hR hdi
    obtain ⟨y, hy, hy1, hy2⟩ := hc i hi (gv f d) hR.1 hR.2
    have cl := s.2.2 d (by omega)
    rw [cl.2 i hi di y hdi hy]
    exact ⟨hy1, hy2⟩

/-- soundness, total form: the returned vector is a morphism with the requested base image -/
theorem morphism_isMor (a b : MV) (hb : OpPos b) (hc : Complete b a.dim) (hconn : Connected a)
    (e : Nat) (he1 : 1 ≤ e) (he2 : e ≤ b.size) (f : Array Nat) (h : morphism a b e = .ok f) :
    f.size = a.size + 1 ∧ gv f 1 = e ∧ InRange a b (gv f) ∧ IsMor a b (gv f) := by
  have s := morphism_sound' a b hb e (by omega) f h
  have t := morphism_total a b hb hc hconn e he1 he2 f h
  refine ⟨s.1, s.2.1, t, ⟨fun d h1 h2 => ?_, fun d h1 h2 => ?_⟩⟩
  · exact (s.2.2 d (by have := t d h1 h2; omega)).1
  · exact (s.2.2 d (by have := t d h1 h2; omega)).2

/-- completeness, total form: a morphism with base image `g 1` is returned, and it is `g` -/
theorem morphism_finds (a b : MV) (ha : OpRange a) (hb : OpPos b) (hc : Complete b a.dim)
    (hconn : Connected a) (h1 : 1 ≤ a.size) (g : Nat → Nat) (hg : IsMor a b g)
    (hr : InRange a b g) :
    ∃ f, morphism a b (g 1) = .ok f ∧ ∀ d, 1 ≤ d → d ≤ a.size → gv f d = g d := by
  have hg1 := hr 1 (Nat.le_refl 1) h1
  obtain ⟨f, hf, hag⟩ := morphism_complete' a b ha hb h1 g hg (by omega)
  refine ⟨f, hf, fun d hd1 hd2 => ?_⟩
  have t := morphism_total a b hb hc hconn (g 1) hg1.1 hg1.2 f hf d hd1 hd2
  exact hag d (by omega)

/-- `morphism(a, b, e)` is `Some` exactly when a morphism with base image e exists -/
theorem morphism_ok_iff (a b : MV) (ha : OpRange a) (hb : OpPos b) (hc : Complete b a.dim)
    (hconn : Connected a) (h1 : 1 ≤ a.size) (e : Nat) (he1 : 1 ≤ e) (he2 : e ≤ b.size) :
    (∃ f, morphism a b e = .ok f) ↔ ∃ g, IsMor a b g ∧ InRange a b g ∧ g 1 = e := by
  constructor
  · rintro ⟨f, hf⟩
    have r := morphism_isMor a b hb hc hconn e he1 he2 f hf
    exact ⟨gv f, r.2.2.2, r.2.2.1, r.2.1⟩
  · rintro ⟨g, hg, hr, rfl⟩
    obtain ⟨f, hf, _⟩ := morphism_finds a b ha hb hc hconn h1 g hg hr
    exact ⟨f, hf⟩

/-- otherwise the answer is `None` (never a panic) -/
theorem morphism_err_iff (a b : MV) (ha : OpRange a) (hb : OpPos b) (hc : Complete b a.dim)
    (hconn : Connected a) (h1 : 1 ≤ a.size) (e : Nat) (he1 : 1 ≤ e) (he2 : e ≤ b.size) :
    morphism a b e = .err ↔ ¬ ∃ g, IsMor a b g ∧ InRange a b g ∧ g 1 = e := by
  rw [← morphism_ok_iff a b ha hb hc hconn h1 e he1 he2]
  have np := morphism_no_panic a b ha hb h1 e (by omega)
  cases hres : morphism a b e with
  | ok f => simp
  | err => simp
  | panic => exact (np hres).elim

/-- two morphisms of a connected source into a complete target with the same base image agree -/
theorem morphism_unique (a b : MV) (ha : OpRange a) (hb : OpPos b) (hc : Complete b a.dim)
    (hconn : Connected a) (h1 : 1 ≤ a.size) (g g' : Nat → Nat) (hg : IsMor a b g)
    (hg' : IsMor a b g') (hr : InRange a b g) (hr' : InRange a b g') (h : g 1 = g' 1) :
    ∀ d, 1 ≤ d → d ≤ a.size → g d = g' d := by
  obtain ⟨f, hf, e1⟩ := morphism_finds a b ha hb hc hconn h1 g hg hr
  obtain ⟨f', hf', e2⟩ := morphism_finds a b ha hb hc hconn h1 g' hg' hr'
  rw [h, hf'] at hf
  cases hf
  intro d hd1 hd2
  rw [← e1 d hd1 hd2, ← e2 d hd1 hd2]

/-! ### `automorphisms` -/

theorem autLoop_spec (mor : Nat → Outcome (Array Nat)) :
    ∀ (ds : List Nat), (∀ d, d ∈ ds → mor d ≠ .panic) →
      (∀ d f, d ∈ ds → mor d = .ok f → gv f 1 = d) →
      ∃ L, autLoop mor ds = .ok L ∧ (∀ f, f ∈ L ↔ ∃ d, d ∈ ds ∧ mor d = .ok f) ∧
        (L.map (fun f => gv f 1)).Sublist ds := by
  intro ds
  induction ds with
  | nil => intro _ _; exact ⟨[], rfl, by simp, by simp⟩
  | cons d ds ih =>
    intro hnp hbase
    obtain ⟨L, hL, hmem, hsub⟩ := ih (fun x hx => hnp x (by simp [hx]))
      (fun x f hx => hbase x f (by simp [hx]))
    cases hres : mor d with
    | ok f =>
      refine ⟨f :: L, by simp [autLoop, hres, hL], fun f' => ?_, ?_⟩
      · simp only [List.mem_cons, hmem]
        constructor
        · rintro (rfl | ⟨x, hx, hx'⟩)
          · exact ⟨d, Or.inl rfl, hres⟩
          · exact ⟨x, Or.inr hx, hx'⟩
        · rintro ⟨x, (rfl | hx), hx'⟩
          · rw [hres] at hx'; cases hx'; exact Or.inl rfl
          · exact Or.inr ⟨x, hx, hx'⟩
      · simp only [List.map_cons]
        rw [hbase d f (by simp) hres]
        exact List.Sublist.cons_cons d hsub
    | err =>
      refine ⟨L, by simp [autLoop, hres, hL], fun f' => ?_, List.Sublist.cons d hsub⟩
      rw [hmem]
      constructor
      · rintro ⟨x, hx, hx'⟩; exact ⟨x, by simp [hx], hx'⟩
      · rintro ⟨x, hx, hx'⟩
        rcases List.mem_cons.1 hx with rfl | hx
        · rw [hres] at hx'; cases hx'
        · exact ⟨x, hx, hx'⟩
    | panic => exact (hnp d (by simp) hres).elim

theorem mem_elements (a : MV) (d : Nat) : d ∈ a.elements ↔ 1 ≤ d ∧ d ≤ a.size := by
  simp only [MV.elements, List.mem_map, List.mem_range]
  constructor
  · rintro ⟨x, hx, rfl⟩; omega
  · rintro ⟨h1, h2⟩; exact ⟨d - 1, by omega, by omega⟩

/-- `automorphisms` lists exactly the endomorphisms of a connected complete D-set / D-symbol,
    one per admissible base image, in ascending order of the base image -/
theorem automorphisms_spec (a : MV) (ha : OpRange a) (hc : Complete a a.dim)
    (hconn : Connected a) (h1 : 1 ≤ a.size) :
    ∃ L, automorphisms a = .ok L ∧
      (∀ f, f ∈ L → f.size = a.size + 1 ∧ InRange a a (gv f) ∧ IsMor a a (gv f)) ∧
      (∀ g, IsMor a a g → InRange a a g → ∃ f, f ∈ L ∧ ∀ d, 1 ≤ d → d ≤ a.size → gv f d = g d) ∧
      (L.map (fun f => gv f 1)).Sublist a.elements := by
  have hp : OpPos a := fun i x y h => by have := ha i x y h; omega
  obtain ⟨L, hL, hmem, hsub⟩ := autLoop_spec (morphism a a) a.elements
    (fun d hd => morphism_no_panic a a ha hp h1 d (by have := (mem_elements a d).1 hd; omega))
    (fun d f hd hf => (morphism_sound' a a hp d (by have := (mem_elements a d).1 hd; omega) f hf).2.1)
  refine ⟨L, hL, fun f hf => ?_, fun g hg hr => ?_, hsub⟩
  · obtain ⟨d, hd, hfd⟩ := (hmem f).1 hf
    have hd' := (mem_elements a d).1 hd
    have r := morphism_isMor a a hp hc hconn d hd'.1 hd'.2 f hfd
    exact ⟨r.1, r.2.2.1, r.2.2.2⟩
  · obtain ⟨f, hf, hfg⟩ := morphism_finds a a ha hp hc hconn h1 g hg hr
    exact ⟨f, (hmem f).2 ⟨g 1, (mem_elements a (g 1)).2 (hr 1 (Nat.le_refl 1) h1), hf⟩, hfg⟩

end DSymVerif.Mor
