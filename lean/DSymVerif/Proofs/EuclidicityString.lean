/-
Every output of the model of `orbifold_invariant` contains a `/`; the stray comment tokens of the
invariants table do not: they are dead entries of the set.
-/
import DSymVerif.Model.Euclidicity
import DSymVerif.Proofs.EuclidicityTableCheck

namespace DSymVerif.Euc
open DSymVerif

theorem invariantString_has_slash (labels : List String) (ori ne : Nat) (invars : List Nat) :
    '/' ∈ (invariantString labels ori ne invars).toList := by
  unfold invariantString
  have : ([toString labels.length] ++ labels ++ [toString ori, toString ne, toString invars.length] ++
      invars.map toString ++ [""]) = toString labels.length ::
        (labels ++ [toString ori, toString ne, toString invars.length] ++ invars.map toString ++ [""]) := by
    simp
  rw [this, String.intercalate_cons_of_ne_nil (by simp)]
  simp [String.toList_append]

theorem stray_no_slash : ∀ t ∈ Tab.strayTokens, '/' ∉ t.toList := by decide +kernel

theorem orbifoldInvariant_form (s : DS.DSymData) (inv : String) (h : orbifoldInvariant s = .ok inv) :
    ∃ labels ori ne invars, inv = invariantString labels ori ne invars := by
  unfold orbifoldInvariant at h
  split at h
  · split at h
    · split at h
      · cases h; exact ⟨_, _, _, _, rfl⟩
      · cases h
      · cases h
    · cases h
    · cases h
  · cases h
  · cases h

/-- a stray comment token is never an output of the model of `orbifold_invariant` -/
theorem stray_not_invariant (s : DS.DSymData) (inv : String) (h : orbifoldInvariant s = .ok inv)
    (hs : inv ∈ Tab.strayTokens) : False := by
  obtain ⟨l, o, e, i, rfl⟩ := orbifoldInvariant_form s inv h
  exact stray_no_slash _ hs (invariantString_has_slash l o e i)

end DSymVerif.Euc
