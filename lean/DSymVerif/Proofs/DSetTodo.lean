/-
Helper lemmas for property C02, part 6: the work list of `Traversal`
(`todo: BTreeMap<usize, VecDeque<usize>>` modelled as an association list):
`todoInit`, `todoPop`, `todoPush`.
-/
import DSymVerif.Model.DSet
import Mathlib.Data.List.Nodup

namespace DSymVerif.DS
open View

/-- total number of queued entries -/
def todoTotal (t : Todo) : Nat := (t.map (fun p => p.2.length)).sum
/-- the indices that own a queue -/
def todoKeys (t : Todo) : List Nat := t.map Prod.fst

@[simp] theorem todoTotal_nil : todoTotal [] = 0 := rfl
@[simp] theorem todoTotal_cons (p : Nat × List Nat) (t : Todo) :
    todoTotal (p :: t) = p.2.length + todoTotal t := by simp [todoTotal]
@[simp] theorem todoKeys_nil : todoKeys [] = [] := rfl
@[simp] theorem todoKeys_cons (p : Nat × List Nat) (t : Todo) : todoKeys (p :: t) = p.1 :: todoKeys t := rfl

/-! ### `todoPop` -/

theorem todoPop_none : ∀ t : Todo, todoPop t = none ↔ ∀ p ∈ t, p.2 = []
  | [] => by simp [todoPop]
  | (i, []) :: rest => by
    have ih := todoPop_none rest
    simp only [todoPop, Option.map_eq_none_iff, ih, List.mem_cons, forall_eq_or_imp, true_and]
  | (i, d :: q) :: rest => by
    simp [todoPop]

structure PopSpec (t : Todo) (i d : Nat) (t' : Todo) : Prop where
  keys : todoKeys t' = todoKeys t
  total : todoTotal t' + 1 = todoTotal t
  mem : ∃ q, (i, q) ∈ t ∧ d ∈ q
  back : ∀ k q', (k, q') ∈ t' → ∃ q, (k, q) ∈ t ∧ ∀ e ∈ q', e ∈ q
  fwd : ∀ k q, (k, q) ∈ t → ∀ e ∈ q, (k = i ∧ e = d) ∨ ∃ q', (k, q') ∈ t' ∧ e ∈ q'

theorem todoPop_some : ∀ (t : Todo) (i d : Nat) (t' : Todo), todoPop t = some (i, d, t') → PopSpec t i d t'
  | [], _, _, _, h => by simp [todoPop] at h
  | (i0, d0 :: q0) :: rest, i, d, t', h => by
    simp only [todoPop, Option.some.injEq, Prod.mk.injEq] at h
    obtain ⟨rfl, rfl, rfl⟩ := h
    refine ⟨rfl, by simp; omega, ⟨d0 :: q0, by simp, by simp⟩, ?_, ?_⟩
    · intro k q' hm
      rcases List.mem_cons.1 hm with hm | hm
      · cases hm
        exact ⟨d0 :: q0, by simp, fun e he => List.mem_cons_of_mem _ he⟩
      · exact ⟨q', List.mem_cons_of_mem _ hm, fun e he => he⟩
    · intro k q hm e he
      rcases List.mem_cons.1 hm with hm | hm
      · cases hm
        rcases List.mem_cons.1 he with he | he
        · exact Or.inl ⟨rfl, he⟩
        · exact Or.inr ⟨q0, by simp, he⟩
      · exact Or.inr ⟨q, List.mem_cons_of_mem _ hm, he⟩
  | (i0, []) :: rest, i, d, t', h => by
    simp only [todoPop, Option.map_eq_some_iff] at h
    obtain ⟨⟨j, d', rest'⟩, hp, heq⟩ := h
    simp only [Prod.mk.injEq] at heq
    obtain ⟨rfl, rfl, rfl⟩ := heq
    have ih := todoPop_some rest j d' rest' hp
    refine ⟨by simp [ih.keys], by simp; exact ih.total, ?_, ?_, ?_⟩
    · obtain ⟨q, hq, hd⟩ := ih.mem
      exact ⟨q, List.mem_cons_of_mem _ hq, hd⟩
    · intro k q' hm
      rcases List.mem_cons.1 hm with hm | hm
      · cases hm
        exact ⟨[], by simp, fun e he => he⟩
      · obtain ⟨q, hq, hsub⟩ := ih.back k q' hm
        exact ⟨q, List.mem_cons_of_mem _ hq, hsub⟩
    · intro k q hm e he
      rcases List.mem_cons.1 hm with hm | hm
      · cases hm; cases he
      · rcases ih.fwd k q hm e he with h1 | ⟨q', hq', he'⟩
        · exact Or.inl h1
        · exact Or.inr ⟨q', List.mem_cons_of_mem _ hq', he'⟩

/-! ### `todoPush` -/

theorem todoPush_keys (t : Todo) (k di : Nat) : todoKeys (todoPush t k di) = todoKeys t := by
  unfold todoPush todoKeys
  rw [List.map_map]
  apply List.map_congr_left
  rintro ⟨i, q⟩ _
  simp only [Function.comp]
  split <;> rfl

theorem todoPush_not_mem : ∀ (t : Todo) (k di : Nat), k ∉ todoKeys t → todoPush t k di = t
  | [], _, _, _ => rfl
  | (i, q) :: rest, k, di, h => by
    simp only [todoKeys_cons, List.mem_cons, not_or] at h
    have ih := todoPush_not_mem rest k di h.2
    unfold todoPush at ih ⊢
    simp only [List.map_cons, ih]
    rw [if_neg (fun hc => h.1 hc.symm)]

theorem todoPush_total : ∀ (t : Todo) (k di : Nat), (todoKeys t).Nodup →
    todoTotal (todoPush t k di) ≤ todoTotal t + 1
  | [], _, _, _ => by simp [todoPush]
  | (i, q) :: rest, k, di, h => by
    simp only [todoKeys_cons, List.nodup_cons] at h
    by_cases hik : i = k
    · subst hik
      have : todoPush ((i, q) :: rest) i di = (i, if i < 2 then di :: q else q ++ [di]) :: todoPush rest i di := by
        simp [todoPush]
      rw [this, todoPush_not_mem rest i di h.1]
      simp only [todoTotal_cons]
      split <;> simp <;> omega
    · have : todoPush ((i, q) :: rest) k di = (i, q) :: todoPush rest k di := by
        simp [todoPush, hik]
      rw [this]
      have ih := todoPush_total rest k di h.2
      simp only [todoTotal_cons]; omega

theorem todoPush_fwd (t : Todo) (k di : Nat) (k' : Nat) (q : List Nat) (hm : (k', q) ∈ t) :
    ∃ q', (k', q') ∈ todoPush t k di ∧ (∀ e ∈ q, e ∈ q') ∧ (k' = k → di ∈ q') := by
  unfold todoPush
  by_cases hk : k' = k
  · subst hk
    refine ⟨if k' < 2 then di :: q else q ++ [di], ?_, ?_, ?_⟩
    · exact List.mem_map.2 ⟨(k', q), hm, by simp⟩
    · intro e he; split <;> simp [he]
    · intro _; split <;> simp
  · refine ⟨q, ?_, fun e he => he, fun h => absurd h hk⟩
    exact List.mem_map.2 ⟨(k', q), hm, by simp [hk]⟩

theorem todoPush_back (t : Todo) (k di : Nat) (k' : Nat) (q' : List Nat) (hm : (k', q') ∈ todoPush t k di) :
    ∃ q, (k', q) ∈ t ∧ ∀ e ∈ q', e ∈ q ∨ e = di := by
  unfold todoPush at hm
  obtain ⟨⟨i, q⟩, hiq, heq⟩ := List.mem_map.1 hm
  simp only at heq
  by_cases hik : i = k
  · rw [if_pos hik] at heq
    simp only [Prod.mk.injEq] at heq
    obtain ⟨rfl, rfl⟩ := heq
    refine ⟨q, hiq, ?_⟩
    intro e he
    split at he
    · rcases List.mem_cons.1 he with he | he
      · exact Or.inr he
      · exact Or.inl he
    · rcases List.mem_append.1 he with he | he
      · exact Or.inl he
      · exact Or.inr (by simpa using he)
  · rw [if_neg hik] at heq
    simp only [Prod.mk.injEq] at heq
    obtain ⟨rfl, rfl⟩ := heq
    exact ⟨q, hiq, fun e he => Or.inl he⟩

/-- the `for k in self.indices` loop pushing `di` on every queue -/
def pushAll (t : Todo) (indices : List Nat) (di : Nat) : Todo :=
  indices.foldl (fun t k => todoPush t k di) t

theorem pushAll_keys : ∀ (indices : List Nat) (t : Todo) (di : Nat), todoKeys (pushAll t indices di) = todoKeys t
  | [], _, _ => rfl
  | k :: ks, t, di => by
    show todoKeys (pushAll (todoPush t k di) ks di) = _
    rw [pushAll_keys ks, todoPush_keys]

theorem pushAll_total : ∀ (indices : List Nat) (t : Todo) (di : Nat), (todoKeys t).Nodup →
    todoTotal (pushAll t indices di) ≤ todoTotal t + indices.length
  | [], _, _, _ => by simp [pushAll]
  | k :: ks, t, di, h => by
    show todoTotal (pushAll (todoPush t k di) ks di) ≤ _
    have ih := pushAll_total ks (todoPush t k di) di (by rw [todoPush_keys]; exact h)
    have := todoPush_total t k di h
    simp only [List.length_cons]; omega

theorem pushAll_fwd : ∀ (indices : List Nat) (t : Todo) (di k' : Nat) (q : List Nat), (k', q) ∈ t →
    ∃ q', (k', q') ∈ pushAll t indices di ∧ (∀ e ∈ q, e ∈ q') ∧ (k' ∈ indices → di ∈ q')
  | [], t, di, k', q, hm => ⟨q, hm, fun _ he => he, fun h => by cases h⟩
  | k :: ks, t, di, k', q, hm => by
    obtain ⟨q1, hq1, hsub1, hdi1⟩ := todoPush_fwd t k di k' q hm
    obtain ⟨q2, hq2, hsub2, hdi2⟩ := pushAll_fwd ks (todoPush t k di) di k' q1 hq1
    refine ⟨q2, hq2, fun e he => hsub2 e (hsub1 e he), ?_⟩
    intro hk
    rcases List.mem_cons.1 hk with hk | hk
    · exact hsub2 di (hdi1 hk)
    · exact hdi2 hk

theorem pushAll_back : ∀ (indices : List Nat) (t : Todo) (di k' : Nat) (q' : List Nat),
    (k', q') ∈ pushAll t indices di → ∃ q, (k', q) ∈ t ∧ ∀ e ∈ q', e ∈ q ∨ e = di
  | [], t, di, k', q', hm => ⟨q', hm, fun _ he => Or.inl he⟩
  | k :: ks, t, di, k', q', hm => by
    obtain ⟨q1, hq1, hsub1⟩ := pushAll_back ks (todoPush t k di) di k' q' hm
    obtain ⟨q, hq, hsub⟩ := todoPush_back t k di k' q1 hq1
    refine ⟨q, hq, ?_⟩
    intro e he
    rcases hsub1 e he with h1 | h1
    · exact hsub e h1
    · exact Or.inr h1

/-! ### sorted duplicate-free insertion (`BTreeMap` keys, `BTreeSet`) -/

/-- one insertion step of `todoInit` / `sortDedup` -/
def insSorted (acc : List Nat) (i : Nat) : List Nat :=
  if acc.contains i then acc else (acc.filter (· < i)) ++ [i] ++ (acc.filter (· > i))

theorem mem_insSorted (acc : List Nat) (i x : Nat) : x ∈ insSorted acc i ↔ x ∈ acc ∨ x = i := by
  unfold insSorted
  by_cases h : acc.contains i = true
  · rw [if_pos h]
    have : i ∈ acc := by simpa using h
    constructor
    · exact Or.inl
    · rintro (h1 | h1)
      · exact h1
      · rw [h1]; exact this
  · rw [if_neg h]
    simp only [List.mem_append, List.mem_filter, decide_eq_true_eq, List.mem_singleton]
    constructor
    · rintro ((⟨h1, _⟩ | h1) | ⟨h1, _⟩)
      · exact Or.inl h1
      · exact Or.inr h1
      · exact Or.inl h1
    · rintro (h1 | h1)
      · rcases Nat.lt_trichotomy x i with h2 | h2 | h2
        · exact Or.inl (Or.inl ⟨h1, h2⟩)
        · exact Or.inl (Or.inr h2)
        · exact Or.inr ⟨h1, h2⟩
      · exact Or.inl (Or.inr h1)

theorem nodup_insSorted (acc : List Nat) (i : Nat) (h : acc.Nodup) : (insSorted acc i).Nodup := by
  unfold insSorted
  by_cases hc : acc.contains i = true
  · rw [if_pos hc]; exact h
  · rw [if_neg hc]
    rw [List.nodup_append, List.nodup_append]
    refine ⟨⟨h.filter _, List.nodup_singleton i, ?_⟩, h.filter _, ?_⟩
    · intro a ha b hb
      simp only [List.mem_filter, decide_eq_true_eq] at ha
      simp only [List.mem_singleton] at hb
      omega
    · intro a ha b hb
      simp only [List.mem_append, List.mem_filter, decide_eq_true_eq, List.mem_singleton] at ha hb
      omega

theorem sorted_insSorted (acc : List Nat) (i : Nat) (h : acc.Pairwise (· < ·)) :
    (insSorted acc i).Pairwise (· < ·) := by
  unfold insSorted
  by_cases hc : acc.contains i = true
  · rw [if_pos hc]; exact h
  · rw [if_neg hc]
    rw [List.pairwise_append, List.pairwise_append]
    refine ⟨⟨h.filter _, List.pairwise_singleton _ _, ?_⟩, h.filter _, ?_⟩
    · intro a ha b hb
      simp only [List.mem_filter, decide_eq_true_eq] at ha
      simp only [List.mem_singleton] at hb
      omega
    · intro a ha b hb
      simp only [List.mem_append, List.mem_filter, decide_eq_true_eq, List.mem_singleton] at ha hb
      omega

theorem foldl_insSorted_sorted (xs : List Nat) : ∀ acc : List Nat, acc.Pairwise (· < ·) →
    (xs.foldl insSorted acc).Pairwise (· < ·) := by
  induction xs with
  | nil => intro acc h; exact h
  | cons y ys ih => intro acc h; exact ih _ (sorted_insSorted acc y h)

theorem foldl_insSorted (xs : List Nat) : ∀ acc : List Nat, acc.Nodup →
    (xs.foldl insSorted acc).Nodup ∧ ∀ x, x ∈ xs.foldl insSorted acc ↔ x ∈ acc ∨ x ∈ xs := by
  induction xs with
  | nil => intro acc h; exact ⟨h, fun x => by simp⟩
  | cons y ys ih =>
    intro acc h
    obtain ⟨h1, h2⟩ := ih (insSorted acc y) (nodup_insSorted acc y h)
    refine ⟨h1, fun x => ?_⟩
    rw [List.foldl_cons, h2 x, mem_insSorted]
    simp only [List.mem_cons]
    constructor
    · rintro ((h3 | h3) | h3)
      · exact Or.inl h3
      · exact Or.inr (Or.inl h3)
      · exact Or.inr (Or.inr h3)
    · rintro (h3 | h3 | h3)
      · exact Or.inl (Or.inl h3)
      · exact Or.inl (Or.inr h3)
      · exact Or.inr h3

theorem todoInit_eq (indices : List Nat) : todoInit indices = (indices.foldl insSorted []).map (fun i => (i, [])) := rfl

theorem sortDedup_eq (xs : List Nat) : sortDedup xs = xs.foldl insSorted [] := rfl

theorem todoInit_keys (indices : List Nat) : todoKeys (todoInit indices) = indices.foldl insSorted [] := by
  rw [todoInit_eq]; unfold todoKeys; rw [List.map_map]; simp [Function.comp_def]

theorem todoInit_nodup (indices : List Nat) : (todoKeys (todoInit indices)).Nodup := by
  rw [todoInit_keys]; exact (foldl_insSorted indices [] List.nodup_nil).1

theorem todoInit_mem (indices : List Nat) (k : Nat) : k ∈ todoKeys (todoInit indices) ↔ k ∈ indices := by
  rw [todoInit_keys, (foldl_insSorted indices [] List.nodup_nil).2]; simp

theorem todoInit_empty (indices : List Nat) : ∀ p ∈ todoInit indices, p.2 = [] := by
  intro p hp
  rw [todoInit_eq] at hp
  obtain ⟨i, _, rfl⟩ := List.mem_map.1 hp
  rfl

theorem todoTotal_of_empty : ∀ t : Todo, (∀ p ∈ t, p.2 = []) → todoTotal t = 0
  | [], _ => rfl
  | p :: t, h => by
    rw [todoTotal_cons, h p (by simp), todoTotal_of_empty t (fun p' hp' => h p' (List.mem_cons_of_mem _ hp'))]
    rfl

theorem mem_sortDedup (xs : List Nat) (x : Nat) : x ∈ sortDedup xs ↔ x ∈ xs := by
  rw [sortDedup_eq, (foldl_insSorted xs [] List.nodup_nil).2]; simp

theorem sorted_sortDedup (xs : List Nat) : (sortDedup xs).Pairwise (· < ·) := by
  rw [sortDedup_eq]; exact foldl_insSorted_sorted xs [] List.Pairwise.nil

end DSymVerif.DS
