/-
Helper lemmas for property C09, part 34: the Spec's textbook presentation reads a graph `G` only at
in-range arguments (chambers `1..size`, indices `0..dim`, adjacent branching numbers `i < dim`).
Two graphs that agree there — the second one closed under its operations — have the same
textbook presentation (`textbook_congr`).
-/
import DSymVerif.Spec.C09

namespace DSymVerif.FGP
open DSymVerif DSymVerif.SpecC02 DSymVerif.SpecC09

/-- `g1` and `g2` agree on everything a complete symbol determines; `g2` is closed -/
structure GAgree (g1 g2 : G) : Prop where
  size : g1.size = g2.size
  dim : g1.dim = g2.dim
  op : ∀ i d, i ≤ g2.dim → 1 ≤ d → d ≤ g2.size → g1.op i d = g2.op i d
  v : ∀ i d, i < g2.dim → 1 ≤ d → d ≤ g2.size → g1.v i d = g2.v i d
  closed : ∀ i d, i ≤ g2.dim → 1 ≤ d → d ≤ g2.size → 1 ≤ g2.op i d ∧ g2.op i d ≤ g2.size

theorem foldl_congr_mem {α β : Type} (f g : β → α → β) : ∀ (l : List α) (a : β),
    (∀ b, ∀ x ∈ l, f b x = g b x) → l.foldl f a = l.foldl g a
  | [], _, _ => rfl
  | x :: l, a, h => by
    rw [List.foldl_cons, List.foldl_cons, h a x List.mem_cons_self]
    exact foldl_congr_mem f g l _ (fun b y hy => h b y (List.mem_cons_of_mem _ hy))

theorem flatMap_congr_mem {α β : Type} {f g : α → List β} : ∀ (l : List α),
    (∀ a ∈ l, f a = g a) → l.flatMap f = l.flatMap g
  | [], _ => rfl
  | x :: l, h => by
    rw [List.flatMap_cons, List.flatMap_cons, h x List.mem_cons_self,
      flatMap_congr_mem l (fun a ha => h a (List.mem_cons_of_mem _ ha))]

theorem mem_chambersG (g : G) (d : Nat) : d ∈ g.chambers ↔ 1 ≤ d ∧ d ≤ g.size := by
  unfold G.chambers
  simp only [List.mem_map, List.mem_range]
  constructor
  · rintro ⟨a, ha, rfl⟩; omega
  · intro h; exact ⟨d - 1, by omega, by omega⟩

theorem mem_indicesG (g : G) (i : Nat) : i ∈ g.indices ↔ i ≤ g.dim := by
  unfold G.indices; rw [List.mem_range]; omega

section
variable {g1 g2 : G} (h : GAgree g1 g2)
include h

theorem GAgree.chambers : g1.chambers = g2.chambers := by unfold G.chambers; rw [h.size]
theorem GAgree.indices : g1.indices = g2.indices := by unfold G.indices; rw [h.dim]

theorem orbitWalk_congr {i j d : Nat} (hi : i ≤ g2.dim) (hj : j ≤ g2.dim) :
    ∀ (fuel e : Nat) (acc : List Nat), 1 ≤ e → e ≤ g2.size →
      orbitWalk g1 i j d fuel e acc = orbitWalk g2 i j d fuel e acc
  | 0, _, _, _, _ => rfl
  | fuel + 1, e, acc, h1, h2 => by
    have r1 := h.closed i e hi h1 h2
    have r2 := h.closed j _ hj r1.1 r1.2
    simp only [orbitWalk]
    rw [h.op i e hi h1 h2, h.op j _ hj r1.1 r1.2]
    split
    · rfl
    · exact orbitWalk_congr hi hj fuel _ _ r2.1 r2.2

theorem orbitWordAux_congr (f : Nat → Nat → List Int) {i j d : Nat} (hi : i ≤ g2.dim)
    (hj : j ≤ g2.dim) :
    ∀ (fuel e : Nat) (acc : List Int), 1 ≤ e → e ≤ g2.size →
      orbitWordAux g1 f i j d fuel e acc = orbitWordAux g2 f i j d fuel e acc
  | 0, _, _, _, _ => rfl
  | fuel + 1, e, acc, h1, h2 => by
    have r1 := h.closed i e hi h1 h2
    have r2 := h.closed j _ hj r1.1 r1.2
    simp only [orbitWordAux]
    rw [h.op i e hi h1 h2, h.op j _ hj r1.1 r1.2]
    split
    · rfl
    · exact orbitWordAux_congr f hi hj fuel _ _ r2.1 r2.2

theorem orbitLenAux_congr {i j d : Nat} (hi : i ≤ g2.dim) (hj : j ≤ g2.dim) :
    ∀ (fuel e k : Nat), 1 ≤ e → e ≤ g2.size →
      G.orbitLenAux g1 i j d fuel e k = G.orbitLenAux g2 i j d fuel e k
  | 0, _, _, _, _ => rfl
  | fuel + 1, e, k, h1, h2 => by
    have r1 := h.closed i e hi h1 h2
    have r2 := h.closed j _ hj r1.1 r1.2
    simp only [G.orbitLenAux]
    rw [h.op i e hi h1 h2, h.op j _ hj r1.1 r1.2]
    split
    · rfl
    · split
      · rfl
      · split
        · rfl
        · exact orbitLenAux_congr hi hj fuel _ _ r2.1 r2.2

theorem vOf_congr {i j d : Nat} (hi : i ≤ g2.dim) (hj : j ≤ g2.dim) (h1 : 1 ≤ d) (h2 : d ≤ g2.size) :
    vOf g1 i j d = vOf g2 i j d := by
  unfold vOf G.vDef G.inRange G.orbitLen
  rw [h.dim, h.size]
  have hin : ((decide (i ≤ g2.dim) && decide (1 ≤ d) && decide (d ≤ g2.size)) &&
      decide (j ≤ g2.dim)) = true := by simp [hi, hj, h1, h2]
  rw [hin]
  simp only [Bool.not_true, Bool.false_eq_true, if_false]
  by_cases e1 : (i == j) = true
  · rw [if_pos e1, if_pos e1]
  · rw [if_neg e1, if_neg e1]
    by_cases e2 : (j == i + 1) = true
    · rw [if_pos e2, if_pos e2]
      have : j = i + 1 := by simpa using e2
      rw [h.v i d (by omega) h1 h2]
    · rw [if_neg e2, if_neg e2]
      by_cases e3 : (i == j + 1) = true
      · rw [if_pos e3, if_pos e3]
        have : i = j + 1 := by simpa using e3
        rw [h.v j d (by omega) h1 h2]
      · rw [if_neg e3, if_neg e3, orbitLenAux_congr h hi hj _ _ _ h1 h2]

theorem orbitReps_congr {i j : Nat} (hi : i ≤ g2.dim) (hj : j ≤ g2.dim) :
    orbitReps g1 i j = orbitReps g2 i j := by
  unfold orbitReps orbit2
  rw [h.chambers, h.size]
  apply List.filter_congr
  intro d hd
  obtain ⟨h1, h2⟩ := (mem_chambersG g2 d).1 hd
  rw [orbitWalk_congr h hi hj _ _ _ h1 h2]

/-- the body of the `for i` loop of the breadth-first search -/
def bfsStep (g : G) (d : Nat) (acc : Array Bool × List Nat × List (Nat × Nat)) (i : Nat) :
    Array Bool × List Nat × List (Nat × Nat) :=
  let e := g.op i d
  if e == 0 || acc.1.getD e true then acc
  else (acc.1.setIfInBounds e true, acc.2.1 ++ [e], acc.2.2 ++ [(d, i)])

omit h in
theorem bfsLoop_succ (g : G) (fuel d : Nat) (queue : List Nat) (seen : Array Bool)
    (tree : List (Nat × Nat)) :
    bfsLoop g (fuel + 1) (d :: queue) seen tree =
      bfsLoop g fuel (g.indices.foldl (bfsStep g d) (seen, queue, tree)).2.1
        (g.indices.foldl (bfsStep g d) (seen, queue, tree)).1
        (g.indices.foldl (bfsStep g d) (seen, queue, tree)).2.2 := by
  rw [bfsLoop]
  rfl

omit h in
theorem bfsFold_range {g : G} {d : Nat}
    (hcl : ∀ i, i ≤ g.dim → 1 ≤ g.op i d ∧ g.op i d ≤ g.size) :
    ∀ (l : List Nat) (acc : Array Bool × List Nat × List (Nat × Nat)), (∀ i ∈ l, i ≤ g.dim) →
      (∀ x ∈ acc.2.1, 1 ≤ x ∧ x ≤ g.size) →
      ∀ x ∈ (l.foldl (bfsStep g d) acc).2.1, 1 ≤ x ∧ x ≤ g.size
  | [], _, _, ha => ha
  | i :: l, acc, hl, ha => by
    rw [List.foldl_cons]
    apply bfsFold_range hcl l _ (fun i' hi' => hl i' (List.mem_cons_of_mem _ hi'))
    unfold bfsStep
    simp only
    split
    · exact ha
    · intro x hx
      rcases List.mem_append.1 hx with hx | hx
      · exact ha x hx
      · simp only [List.mem_singleton] at hx
        rw [hx]; exact hcl i (hl i List.mem_cons_self)

theorem bfsLoop_congr : ∀ (fuel : Nat) (queue : List Nat) (seen : Array Bool)
    (tree : List (Nat × Nat)), (∀ x ∈ queue, 1 ≤ x ∧ x ≤ g2.size) →
    bfsLoop g1 fuel queue seen tree = bfsLoop g2 fuel queue seen tree
  | 0, _, _, _, _ => by simp [bfsLoop]
  | fuel + 1, [], _, _, _ => by simp [bfsLoop]
  | fuel + 1, d :: queue, seen, tree, hq => by
    obtain ⟨h1, h2⟩ := hq d List.mem_cons_self
    have hfold : g1.indices.foldl (bfsStep g1 d) (seen, queue, tree) =
        g2.indices.foldl (bfsStep g2 d) (seen, queue, tree) := by
      rw [h.indices]
      apply foldl_congr_mem
      intro b i hi
      unfold bfsStep
      rw [h.op i d ((mem_indicesG g2 i).1 hi) h1 h2]
    rw [bfsLoop_succ, bfsLoop_succ, hfold]
    apply bfsLoop_congr fuel
    exact bfsFold_range (fun i hi => h.closed i d hi h1 h2) _ _
      (fun i hi => (mem_indicesG g2 i).1 hi)
      (fun x hx => hq x (List.mem_cons_of_mem _ hx))

theorem spanTree_congr (hsize : 1 ≤ g2.size) : spanTree g1 = spanTree g2 := by
  unfold spanTree
  rw [h.size, bfsLoop_congr h]
  intro x hx
  simp only [List.mem_singleton] at hx
  rw [hx]; exact ⟨Nat.le_refl _, hsize⟩

theorem genOf_congr (d i : Nat) : genOf g1 d i = genOf g2 d i := by
  unfold genOf; rw [h.dim]

/-- **the Spec's textbook presentation depends only on the in-range entries of the graph** -/
theorem textbook_congr (hsize : 1 ≤ g2.size) : textbook g1 = textbook g2 := by
  have hf : (fun d i => [genOf g1 d i]) = (fun d i => [genOf g2 d i]) := by
    funext d i; rw [genOf_congr h]
  unfold textbook
  simp only
  rw [h.size, h.dim, spanTree_congr h hsize, hf]
  have htree : (spanTree g2).map (fun x : Nat × Nat => [genOf g1 x.1 x.2]) =
      (spanTree g2).map (fun x : Nat × Nat => [genOf g2 x.1 x.2]) := by
    apply List.map_congr_left
    intro x _
    rw [genOf_congr h]
  have hpair : (g1.chambers.flatMap fun d => (g1.indices.filter fun i => d ≤ g1.op i d).map fun i =>
        [genOf g1 d i, genOf g1 (g1.op i d) i]) =
      (g2.chambers.flatMap fun d => (g2.indices.filter fun i => d ≤ g2.op i d).map fun i =>
        [genOf g2 d i, genOf g2 (g2.op i d) i]) := by
    rw [h.chambers, h.indices]
    apply flatMap_congr_mem
    intro d hd
    obtain ⟨h1, h2⟩ := (mem_chambersG g2 d).1 hd
    have hfil : (g2.indices.filter fun i => d ≤ g1.op i d) =
        (g2.indices.filter fun i => d ≤ g2.op i d) := by
      apply List.filter_congr
      intro i hi
      rw [h.op i d ((mem_indicesG g2 i).1 hi) h1 h2]
    rw [hfil]
    apply List.map_congr_left
    intro i hi
    have hi' := (mem_indicesG g2 i).1 (List.mem_filter.1 hi).1
    rw [h.op i d hi' h1 h2, genOf_congr h, genOf_congr h]
  have hip : indexPairs g1 = indexPairs g2 := by unfold indexPairs; rw [h.indices]
  have horb : ((indexPairs g1).flatMap fun (p : Nat × Nat) =>
        (orbitReps g1 p.1 p.2).map fun d =>
          pow (orbitWord g1 (fun d i => [genOf g2 d i]) p.1 p.2 d) (vOf g1 p.1 p.2 d)) =
      ((indexPairs g2).flatMap fun (p : Nat × Nat) =>
        (orbitReps g2 p.1 p.2).map fun d =>
          pow (orbitWord g2 (fun d i => [genOf g2 d i]) p.1 p.2 d) (vOf g2 p.1 p.2 d)) := by
    rw [hip]
    apply flatMap_congr_mem
    rintro ⟨i, j⟩ hp
    have hij : i ≤ g2.dim ∧ j ≤ g2.dim := by
      unfold indexPairs at hp
      simp only [List.mem_flatMap, List.mem_map, List.mem_filter, Prod.mk.injEq] at hp
      obtain ⟨a, ha, b, ⟨hb, _⟩, rfl, rfl⟩ := hp
      exact ⟨(mem_indicesG g2 _).1 ha, (mem_indicesG g2 _).1 hb⟩
    simp only
    rw [orbitReps_congr h hij.1 hij.2]
    apply List.map_congr_left
    intro d hd
    have hd' : d ∈ g2.chambers := by
      unfold orbitReps at hd
      exact (List.mem_filter.1 hd).1
    obtain ⟨h1, h2⟩ := (mem_chambersG g2 d).1 hd'
    unfold orbitWord
    rw [h.size, orbitWordAux_congr h _ hij.1 hij.2 _ _ _ h1 h2, vOf_congr h hij.1 hij.2 h1 h2]
  first
    | rw [htree, hpair, horb]
    | (simp only [htree, hpair]; exact congrArg _ (congrArg _ horb))

end

end DSymVerif.FGP
