/-
Lemmas for property C07, phase 2, part 9: the generator's private `is_weakly_oriented` (a
breadth-first 2-colouring from chamber 1) is the trait's `is_weakly_oriented()`.  On a connected
complete D-set the loop terminates within its fuel without panic, and answers `true` exactly when
the chamber graph without loops is bipartite — which is what C02 proves of the trait method.
-/
import DSymVerif.Proofs.DSymGenAut
import DSymVerif.Proofs.DSetOrient

namespace DSymVerif.SymGen
open DSymVerif.DS DSymVerif.Mor

/-- number of chambers without a sign -/
def zerosOf (n : Nat) (sgn : Array Int) : Nat :=
  ((List.range n).filter fun x0 => sgn.getD (x0 + 1) 0 = 0).length

theorem getD_set_int (a : Array Int) (p x : Nat) (v : Int) (hp : p < a.size) :
    (a.setIfInBounds p v).getD x 0 = if x = p then v else a.getD x 0 := by
  by_cases h : x = p
  · subst h; rw [if_pos rfl]; exact getD_setIfInBounds_self a x v 0 hp
  · rw [if_neg h]; exact getD_setIfInBounds_ne a p x v 0 (fun e => h e.symm)

theorem zerosOf_set (n : Nat) (sgn : Array Int) (p : Nat) (v : Int) (hp1 : 1 ≤ p) (hp2 : p ≤ n)
    (hsz : sgn.size = n + 1) (hz : sgn.getD p 0 = 0) (hv : v ≠ 0) :
    zerosOf n (sgn.setIfInBounds p v) + 1 = zerosOf n sgn := by
  unfold zerosOf
  have key : ∀ m, m ≤ n →
      ((List.range m).filter fun x0 => (sgn.setIfInBounds p v).getD (x0 + 1) 0 = 0).length +
        (if p ≤ m then 1 else 0) =
      ((List.range m).filter fun x0 => sgn.getD (x0 + 1) 0 = 0).length := by
    intro m
    induction m with
    | zero => intro _; rw [if_neg (by omega)]; rfl
    | succ m ih =>
      intro hm
      have ih' := ih (by omega)
      rw [List.range_succ, List.filter_append, List.filter_append, List.length_append, List.length_append]
      simp only [List.filter_cons, List.filter_nil]
      rw [getD_set_int sgn p (m + 1) v (by omega)]
      by_cases hpm : m + 1 = p
      · rw [if_pos hpm, hpm, hz]
        simp only [decide_eq_true_eq, hv, if_false, if_true, List.length_nil, List.length_cons]
        rw [if_pos (Nat.le_refl _)]
        rw [if_neg (by omega)] at ih'
        omega
      · rw [if_neg hpm]
        by_cases hz' : sgn.getD (m + 1) 0 = 0
        · simp only [hz', decide_true, if_true, List.length_cons, List.length_nil]
          by_cases hle : p ≤ m
          · rw [if_pos hle] at ih'; rw [if_pos (by omega)]; omega
          · rw [if_neg hle] at ih'; rw [if_neg (by omega)]; omega
        · simp only [hz', decide_false, Bool.false_eq_true, if_false, List.length_nil]
          by_cases hle : p ≤ m
          · rw [if_pos hle] at ih'; rw [if_pos (by omega)]; omega
          · rw [if_neg hle] at ih'; rw [if_neg (by omega)]; omega
  have := key n (Nat.le_refl _)
  rw [if_pos hp2] at this
  exact this

/-! ### the state of the loop -/

/-- signs are 0, 1 or −1; chambers with a sign are queued or processed; around a processed chamber
    every non-loop neighbour carries the opposite sign -/
structure WoInv (ds : DSetData) (q : List Nat) (sgn : Array Int) (Done : Nat → Prop) : Prop where
  sz : sgn.size = ds.size + 1
  val : ∀ x, sgn.getD x 0 = 0 ∨ sgn.getD x 0 = 1 ∨ sgn.getD x 0 = -1
  one : sgn.getD 1 0 ≠ 0
  qr : ∀ x, x ∈ q → 1 ≤ x ∧ x ≤ ds.size ∧ sgn.getD x 0 ≠ 0
  nz : ∀ x, 1 ≤ x → x ≤ ds.size → sgn.getD x 0 ≠ 0 → x ∈ q ∨ Done x
  dn : ∀ x, Done x → 1 ≤ x ∧ x ≤ ds.size ∧ sgn.getD x 0 ≠ 0 ∧
    ∀ i, i ≤ ds.dim → ds.opU i x = x ∨ sgn.getD (ds.opU i x) 0 = -sgn.getD x 0

/-- the signs assigned so far follow the colouring -/
def Follows (ds : DSetData) (col : Nat → Int) (sgn : Array Int) : Prop :=
  ∀ x, 1 ≤ x → x ≤ ds.size → sgn.getD x 0 ≠ 0 → sgn.getD x 0 = col x

/-- a proper colouring of the non-loop edges with values ±1 and `col 1 = 1` -/
structure IsCol (ds : DSetData) (col : Nat → Int) : Prop where
  val : ∀ x, col x = 1 ∨ col x = -1
  one : col 1 = 1
  edge : ∀ i x, i ≤ ds.dim → 1 ≤ x → x ≤ ds.size → ds.opU i x ≠ x → col (ds.opU i x) = -col x

/-! ### the inner loop -/

/-- result of the `for i` loop for the dequeued chamber `d` over the indices `is` -/
theorem woInner_spec {ds : DSetData} (h : ValidSet ds) {d : Nat} (hd : 1 ≤ d ∧ d ≤ ds.size) :
    ∀ (is : List Nat) (q : List Nat) (sgn : Array Int), (∀ i, i ∈ is → i ≤ ds.dim) →
      sgn.size = ds.size + 1 → sgn.getD d 0 ≠ 0 →
      (∀ x, sgn.getD x 0 = 0 ∨ sgn.getD x 0 = 1 ∨ sgn.getD x 0 = -1) →
      (woInner ds d is q sgn = .ok none ∧
        ∃ i, i ∈ is ∧ ds.opU i d ≠ d ∧ ∃ sgn' : Array Int,
          (∀ x, sgn.getD x 0 ≠ 0 → sgn'.getD x 0 = sgn.getD x 0) ∧
          (∀ x, sgn'.getD x 0 ≠ 0 → sgn.getD x 0 ≠ 0 ∨ sgn'.getD x 0 = -sgn.getD d 0) ∧
          sgn'.getD (ds.opU i d) 0 ≠ 0 ∧ sgn'.getD (ds.opU i d) 0 ≠ -sgn.getD d 0) ∨
      (∃ new sgn', woInner ds d is q sgn = .ok (some (q ++ new, sgn')) ∧
        sgn'.size = ds.size + 1 ∧
        (∀ x, sgn'.getD x 0 = 0 ∨ sgn'.getD x 0 = 1 ∨ sgn'.getD x 0 = -1) ∧
        (∀ x, sgn.getD x 0 ≠ 0 → sgn'.getD x 0 = sgn.getD x 0) ∧
        (∀ x, sgn'.getD x 0 ≠ 0 → sgn.getD x 0 ≠ 0 ∨ (x ∈ new ∧ sgn'.getD x 0 = -sgn.getD d 0)) ∧
        (∀ x, x ∈ new → 1 ≤ x ∧ x ≤ ds.size ∧ sgn'.getD x 0 ≠ 0) ∧
        zerosOf ds.size sgn' + new.length = zerosOf ds.size sgn ∧
        (∀ i, i ∈ is → ds.opU i d = d ∨ sgn'.getD (ds.opU i d) 0 = -sgn.getD d 0)) := by
  intro is
  induction is with
  | nil =>
    intro q sgn _ hsz _ hval
    right
    refine ⟨[], sgn, by simp [woInner], hsz, hval, fun _ _ => rfl, fun x hx => Or.inl hx, ?_, by simp, ?_⟩
    · intro x hx; cases hx
    · intro i hi; cases hi
  | cons i is ih =>
    intro q sgn his hsz hdn hval
    have hi : i ≤ ds.dim := his i (by simp)
    have his' : ∀ j, j ∈ is → j ≤ ds.dim := fun j hj => his j (by simp [hj])
    have hr := h.range i d hi hd.1 hd.2
    have hop : ds.opSimple i d = some (ds.opU i d) := opSimple_of_range (t := ds) hi hd.1 hd.2
    have hg1 : sgn[ds.opU i d]? = some (sgn.getD (ds.opU i d) 0) :=
      getElem?_eq_some_getD sgn _ 0 (by omega)
    have hg2 : sgn[d]? = some (sgn.getD d 0) := getElem?_eq_some_getD sgn _ 0 (by omega)
    simp only [woInner, hop, hg1, hg2]
    by_cases hz : sgn.getD (ds.opU i d) 0 = 0
    · -- assign the opposite sign and queue
      rw [if_pos hz]
      have hne : ds.opU i d ≠ d := by intro e; rw [e] at hz; exact hdn hz
      have hsd : -sgn.getD d 0 ≠ 0 := by omega
      have hg : ∀ x, (sgn.setIfInBounds (ds.opU i d) (-sgn.getD d 0)).getD x 0 =
          if x = ds.opU i d then -sgn.getD d 0 else sgn.getD x 0 :=
        fun x => getD_set_int sgn _ x _ (by omega)
      have hdn' : (sgn.setIfInBounds (ds.opU i d) (-sgn.getD d 0)).getD d 0 = sgn.getD d 0 := by
        rw [hg d, if_neg (fun e => hne e.symm)]
      have hval' : ∀ x, (sgn.setIfInBounds (ds.opU i d) (-sgn.getD d 0)).getD x 0 = 0 ∨
          (sgn.setIfInBounds (ds.opU i d) (-sgn.getD d 0)).getD x 0 = 1 ∨
          (sgn.setIfInBounds (ds.opU i d) (-sgn.getD d 0)).getD x 0 = -1 := by
        intro x
        rw [hg x]
        by_cases hx : x = ds.opU i d
        · rw [if_pos hx]
          rcases hval d with e | e | e
          · exact absurd e hdn
          · right; right; rw [e]
          · right; left; rw [e]; rfl
        · rw [if_neg hx]; exact hval x
      rcases ih (q ++ [ds.opU i d]) _ his' (by simp [hsz]) (by rw [hdn']; exact hdn) hval' with
        ⟨e, j, hj, hjd, sgn', p1, p2, p3, p4⟩ | ⟨new, sgn', e, s1, s2, s3, s4, s5, s6, s7⟩
      · left
        rw [hdn'] at p2 p4
        refine ⟨e, j, by simp [hj], hjd, sgn', fun x hx => ?_, fun x hx => ?_, p3, p4⟩
        · rw [p1 x (by rw [hg x]; split <;> assumption), hg x]
          rw [if_neg (by intro ex; rw [ex] at hx; exact hx hz)]
        · rcases p2 x hx with hh | hh
          · rw [hg x] at hh
            by_cases hx' : x = ds.opU i d
            · right
              have := p1 x (by rw [hg x, if_pos hx']; exact hsd)
              rw [this, hg x, if_pos hx']
            · rw [if_neg hx'] at hh; exact Or.inl hh
          · exact Or.inr hh
      · right
        rw [hdn'] at s4 s7
        refine ⟨ds.opU i d :: new, sgn', by rw [e]; simp, s1, s2, fun x hx => ?_, fun x hx => ?_,
          fun x hx => ?_, ?_, fun j hj => ?_⟩
        · rw [s3 x (by rw [hg x]; split <;> assumption), hg x]
          rw [if_neg (by intro ex; rw [ex] at hx; exact hx hz)]
        · rcases s4 x hx with hh | ⟨hh1, hh2⟩
          · rw [hg x] at hh
            by_cases hx' : x = ds.opU i d
            · right
              refine ⟨by rw [hx']; simp, ?_⟩
              have := s3 x (by rw [hg x, if_pos hx']; exact hsd)
              rw [this, hg x, if_pos hx']
            · rw [if_neg hx'] at hh; exact Or.inl hh
          · exact Or.inr ⟨by simp [hh1], hh2⟩
        · rcases List.mem_cons.mp hx with rfl | hx'
          · refine ⟨hr.1, hr.2, ?_⟩
            rw [s3 _ (by rw [hg _, if_pos rfl]; exact hsd), hg _, if_pos rfl]
            exact hsd
          · exact s5 x hx'
        · have := zerosOf_set ds.size sgn (ds.opU i d) (-sgn.getD d 0) hr.1 hr.2 hsz hz hsd
          simp only [List.length_cons]
          omega
        · rcases List.mem_cons.mp hj with rfl | hj'
          · right
            rw [s3 _ (by rw [hg _, if_pos rfl]; exact hsd), hg _, if_pos rfl]
          · exact s7 j hj'
    · rw [if_neg hz]
      by_cases hconf : ds.opU i d ≠ d ∧ sgn.getD (ds.opU i d) 0 ≠ -sgn.getD d 0
      · rw [if_pos hconf]
        left
        exact ⟨rfl, i, by simp, hconf.1, sgn, fun _ _ => rfl, fun x hx => Or.inl hx, hz, hconf.2⟩
      · rw [if_neg hconf]
        have hedge : ds.opU i d = d ∨ sgn.getD (ds.opU i d) 0 = -sgn.getD d 0 := by
          by_cases e : ds.opU i d = d
          · exact Or.inl e
          · right; by_contra hne; exact hconf ⟨e, hne⟩
        rcases ih q sgn his' hsz hdn hval with
          ⟨e, j, hj, hjd, sgn', p1, p2, p3, p4⟩ | ⟨new, sgn', e, s1, s2, s3, s4, s5, s6, s7⟩
        · left
          exact ⟨e, j, by simp [hj], hjd, sgn', p1, p2, p3, p4⟩
        · right
          refine ⟨new, sgn', e, s1, s2, s3, s4, s5, s6, fun j hj => ?_⟩
          rcases List.mem_cons.mp hj with rfl | hj'
          · rcases hedge with e' | e'
            · exact Or.inl e'
            · right; rw [s3 _ hz, e']
          · exact s7 j hj'

/-! ### the outer loop -/

theorem woLoop_spec {ds : DSetData} (h : ValidSet ds) :
    ∀ (fuel : Nat) (q : List Nat) (sgn : Array Int) (Done : Nat → Prop), WoInv ds q sgn Done →
      zerosOf ds.size sgn + q.length + 1 ≤ fuel →
      (woLoop ds fuel q sgn = .ok true ∧
        ∃ sgn' Done', WoInv ds [] sgn' Done') ∨
      (woLoop ds fuel q sgn = .ok false ∧ ∀ col, IsCol ds col → ¬ Follows ds col sgn) := by
  intro fuel
  induction fuel with
  | zero => intro q sgn Done _ hf; omega
  | succ fuel ih =>
    intro q sgn Done inv hf
    cases q with
    | nil =>
      left
      exact ⟨by simp [woLoop], sgn, Done, inv⟩
    | cons d q =>
      obtain ⟨hd1, hd2, hdn⟩ := inv.qr d (by simp)
      simp only [woLoop]
      rcases woInner_spec h ⟨hd1, hd2⟩ (List.range (ds.dim + 1)) q sgn
          (fun i hi => by have := List.mem_range.mp hi; omega) inv.sz hdn inv.val with
        ⟨e, i, hi, hid, sgn', p1, p2, p3, p4⟩ | ⟨new, sgn', e, s1, s2, s3, s4, s5, s6, s7⟩
      · -- conflict: no colouring follows the signs
        right
        rw [e]
        refine ⟨rfl, fun col hcol hfol => ?_⟩
        have hi' : i ≤ ds.dim := by have := List.mem_range.mp hi; omega
        have hr := h.range i d hi' hd1 hd2
        -- sgn' follows col as well
        have hfol' : ∀ x, 1 ≤ x → x ≤ ds.size → sgn'.getD x 0 ≠ 0 →
            sgn.getD x 0 ≠ 0 → sgn'.getD x 0 = col x := by
          intro x hx1 hx2 _ hx
          rw [p1 x hx]; exact hfol x hx1 hx2 hx
        have hcd := hfol d hd1 hd2 hdn
        have hedge := hcol.edge i d hi' hd1 hd2 hid
        rcases p2 _ p3 with hh | hh
        · have := hfol' _ hr.1 hr.2 p3 hh
          rw [this, hedge, ← hcd] at p4
          exact p4 rfl
        · exact p4 hh
      · rw [e]
        simp only
        -- the new invariant: d is processed
        have inv' : WoInv ds (q ++ new) sgn' (fun x => Done x ∨ x = d) := by
          refine ⟨s1, s2, by rw [s3 1 inv.one]; exact inv.one, fun x hx => ?_, fun x hx1 hx2 hx => ?_,
            fun x hx => ?_⟩
          · rcases List.mem_append.mp hx with hq | hn
            · obtain ⟨a, b, c⟩ := inv.qr x (by simp [hq])
              exact ⟨a, b, by rw [s3 x c]; exact c⟩
            · exact s5 x hn
          · rcases s4 x hx with hold | ⟨hn, _⟩
            · rcases inv.nz x hx1 hx2 hold with hq | hdone
              · rcases List.mem_cons.mp hq with rfl | hq'
                · exact Or.inr (Or.inr rfl)
                · exact Or.inl (by simp [hq'])
              · exact Or.inr (Or.inl hdone)
            · exact Or.inl (by simp [hn])
          · rcases hx with hdone | rfl
            · obtain ⟨a, b, c, e'⟩ := inv.dn x hdone
              refine ⟨a, b, by rw [s3 x c]; exact c, fun i hi => ?_⟩
              rcases e' i hi with l | r
              · exact Or.inl l
              · right
                have hne : sgn.getD (ds.opU i x) 0 ≠ 0 := by rw [r]; omega
                rw [s3 _ hne, s3 x c, r]
            · refine ⟨hd1, hd2, by rw [s3 x hdn]; exact hdn, fun i hi => ?_⟩
              rw [s3 x hdn]
              exact s7 i (List.mem_range.mpr (by omega))
        have hf' : zerosOf ds.size sgn' + (q ++ new).length + 1 ≤ fuel := by
          simp only [List.length_append, List.length_cons] at hf ⊢
          omega
        rcases ih (q ++ new) sgn' _ inv' hf' with ⟨r1, r2⟩ | ⟨r1, r2⟩
        · exact Or.inl ⟨r1, r2⟩
        · right
          refine ⟨r1, fun col hcol hfol => r2 col hcol ?_⟩
          -- sgn' follows col
          intro x hx1 hx2 hx
          rcases s4 x hx with hold | ⟨hn, hv⟩
          · rw [s3 x hold]; exact hfol x hx1 hx2 hold
          · -- x is a neighbour of d that got the opposite sign
            by_cases hold : sgn.getD x 0 ≠ 0
            · rw [s3 x hold]; exact hfol x hx1 hx2 hold
            · rw [hv, hfol d hd1 hd2 hdn]
              -- x = op i d for some i: read it off s7 is not possible directly; use s4's witness
              have hxd : x ≠ d := by intro e'; rw [e'] at hold; exact hold hdn
              -- every new chamber is a neighbour: recover the index from the edge condition
              have : ∃ i, i ≤ ds.dim ∧ ds.opU i d = x := by
                by_contra hno
                exact new_is_neighbour h ⟨hd1, hd2⟩ (List.range (ds.dim + 1)) q sgn
                  (fun i hi => by have := List.mem_range.mp hi; omega) inv.sz hdn inv.val e x hn
                  (fun i hi hx' => hno ⟨i, by have := List.mem_range.mp hi; omega, hx'⟩)
              obtain ⟨i, hi, hix⟩ := this
              have := hcol.edge i d hi hd1 hd2 (by rw [hix]; exact hxd)
              rw [hix] at this
              exact this.symm
where
  /-- every chamber queued by the inner loop is a neighbour of `d` -/
  new_is_neighbour {ds : DSetData} (h : ValidSet ds) {d : Nat} (hd : 1 ≤ d ∧ d ≤ ds.size) :
      ∀ (is : List Nat) (q : List Nat) (sgn : Array Int), (∀ i, i ∈ is → i ≤ ds.dim) →
        sgn.size = ds.size + 1 → sgn.getD d 0 ≠ 0 →
        (∀ x, sgn.getD x 0 = 0 ∨ sgn.getD x 0 = 1 ∨ sgn.getD x 0 = -1) →
        ∀ {new : List Nat} {sgn' : Array Int}, woInner ds d is q sgn = .ok (some (q ++ new, sgn')) →
          ∀ x, x ∈ new → (∀ i, i ∈ is → ds.opU i d ≠ x) → False := by
    intro is
    induction is with
    | nil =>
      intro q sgn _ _ _ _ new sgn' e x hx _
      simp only [woInner, Outcome.ok.injEq, Option.some.injEq, Prod.mk.injEq] at e
      have : new = [] := List.self_eq_append_right.mp e.1
      rw [this] at hx; cases hx
    | cons i is ih =>
      intro q sgn his hsz hdn hval new sgn' e x hx hno
      have hi : i ≤ ds.dim := his i (by simp)
      have his' : ∀ j, j ∈ is → j ≤ ds.dim := fun j hj => his j (by simp [hj])
      have hr := h.range i d hi hd.1 hd.2
      have hop : ds.opSimple i d = some (ds.opU i d) := opSimple_of_range (t := ds) hi hd.1 hd.2
      have hg1 : sgn[ds.opU i d]? = some (sgn.getD (ds.opU i d) 0) :=
        getElem?_eq_some_getD sgn _ 0 (by omega)
      have hg2 : sgn[d]? = some (sgn.getD d 0) := getElem?_eq_some_getD sgn _ 0 (by omega)
      simp only [woInner, hop, hg1, hg2] at e
      by_cases hz : sgn.getD (ds.opU i d) 0 = 0
      · rw [if_pos hz] at e
        have hne : ds.opU i d ≠ d := by intro e'; rw [e'] at hz; exact hdn hz
        have hg : ∀ x, (sgn.setIfInBounds (ds.opU i d) (-sgn.getD d 0)).getD x 0 =
            if x = ds.opU i d then -sgn.getD d 0 else sgn.getD x 0 :=
          fun x => getD_set_int sgn _ x _ (by omega)
        have hdn' : (sgn.setIfInBounds (ds.opU i d) (-sgn.getD d 0)).getD d 0 ≠ 0 := by
          rw [hg d, if_neg (fun e' => hne e'.symm)]; exact hdn
        have hval' : ∀ x, (sgn.setIfInBounds (ds.opU i d) (-sgn.getD d 0)).getD x 0 = 0 ∨
            (sgn.setIfInBounds (ds.opU i d) (-sgn.getD d 0)).getD x 0 = 1 ∨
            (sgn.setIfInBounds (ds.opU i d) (-sgn.getD d 0)).getD x 0 = -1 := by
          intro x
          rw [hg x]
          by_cases hx' : x = ds.opU i d
          · rw [if_pos hx']
            rcases hval d with e' | e' | e'
            · exact absurd e' hdn
            · right; right; rw [e']
            · right; left; rw [e']; rfl
          · rw [if_neg hx']; exact hval x
        -- the recursive call queues `q ++ [op i d] ++ new'`
        rcases woInner_spec h hd is (q ++ [ds.opU i d]) _ his' (by simp [hsz]) hdn' hval' with
          ⟨e', _⟩ | ⟨new', sgn'', e', _⟩
        · rw [e'] at e; cases e
        · rw [e'] at e
          simp only [Outcome.ok.injEq, Option.some.injEq, Prod.mk.injEq] at e
          have hnew : new = ds.opU i d :: new' := by
            have := e.1
            rw [List.append_assoc] at this
            exact (List.append_cancel_left this).symm
          rw [hnew] at hx
          rcases List.mem_cons.mp hx with rfl | hx'
          · exact hno i (by simp) rfl
          · exact ih (q ++ [ds.opU i d]) _ his' (by simp [hsz]) hdn' hval' e' x hx'
              (fun j hj => hno j (by simp [hj]))
      · rw [if_neg hz] at e
        by_cases hconf : ds.opU i d ≠ d ∧ sgn.getD (ds.opU i d) 0 ≠ -sgn.getD d 0
        · rw [if_pos hconf] at e; cases e
        · rw [if_neg hconf] at e
          exact ih q sgn his' hsz hdn hval e x hx (fun j hj => hno j (by simp [hj]))

theorem zerosOf_le (n : Nat) (sgn : Array Int) : zerosOf n sgn ≤ n := by
  unfold zerosOf
  exact (List.length_filter_le _ _).trans (by simp)

/-- **the private `is_weakly_oriented` is the trait's `is_weakly_oriented()`** on every connected
    complete D-set: no panic, fuel suffices, same answer -/
theorem isWeaklyOriented_private {ds : DSetData} (h : ValidSet ds)
    (hc : ds.viewSimple.isConnected = true) (h1 : 1 ≤ ds.size) :
    isWeaklyOriented ds = .ok ds.viewSimple.isWeaklyOriented := by
  have hbip := DSymVerif.DS.isWeaklyOriented_iff h.pinvol
  have hconn := mvSimple_connected h hc
  unfold isWeaklyOriented
  simp only
  rw [if_pos (by simp; omega)]
  -- the initial state
  have hsz0 : ((Array.replicate (ds.size + 1) (0 : Int)).setIfInBounds 1 1).size = ds.size + 1 := by simp
  have hg0 : ∀ x, ((Array.replicate (ds.size + 1) (0 : Int)).setIfInBounds 1 1).getD x 0 =
      if x = 1 then 1 else 0 := by
    intro x
    rw [getD_set_int _ 1 x 1 (by simp; omega)]
    by_cases hx : x = 1
    · rw [if_pos hx, if_pos hx]
    · rw [if_neg hx, if_neg hx]
      simp [Array.getD_eq_getD_getElem?, Array.getElem?_replicate]
      split <;> rfl
  have inv0 : WoInv ds [1] ((Array.replicate (ds.size + 1) (0 : Int)).setIfInBounds 1 1) (fun _ => False) := by
    refine ⟨hsz0, fun x => ?_, by rw [hg0 1, if_pos rfl]; decide, fun x hx => ?_, fun x _ _ hx => ?_,
      fun x hx => hx.elim⟩
    · rw [hg0 x]; split
      · exact Or.inr (Or.inl rfl)
      · exact Or.inl rfl
    · rw [List.mem_singleton.mp hx, hg0 1, if_pos rfl]
      exact ⟨Nat.le_refl _, h1, by decide⟩
    · rw [hg0 x] at hx
      by_cases hx1 : x = 1
      · left; rw [hx1]; simp
      · rw [if_neg hx1] at hx; exact absurd rfl hx
  have hfuel : zerosOf ds.size ((Array.replicate (ds.size + 1) (0 : Int)).setIfInBounds 1 1) +
      [1].length + 1 ≤ ds.size + 2 := by
    have := zerosOf_le ds.size ((Array.replicate (ds.size + 1) (0 : Int)).setIfInBounds 1 1)
    simp only [List.length_singleton]
    omega
  rcases woLoop_spec h (ds.size + 2) [1] _ _ inv0 hfuel with ⟨r1, sgn', Done', inv'⟩ | ⟨r1, r2⟩
  · rw [r1]
    -- all chambers carry a sign and are processed
    have hall : ∀ d, 1 ≤ d → d ≤ ds.size → sgn'.getD d 0 ≠ 0 ∧ Done' d := by
      apply hconn (fun d => sgn'.getD d 0 ≠ 0 ∧ Done' d)
      · have := inv'.nz 1 (Nat.le_refl _) h1 inv'.one
        rcases this with hq | hd
        · cases hq
        · exact ⟨inv'.one, hd⟩
      · intro d i di hd1 hd2 hi ⟨hnz, hdone⟩ hop
        obtain ⟨_, _, _, rfl⟩ := opSimple_some (t := ds) hop
        obtain ⟨_, _, _, hedge⟩ := inv'.dn d hdone
        have hr := h.range i d hi hd1 hd2
        have hne : sgn'.getD (ds.opU i d) 0 ≠ 0 := by
          rcases hedge i hi with e | e
          · rw [e]; exact hnz
          · rw [e]; omega
        rcases inv'.nz _ hr.1 hr.2 hne with hq | hd'
        · cases hq
        · exact ⟨hne, hd'⟩
    have : ds.viewSimple.isWeaklyOriented = true := by
      rw [hbip]
      refine ⟨fun x => decide (sgn'.getD x 0 = 1), fun i d e hi hd1 hd2 hop hne => ?_⟩
      obtain ⟨_, _, _, rfl⟩ := opSimple_some (t := ds) hop
      obtain ⟨hnz, hdone⟩ := hall d hd1 hd2
      obtain ⟨_, _, _, hedge⟩ := inv'.dn d hdone
      rcases hedge i hi with e' | e'
      · exact absurd e' hne
      · rcases inv'.val d with v | v | v
        · exact absurd v hnz
        · show decide (sgn'.getD (ds.opU i d) 0 = 1) ≠ decide (sgn'.getD d 0 = 1)
          rw [e', v]; decide
        · show decide (sgn'.getD (ds.opU i d) 0 = 1) ≠ decide (sgn'.getD d 0 = 1)
          rw [e', v]; decide
    rw [this]
  · rw [r1]
    have : ds.viewSimple.isWeaklyOriented = false := by
      cases hb : ds.viewSimple.isWeaklyOriented
      · rfl
      · exfalso
        obtain ⟨c, hcol⟩ := hbip.mp hb
        apply r2 (fun x => if c x = c 1 then 1 else -1)
        · refine ⟨fun x => ?_, by simp, fun i x hi hx1 hx2 hne => ?_⟩
          · by_cases e : c x = c 1
            · left; rw [if_pos e]
            · right; rw [if_neg e]
          · have hr := h.range i x hi hx1 hx2
            have := hcol i x (ds.opU i x) hi hx1 hx2 (opSimple_of_range (t := ds) hi hx1 hx2) hne
            by_cases e : c x = c 1
            · rw [if_pos e, if_neg (by rw [← e]; exact this)]
            · rw [if_neg e]
              have : c (ds.opU i x) = c 1 := by
                cases h1' : c (ds.opU i x) <;> cases h2' : c x <;> cases h3' : c 1 <;> simp_all
              rw [if_pos this]; rfl
        · intro x hx1 hx2 hx
          rw [hg0 x] at hx ⊢
          by_cases hx' : x = 1
          · rw [if_pos hx', hx']; simp
          · rw [if_neg hx'] at hx; exact absurd rfl hx
    rw [this]

end DSymVerif.SymGen
