/-
Helper lemmas for property C08, part 22: the invariance of the orbifold symbol in the Spec's own
terms (`SpecC08.sameOrbifold`).
-/
import DSymVerif.Proofs.Delaney2dSymbolInv

namespace DSymVerif.D2
open DSymVerif.DS DSymVerif.SpecC08

theorem rotations_contains_iff (u w : List Nat) : (SpecC08.rotations u).contains w = true ↔ u ~r w := by
  unfold SpecC08.rotations
  by_cases hu : u = []
  · subst hu
    simp only [List.isEmpty_nil, if_true, List.contains_iff_mem, List.mem_singleton]
    constructor
    · rintro rfl; exact List.IsRotated.refl _
    · intro h; exact (List.isRotated_nil_iff'.1 h).symm
  · have he : u.isEmpty = false := by cases u <;> simp_all
    simp only [he, Bool.false_eq_true, if_false, List.contains_iff_mem, List.mem_map, List.mem_range]
    constructor
    · rintro ⟨i, hi, rfl⟩
      rw [← List.rotate_eq_drop_append_take (Nat.le_of_lt hi)]
      exact (List.IsRotated.forall u i).symm
    · intro h
      obtain ⟨n, hn, rfl⟩ := List.isRotated_iff_mod.1 h
      by_cases hnl : n = u.length
      · refine ⟨0, Nat.pos_of_ne_zero (fun h0 => hu (List.length_eq_zero_iff.1 h0)), ?_⟩
        rw [hnl, List.rotate_length]; simp
      · exact ⟨n, by omega, (List.rotate_eq_drop_append_take hn).symm⟩

theorem cycEquiv_iff (u w : List Nat) : cycEquiv u w = true ↔ CycEq u w := by
  unfold cycEquiv CycEq
  rw [Bool.or_eq_true, rotations_contains_iff, rotations_contains_iff]

theorem cycEquiv_congr (x : List Nat) {u v : List Nat} (h : CycEq u v) : cycEquiv x u = cycEquiv x v := by
  have : cycEquiv x u = true ↔ cycEquiv x v = true := by
    rw [cycEquiv_iff, cycEquiv_iff]
    exact ⟨fun hx => hx.trans h, fun hx => hx.trans h.symm⟩
  cases h1 : cycEquiv x u <;> cases h2 : cycEquiv x v <;> simp_all

theorem multisetEq_refl (L : List Nat) : multisetEq (· == ·) L L = true := by
  unfold multisetEq
  simp

theorem multisetEq_of_bndsEq {X Y : List (List Nat)} (h : BndsEq X Y) : multisetEq cycEquiv X Y = true := by
  unfold multisetEq
  simp only [Bool.and_eq_true, beq_iff_eq, List.all_eq_true]
  refine ⟨h.1, ?_⟩
  intro x _
  unfold countBy
  rw [← List.countP_eq_length_filter, ← List.countP_eq_length_filter]
  exact h.2 (cycEquiv x) (fun u v huv => cycEquiv_congr x huv)

/-- the entries of the boundary cycles returned by `trace_boundary` are > 1 -/
theorem bnds_proper {y : DSymData} (h : ValidSym y) (hdim : y.dim = 2) (rep : Rep) {bnds : List (List Nat)}
    (hb : traceBoundary ⟨y, rep⟩ = .ok bnds) : bnds.map proper = bnds := by
  obtain ⟨bnds', hb', hperm⟩ := traceBoundary_corners h hdim rep
  rw [hb] at hb'; cases hb'
  conv_rhs => rw [← List.map_id bnds]
  apply List.map_congr_left
  intro c hc
  apply proper_of_ge
  intro v hv
  have hv' : v ∈ bnds.flatten := List.mem_flatten.2 ⟨c, hc, hv⟩
  exact mem_cornersOf_gt (hperm.mem_iff.1 hv')

/-- the invariance in the Spec's terms -/
theorem Mor.sameOrbifold {g f : Nat → Nat} {a b : DSymData} (m : Mor g f a b) (ra rb : Rep)
    (ca : a.isCompletePartial = true) (cb : b.isCompletePartial = true) {oa : OrbSym}
    (ha : orbifoldSymbol ⟨a, ra⟩ = .ok oa) :
    ∃ ob, orbifoldSymbol ⟨b, rb⟩ = .ok ob ∧ ob.cones = oa.cones ∧ BndsEq oa.bnds ob.bnds ∧
      ob.orientable = oa.orientable ∧ ob.count = oa.count ∧
      SpecC08.sameOrbifold (orbOf oa) (orbOf ob) = true := by
  obtain ⟨ob, hob, hcones, hbnds, hori, hcount, _⟩ := m.symbol_invariant ra rb ca cb ha
  refine ⟨ob, hob, hcones, hbnds, hori, hcount, ?_⟩
  -- the boundary lists are the results of `trace_boundary`
  have ga : Good2d ⟨a, ra⟩ := ⟨m.va, m.dima, ca⟩
  have gb : Good2d ⟨b, rb⟩ := ⟨m.vb, m.dimb, cb⟩
  obtain ⟨bA, hbA, _⟩ := traceBoundary_corners m.va m.dima ra
  obtain ⟨bB, hbB, _⟩ := traceBoundary_corners m.vb m.dimb rb
  have ea : oa.bnds = bA := by
    rw [orbifoldSymbol_unfold ga hbA] at ha
    split at ha
    · cases ha
    · rw [← Outcome.ok.inj ha]
  have eb : ob.bnds = bB := by
    rw [orbifoldSymbol_unfold gb hbB] at hob
    split at hob
    · cases hob
    · rw [← Outcome.ok.inj hob]
  unfold SpecC08.sameOrbifold orbOf
  simp only
  rw [hcones, hori, hcount, ea, eb, bnds_proper m.va m.dima ra hbA, bnds_proper m.vb m.dimb rb hbB,
    multisetEq_refl, multisetEq_of_bndsEq (by rw [← ea, ← eb]; exact hbnds)]
  simp

end DSymVerif.D2
