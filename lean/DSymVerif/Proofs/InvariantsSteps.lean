/-
Single steps of `clear_later_rows_in_place` / `clear_later_cols_in_place` as unimodular
row / column operations, and the parts of the matrix that `diagonalize_in_place` never touches
again (so that the diagonal stays non-negative and the output contains no 1).
-/
import DSymVerif.Proofs.InvariantsDiag

namespace DSymVerif.Inv

/-! ### a row step is a 2×2 unimodular operation on rows `i`, `row` and clears `mat[row][i]` -/

theorem get_eq_getD_getD (mat : Mat) (r c : Nat) : get mat r c = (mat.getD r []).getD c 0 := rfl

theorem clearRowStep_unimodular (mat : Mat) (n m i row cnt : Nat) (hR : Rect mat n m)
    (him : i < m) (hir : i < row) (hrn : row < n)
    (hz : ∀ c, c < i → get mat i c = 0 ∧ get mat row c = 0) :
    ∃ p q r s : Int, (p * s - q * r = 1 ∨ p * s - q * r = -1) ∧
      (∀ k c, c < m → k < n →
        get (clearRowStep i (mat, cnt) row).1 k c =
          if k = i then p * get mat i c + q * get mat row c
          else if k = row then r * get mat i c + s * get mat row c
          else get mat k c) ∧
      get (clearRowStep i (mat, cnt) row).1 row i = 0 := by
  have hin : i < n := by omega
  have hli : (mat.getD i []).length = m := hR.row_length hin
  have hlr : (mat.getD row []).length = m := hR.row_length hrn
  have hil : i < mat.length := by rw [hR.1]; exact hin
  have hrl : row < mat.length := by rw [hR.1]; exact hrn
  unfold clearRowStep
  simp only
  by_cases hA : get mat i i ≠ 0 ∧ (get mat row i).tmod (get mat i i) = 0
  · rw [if_pos hA]
    refine ⟨1, 0, -((get mat row i).tdiv (get mat i i)), 1, Or.inl (by ring), ?_, ?_⟩
    · intro k c hc hk
      rw [get_set_row]
      by_cases hkr : k = row
      · subst hkr
        have hki : k ≠ i := by omega
        rw [if_pos ⟨rfl, hrl⟩, if_neg hki, if_pos rfl,
          combine_getD _ _ _ _ _ _ (by rw [hlr]; exact hc)]
        by_cases hic : i ≤ c
        · rw [if_pos hic]; simp only [get_eq_getD_getD]; ring
        · rw [if_neg hic]
          obtain ⟨z1, z2⟩ := hz c (by omega)
          rw [z1, z2]; simp only [get_eq_getD_getD] at z2; rw [z2]; ring
      · have : ¬ (row = k ∧ row < mat.length) := by omega
        rw [if_neg this]
        by_cases hki : k = i
        · subst hki; rw [if_pos rfl]; ring
        · rw [if_neg hki, if_neg hkr]
    · rw [get_set_row, if_pos ⟨rfl, hrl⟩, combine_getD _ _ _ _ _ _ (by rw [hlr]; exact him),
        if_pos (Nat.le_refl _)]
      have hdvd : get mat i i ∣ get mat row i := Int.dvd_of_tmod_eq_zero hA.2
      have := Int.mul_tdiv_cancel' hdvd
      simp only [get_eq_getD_getD] at this ⊢
      linarith
  · rw [if_neg hA]
    by_cases hB : get mat row i ≠ 0
    · rw [if_pos hB]
      have hs := gcdx_spec' (get mat i i) (get mat row i)
      refine ⟨(gcdx (get mat i i) (get mat row i)).2.1, (gcdx (get mat i i) (get mat row i)).2.2.1,
        (gcdx (get mat i i) (get mat row i)).2.2.2.1, (gcdx (get mat i i) (get mat row i)).2.2.2.2,
        hs.2.2.1, ?_, ?_⟩
      · intro k c hc hk
        rw [get_set_row]
        by_cases hkr : k = row
        · subst hkr
          have hki : k ≠ i := by omega
          rw [if_pos ⟨rfl, by rw [List.length_set]; exact hrl⟩, if_neg hki, if_pos rfl,
            combine_getD _ _ _ _ _ _ (by rw [hlr]; exact hc)]
          by_cases hic : i ≤ c
          · rw [if_pos hic]; simp only [get_eq_getD_getD]; ring
          · rw [if_neg hic]
            obtain ⟨z1, z2⟩ := hz c (by omega)
            rw [z1, z2]; simp only [get_eq_getD_getD] at z2; rw [z2]; ring
        · have : ¬ (row = k ∧ row < (List.set mat i (combine i
              (gcdx (get mat i i) (get mat row i)).2.1 (gcdx (get mat i i) (get mat row i)).2.2.1
              (mat.getD i []) (mat.getD row []))).length) := by omega
          rw [if_neg this, get_set_row]
          by_cases hki : k = i
          · subst hki
            rw [if_pos ⟨rfl, hil⟩, if_pos rfl, combine_getD _ _ _ _ _ _ (by rw [hli]; exact hc)]
            by_cases hic : k ≤ c
            · rw [if_pos hic]; simp only [get_eq_getD_getD]; ring
            · rw [if_neg hic]
              obtain ⟨z1, z2⟩ := hz c (by omega)
              rw [z1, z2]; simp only [get_eq_getD_getD] at z1; rw [z1]; ring
          · have : ¬ (i = k ∧ i < mat.length) := by omega
            rw [if_neg this, if_neg hki, if_neg hkr]
      · rw [get_set_row, if_pos ⟨rfl, by rw [List.length_set]; exact hrl⟩,
          combine_getD _ _ _ _ _ _ (by rw [hlr]; exact him), if_pos (Nat.le_refl _)]
        have := hs.2.1
        simp only [get_eq_getD_getD] at this ⊢
        linarith
    · rw [if_neg hB]
      refine ⟨1, 0, 0, 1, Or.inl (by ring), ?_, ?_⟩
      · intro k c _ _
        by_cases hki : k = i
        · subst hki; rw [if_pos rfl]; ring
        · rw [if_neg hki]
          by_cases hkr : k = row
          · subst hkr; rw [if_pos rfl]; ring
          · rw [if_neg hkr]
      · by_contra h; exact hB h

/-! ### a column step is a 2×2 unimodular operation on columns `i`, `col` and clears `mat[i][col]` -/

theorem colOp_getD (i col : Nat) (p q r s : Int) (rowv : List Int) (c : Nat) (hic : i ≠ col)
    (hi : i < rowv.length) (hc : col < rowv.length) :
    (colOp i col p q r s rowv).getD c 0 =
      if c = i then rowv.getD i 0 * p + rowv.getD col 0 * q
      else if c = col then rowv.getD i 0 * r + rowv.getD col 0 * s
      else rowv.getD c 0 := by
  unfold colOp
  rw [getD_set', getD_set']
  simp only [List.length_set]
  split_ifs <;> first | rfl | omega

theorem get_mapIdx_colOp (i col n m : Nat) (p q r s : Int) (mat : Mat) (hR : Rect mat n m)
    (hic : i ≠ col) (him : i < m) (hcm : col < m) (k c : Nat) (hk : k < n) :
    get (mat.mapIdx (fun rw rowv => if i ≤ rw then colOp i col p q r s rowv else rowv)) k c
      = if i ≤ k then
          (if c = i then get mat k i * p + get mat k col * q
           else if c = col then get mat k i * r + get mat k col * s
           else get mat k c)
        else get mat k c := by
  have hk' : k < mat.length := by rw [hR.1]; exact hk
  unfold get
  have e1 : (mat.mapIdx (fun rw rowv => if i ≤ rw then colOp i col p q r s rowv else rowv)).getD k []
      = if i ≤ k then colOp i col p q r s (mat.getD k []) else mat.getD k [] := by
    simp only [List.getD_eq_getElem?_getD, List.getElem?_mapIdx, List.getElem?_eq_getElem hk',
      Option.map_some, Option.getD_some]
  rw [e1]
  by_cases hik : i ≤ k
  · rw [if_pos hik, if_pos hik]
    exact colOp_getD i col p q r s _ c hic (by rw [hR.row_length hk]; exact him)
      (by rw [hR.row_length hk]; exact hcm)
  · rw [if_neg hik, if_neg hik]

theorem clearColStep_unimodular (mat : Mat) (n m i col cnt : Nat) (hR : Rect mat n m)
    (hin : i < n) (hic : i < col) (hcm : col < m)
    (hz : ∀ k, k < i → get mat k i = 0 ∧ get mat k col = 0) :
    ∃ p q r s : Int, (p * s - q * r = 1 ∨ p * s - q * r = -1) ∧
      (∀ k c, c < m → k < n →
        get (clearColStep i (mat, cnt) col).1 k c =
          if c = i then p * get mat k i + q * get mat k col
          else if c = col then r * get mat k i + s * get mat k col
          else get mat k c) ∧
      get (clearColStep i (mat, cnt) col).1 i col = 0 := by
  have him : i < m := by omega
  unfold clearColStep
  simp only
  -- common shape of the two operating branches
  have key : ∀ p q r s : Int, ∀ k c, c < m → k < n →
      get (mat.mapIdx (fun rw rowv => if i ≤ rw then colOp i col p q r s rowv else rowv)) k c =
        if c = i then p * get mat k i + q * get mat k col
        else if c = col then r * get mat k i + s * get mat k col
        else get mat k c := by
    intro p q r s k c _ hk
    rw [get_mapIdx_colOp i col n m p q r s mat hR (by omega) him hcm k c hk]
    by_cases hik : i ≤ k
    · rw [if_pos hik]
      split_ifs <;> ring
    · rw [if_neg hik]
      obtain ⟨z1, z2⟩ := hz k (by omega)
      by_cases hci : c = i
      · subst hci; rw [if_pos rfl, z1, z2]; ring
      · rw [if_neg hci]
        by_cases hcc : c = col
        · subst hcc; rw [if_pos rfl, z1, z2]; ring
        · rw [if_neg hcc]
  by_cases hA : get mat i i ≠ 0 ∧ (get mat i col).tmod (get mat i i) = 0
  · rw [if_pos hA]
    refine ⟨1, 0, -((get mat i col).tdiv (get mat i i)), 1, Or.inl (by ring), key _ _ _ _, ?_⟩
    rw [key _ _ _ _ i col hcm hin]
    have hne : col ≠ i := by omega
    rw [if_neg hne, if_pos rfl]
    have hdvd : get mat i i ∣ get mat i col := Int.dvd_of_tmod_eq_zero hA.2
    have := Int.mul_tdiv_cancel' hdvd
    linarith
  · rw [if_neg hA]
    by_cases hB : get mat i col ≠ 0
    · rw [if_pos hB]
      have hs := gcdx_spec' (get mat i i) (get mat i col)
      refine ⟨_, _, _, _, hs.2.2.1, key _ _ _ _, ?_⟩
      rw [key _ _ _ _ i col hcm hin]
      have hne : col ≠ i := by omega
      rw [if_neg hne, if_pos rfl]
      exact hs.2.1
    · rw [if_neg hB]
      refine ⟨1, 0, 0, 1, Or.inl (by ring), ?_, ?_⟩
      · intro k c _ _
        by_cases hci : c = i
        · subst hci; rw [if_pos rfl]; ring
        · rw [if_neg hci]
          by_cases hcc : c = col
          · subst hcc; rw [if_pos rfl]; ring
          · rw [if_neg hcc]
      · by_contra h; exact hB h


/-! ### step `i` never touches `mat[k][k]` for `k < i`; the diagonal ends non-negative -/

theorem findPivot_lower (mat : Mat) (start : Nat) :
    start ≤ (findPivot mat start).1 ∧ start ≤ (findPivot mat start).2 := by
  unfold findPivot
  simp only
  apply foldl_preserves (fun (st : Nat × Nat × Option Int) => start ≤ st.1 ∧ start ≤ st.2.1) _
    (fun r => start ≤ r) _ _ _ _ ⟨Nat.le_refl _, Nat.le_refl _⟩
  · intro st r hr hst
    apply foldl_preserves (fun (st : Nat × Nat × Option Int) => start ≤ st.1 ∧ start ≤ st.2.1) _
      (fun c => start ≤ c) _ _ _ st hst
    · intro st c hc hst
      unfold pivotStep
      simp only
      split
      · exact ⟨hr, hc⟩
      · exact hst
    · intro c hc; rw [List.mem_range'_1] at hc; omega
  · intro r hr; rw [List.mem_range'_1] at hr; omega

theorem get_swapRows_other (mat : Mat) (a b k c : Nat) (hka : k ≠ a) (hkb : k ≠ b) :
    get (swapRows mat a b) k c = get mat k c := by
  unfold swapRows
  rw [get_set_row, get_set_row]
  have h1 : ¬ (b = k ∧ b < (List.set mat a (mat.getD b [])).length) := by omega
  have h2 : ¬ (a = k ∧ a < mat.length) := by omega
  rw [if_neg h1, if_neg h2]

theorem get_swapCols_other (mat : Mat) (a b k c : Nat) (hk : k < mat.length) (hca : c ≠ a)
    (hcb : c ≠ b) : get (swapCols mat a b) k c = get mat k c := by
  unfold swapCols get
  have e : (mat.map (fun row => List.set (List.set row a (row.getD b 0)) b (row.getD a 0))).getD k []
      = List.set (List.set (mat.getD k []) a ((mat.getD k []).getD b 0)) b ((mat.getD k []).getD a 0) := by
    simp only [List.getD_eq_getElem?_getD, List.getElem?_map, List.getElem?_eq_getElem hk,
      Option.map_some, Option.getD_some]
  rw [e, getD_set', getD_set']
  have h1 : ¬ (b = c ∧ b < (List.set (mat.getD k []) a ((mat.getD k []).getD b 0)).length) := by omega
  have h2 : ¬ (a = c ∧ a < (mat.getD k []).length) := by omega
  rw [if_neg h1, if_neg h2]

theorem movePivot_frame (mat : Mat) (t r c k : Nat) (hk : k < mat.length) (hkt : k < t)
    (hr : t ≤ r) (hc : t ≤ c) : get (movePivot mat t (r, c)) k k = get mat k k := by
  unfold movePivot
  simp only
  by_cases h1 : r ≠ t
  · rw [if_pos h1]
    by_cases h2 : c ≠ t
    · rw [if_pos h2, get_swapCols_other _ _ _ _ _ (by unfold swapRows; simpa using hk) (by omega) (by omega),
        get_swapRows_other _ _ _ _ _ (by omega) (by omega)]
    · rw [if_neg h2, get_swapRows_other _ _ _ _ _ (by omega) (by omega)]
  · rw [if_neg h1]
    by_cases h2 : c ≠ t
    · rw [if_pos h2, get_swapCols_other _ _ _ _ _ hk (by omega) (by omega)]
    · rw [if_neg h2]

theorem clearRowStep_frame (i : Nat) (st : Mat × Nat) (row k c : Nat) (hki : k < i) (hir : i < row) :
    get (clearRowStep i st row).1 k c = get st.1 k c := by
  unfold clearRowStep
  simp only
  split
  · rw [get_set_row]
    have : ¬ (row = k ∧ row < st.1.length) := by omega
    rw [if_neg this]
  · split
    · rw [get_set_row, get_set_row]
      have h1 : ¬ (row = k ∧ row < (List.set st.1 i (combine i (gcdx (get st.1 i i) (get st.1 row i)).2.1
          (gcdx (get st.1 i i) (get st.1 row i)).2.2.1 (st.1.getD i []) (st.1.getD row []))).length) := by
        omega
      have h2 : ¬ (i = k ∧ i < st.1.length) := by omega
      rw [if_neg h1, if_neg h2]
    · rfl

theorem get_mapIdx_frame (mat : Mat) (i k c : Nat) (g : List Int → List Int) (hki : k < i) :
    get (mat.mapIdx (fun rw rowv => if i ≤ rw then g rowv else rowv)) k c = get mat k c := by
  unfold get
  congr 1
  simp only [List.getD_eq_getElem?_getD, List.getElem?_mapIdx]
  cases h : mat[k]? with
  | none => rfl
  | some v =>
    have : ¬ i ≤ k := by omega
    simp [this]

theorem clearColStep_frame (i : Nat) (st : Mat × Nat) (col k c : Nat) (hki : k < i) :
    get (clearColStep i st col).1 k c = get st.1 k c := by
  unfold clearColStep
  simp only
  split
  · exact get_mapIdx_frame _ _ _ _ _ hki
  · split
    · exact get_mapIdx_frame _ _ _ _ _ hki
    · rfl

theorem clearLaterRows_frame (mat : Mat) (i k c : Nat) (hki : k < i) :
    get (clearLaterRows mat i).1 k c = get mat k c := by
  unfold clearLaterRows
  apply foldl_preserves (fun (st : Mat × Nat) => get st.1 k c = get mat k c) (clearRowStep i)
    (fun row => i < row)
  · intro st row hrow hst
    rw [clearRowStep_frame i st row k c hki hrow]; exact hst
  · intro row hrow; rw [List.mem_range'_1] at hrow; omega
  · rfl

theorem clearLaterCols_frame (mat : Mat) (i k c : Nat) (hki : k < i) :
    get (clearLaterCols mat i).1 k c = get mat k c := by
  unfold clearLaterCols
  apply foldl_preserves (fun (st : Mat × Nat) => get st.1 k c = get mat k c) (clearColStep i)
    (fun _ => True)
  · intro st col _ hst
    rw [clearColStep_frame i st col k c hki]; exact hst
  · intro _ _; trivial
  · rfl

theorem innerLoop_frame (fuel : Nat) (mat mat' : Mat) (i k c : Nat) (hki : k < i)
    (h : innerLoop fuel mat i = some mat') : get mat' k c = get mat k c := by
  induction fuel generalizing mat with
  | zero => unfold innerLoop at h; cases h
  | succ fuel ih =>
    unfold innerLoop at h
    simp only at h
    split at h
    · injection h with h
      rw [← h, clearLaterCols_frame _ i k c hki, clearLaterRows_frame _ i k c hki]
    · rw [ih _ h, clearLaterCols_frame _ i k c hki, clearLaterRows_frame _ i k c hki]

theorem get_set_other (mat : Mat) (r c k : Nat) (v : Int) (hk : k ≠ r) :
    get (set mat r c v) k k = get mat k k := by
  unfold Inv.set
  rw [get_set_row]
  have : ¬ (r = k ∧ r < mat.length) := by omega
  rw [if_neg this]

theorem get_set_self (mat : Mat) (n m r : Nat) (v : Int) (hR : Rect mat n m) (hr : r < n)
    (hm : r < m) : get (set mat r r v) r r = v := by
  unfold Inv.set
  rw [get_set_row, if_pos ⟨rfl, by rw [hR.1]; exact hr⟩, getD_set',
    if_pos ⟨rfl, by rw [hR.row_length hr]; exact hm⟩]

theorem diagStep_diag (mat mat' : Mat) (n m i : Nat) (hR : Rect mat n m) (hin : i < n)
    (him : i < m) (h : diagStep mat i = some mat') :
    (∀ k, k < i → get mat' k k = get mat k k) ∧ 0 ≤ get mat' i i := by
  unfold diagStep at h
  simp only at h
  obtain ⟨hl1, hl2⟩ := findPivot_lower mat i
  obtain ⟨hb1, hb2⟩ := findPivot_bounds mat i n m hR.nrows (hR.ncols (by omega)) hin him
  by_cases hp : get mat (findPivot mat i).1 (findPivot mat i).2 ≠ 0
  · rw [if_pos hp] at h
    obtain ⟨hR', _⟩ := movePivot_spec mat n m i (findPivot mat i).1 (findPivot mat i).2 hR hin him hb1 hb2
    split at h
    · rename_i M hM
      injection h with h
      have hRM : Rect M n m := by
        have he : get (movePivot mat i (findPivot mat i)) i i ≠ 0 := by
          have := (movePivot_spec mat n m i (findPivot mat i).1 (findPivot mat i).2 hR hin him hb1 hb2).2
          rw [show (findPivot mat i) = ((findPivot mat i).1, (findPivot mat i).2) from rfl, this]
          exact hp
        obtain ⟨M', hM', hRM'⟩ := innerLoop_fuel i n m hin him _ _ hR' he (Nat.lt_succ_self _)
        rw [show (findPivot mat i) = ((findPivot mat i).1, (findPivot mat i).2) from rfl] at hM
        rw [hM] at hM'; injection hM' with hM'; rw [hM']; exact hRM'
      constructor
      · intro k hk
        rw [← h, get_set_other _ _ _ _ _ (by omega), innerLoop_frame _ _ _ i k k hk hM]
        exact movePivot_frame mat i _ _ k (by rw [hR.1]; omega) hk hl1 hl2
      · rw [← h, get_set_self M n m i _ hRM hin him]; exact Int.natCast_nonneg _
    · cases h
  · rw [if_neg hp] at h
    simp only at h
    injection h with h
    constructor
    · intro k hk; rw [← h, get_set_other _ _ _ _ _ (by omega)]
    · rw [← h, get_set_self mat n m i _ hR hin him]; exact Int.natCast_nonneg _

theorem diagFrom_diag (len s : Nat) (mat D : Mat) (n m : Nat) (hR : Rect mat n m)
    (hs : s + len ≤ n ∧ s + len ≤ m) (h0 : ∀ k, k < s → 0 ≤ get mat k k)
    (h : diagFrom (List.range' s len) mat = some D) : ∀ k, k < s + len → 0 ≤ get D k k := by
  induction len generalizing s mat with
  | zero =>
    simp only [List.range'_zero] at h
    unfold diagFrom at h
    injection h with h; subst h
    intro k hk; exact h0 k (by omega)
  | succ len ih =>
    rw [List.range'_succ] at h
    unfold diagFrom at h
    split at h
    · rename_i M hM
      obtain ⟨M', hM', hRM⟩ := diagStep_some mat n m s hR (by omega) (by omega)
      rw [hM] at hM'; injection hM' with hM'; subst hM'
      obtain ⟨d1, d2⟩ := diagStep_diag mat M n m s hR (by omega) (by omega) hM
      have := ih (s + 1) M hRM (by omega) (by
        intro k hk
        by_cases hks : k = s
        · subst hks; exact d2
        · rw [d1 k (by omega)]; exact h0 k (by omega)) h
      intro k hk; exact this k (by omega)
    · cases h

/-- the diagonal of the diagonalised matrix is non-negative -/
theorem diagonalize_diag_nonneg (mat D : Mat) (n m : Nat) (hR : Rect mat n m) (hn : 0 < n)
    (h : diagonalize mat = some D) : ∀ k, k < n → k < m → 0 ≤ get D k k := by
  unfold diagonalize at h
  rw [hR.nrows, hR.ncols hn, List.range_eq_range'] at h
  intro k hkn hkm
  exact diagFrom_diag (min n m) 0 mat D n m hR (by omega) (by intro k hk; omega) h k (by omega)

/-- the returned list contains no 1 -/
theorem abelianInvariants_no_one {n : Nat} {rels : List (List Int)} {out : List Nat}
    (h : abelianInvariants n rels = .ok out) : 1 ∉ out := by
  unfold abelianInvariants at h
  split at h
  · cases h
  · cases h
  · rename_i mat hmat
    by_cases h0 : n = 0
    · rw [if_pos h0] at h; injection h with h; subst h; simp
    · rw [if_neg h0] at h
      by_cases h1 : mat.length = 0
      · rw [if_pos h1] at h; injection h with h; subst h
        intro hc; have := List.eq_of_mem_replicate hc; omega
      · rw [if_neg h1] at h
        have hR := rowsOf_rect hmat
        have hpos : 0 < rels.length := by have := hR.1; omega
        split at h
        · cases h
        · rename_i D hD
          injection h with h; subst h
          obtain ⟨D', hD', hRD⟩ := diagonalize_some mat rels.length n hR hpos
          rw [hD] at hD'; injection hD' with hD'; subst hD'
          apply finish_no_one
          apply chainPass_nonneg
          intro x hx
          unfold diagonal at hx
          obtain ⟨k, hk, rfl⟩ := List.mem_map.mp hx
          rw [List.mem_range] at hk
          have := hRD.1
          exact diagonalize_diag_nonneg mat D rels.length n hR hpos hD k (by omega) (by omega)

end DSymVerif.Inv
