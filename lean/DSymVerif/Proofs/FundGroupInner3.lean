/-
Helper lemmas for property C09, part 31 (for C16 `InnerWallsAreFaces`): what the index priority
of the traversal means for `spanning_tree`: no tree facet is a mirror, and two chambers of the same
(0,1)-orbit are joined, inside that orbit, by tree facets with index 0 or 1 (`spanningTree_01`).
-/
import DSymVerif.Proofs.FundGroupTree
import DSymVerif.Proofs.FundGroupInnerTrav

namespace DSymVerif.FGP
open DSymVerif DSymVerif.DS DSymVerif.FG

/-- the traversal behind `spanning_tree` -/
abbrev treeTrav (ds : DSymData) : List View.TravItem :=
  ds.view.traversal ds.view.indices ds.view.elements.reverse

theorem seeds_range (ds : DSymData) : ∀ d ∈ ds.view.elements.reverse, 1 ≤ d ∧ d ≤ ds.size :=
  fun d hd => (DS.mem_elements ds.view d).1 (List.mem_reverse.1 hd)

theorem target_range {ds : DSymData} (hv : ValidSet ds.dset) {t : View.TravItem}
    (ht : t ∈ treeTrav ds) : 1 ≤ t.2.2 ∧ t.2.2 ≤ ds.size := by
  have hp : ds.view.PInvol := (C02.traversal_hyp ds.dset).2.2 ds hv
  obtain ⟨d, hd, hr⟩ := ((C02.traversal_complete ds.view hp ds.view.indices
    ds.view.elements.reverse).1 t.2.2).1 ⟨t, ht, rfl⟩
  exact reach_range hp (seeds_range ds d hd) hr

/-- facts about an edge item of the traversal -/
theorem trav_item {ds : DSymData} (hv : ValidSet ds.dset) {pre post : List View.TravItem}
    {t : View.TravItem} (h : treeTrav ds = pre ++ t :: post) :
    ∀ i, t.1 = some i → FacetR ds t.2.1 i ∧ t.2.2 = opT ds i t.2.1 ∧ ∃ u ∈ pre, u.2.2 = t.2.1 := by
  intro i hi
  obtain ⟨s1, _, _⟩ := C02.traversal_sound ds.view ds.view.indices ds.view.elements.reverse
    pre post t h
  obtain ⟨_, e2, e3⟩ := s1 i hi
  have hmem : t ∈ treeTrav ds := by rw [h]; simp
  exact ⟨traversal_item_range hv _ (seeds_range ds) t hmem i hi, e2, e3⟩

/-- when a start item or an item with index ≥ 2 is reported, the 0- and 1-edges of everything
    reached before are done -/
theorem trav_prio01 {ds : DSymData} (hdim : 1 ≤ ds.dim) {pre post : List View.TravItem}
    {t : View.TravItem} (h : treeTrav ds = pre ++ t :: post) (hnot : ∀ i, t.1 = some i → 2 ≤ i) :
    ∀ u ∈ pre, ∀ k, k ≤ 1 → ∃ w ∈ pre, w.1 = some k ∧ (w.2.1 = u.2.2 ∨ w.2.2 = u.2.2) := by
  intro u hu k hk
  have hki : k ∈ ds.view.indices := (mem_indices ds.view k).2 (by show k ≤ ds.dim; omega)
  cases ht : t.1 with
  | none =>
    obtain ⟨_, s2, _⟩ := C02.traversal_sound ds.view ds.view.indices ds.view.elements.reverse
      pre post t h
    exact (s2 ht).2.2.2.1 u hu k hki
  | some i =>
    have := hnot i ht
    exact traversal_prio ds.view ds.view.indices ds.view.elements.reverse pre post t h i ht k hki
      (by omega) u hu

theorem targets_closed {ds : DSymData} (hv : ValidSet ds.dset) (hdim : 1 ≤ ds.dim)
    {pre post : List View.TravItem} {t : View.TravItem} (h : treeTrav ds = pre ++ t :: post)
    (hnot : ∀ i, t.1 = some i → 2 ≤ i) :
    ∀ z, (∃ u ∈ pre, u.2.2 = z) → ∀ k, k ≤ 1 → ∃ u' ∈ pre, u'.2.2 = ds.dset.opU k z := by
  rintro z ⟨u, hu, rfl⟩ k hk
  obtain ⟨w, hw, hwk, hwz⟩ := trav_prio01 hdim h hnot u hu k hk
  obtain ⟨p1, p2, hsplit⟩ := List.append_of_mem hw
  have h' : treeTrav ds = p1 ++ w :: (p2 ++ t :: post) := by rw [h, hsplit]; simp
  obtain ⟨hf, e2, u1, hu1, hue⟩ := trav_item hv h' k hwk
  have hop : opT ds k w.2.1 = ds.dset.opU k w.2.1 := opT_eq hf.2.2 hf.1 hf.2.1
  rcases hwz with hz | hz
  · refine ⟨w, hw, ?_⟩
    rw [e2, hop, hz]
  · refine ⟨u1, by rw [hsplit]; exact List.mem_append_left _ hu1, ?_⟩
    rw [hue, ← hz, e2, hop]
    exact (hv.invol k w.2.1 hf.2.2 hf.1 hf.2.1).symm

theorem targets_orb_closed {ds : DSymData} (hv : ValidSet ds.dset) (hdim : 1 ≤ ds.dim)
    {pre post : List View.TravItem} {t : View.TravItem} (h : treeTrav ds = pre ++ t :: post)
    (hnot : ∀ i, t.1 = some i → 2 ≤ i) {z y : Nat} (hz : ∃ u ∈ pre, u.2.2 = z)
    (ho : Orb2 ds.dset 0 1 z y) : ∃ u ∈ pre, u.2.2 = y := by
  induction ho with
  | refl => exact hz
  | stepI _ ih => exact targets_closed hv hdim h hnot _ ih 0 (by omega)
  | stepJ _ ih => exact targets_closed hv hdim h hnot _ ih 1 (by omega)

/-- joined to `root` by tree facets with index 0 or 1, each crossed from its recorded side -/
inductive Path01 (ds : DSymData) (tree : List Item) (root : Nat) : Nat → Prop
  | root : Path01 ds tree root root
  | step {d i : Nat} : Path01 ds tree root d → (d, i, none) ∈ tree → i ≤ 1 →
      Path01 ds tree root (ds.dset.opU i d)

theorem Path01.mono {ds : DSymData} {tree tree' : List Item} (h : ∀ it ∈ tree, it ∈ tree')
    {root x : Nat} (hr : Path01 ds tree root x) : Path01 ds tree' root x := by
  induction hr with
  | root => exact Path01.root
  | step _ hm hi ih => exact Path01.step ih (h _ hm) hi

theorem Path01.orb {ds : DSymData} {tree : List Item} {root x : Nat}
    (hr : Path01 ds tree root x) : Orb2 ds.dset 0 1 root x := by
  induction hr with
  | root => exact Orb2.refl _
  | @step d i _ _ hi ih =>
    have : i = 0 ∨ i = 1 := by omega
    rcases this with rfl | rfl
    · exact Orb2.stepI ih
    · exact Orb2.stepJ ih

structure KInv (ds : DSymData) (pre : List View.TravItem) (acc : List Nat × List Item) : Prop where
  seen : ∀ x, x ∈ acc.1 ↔ ∃ u ∈ pre, u.2.2 = x
  nm : ∀ it ∈ acc.2, it.2.2 = none ∧ opT ds it.2.1 it.1 ≠ it.1
  roots : ∃ R : List Nat, (∀ x ∈ acc.1, ∃ e0 ∈ R, Path01 ds acc.2 e0 x) ∧ (∀ e0 ∈ R, e0 ∈ acc.1) ∧
    (∀ e0 ∈ R, ∀ e1 ∈ R, Orb2 ds.dset 0 1 e0 e1 → e0 = e1)

theorem k_fold {ds : DSymData} (hv : ValidSet ds.dset) (hdim : 1 ≤ ds.dim) :
    ∀ (post pre : List View.TravItem) (acc : List Nat × List Item),
    treeTrav ds = pre ++ post → KInv ds pre acc → KInv ds (pre ++ post) (post.foldl treeStep acc)
  | [], pre, acc, _, h => by simpa using h
  | t :: post, pre, acc, hsplit, h => by
    have hmem : t ∈ treeTrav ds := by rw [hsplit]; simp
    have hyr := target_range hv hmem
    rw [List.foldl_cons]
    have happ : pre ++ t :: post = (pre ++ [t]) ++ post := by simp
    rw [happ]
    apply k_fold hv hdim post (pre ++ [t]) _ (by rw [hsplit]; simp)
    have hseen' : ∀ (l : List Nat), (∀ x, x ∈ l ↔ (x = t.2.2 ∨ x ∈ acc.1)) →
        ∀ x, x ∈ l ↔ ∃ u ∈ pre ++ [t], u.2.2 = x := by
      intro l hl x
      rw [hl x, h.seen x]
      constructor
      · rintro (hx | ⟨u, hu, hx⟩)
        · exact ⟨t, by simp, hx.symm⟩
        · exact ⟨u, List.mem_append_left _ hu, hx⟩
      · rintro ⟨u, hu, hx⟩
        rcases List.mem_append.1 hu with hu | hu
        · exact Or.inr ⟨u, hu, hx⟩
        · simp only [List.mem_singleton] at hu
          subst hu
          exact Or.inl hx.symm
    unfold treeStep
    by_cases hc : acc.1.contains t.2.2 = true
    · rw [if_pos hc]
      have hin : t.2.2 ∈ acc.1 := by simpa using hc
      refine ⟨hseen' acc.1 (fun x => ?_), h.nm, h.roots⟩
      constructor
      · exact fun hx => Or.inr hx
      · rintro (hx | hx)
        · rw [hx]; exact hin
        · exact hx
    · rw [if_neg hc]
      have hnin : t.2.2 ∉ acc.1 := by simpa using hc
      obtain ⟨R, r1, r2, r3⟩ := h.roots
      -- a new root of a (0,1)-orbit
      have hroot : (∀ i, t.1 = some i → 2 ≤ i) → ∀ e0 ∈ R,
          ¬ Orb2 ds.dset 0 1 e0 t.2.2 ∧ ¬ Orb2 ds.dset 0 1 t.2.2 e0 := by
        intro hnot e0 he0
        have htg := (h.seen e0).1 (r2 e0 he0)
        have h1 : ¬ Orb2 ds.dset 0 1 e0 t.2.2 := fun ho =>
          hnin ((h.seen _).2 (targets_orb_closed hv hdim hsplit hnot htg ho))
        exact ⟨h1, fun ho => h1 (Orb2.symm hv (Nat.zero_le _) hdim hyr ho)⟩
      have hrootR : (∀ i, t.1 = some i → 2 ≤ i) → ∀ e0 ∈ t.2.2 :: R, ∀ e1 ∈ t.2.2 :: R,
          Orb2 ds.dset 0 1 e0 e1 → e0 = e1 := by
        intro hnot e0 he0 e1 he1 ho
        rcases List.mem_cons.1 he0 with a | a <;> rcases List.mem_cons.1 he1 with b | b
        · rw [a, b]
        · rw [a] at ho; exact absurd ho (hroot hnot e1 b).2
        · rw [b] at ho; exact absurd ho (hroot hnot e0 a).1
        · exact r3 e0 a e1 b ho
      cases ht : t.1 with
      | none =>
        simp only
        refine ⟨hseen' _ (fun x => List.mem_cons), h.nm, t.2.2 :: R, ?_, ?_, ?_⟩
        · intro x hx
          rcases List.mem_cons.1 hx with hx | hx
          · exact ⟨t.2.2, List.mem_cons_self, hx ▸ Path01.root⟩
          · obtain ⟨e0, he0, hp⟩ := r1 x hx
            exact ⟨e0, List.mem_cons_of_mem _ he0, hp⟩
        · intro e0 he0
          rcases List.mem_cons.1 he0 with a | a
          · rw [a]; exact List.mem_cons_self
          · exact List.mem_cons_of_mem _ (r2 e0 a)
        · exact hrootR (fun i hi => by rw [ht] at hi; cases hi)
      | some i =>
        simp only
        obtain ⟨hf, e2, hsrc⟩ := trav_item hv hsplit i ht
        have hd : t.2.1 ∈ acc.1 := (h.seen _).2 hsrc
        have hne : opT ds i t.2.1 ≠ t.2.1 := by
          rw [← e2]; intro e; exact hnin (e ▸ hd)
        have hsub : ∀ it ∈ acc.2, it ∈ acc.2 ++ [(t.2.1, i, none)] :=
          fun it hit => List.mem_append_left _ hit
        refine ⟨hseen' _ (fun x => List.mem_cons), ?_, ?_⟩
        · intro it hit
          rcases List.mem_append.1 hit with hit | hit
          · exact h.nm it hit
          · simp only [List.mem_singleton] at hit
            rw [hit]; exact ⟨rfl, hne⟩
        · by_cases hi : 2 ≤ i
          · refine ⟨t.2.2 :: R, ?_, ?_, ?_⟩
            · intro x hx
              rcases List.mem_cons.1 hx with hx | hx
              · exact ⟨t.2.2, List.mem_cons_self, hx ▸ Path01.root⟩
              · obtain ⟨e0, he0, hp⟩ := r1 x hx
                exact ⟨e0, List.mem_cons_of_mem _ he0, hp.mono hsub⟩
            · intro e0 he0
              rcases List.mem_cons.1 he0 with a | a
              · rw [a]; exact List.mem_cons_self
              · exact List.mem_cons_of_mem _ (r2 e0 a)
            · exact hrootR (fun i' hi' => by rw [ht] at hi'; cases hi'; exact hi)
          · refine ⟨R, ?_, fun e0 he0 => List.mem_cons_of_mem _ (r2 e0 he0), r3⟩
            intro x hx
            rcases List.mem_cons.1 hx with hx | hx
            · obtain ⟨e0, he0, hp⟩ := r1 _ hd
              refine ⟨e0, he0, ?_⟩
              have := Path01.step (hp.mono hsub) (by simp) (show i ≤ 1 by omega)
              rw [← opT_eq hf.2.2 hf.1 hf.2.1, ← e2] at this
              rw [hx]; exact this
            · obtain ⟨e0, he0, hp⟩ := r1 x hx
              exact ⟨e0, he0, hp.mono hsub⟩

/-- **`spanning_tree` and the (0,1)-orbits**: no tree facet is a mirror, and any two chambers of a
    (0,1)-orbit are joined to a common chamber by tree facets with index 0 or 1 -/
theorem spanningTree_01 {ds : DSymData} (hv : ValidSet ds.dset) (hdim : 1 ≤ ds.dim) :
    (∀ it ∈ spanningTree ds, it.2.2 = none ∧ opT ds it.2.1 it.1 ≠ it.1) ∧
    ∀ x y, 1 ≤ x → x ≤ ds.size → Orb2 ds.dset 0 1 x y →
      ∃ e0, Path01 ds (spanningTree ds) e0 x ∧ Path01 ds (spanningTree ds) e0 y := by
  have hinv := k_fold hv hdim (treeTrav ds) [] ([], []) (by simp)
    ⟨fun x => (by simp), fun it hit => (by cases hit), [], fun x hx => (by cases hx),
      fun e0 he0 => (by cases he0), fun e0 he0 => (by cases he0)⟩
  rw [List.nil_append] at hinv
  have htree : spanningTree ds = ((treeTrav ds).foldl treeStep ([], [])).2 := rfl
  rw [htree]
  refine ⟨hinv.nm, ?_⟩
  intro x y hx1 hx2 ho
  have hp : ds.view.PInvol := (C02.traversal_hyp ds.dset).2.2 ds hv
  have hyr := Orb2.range hv (Nat.zero_le _) (show 1 ≤ ds.dset.dim from hdim)
    ⟨hx1, hx2⟩ ho
  have hall : ∀ z, 1 ≤ z → z ≤ ds.size → z ∈ ((treeTrav ds).foldl treeStep ([], [])).1 := by
    intro z hz1 hz2
    rw [hinv.seen z]
    exact ((C02.traversal_complete ds.view hp ds.view.indices ds.view.elements.reverse).1 z).2
      ⟨z, List.mem_reverse.2 ((DS.mem_elements ds.view z).2 ⟨hz1, hz2⟩), View.Reach.refl z⟩
  obtain ⟨R, r1, r2, r3⟩ := hinv.roots
  obtain ⟨e0, he0, p0⟩ := r1 x (hall x hx1 hx2)
  obtain ⟨e1, he1, p1⟩ := r1 y (hall y hyr.1 hyr.2)
  have he1r : 1 ≤ e1 ∧ e1 ≤ ds.size := by
    obtain ⟨u, hu, hue⟩ := (hinv.seen e1).1 (r2 e1 he1)
    rw [← hue]; exact target_range hv hu
  have : e0 = e1 := r3 e0 he0 e1 he1
    (p0.orb.trans (ho.trans (Orb2.symm hv (Nat.zero_le _) hdim he1r p1.orb)))
  subst this
  exact ⟨e0, p0, p1⟩

end DSymVerif.FGP
