/-
The instrumented copy (`…B`, returns value and largest intermediate absolute value) computes the
same value as the plain model: the driver runs `abelianInvariantsB`, the theorems speak about
`abelianInvariants`.
-/
import DSymVerif.Model.Invariants

namespace DSymVerif.Inv

theorem foldl_pair_fst {α σ β : Type} (f : σ → α → σ) (g : σ → α → β → β) (l : List α) (s : σ) (b : β) :
    (l.foldl (fun (p : σ × β) x => (f p.1 x, g p.1 x p.2)) (s, b)).1 = l.foldl f s := by
  induction l generalizing s b with
  | nil => rfl
  | cons x l ih => simp only [List.foldl_cons]; exact ih _ _

theorem clearLaterRowsB_fst (mat : Mat) (i b : Nat) :
    (clearLaterRowsB mat i b).1 = clearLaterRows mat i := by
  unfold clearLaterRowsB clearLaterRows
  exact foldl_pair_fst (clearRowStep i) (fun st row b => clearRowStepB i st.1 row b) _ _ _

theorem clearLaterColsB_fst (mat : Mat) (i b : Nat) :
    (clearLaterColsB mat i b).1 = clearLaterCols mat i := by
  unfold clearLaterColsB clearLaterCols
  exact foldl_pair_fst (clearColStep i) (fun st col b => clearColStepB i st.1 col b) _ _ _

theorem innerLoopB_fst (fuel : Nat) (mat : Mat) (i b : Nat) :
    (innerLoopB fuel mat i b).1 = innerLoop fuel mat i := by
  induction fuel generalizing mat b with
  | zero => rfl
  | succ fuel ih =>
    unfold innerLoopB innerLoop
    simp only [clearLaterRowsB_fst, clearLaterColsB_fst]
    split
    · rfl
    · exact ih _ _

theorem diagStepB_fst (mat : Mat) (i b : Nat) : (diagStepB mat i b).1 = diagStep mat i := by
  unfold diagStepB diagStep
  by_cases h : get mat (findPivot mat i).1 (findPivot mat i).2 ≠ 0
  · simp only [if_pos h]
    rw [innerLoopB_fst]
    cases innerLoop ((get (movePivot mat i (findPivot mat i)) i i).natAbs + 1)
      (movePivot mat i (findPivot mat i)) i <;> rfl
  · simp only [if_neg h]

theorem diagFromB_fst (is : List Nat) (mat : Mat) (b : Nat) :
    (diagFromB is mat b).1 = diagFrom is mat := by
  induction is generalizing mat b with
  | nil => rfl
  | cons i is ih =>
    unfold diagFromB diagFrom
    have h := diagStepB_fst mat i b
    split <;> rename_i heq <;> rw [heq] at h <;> simp only at h <;> rw [← h]
    · exact ih _ _

theorem diagonalizeB_fst (mat : Mat) (b : Nat) : (diagonalizeB mat b).1 = diagonalize mat := by
  unfold diagonalizeB diagonalize
  exact diagFromB_fst _ _ _

theorem chainRowB_fst (n : Nat) (f : List Int) (i bd : Nat) :
    (chainRowB n f i bd).1 = chainRow n f i := by
  unfold chainRowB chainRow
  exact foldl_pair_fst (chainInner i) (fun f j b => chainInnerB i f j b) _ _ _

theorem chainPassB_fst (n : Nat) (f : List Int) (bd : Nat) :
    (chainPassB n f bd).1 = chainPass n f := by
  unfold chainPassB chainPass
  have : ∀ (l : List Nat) (f : List Int) (bd : Nat),
      (l.foldl (fun (p : List Int × Nat) i => chainRowB n p.1 i p.2) (f, bd)).1
        = l.foldl (chainRow n) f := by
    intro l
    induction l with
    | nil => intro f bd; rfl
    | cons x l ih =>
      intro f bd
      simp only [List.foldl_cons]
      rw [← chainRowB_fst n f x bd]
      exact ih _ _
  exact this _ _ _

/-- the instrumented model returns the model's value -/
theorem abelianInvariantsB_fst (nrGens : Nat) (rels : List (List Int)) :
    (abelianInvariantsB nrGens rels).1 = abelianInvariants nrGens rels := by
  unfold abelianInvariantsB abelianInvariants
  split
  · rfl
  · rfl
  · rename_i mat _
    by_cases h0 : nrGens = 0
    · simp only [h0, if_true]
    · simp only [h0, if_false]
      by_cases h1 : mat.length = 0
      · simp only [h1, if_true]
      · simp only [h1, if_false]
        have h := diagonalizeB_fst mat 0
        split <;> rename_i heq <;> rw [heq] at h <;> simp only at h <;> rw [← h]
        simp only [chainPassB_fst]

end DSymVerif.Inv
