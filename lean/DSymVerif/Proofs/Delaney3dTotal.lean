/-
Property C15, phase 2: totality of the table tests of `construct_candidates` on valid tables —
`is_fully_involutive`, `degree`, `flattens_all`, `core_type` return (no modelled panic, no
exhausted fuel), and `core_type` of a core table answers with a point-group name.
-/
import DSymVerif.Proofs.Delaney3dCoreOrder
import DSymVerif.Proofs.Delaney3dPipeline

namespace DSymVerif.D3
open DSymVerif DSymVerif.Cosets DSymVerif.SpecC11 DSymVerif.SpecC13 DSymVerif.CosetP DSymVerif.StabP

theorem involutiveLoop_ok (get : Nat → Int → Outcome (Option Nat)) :
    ∀ pairs : List (Nat × Int),
      (∀ p ∈ pairs, ∃ a b, get p.1 p.2 = .ok a ∧ get p.1 (-p.2) = .ok b) →
      ∃ b, involutiveLoop get pairs = .ok b
  | [], _ => ⟨true, rfl⟩
  | (row, g) :: rest, h => by
    obtain ⟨a, b, ha, hb⟩ := h (row, g) (List.mem_cons_self ..)
    simp only at ha hb
    unfold involutiveLoop
    rw [ha, hb]
    simp only
    split
    · exact ⟨false, rfl⟩
    · exact involutiveLoop_ok get rest (fun p hp => h p (List.mem_cons_of_mem _ hp))

section
variable {c : Tab} {n : Nat} {rels subs : List (List Int)}

theorem isFullyInvolutive_ok (hv : Valid c n rels subs) : ∃ b, isFullyInvolutive n c = .ok b := by
  unfold isFullyInvolutive
  apply involutiveLoop_ok
  rintro ⟨row, g⟩ hp
  unfold rowLetterPairs at hp
  obtain ⟨r, hr, hp⟩ := List.mem_flatMap.mp hp
  obtain ⟨g', hg', hp⟩ := List.mem_map.mp hp
  cases hp
  have hr' : row < c.size := List.mem_range.mp hr
  have hgl : g ∈ letters n := by rw [← allGensOf_eq_letters]; exact hg'
  obtain ⟨d, hd⟩ := hv.total row hr' g hgl
  obtain ⟨e, he⟩ := hv.total row hr' (-g) (neg_mem_letters hgl)
  exact ⟨some d, some e, get_ofView hd, get_ofView he⟩

/-- `degree` on a valid table: the least return time of row 0 under the word -/
theorem degree_valid (hv : Valid c n rels subs) (w : List Int) (hw : ∀ g ∈ w, g ∈ letters n) :
    ∃ k, degree n c w = .ok k ∧ 1 ≤ k ∧ k ≤ c.size ∧ iterTrace (tbl n c).get w k 0 = .ok 0 ∧
      ∀ j, 1 ≤ j → j < k → iterTrace (tbl n c).get w j 0 ≠ .ok 0 :=
  degreeOf_spec _ _ w hv.pos (actsOn_of_valid hv w hw)

theorem flattensAll_ok (hv : Valid c n rels subs) :
    ∀ cones : List (List Int × Nat), (∀ x ∈ cones, ∀ g ∈ x.1, g ∈ letters n) →
      ∃ b, flattensAll n c cones = .ok b
  | [], _ => ⟨true, rfl⟩
  | (wd, deg) :: rest, h => by
    obtain ⟨k, hk, _⟩ := degree_valid hv wd (h (wd, deg) (List.mem_cons_self ..))
    unfold flattensAll
    rw [hk]
    simp only
    split
    · exact flattensAll_ok hv rest (fun x hx => h x (List.mem_cons_of_mem _ hx))
    · exact ⟨false, rfl⟩

end

/-- `core_type` of the core of a valid table with at most 4 rows returns, and its answer is a
    point-group name: the `panic!()` arm of `core_type_by_size` is not reachable -/
theorem coreType_of_core {n : Nat} {rels : List (List Int)} {c : Tab}
    (hlet : ∀ w ∈ rels, ∀ x ∈ w, x ∈ allGensOf n) (h : IsCoreOf n rels 4 c)
    (hdom : Tables.coreTypeBySize.map (·.1) = [1, 2, 3, 6, 8, 12, 24]) (hsp : Tables.coreTypeSpecialSize = 4) :
    c.size ∈ [1, 2, 3, 4, 6, 8, 12, 24] ∧ ∃ name, coreType n c = .ok name := by
  obtain ⟨t, hv, hk, hc⟩ := h
  obtain ⟨c', hc', hv', _, lab, hsz, hnd, hlab⟩ := coreTab_valid hlet hv
  rw [hc] at hc'
  cases hc'
  have hsize : c.size ∈ [1, 2, 3, 4, 6, 8, 12, 24] := by
    rw [hsz]
    exact core_rows_order hv (by simpa using hk) lab hnd hlab
  refine ⟨hsize, ?_⟩
  have hV := valid_of_validTable hv'
  unfold coreType
  split
  · obtain ⟨b, hb⟩ := isFullyInvolutive_ok hV
    rw [hb]
    cases b
    · exact ⟨_, rfl⟩
    · exact ⟨_, rfl⟩
  · rename_i hne
    rw [hsp] at hne
    unfold coreTypeBySize
    cases hf : Tables.coreTypeBySize.find? (fun p => p.1 == c.size) with
    | some p => exact ⟨p.2, rfl⟩
    | none =>
      exfalso
      have hmem : c.size ∈ Tables.coreTypeBySize.map (·.1) := by
        rw [hdom]
        simp only [List.mem_cons, List.mem_nil_iff, or_false] at hsize ⊢
        omega
      obtain ⟨p, hp, hpn⟩ := List.mem_map.mp hmem
      have := List.find?_eq_none.mp hf p hp
      simp [hpn] at this

end DSymVerif.D3
