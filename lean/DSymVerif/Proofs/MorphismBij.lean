/-
Helper lemmas for property C04, part 4: an endomorphism of a connected complete D-set
(operations involutive) is a bijection of 1..size — so the list returned by
`automorphisms` consists of self-bijections.  (Pigeonhole from Mathlib's `Finset`.)
-/
import Mathlib.Data.Finset.Card
import DSymVerif.Proofs.MorphismTotal

namespace DSymVerif.Mor

/-- every operation is undone by itself -/
def Invol (a : MV) : Prop :=
  ∀ i, i ≤ a.dim → ∀ x y, 1 ≤ x → x ≤ a.size → a.op i x = some y → a.op i y = some x

theorem endo_surjective (a : MV) (ha : OpRange a) (hc : Complete a a.dim) (hinv : Invol a)
    (hconn : Connected a) (h1 : 1 ≤ a.size) (g : Nat → Nat) (hg : IsMor a a g)
    (hr : InRange a a g) :
    ∀ d, 1 ≤ d → d ≤ a.size → ∃ x, 1 ≤ x ∧ x ≤ a.size ∧ g x = d := by
  let I : Nat → Prop := fun d => ∃ x, 1 ≤ x ∧ x ≤ a.size ∧ g x = d
  have closI : ∀ d i di, i ≤ a.dim → I d → a.op i d = some di → I di := by
    rintro d i di hi ⟨x, hx1, hx2, rfl⟩ hdi
    obtain ⟨xi, hxi, hxi1, hxi2⟩ := hc i hi x hx1 hx2
    exact ⟨xi, hxi1, hxi2, hg.op x hx1 hx2 i hi xi di hxi hdi⟩
  have step1 : ∀ d, 1 ≤ d → d ≤ a.size → (I d ↔ I 1) := by
    apply hconn (fun d => I d ↔ I 1) Iff.rfl
    intro d i di hd1 hd2 hi hR hdi
    have hdir := ha _ _ _ hdi
    have hback := hinv i hi d di hd1 hd2 hdi
    exact ⟨fun h => hR.1 (closI di i d hi h hback), fun h => closI d i di hi (hR.2 h) hdi⟩
  have hg1 := hr 1 (Nat.le_refl 1) h1
  have hI1 : I 1 := (step1 (g 1) hg1.1 hg1.2).1 ⟨1, Nat.le_refl 1, h1, rfl⟩
  exact hconn I hI1 (fun d i di _ _ hi hR hdi => closI d i di hi hR hdi)

theorem endo_injective (a : MV) (ha : OpRange a) (hc : Complete a a.dim) (hinv : Invol a)
    (hconn : Connected a) (h1 : 1 ≤ a.size) (g : Nat → Nat) (hg : IsMor a a g)
    (hr : InRange a a g) :
    ∀ x y, 1 ≤ x → x ≤ a.size → 1 ≤ y → y ≤ a.size → g x = g y → x = y := by
  let S : Finset Nat := (Finset.range (a.size + 1)).filter (fun x => 1 ≤ x)
  have hmem : ∀ x, x ∈ S ↔ 1 ≤ x ∧ x ≤ a.size := by
    intro x
    simp only [S, Finset.mem_filter, Finset.mem_range]
    omega
  have hsurj := endo_surjective a ha hc hinv hconn h1 g hg hr
  have inj : Set.InjOn g (S : Set Nat) := by
    apply Finset.injOn_of_surjOn_of_card_le g (s := S) (t := S)
    · intro x hx
      have hx' := (hmem x).1 (by simpa using hx)
      have := hr x hx'.1 hx'.2
      exact (by simpa using (hmem (g x)).2 this)
    · intro d hd
      have hd' := (hmem d).1 (by simpa using hd)
      obtain ⟨x, hx1, hx2, hx⟩ := hsurj d hd'.1 hd'.2
      exact ⟨x, by simpa using (hmem x).2 ⟨hx1, hx2⟩, hx⟩
    · exact le_rfl
  intro x y hx1 hx2 hy1 hy2 hxy
  exact inj (by simpa using (hmem x).2 ⟨hx1, hx2⟩) (by simpa using (hmem y).2 ⟨hy1, hy2⟩) hxy

end DSymVerif.Mor
