/-
Property C05, part 4: `derived::cover`, `as_partial_dsym`, `oriented_cover` — assembly of
`Proofs/CoversSet.lean` (the D-set) and `Proofs/CoversSym.lean` (the branching table).
-/
import DSymVerif.Proofs.CoversSet
import DSymVerif.Proofs.CoversSym

namespace DSymVerif.DS

/-! ### `cover` unfolded -/

theorem cover_eq (s : DSymData) (n : Nat) (σ : Nat → Nat → Nat → Nat) :
    cover s n σ =
      match buildSet (n * s.size) s.dim (coverOp s σ) with
      | .ok ds => buildSymUsingMs ds (fun i d => s.mAdj i ((d - 1) % s.size + 1))
      | .err => .err
      | .panic => .panic := rfl

/-! ### degrees of the base -/

/-- the degree `m(i, i+1, b)` of a symbol with valid tables: `r · v` of the orbit of `b` -/
def DSymData.mVal (s : DSymData) (i b : Nat) : Nat :=
  s.orbitRs.getD (s.ixAt i b) 0 * s.orbitVs.getD (s.ixAt i b) 0

theorem ValidTables.mPartial_adj {s : DSymData} (h : ValidTables s) {i b : Nat} (hi : i < s.dim)
    (h1 : 1 ≤ b) (h2 : b ≤ s.size) : s.mPartial i (i + 1) b = .ok (some (s.mVal i b)) := by
  unfold DSymData.mPartial
  rw [h.rPartial_adj hi h1 h2, h.vPartial_adj hi h1 h2]
  rfl

theorem ValidTables.mAdj_eq {s : DSymData} (h : ValidTables s) {i b : Nat} (hi : i < s.dim)
    (h1 : 1 ≤ b) (h2 : b ≤ s.size) : s.mAdj i b = some (s.mVal i b) := by
  unfold DSymData.mAdj
  rw [h.mPartial_adj hi h1 h2]

theorem ValidTables.vAdj_eq {s : DSymData} (h : ValidTables s) {i b : Nat} (hi : i < s.dim)
    (h1 : 1 ≤ b) (h2 : b ≤ s.size) : s.vAdj i b = some (s.orbitVs.getD (s.ixAt i b) 0) := by
  unfold DSymData.vAdj
  rw [h.vPartial_adj hi h1 h2]

theorem ValidTables.mVal_orb {s : DSymData} (h : ValidTables s) {i x y : Nat} (hi : i < s.dim)
    (hx1 : 1 ≤ x) (hx2 : x ≤ s.size) (ho : Orb2 s.dset i (i + 1) x y) : s.mVal i x = s.mVal i y := by
  have hy := Orb2.range h.set (Nat.le_of_lt hi) (show i + 1 ≤ s.dset.dim from hi) ⟨hx1, hx2⟩ ho
  unfold DSymData.mVal
  rw [(h.ixAt_eq_iff hi hx1 hx2 hy.1 hy.2).2 ho]

/-! ### the projection maps orbits of the cover into orbits of the base -/

theorem cproj_orb {s ds : DSetData} (h : ValidSet s) (hsz : 1 ≤ s.size) (hds : ValidSet ds) {n : Nat}
    {σ : Nat → Nat → Nat → Nat} (hsize : ds.size = n * s.size) (hdim : ds.dim = s.dim)
    (hop : ∀ i d, i ≤ s.dim → 1 ≤ d → d ≤ n * s.size → ds.opU i d = coverF s σ i d)
    {i j : Nat} (hi : i ≤ s.dim) (hj : j ≤ s.dim) {x y : Nat} (hx : 1 ≤ x ∧ x ≤ ds.size)
    (ho : Orb2 ds i j x y) : Orb2 s i j (cproj s.size x) (cproj s.size y) := by
  induction ho with
  | refl => exact Orb2.refl _
  | @stepI e ho' ih =>
    have he := Orb2.range hds (by rw [hdim]; exact hi) (by rw [hdim]; exact hj) hx ho'
    rw [hop i e hi he.1 (by rw [← hsize]; exact he.2), cproj_coverF h hsz hi]
    exact Orb2.stepI ih
  | @stepJ e ho' ih =>
    have he := Orb2.range hds (by rw [hdim]; exact hi) (by rw [hdim]; exact hj) hx ho'
    rw [hop j e hj he.1 (by rw [← hsize]; exact he.2), cproj_coverF h hsz hj]
    exact Orb2.stepJ ih

/-! ### fibres -/

theorem filter_succ_eq_length (b : Nat) (hb : 1 ≤ b) :
    ∀ m, ((List.range m).filter (fun t => decide (t + 1 = b))).length = if b ≤ m then 1 else 0
  | 0 => by
    rw [if_neg (by omega)]; rfl
  | m + 1 => by
    rw [List.range_succ, List.filter_append, List.length_append, filter_succ_eq_length b hb m]
    by_cases h1 : b ≤ m
    · rw [if_pos h1, if_pos (by omega)]
      have : ¬ (m + 1 = b) := by omega
      simp [this]
    · rw [if_neg h1]
      by_cases h2 : b = m + 1
      · subst h2; simp
      · rw [if_neg (by omega)]
        have : ¬ (m + 1 = b) := fun hc => h2 hc.symm
        simp [this]

/-- every fibre of the projection `{1..n·sz} → {1..sz}` has exactly `n` elements -/
theorem fibre_length {sz b : Nat} (hb1 : 1 ≤ b) (hb2 : b ≤ sz) :
    ∀ n, (((List.range (n * sz)).map (· + 1)).filter (fun d => decide (cproj sz d = b))).length = n
  | 0 => by simp
  | n + 1 => by
    have e : (n + 1) * sz = n * sz + sz := by rw [Nat.add_mul, Nat.one_mul]
    rw [e, List.range_add, List.map_append, List.filter_append, List.length_append, fibre_length hb1 hb2 n,
      List.map_map, List.filter_map, List.length_map]
    have : (List.range sz).filter ((fun d => decide (cproj sz d = b)) ∘ ((· + 1) ∘ fun x => n * sz + x)) =
        (List.range sz).filter (fun t => decide (t + 1 = b)) := by
      apply List.filter_congr
      intro t ht
      have ht' : t < sz := List.mem_range.1 ht
      show decide (cproj sz (n * sz + t + 1) = b) = decide (t + 1 = b)
      have : n * sz + t + 1 = sz * n + (t + 1) := by rw [Nat.mul_comm]; omega
      rw [this, cproj_mk (by omega) (by omega)]
    rw [this, filter_succ_eq_length b hb1 sz, if_pos hb2]

/-! ### `cover` -/

/-- **`cover` returns a covering** — the model-level statement behind `cover_is_covering` -/
theorem cover_ok (s : DSymData) (hs : ValidTables s) (hsz : 1 ≤ s.size) (hdim : 1 ≤ s.dim)
    {n : Nat} (hn : 1 ≤ n) {σ : Nat → Nat → Nat → Nat} (hσ : SheetCompat s.dset n σ) :
    ∃ c, cover s n σ = .ok c ∧ c.size = n * s.size ∧ c.dim = s.dim ∧ ValidTables c ∧
      (∀ i d, i ≤ s.dim → 1 ≤ d → d ≤ n * s.size → c.dset.opU i d = coverF s.dset σ i d) ∧
      (∀ i d, i < s.dim → 1 ≤ d → d ≤ n * s.size →
        ∃ r, IsLeastPeriod c.dset i (i + 1) d r ∧
          c.rPartial i (i + 1) d = .ok (some r) ∧
          c.vPartial i (i + 1) d = .ok (some (s.mVal i (cproj s.size d) / r)) ∧
          c.mPartial i (i + 1) d = .ok (some (r * (s.mVal i (cproj s.size d) / r)))) := by
  obtain ⟨ds, hb, hsize, hdim', hvalid, hop⟩ := cover_buildSet_ok s hs.set hsz hdim hn hσ
  have hm : ∀ i d, i < ds.dim → 1 ≤ d → d ≤ ds.size →
      (fun i d => s.mAdj i ((d - 1) % s.size + 1)) i d = some ((fun i d => s.mVal i (cproj s.size d)) i d) := by
    intro i d hi _ _
    have hp := cproj_range (d := d) hsz
    exact hs.mAdj_eq (by rw [← hdim']; exact hi) hp.1 hp.2
  have hM : ∀ i x y, i < ds.dim → 1 ≤ x → x ≤ ds.size → Orb2 ds i (i + 1) x y →
      (fun i d => s.mVal i (cproj s.size d)) i x = (fun i d => s.mVal i (cproj s.size d)) i y := by
    intro i x y hi hx1 hx2 ho
    have hi' : i < s.dim := by rw [← hdim']; exact hi
    have hp := cproj_range (d := x) hsz
    exact hs.mVal_orb hi' hp.1 hp.2
      (cproj_orb hs.set hsz hvalid hsize hdim' hop (Nat.le_of_lt hi') hi' ⟨hx1, hx2⟩ ho)
  obtain ⟨c, hc, hcd, hct, hdeg⟩ := buildSymUsingMs_ok hvalid hm hM
  refine ⟨c, ?_, ?_, ?_, hct, ?_, ?_⟩
  · rw [cover_eq, hb]; exact hc
  · show c.dset.size = _; rw [hcd]; exact hsize
  · show c.dset.dim = _; rw [hcd]; exact hdim'
  · intro i d hi h1 h2; rw [hcd]; exact hop i d hi h1 h2
  · intro i d hi h1 h2
    rw [hcd]
    exact hdeg i d (by rw [hdim']; exact hi) h1 (by rw [hsize]; exact h2)

/-- `PartialDSym::is_complete` of a cover: every orbit length of the cover divides the (positive)
    degree of the base -/
theorem cover_isComplete (s : DSymData) (hs : ValidTables s) (hsz : 1 ≤ s.size) (hdim : 1 ≤ s.dim)
    {n : Nat} (hn : 1 ≤ n) {σ : Nat → Nat → Nat → Nat} (hσ : SheetCompat s.dset n σ)
    {c : DSymData} (hc : cover s n σ = .ok c)
    (hdiv : ∀ i d r, i < s.dim → 1 ≤ d → d ≤ n * s.size → IsLeastPeriod c.dset i (i + 1) d r →
      1 ≤ s.mVal i (cproj s.size d) ∧ r ∣ s.mVal i (cproj s.size d)) :
    c.isCompletePartial = true := by
  obtain ⟨c', hc', hsize, hdim', hct, _, hdeg⟩ := cover_ok s hs hsz hdim hn hσ
  rw [hc] at hc'
  cases hc'
  unfold DSymData.isCompletePartial
  rw [hct.set.isCompletePartial, Bool.true_and, Array.all_eq_true]
  intro k hk
  have hk' : k < (collectOrbits c.dset).rs.size := by
    rw [← hct.rs_eq, ← hct.vs_size]; exact hk
  obtain ⟨i, x, hi, hx1, hx2, hkx⟩ := collectOrbits_surj hct.set hk'
  have hi' : i < s.dim := by rw [← hdim']; exact hi
  have hx2' : x ≤ n * s.size := by rw [← hsize]; exact hx2
  obtain ⟨r, hr, hrp, hvp, _⟩ := hdeg i x hi' hx1 hx2'
  obtain ⟨hm1, hdvd⟩ := hdiv i x r hi' hx1 hx2' hr
  have hv := hct.vPartial_adj (show i < c.dim from hi) hx1 (show x ≤ c.size from hx2)
  rw [hvp] at hv
  have hkx' : c.ixAt i x = k := by unfold DSymData.ixAt; rw [hct.index_eq]; exact hkx
  rw [hkx'] at hv
  have hval : c.orbitVs.getD k 0 = s.mVal i (cproj s.size x) / r := by
    have := Option.some.inj (Outcome.ok.inj hv)
    exact this.symm
  have hpos : 0 < s.mVal i (cproj s.size x) / r :=
    Nat.div_pos (Nat.le_of_dvd (by omega) hdvd) (by have := hr.1; omega)
  have hget : c.orbitVs[k] = c.orbitVs.getD k 0 := by
    rw [Array.getD_eq_getD_getElem?, Array.getElem?_eq_getElem hk]; rfl
  rw [hget, hval]
  exact decide_eq_true hpos

/-- the model has no error value here: `cover` returns or panics -/
theorem cover_ne_err_of_buildSet_panic (s : DSymData) (n : Nat) (σ : Nat → Nat → Nat → Nat)
    (h : buildSet (n * s.size) s.dim (coverOp s σ) = .panic) : cover s n σ = .panic := by
  rw [cover_eq, h]

/-- **`cover` panics exactly when the sheet map is not compatible** -/
theorem cover_panic_iff (s : DSymData) (hs : ValidTables s) (hsz : 1 ≤ s.size) (hdim : 1 ≤ s.dim)
    {n : Nat} (hn : 1 ≤ n) (σ : Nat → Nat → Nat → Nat) :
    cover s n σ = .panic ↔ ¬ SheetCompat s.dset n σ := by
  constructor
  · intro hp hσ
    obtain ⟨c, hc, _⟩ := cover_ok s hs hsz hdim hn hσ
    rw [hc] at hp; cases hp
  · intro hσ
    cases hb : buildSet (n * s.size) s.dim (coverOp s σ) with
    | ok ds => exact absurd (cover_buildSet_ok_inv s hs.set hsz hb) hσ
    | err => exact absurd hb (buildSet_ne_err _ _ _)
    | panic => exact cover_ne_err_of_buildSet_panic s n σ hb

/-- zero sheets: `PartialDSet::new` asserts `size >= 1` -/
theorem cover_zero_sheets (s : DSymData) (σ : Nat → Nat → Nat → Nat) : cover s 0 σ = .panic := by
  rw [cover_eq]
  have : buildSet (0 * s.size) s.dim (coverOp s σ) = .panic := by
    unfold buildSet DSetData.new
    rw [Nat.zero_mul, if_pos (by simp)]
  rw [this]

/-! ### `as_partial_dsym` is the identity on symbols with valid tables -/

theorem DSetData.ext_of_opU {a b : DSetData} (hsize : a.size = b.size) (hdim : a.dim = b.dim)
    (ha : a.op.size = a.size * (a.dim + 1)) (hb : b.op.size = b.size * (b.dim + 1))
    (hop : ∀ i d, i ≤ a.dim → 1 ≤ d → d ≤ a.size → a.opU i d = b.opU i d) : a = b := by
  cases a with
  | mk asz adim aop =>
  cases b with
  | mk bsz bdim bop =>
  simp only at hsize hdim ha hb hop
  subst hsize hdim
  have : aop = bop := by
    apply Array.ext
    · rw [ha, hb]
    · intro k hk1 hk2
      have hk : k < asz * (adim + 1) := by rw [← ha]; exact hk1
      have hdiv : k / (adim + 1) < asz := by
        rw [Nat.div_lt_iff_lt_mul (by omega)]; exact hk
      have hmod : k % (adim + 1) < adim + 1 := Nat.mod_lt _ (by omega)
      have hk' : (k / (adim + 1) + 1 - 1) * (adim + 1) + k % (adim + 1) = k := by
        rw [Nat.add_sub_cancel, Nat.mul_comm]; exact Nat.div_add_mod k (adim + 1)
      have := hop (k % (adim + 1)) (k / (adim + 1) + 1) (Nat.le_of_lt_succ hmod) (Nat.le_add_left 1 _)
        (Nat.succ_le_of_lt hdiv)
      unfold DSetData.opU DSetData.idx at this
      simp only at this
      rw [hk'] at this
      rw [Array.getD_eq_getD_getElem?, Array.getD_eq_getD_getElem?, Array.getElem?_eq_getElem hk1,
        Array.getElem?_eq_getElem hk2] at this
      exact this
  rw [this]

/-- `as_partial_dsym(ds) = ds` for every symbol with valid tables -/
theorem asPartialDSym_self (s : DSymData) (hs : ValidTables s) (hsz : 1 ≤ s.size) (hdim : 1 ≤ s.dim) :
    asPartialDSym s = .ok s := by
  obtain ⟨ds, hb, hsize, hdim', hvalid, hop⟩ :=
    buildSet_of_total_involution (op := s.op) (f := s.dset.opU) hsz hdim
      (fun i d hi h1 h2 => opSimple_eq_some.2 ⟨hi, h1, h2, rfl⟩)
      (fun i d hi h1 h2 => hs.set.range i d hi h1 h2)
      (fun i d hi h1 h2 => hs.set.invol i d hi h1 h2)
  have hds : ds = s.dset :=
    DSetData.ext_of_opU hsize hdim' hvalid.size_eq hs.set.size_eq
      (fun i d hi h1 h2 => hop i d (by rw [← hdim']; exact hi) h1 (by rw [← hsize]; exact h2))
  subst hds
  obtain ⟨vs, hv, hvs, hdone⟩ := buildSymUsingVs_ok (ds := s.dset) hs.set
    (v := fun i d => s.vAdj i d) (V := fun i d => s.orbitVs.getD (s.ixAt i d) 0)
    (fun i d hi h1 h2 => hs.vAdj_eq hi h1 h2)
    (fun i x y hi hx1 hx2 ho => by
      have hy := Orb2.range hs.set (Nat.le_of_lt hi) (show i + 1 ≤ s.dset.dim from hi) ⟨hx1, hx2⟩ ho
      show s.orbitVs.getD (s.ixAt i x) 0 = s.orbitVs.getD (s.ixAt i y) 0
      rw [(hs.ixAt_eq_iff hi hx1 hx2 hy.1 hy.2).2 ho])
  unfold asPartialDSym
  rw [hb]
  simp only
  rw [hv]
  -- the rebuilt symbol has the tables of `collect_orbits` (= those of `s`) and the same branching entries
  have hix : ∀ i x, (DSymData.ofSimple s.dset).ixAt i x = s.ixAt i x := by
    intro i x; unfold DSymData.ixAt; rw [hs.index_eq]; rfl
  have hvs' : vs = s.orbitVs := by
    apply Array.ext
    · rw [hvs, hs.vs_size, hs.rs_eq]; rfl
    · intro k hk1 hk2
      have hk : k < (collectOrbits s.dset).rs.size := by
        have : vs.size = (collectOrbits s.dset).rs.size := hvs
        rw [← this]; exact hk1
      obtain ⟨i, x, hi, hx1, hx2, hkx⟩ := collectOrbits_surj hs.set hk
      have h1 := hdone i x hi hx1 hx2
      rw [hix] at h1
      have hkx' : s.ixAt i x = k := by unfold DSymData.ixAt; rw [hs.index_eq]; exact hkx
      rw [hkx'] at h1
      rw [Array.getD_eq_getD_getElem?, Array.getD_eq_getD_getElem?, Array.getElem?_eq_getElem hk1,
        Array.getElem?_eq_getElem hk2] at h1
      exact h1
  rw [hvs']
  congr 1
  cases s with
  | mk dset oi ors ovs =>
  simp only [DSymData.ofSimple, DSymData.withVs]
  have h1 : oi = (collectOrbits dset).index := hs.index_eq
  have h2 : ors = (collectOrbits dset).rs := hs.rs_eq
  rw [h1, h2]

/-! ### `oriented_cover` -/

/-- the sheet map of `oriented_cover` -/
def oriSheetMap (s : DSymData) (ori : Array Nat) (k i d : Nat) : Nat :=
  match s.op i d with
  | some di => if ori.getD d 0 = ori.getD di 0 then k ^^^ 1 else k
  | none => k

theorem orientedCover_eq (s : DSymData) :
    orientedCover s =
      if s.view.isOriented then asPartialDSym s
      else cover s 2 (oriSheetMap s s.view.partialOrientation) := rfl

theorem xor_one_lt_two {k : Nat} (hk : k < 2) : k ^^^ 1 < 2 ∧ (k ^^^ 1) ^^^ 1 = k := by
  have : k = 0 ∨ k = 1 := by omega
  rcases this with rfl | rfl <;> decide

/-- the sheet map of `oriented_cover` is compatible, whatever signs `partial_orientation`
    computed: the test `ori[d] == ori[op_i d]` is symmetric in the two ends of an edge -/
theorem oriSheetMap_compat (s : DSymData) (h : ValidSet s.dset) (ori : Array Nat) :
    SheetCompat s.dset 2 (oriSheetMap s ori) := by
  have hop : ∀ i d, i ≤ s.dset.dim → 1 ≤ d → d ≤ s.dset.size → s.op i d = some (s.dset.opU i d) :=
    fun i d hi h1 h2 => opSimple_eq_some.2 ⟨hi, h1, h2, rfl⟩
  constructor
  · intro k i d hk hi h1 h2
    unfold oriSheetMap
    rw [hop i d hi h1 h2]
    simp only
    split
    · exact (xor_one_lt_two hk).1
    · exact hk
  · intro k i d hk hi h1 h2
    have hr := h.range i d hi h1 h2
    unfold oriSheetMap
    rw [hop i d hi h1 h2, hop i _ hi hr.1 hr.2, h.invol i d hi h1 h2]
    simp only
    by_cases he : ori.getD d 0 = ori.getD (s.dset.opU i d) 0
    · rw [if_pos he, if_pos he.symm]; exact (xor_one_lt_two hk).2
    · rw [if_neg he, if_neg (fun hc => he hc.symm)]

end DSymVerif.DS
