/-
Helper lemmas for property C09, part 4: the association-list model of
`HashMap<Ridge, (Ridge, usize)>` behaves like a finite map (`get` after `insert` / `remove`),
and the number of "real" keys (chamber ≥ 1) — the termination measure of `glue_recursively`.
-/
import Mathlib.Data.List.Nodup
import DSymVerif.Model.FundGroup

namespace DSymVerif.FGP
open DSymVerif DSymVerif.DS DSymVerif.FG

/-- the keys of the map are pairwise different (a `HashMap` has this by construction) -/
def KeysNodup (m : OppMap) : Prop := (m.map Prod.fst).Nodup

theorem oppGet_eq_none {m : OppMap} {k : Ridge} : oppGet m k = none ↔ k ∉ m.map Prod.fst := by
  induction m with
  | nil => simp [oppGet]
  | cons p rest ih =>
    obtain ⟨k', v⟩ := p
    unfold oppGet
    by_cases h : k' = k
    · subst h; simp
    · have h' : ¬ k = k' := fun e => h e.symm
      simp [h, h', ih]

theorem oppGet_insert (k : Ridge) (v : Ridge × Nat) (k' : Ridge) : ∀ (m : OppMap),
    oppGet (oppInsert m k v) k' = if k' = k then some v else oppGet m k'
  | [] => by
    by_cases h : k' = k
    · subst h; simp [oppInsert, oppGet]
    · have h' : ¬ k = k' := fun e => h e.symm
      simp [oppInsert, oppGet, h, h']
  | (k0, v0) :: rest => by
    unfold oppInsert
    by_cases h0 : k0 = k
    · subst h0
      by_cases h : k' = k0
      · subst h; simp [oppGet]
      · have h' : ¬ k0 = k' := fun e => h e.symm
        simp [oppGet, h, h']
    · rw [if_neg h0]
      by_cases h : k' = k
      · subst h
        simp [oppGet, h0, oppGet_insert k' v k' rest]
      · by_cases h1 : k0 = k'
        · subst h1; simp [oppGet, h]
        · simp [oppGet, h1, h, oppGet_insert k v k' rest]

theorem keys_insert_of_mem (k : Ridge) (v : Ridge × Nat) : ∀ (m : OppMap), k ∈ m.map Prod.fst →
    (oppInsert m k v).map Prod.fst = m.map Prod.fst
  | [], h => by simp at h
  | (k0, v0) :: rest, h => by
    unfold oppInsert
    by_cases h0 : k0 = k
    · subst h0; simp
    · rw [if_neg h0]
      have : k ∈ rest.map Prod.fst := by
        rcases List.mem_cons.1 h with h | h
        · exact absurd h.symm h0
        · exact h
      simp [keys_insert_of_mem k v rest this]

theorem keys_insert_of_not_mem (k : Ridge) (v : Ridge × Nat) : ∀ (m : OppMap), k ∉ m.map Prod.fst →
    (oppInsert m k v).map Prod.fst = m.map Prod.fst ++ [k]
  | [], _ => by simp [oppInsert]
  | (k0, v0) :: rest, h => by
    unfold oppInsert
    have h0 : ¬ k0 = k := fun e => h (by simp [e])
    rw [if_neg h0]
    have : k ∉ rest.map Prod.fst := fun hm => h (List.mem_cons_of_mem _ hm)
    simp [keys_insert_of_not_mem k v rest this]

theorem keysNodup_insert {m : OppMap} (h : KeysNodup m) (k : Ridge) (v : Ridge × Nat) :
    KeysNodup (oppInsert m k v) := by
  unfold KeysNodup at *
  by_cases hk : k ∈ m.map Prod.fst
  · rw [keys_insert_of_mem k v m hk]; exact h
  · rw [keys_insert_of_not_mem k v m hk]
    rw [List.nodup_append]
    refine ⟨h, List.nodup_singleton _, ?_⟩
    intro a ha b hb
    simp only [List.mem_singleton] at hb
    subst hb
    exact fun e => hk (e ▸ ha)

theorem keys_remove : ∀ (m : OppMap) (k : Ridge),
    (oppRemove m k).map Prod.fst = (m.map Prod.fst).erase k
  | [], k => by simp [oppRemove]
  | (k0, v0) :: rest, k => by
    unfold oppRemove
    by_cases h0 : k0 = k
    · subst h0; simp
    · rw [if_neg h0]
      simp [h0, keys_remove rest k]

theorem keysNodup_remove {m : OppMap} (h : KeysNodup m) (k : Ridge) : KeysNodup (oppRemove m k) := by
  unfold KeysNodup at *
  rw [keys_remove]
  exact h.erase k

theorem oppGet_remove {m : OppMap} (h : KeysNodup m) (k k' : Ridge) :
    oppGet (oppRemove m k) k' = if k' = k then none else oppGet m k' := by
  induction m with
  | nil => simp [oppRemove, oppGet]
  | cons p rest ih =>
    obtain ⟨k0, v0⟩ := p
    have hn : k0 ∉ rest.map Prod.fst ∧ KeysNodup rest := by
      unfold KeysNodup at h
      rw [List.map_cons] at h
      exact List.nodup_cons.1 h
    unfold oppRemove
    by_cases h0 : k0 = k
    · subst h0
      rw [if_pos rfl]
      by_cases h1 : k' = k0
      · subst h1
        rw [if_pos rfl]
        exact oppGet_eq_none.2 hn.1
      · rw [if_neg h1]
        have h1' : ¬ k0 = k' := fun e => h1 e.symm
        simp [oppGet, h1']
    · rw [if_neg h0]
      by_cases h1 : k0 = k'
      · subst h1
        have : ¬ k0 = k := h0
        simp [oppGet, this]
      · simp [oppGet, h1, ih hn.2]

/-! ### the number of real keys -/

def isReal (k : Ridge) : Bool := decide (1 ≤ k.1)

/-- number of keys whose chamber is a chamber (not the sentinel `(0,0,0)`) -/
def realCount (m : OppMap) : Nat := ((m.map Prod.fst).filter isReal).length

theorem realCount_insert_of_mem (m : OppMap) (k : Ridge) (v : Ridge × Nat)
    (h : oppGet m k ≠ none) : realCount (oppInsert m k v) = realCount m := by
  unfold realCount
  rw [keys_insert_of_mem k v m (by
    by_contra hc
    exact h (oppGet_eq_none.2 hc))]

theorem realCount_insert_not_real (m : OppMap) (k : Ridge) (v : Ridge × Nat)
    (h : isReal k = false) : realCount (oppInsert m k v) = realCount m := by
  unfold realCount
  by_cases hk : k ∈ m.map Prod.fst
  · rw [keys_insert_of_mem k v m hk]
  · rw [keys_insert_of_not_mem k v m hk]
    simp [List.filter_append, h]

theorem filter_erase_length {α} [BEq α] [LawfulBEq α] (p : α → Bool) : ∀ (l : List α) (k : α), k ∈ l →
    p k = true → ((l.erase k).filter p).length + 1 = (l.filter p).length
  | [], k, h, _ => by simp at h
  | a :: l, k, h, hp => by
    by_cases ha : a = k
    · subst ha
      simp [hp]
    · have hk : k ∈ l := by
        rcases List.mem_cons.1 h with h | h
        · exact absurd h.symm ha
        · exact h
      have ih := filter_erase_length p l k hk hp
      rw [List.erase_cons_tail (by simpa using ha)]
      by_cases hpa : p a = true
      · simp [hpa]; omega
      · simp [hpa]; omega

theorem realCount_remove (m : OppMap) (k : Ridge) (hr : isReal k = true) (h : oppGet m k ≠ none) :
    realCount (oppRemove m k) + 1 = realCount m := by
  unfold realCount
  rw [keys_remove]
  have hk : k ∈ m.map Prod.fst := by
    by_contra hc
    exact h (oppGet_eq_none.2 hc)
  exact filter_erase_length isReal _ k hk hr

end DSymVerif.FGP
