/-
Helper lemmas for property C08, part 24: on a weakly oriented symbol the boundary walk keeps its
direction — a dart pointing in the direction `trace_boundary` starts in (`Positive`) is carried
to such a dart, so the marked darts are exactly the positive ones.
-/
import DSymVerif.Proofs.Delaney2dClosedOrientable

namespace DSymVerif.D2
open DSymVerif.DS

theorem kplus_facts (y : DSymData) {i : Nat} (_hi : i ≤ 2) (d : Nat) :
    kplus y i d ≤ 2 ∧ kplus y i d ≠ i := by
  unfold kplus; split <;> omega

/-- for distinct a, b: b's direction is a iff a's direction is the third index -/
theorem kplus_swap (y : DSymData) {a b : Nat} (ha : a ≤ 2) (hb : b ≤ 2) (hab : a ≠ b) (d : Nat) :
    kplus y b d = a ↔ kplus y a d = 3 - a - b := by
  unfold kplus; split <;> omega

/-- flipping the colour flips the direction -/
theorem kplus_flip (y : DSymData) {i : Nat} (hi : i ≤ 2) {d d' : Nat} (h : posB y d' = !posB y d) :
    kplus y i d' = 3 - i - kplus y i d := by
  unfold kplus
  rw [h]
  cases posB y d <;> simp <;> omega

section
variable {y : DSymData} (h : ValidSym y) (hdim : y.dim = 2) (hw : y.view.isWeaklyOriented = true)
include h hdim hw

/-- the signs of `partial_orientation` are a proper colouring away from the mirrors -/
theorem posB_flip {i d : Nat} (hi : i ≤ 2) (hd : 1 ≤ d ∧ d ≤ y.size) (hne : y.dset.opU i d ≠ d) :
    posB y (y.dset.opU i d) = !posB y d := by
  have hpin : y.view.PInvol := by rw [y.view_eq]; exact h.set.pinvol
  have hr := h.set.range i d (by show i ≤ y.dim; omega) hd.1 hd.2
  have t1 := partialOrientation_total hpin d hd.1 hd.2
  have t2 := partialOrientation_total hpin _ hr.1 hr.2
  unfold View.isWeaklyOriented at hw
  simp only [List.all_eq_true] at hw
  have hm := hw i (by simp only [View.indices, List.mem_range]; show i < y.dim + 1; omega) d
    (by simp only [View.elements, List.mem_map, List.mem_range]
        exact ⟨d - 1, by show d - 1 < y.size; omega, by omega⟩)
  unfold View.orientationsMatch at hm
  have hop : y.view.op i d = some (y.dset.opU i d) := opSimple_eq_some.2 ⟨by show i ≤ y.dim; omega, hd.1, hd.2, rfl⟩
  rw [hop] at hm
  simp only [Bool.or_eq_true, beq_iff_eq, bne_iff_ne, ne_eq] at hm
  unfold posB
  rcases hm with (hm | hm) | hm
  · exact absurd hm hne
  · rcases t1 with t | t <;> omega
  · rcases t1 with t | t <;> rcases t2 with t' | t' <;> simp_all

/-- colour and due index at the end of a path of non-mirror steps -/
theorem path_colour {σ n k x k' x' : Nat} (p : Path y.dset σ n k x k' x') (hk : k ≤ 2) (hσk : σ - k ≤ 2)
    (hσ : σ - (σ - k) = k) (hx : 1 ≤ x ∧ x ≤ y.size) :
    (posB y x' = if n % 2 = 0 then posB y x else !posB y x) ∧
    (k' = if n % 2 = 0 then k else σ - k) := by
  induction p with
  | nil k x => simp
  | @cons n k x k' x' hstep p ih =>
    have hx' := h.set.range k x (by show k ≤ y.dim; omega) hx.1 hx.2
    have hflip := posB_flip h hdim hw hk hx hstep
    have hσ' : σ - (σ - (σ - k)) = σ - k := by rw [hσ]
    obtain ⟨c1, c2⟩ := ih hσk (by rw [hσ]; exact hk) hσ' hx'
    rw [hflip] at c1
    rw [hσ] at c2
    by_cases hn : n % 2 = 0
    · rw [if_pos hn] at c1 c2
      rw [if_neg (by omega), if_neg (by omega)]
      exact ⟨c1, c2⟩
    · rw [if_neg hn] at c1 c2
      rw [if_pos (by omega), if_pos (by omega)]
      refine ⟨by rw [c1]; simp, c2⟩

/-- **the boundary walk keeps its direction** -/
theorem phi_positive_iff {δ : Dart} (hδ : ValidDart y δ) : Positive y (phi y δ) ↔ Positive y δ := by
  obtain ⟨j, k, e⟩ := δ
  obtain ⟨h1, h2, h3, h4, h5, h6⟩ := hδ
  simp only at h1 h2 h3 h4 h5 h6
  have hδ' : ValidDart y (j, k, e) := ⟨h1, h2, h3, h4, h5, h6⟩
  obtain ⟨n, k', e', hn, p, hk', he', hend, _⟩ :=
    chain_path h.set (a := k) (b := j) (by show k ≤ y.dim; omega) (by show j ≤ y.dim; omega)
      (fun e => h3 e.symm) ⟨h4, h5⟩ h6
  have ta := tau_of_path h.set hdim hδ' (δ := (j, k, e)) p hend (by omega)
  have hphi := (phi_valid h.set hdim hδ').2
  rw [ta] at hphi
  simp only at hphi
  obtain ⟨c1, c2⟩ := path_colour h hdim hw p h2 (by omega) (by omega) ⟨h4, h5⟩
  rw [hphi]
  unfold Positive
  simp only
  have e1 : k + j - k = j := by omega
  rw [e1] at c2
  by_cases hn2 : n % 2 = 0
  · rw [if_pos hn2] at c1 c2
    subst c2
    have : kplus y k' e' = kplus y k' e := by unfold kplus; rw [c1]
    rw [this]
    constructor
    · intro hh
      exact ((kplus_swap y h2 h1 (fun e => h3 e.symm) e).2 (by omega)).symm
    · intro hh
      have := (kplus_swap y h2 h1 (fun e => h3 e.symm) e).1 hh.symm
      omega
  · rw [if_neg hn2] at c1 c2
    subst c2
    rw [kplus_flip y h1 c1]
    have := kplus_facts y h1 e
    constructor
    · intro hh; omega
    · intro hh; omega

theorem phi_iter_positive {δ : Dart} (hδ : ValidDart y δ) (hp : Positive y δ) (n : Nat) :
    Positive y ((phi y)^[n] δ) := by
  induction n with
  | zero => exact hp
  | succ n ih =>
    rw [Function.iterate_succ_apply']
    exact (phi_positive_iff h hdim hw (phi_iter_valid h.set hdim hδ n)).2 ih

omit h hdim hw in
/-- exactly one of the two darts at a mirror end is positive -/
theorem rho_positive_iff {δ : Dart} (hδ : ValidDart y δ) : Positive y (rho δ) ↔ ¬ Positive y δ := by
  obtain ⟨j, k, e⟩ := δ
  obtain ⟨h1, h2, h3, _, _, _⟩ := hδ
  simp only at h1 h2 h3
  unfold Positive rho
  simp only
  have := kplus_facts y h1 e
  omega

/-- **the marked darts are the positive darts** -/
theorem marked_iff_positive {bnds : List (List Nat)} {starts : List (Dart × Nat)}
    (T : TraceRecord y bnds starts) (δ : Dart) :
    δ ∈ recM y starts ↔ ValidDart y δ ∧ Positive y δ := by
  constructor
  · intro hδ
    obtain ⟨p, hp, hmem⟩ := (TraceRecord.mem_M δ).1 hδ
    obtain ⟨m, _, rfl⟩ := mem_dlist.1 hmem
    have hv := (T.ok p hp).1
    exact ⟨phi_iter_valid h.set hdim hv m, phi_iter_positive h hdim hw hv (T.pos p hp) m⟩
  · rintro ⟨hv, hpos⟩
    obtain ⟨p, hp, m, hm, hrel⟩ := T.lookup hv
    have hvp := (T.ok p hp).1
    have hvm := phi_iter_valid h.set hdim hvp m
    have hpm := phi_iter_positive h hdim hw hvp (T.pos p hp) m
    rcases hrel with e | e
    · rw [e]; exact (TraceRecord.mem_M _).2 ⟨p, hp, mem_dlist.2 ⟨m, hm, rfl⟩⟩
    · exfalso
      rw [e] at hpos
      exact (rho_positive_iff hvm).1 hpos hpm

end

end DSymVerif.D2
