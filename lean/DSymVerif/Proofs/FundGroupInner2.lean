/-
Helper lemmas for property C09, part 29 (for C16 `InnerWallsAreFaces`): the completeness invariant
of `glue_recursively` (`Sat`): while only non-mirror facets are glued, a non-mirror facet whose
2-orbit `(a,b)` has `v = 1` and is otherwise completely glued has a `Some(b)` entry in the queue
(for itself or for its other side), and that entry passes the test `good` when it is popped.  So at
the end no such facet is left in the boundary (`glueRecLoop_sat`).
-/
import DSymVerif.Proofs.FundGroupInner

namespace DSymVerif.FGP
open DSymVerif DSymVerif.DS DSymVerif.FG

theorem crossR_last {ds : DSymData} (hs : ValidSym ds) {e a b : Nat} (hr : Rng ds (e, a, b)) :
    1 ≤ orbR ds a b e ∧ crossR ds e a b (2 * orbR ds a b e - 1) = (opT ds a e, a, b) := by
  have hper := orbR_period hs hr.2.2.2.1 hr.2.2.1 hr.1 hr.2.1
  rw [orbR_swap ds a b e] at hper
  obtain ⟨hr1, hper⟩ := hper
  have hbl := wk_before_last hs.set hr1 hper
  refine ⟨hr1, ?_⟩
  unfold crossR; rw [hbl.1, hbl.2.1, hbl.2.2]

theorem partner_eq {ds : DSymData} {e a b : Nat} (hr : Rng ds (e, a, b)) :
    partner ds (e, a, b) = (opT ds a e, a, b) := by
  unfold partner; simp only; rw [opT_eq hr.2.2.1 hr.1 hr.2.1]

/-- the completeness invariant -/
def Sat (ds : DSymData) (m : OppMap) (todo : List Item) : Prop :=
  ∀ e a b, Rng ds (e, a, b) → opT ds a e ≠ e → orbV ds a b e = 1 →
    (∀ t, t + 1 < 2 * orbR ds a b e → oppGet m (crossR ds e a b t) = none) →
    oppGet m (e, a, b) ≠ none →
    (e, a, some b) ∈ todo ∨ (opT ds a e, a, some b) ∈ todo

/-- mirror entries of the queue are gone from the boundary; `None` entries are not mirrors -/
def TDN (ds : DSymData) (todo : List Item) (m : OppMap) : Prop :=
  (∀ it ∈ todo, ∀ j, it.2.2 = some j → Rng ds (it.1, it.2.1, j) → opT ds it.2.1 it.1 = it.1 →
    oppGet m (it.1, it.2.1, j) = none) ∧
  (∀ it ∈ todo, it.2.2 = none → opT ds it.2.1 it.1 ≠ it.1)

theorem sat_good {ds : DSymData} (hs : ValidSym ds) {m : OppMap} (hm : BInv ds m) (hw : WInv ds m)
    (hg : GNM ds m) {e a b : Nat} (hr : Rng ds (e, a, b)) (hne : opT ds a e ≠ e)
    (hv1 : orbV ds a b e = 1)
    (hall : ∀ t, t + 1 < 2 * orbR ds a b e → oppGet m (crossR ds e a b t) = none)
    (hpres : oppGet m (e, a, b) ≠ none) :
    glueGood ds m e a (some b) = .ok true ∧ glueGood ds m (opT ds a e) a (some b) = .ok true := by
  have hv := hs.set
  obtain ⟨hr1, hlast⟩ := crossR_last hs hr
  have hpe := partner_eq hr
  have hBr : Rng ds (opT ds a e, a, b) := hpe ▸ rng_partner hv hr
  have hBp : oppGet m (opT ds a e, a, b) ≠ none := by
    rw [← hpe]; exact fun h => hpres ((hm.pres _ hr).2 h)
  cases g : oppGet m (e, a, b) with
  | none => exact absurd g hpres
  | some p =>
    obtain ⟨opp, n⟩ := p
    obtain ⟨hn, hopp⟩ := walk_end hv hm hw hg hr g (T := 2 * orbR ds a b e - 1)
      (fun t ht => hall t (by omega)) (by rw [hlast]; exact hBp)
    rw [hlast] at hopp
    subst hopp
    have g' := hm.symm _ _ _ hr g hBr
    have o := orbR_opA hs hr.2.2.1 hr.2.2.2.1 hr.1 hr.2.1
    have o1 : orbR ds a b (opT ds a e) = orbR ds a b e := o.1
    have o3 : orbV ds a b (opT ds a e) = orbV ds a b e := o.2.2.1
    clear o
    refine ⟨glueGood_true hs hr g ?_, glueGood_true hs hBr g' ?_⟩
    · rw [hv1, if_neg hne]; omega
    · rw [o1, o3, hv1, opT_invol hv, if_neg (fun h => hne h.symm)]; omega

theorem zornone_none {ds : DSymData} (hv : ValidSet ds.dset) {m : OppMap} (hw : WInv ds m)
    (hg : GNM ds m) {k : Ridge} (hk : Rng ds k) (hz : ZOrNone m k) : oppGet m k = none := by
  rcases hz with h | ⟨n, h⟩
  · exact h
  · have W := hw k.1 k.2.1 k.2.2 zeroR n hk h
    rcases W.2 with e | ⟨_, e2, e3⟩
    · exact absurd (e ▸ crossR_rng hv hk (n - 1)) (not_rng_zero ds)
    · exact absurd e3 (hg _ (crossR_rng hv hk (n - 1)) e2)

theorem crossR_third (ds : DSymData) (e a b t : Nat) :
    (crossR ds e a b t).2.2 = a ∨ (crossR ds e a b t).2.2 = b := by
  show ix a b t = a ∨ ix a b t = b
  rcases ix_mem a b t with h | h
  · exact Or.inl h.1
  · exact Or.inr h.1

/-- two crossings of the walk that meet the same facet pair are the same crossing -/
theorem pair_unique_lt {ds : DSymData} (hs : ValidSym ds) {e a b : Nat} (hr : Rng ds (e, a, b))
    (hnm : ∀ t, t < 2 * orbR ds a b e - 1 →
      opT ds (ix b a t) (wk (opT ds) b a t e) ≠ wk (opT ds) b a t e)
    {d i : Nat} (hd : FacetR ds d i) {t t' : Nat} (hlt : t < t') (ht' : t' + 1 < 2 * orbR ds a b e)
    (h1 : (wk (opT ds) b a t e = d ∨ wk (opT ds) b a t e = opT ds i d) ∧ ix b a t = i)
    (h2 : (wk (opT ds) b a t' e = d ∨ wk (opT ds) b a t' e = opT ds i d) ∧ ix b a t' = i) :
    False := by
  have hv := hs.set
  have dist : ∀ {s u : Nat}, s < u → u ≤ 2 * orbR ds a b e - 1 →
      wk (opT ds) b a s e = wk (opT ds) b a u e → False :=
    fun hsu hu heq => walk_distinct hs hr hnm hsu hu (by omega) heq
  have n1 : wk (opT ds) b a (t + 1) e = opT ds i (wk (opT ds) b a t e) := by
    rw [wk_succ_last, h1.2]
  have n2 : wk (opT ds) b a (t' + 1) e = opT ds i (wk (opT ds) b a t' e) := by
    rw [wk_succ_last, h2.2]
  rcases h1.1 with c1 | c1 <;> rcases h2.1 with c2 | c2
  · exact dist hlt (by omega) (by rw [c1, c2])
  · -- c t = d, c t' = s d : c (t'+1) = d
    rw [c2, opT_invol hv] at n2
    exact dist (show t < t' + 1 by omega) (by omega) (by rw [c1, n2])
  · -- c t = s d, c t' = d : c (t+1) = d
    rw [c1, opT_invol hv] at n1
    rcases Nat.lt_or_ge (t + 1) t' with h | h
    · exact dist h (by omega) (by rw [n1, c2])
    · have : t' = t + 1 := by omega
      have e2 := h2.2
      rw [this, ix_succ] at e2
      have e1 := h1.2
      rcases ix_mem b a t with ⟨x1, x2⟩ | ⟨x1, x2⟩
      · rw [x1] at e1; rw [x2] at e2; exact hr.2.2.2.2 (by rw [e2, e1])
      · rw [x1] at e1; rw [x2] at e2; exact hr.2.2.2.2 (by rw [e2, e1])
  · exact dist hlt (by omega) (by rw [c1, c2])

theorem op_ne_of_opT {ds : DSymData} {a e : Nat} (ha : a ≤ ds.dim) (h1 : 1 ≤ e) (h2 : e ≤ ds.size)
    (h : opT ds a e ≠ e) : ds.op a e ≠ some e := by
  rw [op_eq ha h1 h2]
  rw [opT_eq ha h1 h2] at h
  exact fun e' => h (Option.some.inj e')

/-- `Sat` survives a non-mirror `glue` -/
theorem sat_glue {ds : DSymData} (hs : ValidSym ds) {m m1 : OppMap} {d i : Nat} {jo : Option Nat}
    {todo : List Item} {rs : List Ridge} (hm : BInv ds m) (hw : WInv ds m) (hg : GNM ds m)
    (hd : FacetR ds d i) (hnm : opT ds i d ≠ d) (e1 : glue ds m d i = .ok (m1, rs))
    (go : GlueOut ds d i m m1 rs) (hg1 : GNM ds m1) (hsat : Sat ds m ((d, i, jo) :: todo)) :
    Sat ds m1 (todo ++ rs.map (fun r => (r.1, r.2.1, some r.2.2))) := by
  have hv := hs.set
  intro e a b hr hne hv1 hall hpres
  have hpres0 : oppGet m (e, a, b) ≠ none := fun h => hpres (go.mono _ hr h)
  have hpe := partner_eq hr
  obtain ⟨hr1, hlast⟩ := crossR_last hs hr
  have hBr : Rng ds (opT ds a e, a, b) := hpe ▸ rng_partner hv hr
  by_cases hall0 : ∀ t, t + 1 < 2 * orbR ds a b e → oppGet m (crossR ds e a b t) = none
  · rcases hsat e a b hr hne hv1 hall0 hpres0 with h | h
    · rcases List.mem_cons.1 h with h' | h'
      · have x1 : e = d := congrArg Prod.fst h'
        have x2 : a = i := congrArg (fun r : Item => r.2.1) h'
        subst x1; subst x2
        exact absurd (go.gone b hr.2.2.2.1 (fun e => hr.2.2.2.2 e.symm)).1 hpres
      · exact Or.inl (List.mem_append_left _ h')
    · rcases List.mem_cons.1 h with h' | h'
      · have x1 : opT ds a e = d := congrArg Prod.fst h'
        have x2 : a = i := congrArg (fun r : Item => r.2.1) h'
        subst x2
        have hpp : partner ds (d, a, b) = (e, a, b) := by
          rw [← x1, ← hpe]; exact partner_partner hv hr
        have := (go.gone b hr.2.2.2.1 (fun e => hr.2.2.2.2 e.symm)).2
        rw [hpp] at this
        exact absurd this hpres
      · exact Or.inr (List.mem_append_left _ h')
  · -- the glue removed the last-but-one facet pair of the orbit
    have hex : ∃ t0, t0 + 1 < 2 * orbR ds a b e ∧ oppGet m (crossR ds e a b t0) ≠ none := by
      by_contra hcon
      apply hall0
      intro t ht
      by_contra hp
      exact hcon ⟨t, ht, hp⟩
    obtain ⟨t0, ht0, hp0⟩ := hex
    -- crossings of the walk are non-mirror (they are gone in `m1`)
    have hnm1 : ∀ t, t < 2 * orbR ds a b e - 1 →
        opT ds (ix b a t) (wk (opT ds) b a t e) ≠ wk (opT ds) b a t e :=
      fun t ht => hg1 _ (crossR_rng hv hr t) (hall t (by omega))
    -- a crossing present in `m` belongs to the glued facet pair
    have hin : ∀ t, t + 1 < 2 * orbR ds a b e → oppGet m (crossR ds e a b t) ≠ none →
        ∃ j, crossR ds e a b t = (d, i, j) ∨ crossR ds e a b t = partner ds (d, i, j) := by
      intro t ht hp
      by_contra hcon
      have hfr := go.frame _ (crossR_rng hv hr t) (fun j =>
        ⟨fun e => hcon ⟨j, Or.inl e⟩, fun e => hcon ⟨j, Or.inr e⟩⟩)
      exact hp (hfr.1 (hall t ht))
    have hin' : ∀ t, t + 1 < 2 * orbR ds a b e → oppGet m (crossR ds e a b t) ≠ none →
        (wk (opT ds) b a t e = d ∨ wk (opT ds) b a t e = opT ds i d) ∧ ix b a t = i := by
      intro t ht hp
      obtain ⟨j, h | h⟩ := hin t ht hp
      · exact ⟨Or.inl (congrArg Prod.fst h), congrArg (fun r : Ridge => r.2.1) h⟩
      · refine ⟨Or.inr ?_, congrArg (fun r : Ridge => r.2.1) h⟩
        rw [opT_eq hd.2.2 hd.1 hd.2.1]
        exact congrArg Prod.fst h
    -- … and there is only one such crossing
    have huniq : ∀ t, t + 1 < 2 * orbR ds a b e → t ≠ t0 → oppGet m (crossR ds e a b t) = none := by
      intro t ht hne'
      by_contra hp
      rcases Nat.lt_or_ge t t0 with h | h
      · exact pair_unique_lt hs hr hnm1 hd h ht0 (hin' t ht hp) (hin' t0 ht0 hp0)
      · exact pair_unique_lt hs hr hnm1 hd (show t0 < t by omega) ht (hin' t0 ht0 hp0) (hin' t ht hp)
    obtain ⟨j0, hA⟩ := hin t0 ht0 hp0
    have hAr := crossR_rng hv hr t0
    -- the two indices of the glued ridge are `a` and `b`
    have hidx : ∀ k : Ridge, (k.2.2 = a ∨ k.2.2 = b) → (k.2.2 = i ∨ k.2.2 = j0) := by
      have e1 : ix b a t0 = i := by
        rcases hA with h | h <;> exact congrArg (fun r : Ridge => r.2.1) h
      have e2 : ix a b t0 = j0 := by
        rcases hA with h | h <;> exact congrArg (fun r : Ridge => r.2.2) h
      intro k hk
      rcases ix_mem b a t0 with ⟨x1, x2⟩ | ⟨x1, x2⟩
      · rw [x1] at e1; rw [x2] at e2; rw [← e1, ← e2]; exact hk.symm
      · rw [x1] at e1; rw [x2] at e2; rw [← e1, ← e2]; exact hk
    have hj0 : j0 ≤ ds.dim ∧ j0 ≠ i := by
      rcases hA with h | h
      · rw [h] at hAr; exact ⟨hAr.2.2.2.1, fun e => hAr.2.2.2.2 e.symm⟩
      · rw [h] at hAr; exact ⟨hAr.2.2.2.1, fun e => hAr.2.2.2.2 e.symm⟩
    have hdr : Rng ds (d, i, j0) := ⟨hd.1, hd.2.1, hd.2.2, hj0.1, fun e => hj0.2 e.symm⟩
    rcases hA with hA | hA
    · -- the walk from `e` arrives in front of the glued ridge: `(e,a,b)` is pushed
      left
      apply List.mem_append_right
      have hX : ∀ m1, BInv ds m1 → WInv ds m1 → GNM ds m1 → SameP ds i j0 m m1 →
          ∃ n, oppGet m1 (d, i, j0) = some ((e, a, b), n) := by
        intro mc hmc hwc hgc hsame
        have hpc : oppGet mc (e, a, b) ≠ none := fun h =>
          hpres0 ((hsame _ hr (hidx (e, a, b) (Or.inr rfl))).1 h)
        cases g : oppGet mc (e, a, b) with
        | none => exact absurd g hpc
        | some p =>
          obtain ⟨opp, n⟩ := p
          obtain ⟨_, hopp⟩ := walk_end hv hmc hwc hgc hr g (T := t0)
            (fun t ht => (hsame _ (crossR_rng hv hr t) (hidx _ (crossR_third ds e a b t))).2
              (huniq t (by omega) (by omega)))
            (fun h => hp0 ((hsame _ hAr (hidx _ (crossR_third ds e a b t0))).1 h))
          rw [hA] at hopp
          subst hopp
          exact ⟨n, hmc.symm _ _ _ hr g hdr⟩
      have := glue_push hv hm hw hg hd hnm hj0.1 hj0.2
        (X := (e, a, b)) (op_ne_of_opT hr.2.2.1 hr.1 hr.2.1 hne) hX e1
      exact List.mem_map.2 ⟨(e, a, b), this, rfl⟩
    · -- the walk from the other side arrives there: `(s_a e,a,b)` is pushed
      right
      apply List.mem_append_right
      have hB : partner ds (crossR ds e a b t0) = (d, i, j0) := by
        rw [hA]; exact partner_partner hv hdr
      have hAe : crossR ds e a b t0 = (ds.dset.opU i d, i, j0) := hA
      have hdd : opT ds i (ds.dset.opU i d) = d := by
        rw [← opT_eq hd.2.2 hd.1 hd.2.1, opT_invol hv]
      have hX : ∀ m1, BInv ds m1 → WInv ds m1 → GNM ds m1 → SameP ds i j0 m m1 →
          ∃ n, oppGet m1 (d, i, j0) = some ((opT ds a e, a, b), n) := by
        intro mc hmc hwc hgc hsame
        have hpB : oppGet m (d, i, j0) ≠ none := by
          rw [← hB]; exact fun h => hp0 ((hm.pres _ hAr).2 h)
        have hpc : oppGet mc (d, i, j0) ≠ none := fun h =>
          hpB ((hsame _ hdr (Or.inr rfl)).1 h)
        have hcc : ∀ s, crossR ds d i j0 s = crossR ds e a b (t0 + 1 + s) := by
          intro s
          have cc := cross_concat (ds := ds) (x := e) (p := a) (q := b) (n := t0 + 1)
            (d := ds.dset.opU i d) (i := i) (j := j0)
            (by omega) (by rw [Nat.add_sub_cancel]; exact hAe) s
          rw [hdd] at cc
          unfold crossR
          rw [cc.1, cc.2.1, cc.2.2]
        cases g : oppGet mc (d, i, j0) with
        | none => exact absurd g hpc
        | some p =>
          obtain ⟨opp, n⟩ := p
          have hTe : t0 + 1 + (2 * orbR ds a b e - 2 - t0) = 2 * orbR ds a b e - 1 := by omega
          obtain ⟨_, hopp⟩ := walk_end hv hmc hwc hgc hdr g (T := 2 * orbR ds a b e - 2 - t0)
            (fun s hs' => by
              rw [hcc]
              exact (hsame _ (crossR_rng hv hr _) (hidx _ (crossR_third ds e a b _))).2
                (huniq _ (by omega) (by omega)))
            (by
              rw [hcc, hTe, hlast]
              intro h
              have h' := (hsame _ hBr (hidx (opT ds a e, a, b) (Or.inr rfl))).1 h
              rw [← hpe] at h'
              exact hpres0 ((hm.pres _ hr).2 h'))
          rw [hcc, hTe, hlast] at hopp
          exact ⟨n, by rw [hopp]⟩
      have hXm : ds.op a (opT ds a e) ≠ some (opT ds a e) := by
        apply op_ne_of_opT hr.2.2.1 hBr.1 hBr.2.1
        rw [opT_invol hv]
        exact fun h => hne h.symm
      have := glue_push hv hm hw hg hd hnm hj0.1 hj0.2 (X := (opT ds a e, a, b)) hXm hX e1
      exact List.mem_map.2 ⟨(opT ds a e, a, b), this, rfl⟩

/-- **completeness of `glue_recursively`** for a batch that glues no mirror -/
theorem glueRecLoop_sat {ds : DSymData} (hs : ValidSym ds) : ∀ (fuel : Nat)
    (m : OppMap) (todo res : List Item), BInv ds m → WInv ds m → Unif ds m → GNM ds m →
    TDN ds todo m → (∀ it ∈ todo, ItemOk ds it) → Sat ds m todo →
    ∀ m' out, glueRecLoop ds fuel m todo res = .ok (m', out) →
    BInv ds m' ∧ WInv ds m' ∧ Unif ds m' ∧ GNM ds m' ∧ Sat ds m' []
  | fuel, m, [], res, hm, hw, hu, hg, _, _, hsat, m', out, h => by
    have : glueRecLoop ds fuel m [] res = .ok (m, res.reverse) := by cases fuel <;> rfl
    rw [this] at h
    injection h with h
    have h1 : m = m' := congrArg Prod.fst h
    subst h1
    exact ⟨hm, hw, hu, hg, hsat⟩
  | 0, m, it :: todo, res, _, _, _, _, _, _, _, m', out, h => by
    simp [glueRecLoop] at h
  | fuel + 1, m, (d, i, jo) :: todo, res, hm, hw, hu, hg, htd, hok, hsat, m', out, h => by
    have hv := hs.set
    unfold glueRecLoop at h
    obtain ⟨b, hb, hgood⟩ := glueGood_ok hs hm d i jo
    rw [hb] at h
    cases b with
    | false =>
      simp only at h
      refine glueRecLoop_sat hs fuel m todo res hm hw hu hg
        ⟨fun it hit => htd.1 it (List.mem_cons_of_mem _ hit),
          fun it hit => htd.2 it (List.mem_cons_of_mem _ hit)⟩
        (fun it hit => hok it (List.mem_cons_of_mem _ hit)) ?_ m' out h
      intro e a c hr hne hv1 hall hpres
      obtain ⟨g1, g2⟩ := sat_good hs hm hw hg hr hne hv1 hall hpres
      rcases hsat e a c hr hne hv1 hall hpres with h' | h'
      · rcases List.mem_cons.1 h' with h'' | h''
        · have x1 : e = d := congrArg Prod.fst h''
          have x2 : a = i := congrArg (fun r : Item => r.2.1) h''
          have x3 : some c = jo := congrArg (fun r : Item => r.2.2) h''
          subst x1; subst x2; subst x3
          rw [g1] at hb; cases hb
        · exact Or.inl h''
      · rcases List.mem_cons.1 h' with h'' | h''
        · have x1 : opT ds a e = d := congrArg Prod.fst h''
          have x2 : a = i := congrArg (fun r : Item => r.2.1) h''
          have x3 : some c = jo := congrArg (fun r : Item => r.2.2) h''
          subst x1; subst x2; subst x3
          rw [g2] at hb; cases hb
        · exact Or.inr h''
    | true =>
      simp only at h
      have hd : FacetR ds d i := by
        cases jo with
        | none => exact hok (d, i, none) List.mem_cons_self rfl
        | some j =>
          obtain ⟨hr, _⟩ := hgood rfl j rfl
          exact ⟨hr.1, hr.2.1, hr.2.2.1⟩
      have hnm : opT ds i d ≠ d := by
        cases jo with
        | none => exact htd.2 (d, i, none) List.mem_cons_self rfl
        | some j =>
          obtain ⟨hr, hp⟩ := hgood rfl j rfl
          intro hmir
          exact hp (htd.1 (d, i, some j) List.mem_cons_self j rfl hr hmir)
      obtain ⟨m1, rs, e1, go⟩ := glue_ok hv hm hd
      rw [e1] at h
      simp only at h
      obtain ⟨w1, z1, p1⟩ := glue_extra hv hm hd e1
      have hg1 := glue_gnm hv hd hnm go hg
      have hu1 := unif_glue hv hd go hu
      refine glueRecLoop_sat hs fuel m1 _ ((d, i, jo) :: res) go.inv (w1 hw) hu1 hg1 ⟨?_, ?_⟩ ?_
        (sat_glue hs hm hw hg hd hnm e1 go hg1 hsat) m' out h
      · intro it hit j hj hrj hmir
        rcases List.mem_append.1 hit with h' | h'
        · exact go.mono _ hrj (htd.1 it (List.mem_cons_of_mem _ h') j hj hrj hmir)
        · obtain ⟨r, hrm, hre⟩ := List.mem_map.1 h'
          rw [← hre] at hj hrj hmir ⊢
          simp only at hj hrj hmir ⊢
          injection hj with hj
          subst hj
          exact zornone_none hv (w1 hw) hg1 hrj (p1 r hrm hrj hmir)
      · intro it hit hn
        rcases List.mem_append.1 hit with h' | h'
        · exact htd.2 it (List.mem_cons_of_mem _ h') hn
        · obtain ⟨r, _, hre⟩ := List.mem_map.1 h'
          rw [← hre] at hn
          cases hn
      · intro it hit
        rcases List.mem_append.1 hit with h' | h'
        · exact hok it (List.mem_cons_of_mem _ h')
        · obtain ⟨r, _, rfl⟩ := List.mem_map.1 h'
          intro hn; cases hn

end DSymVerif.FGP
