/-
Helper lemmas for property C09, part 6: `glue`, `glue_recursively`, `trace_word` never panic and
never run out of fuel on a valid symbol; what `glue` does to the presence of ridges.
-/
import DSymVerif.Proofs.FundGroupBnd
import DSymVerif.Proofs.FundGroupWInv
import DSymVerif.Proofs.DSetSym

namespace DSymVerif.FGP
open DSymVerif DSymVerif.DS DSymVerif.FG

theorem isReal_of_rng {ds : DSymData} {k : Ridge} (h : Rng ds k) : isReal k = true := by
  unfold isReal; exact decide_eq_true h.1

theorem isReal_zero : isReal zeroR = false := by decide

/-- facet `(d,i)` of the symbol -/
def FacetR (ds : DSymData) (d i : Nat) : Prop := 1 ≤ d ∧ d ≤ ds.size ∧ i ≤ ds.dim

/-- the ridge is gone or is opposite to the sentinel (its run ends at a glued mirror) -/
def ZOrNone (m : OppMap) (k : Ridge) : Prop := oppGet m k = none ∨ ∃ n, oppGet m k = some (zeroR, n)

/-- what one iteration of the `for j` loop of `glue(d,i)` does -/
structure StepOut (ds : DSymData) (d i j : Nat) (m : OppMap) (res : List Ridge)
    (m' : OppMap) (res' : List Ridge) : Prop where
  inv : BInv ds m'
  goneA : oppGet m' (d, i, j) = none
  goneB : oppGet m' (partner ds (d, i, j)) = none
  count : realCount m' + res'.length ≤ realCount m + res.length
  frame : ∀ k, Rng ds k → k ≠ (d, i, j) → k ≠ partner ds (d, i, j) →
    (oppGet m' k = none ↔ oppGet m k = none)
  ext : ∃ l, res' = res ++ l ∧ ∀ x ∈ l, Rng ds x → opT ds x.2.1 x.1 = x.1 → ZOrNone m' x
  winv : WInv ds m → WInv ds m'
  zstable : ∀ k, Rng ds k → ZOrNone m k → ZOrNone m' k

theorem glueStep_ok {ds : DSymData} (hv : ValidSet ds.dset) {m : OppMap} (hm : BInv ds m)
    {d i j : Nat} (hA : Rng ds (d, i, j)) (res : List Ridge) :
    ∃ m' res', glueStep ds d i (ds.dset.opU i d) (.ok (m, res)) j = .ok (m', res') ∧
      StepOut ds d i j m res m' res' := by
  have hBr := rng_partner hv hA
  have hpp := partner_partner hv hA
  unfold glueStep
  simp only
  cases gA : oppGet m (d, i, j) with
  | none =>
    refine ⟨m, res, rfl, hm, gA, (hm.pres _ hA).1 gA, Nat.le_refl _, fun _ _ _ _ => Iff.rfl,
      ⟨[], by simp, fun _ h => by cases h⟩, fun h => h, fun _ _ h => h⟩
  | some p =>
    obtain ⟨X, cA⟩ := p
    simp only
    have vA := hm.vals _ X cA gA
    have sX : Rng ds X → oppGet m X = some ((d, i, j), cA) := fun h => hm.symm _ X cA hA gA h
    have hXne : oppGet m X ≠ none ∨ isReal X = false := by
      rcases vA.2 with h | h
      · exact Or.inr (h ▸ isReal_zero)
      · exact Or.inl (by rw [sX h]; simp)
    by_cases hmir : d = ds.dset.opU i d
    · -- mirror
      rw [if_pos hmir]
      have hAA : partner ds (d, i, j) = (d, i, j) := by
        unfold partner; simp only; rw [← hmir]
      let m1 := oppRemove (oppInsert m X (zeroR, cA)) (d, i, j)
      have hn1 : KeysNodup m1 := keysNodup_remove (keysNodup_insert hm.nodup _ _) _
      have hext : ∀ k, oppGet m1 k = if k = (d, i, j) then none
          else if k = X then some (zeroR, cA) else oppGet m k :=
        fun k => ext_mirror hm.nodup (d, i, j) X (zeroR, cA) k
      have hinv : BInv ds m1 := binv_mirror hv hm hA hAA gA hn1 hext
      have hgone : oppGet m1 (d, i, j) = none := by rw [hext]; simp
      have hcnt : realCount m1 + 1 = realCount m := by
        have h1 : realCount (oppInsert m X (zeroR, cA)) = realCount m := by
          rcases hXne with h | h
          · exact realCount_insert_of_mem m X _ h
          · exact realCount_insert_not_real m X _ h
        have h2 : oppGet (oppInsert m X (zeroR, cA)) (d, i, j) ≠ none := by
          rw [oppGet_insert]; split <;> simp [gA]
        have := realCount_remove _ (d, i, j) (isReal_of_rng hA) h2
        show realCount (oppRemove (oppInsert m X (zeroR, cA)) (d, i, j)) + 1 = realCount m
        omega
      have hXA : X ≠ (d, i, j) := fun e => hm.nofix _ cA hA (e ▸ gA)
      refine ⟨m1, _, rfl, hinv, hgone, by rw [hAA]; exact hgone, ?_, ?_, ?_,
        fun hw => winv_mirror hv hm hw hA hAA gA hext, ?_⟩
      · split <;> simp <;> omega
      · intro k hk kA _
        rw [hext k, if_neg kA]
        by_cases kX : k = X
        · rw [if_pos kX, kX, sX (kX ▸ hk)]; simp
        · rw [if_neg kX]
      · split
        · refine ⟨[X], rfl, ?_⟩
          intro x hx _ _
          simp only [List.mem_singleton] at hx
          subst hx
          exact Or.inr ⟨cA, by rw [hext, if_neg hXA, if_pos rfl]⟩
        · exact ⟨[], by simp, fun _ h => by cases h⟩
      · intro k hk hz
        by_cases kA : k = (d, i, j)
        · exact Or.inl (by rw [kA]; exact hgone)
        · have kX : k ≠ X := by
            intro e
            rcases hz with h | ⟨n, h⟩
            · rw [e, sX (e ▸ hk)] at h; cases h
            · rw [e, sX (e ▸ hk)] at h
              have : d = 0 := congrArg (fun p : Ridge × Nat => p.1.1) (Option.some.inj h)
              have := hA.1
              omega
          unfold ZOrNone
          rw [hext k, if_neg kA, if_neg kX]
          exact hz
    · -- not a mirror
      rw [if_neg hmir]
      have hAB : (d, i, j) ≠ partner ds (d, i, j) := by
        intro e
        exact hmir (congrArg Prod.fst e)
      have gB' : oppGet m (partner ds (d, i, j)) ≠ none := by
        intro e
        have := (hm.pres _ hA).2 e
        rw [gA] at this; cases this
      have hpe : partner ds (d, i, j) = (ds.dset.opU i d, i, j) := rfl
      rw [← hpe]
      cases gB : oppGet m (partner ds (d, i, j)) with
      | none => exact absurd gB gB'
      | some q =>
        obtain ⟨Y, cB⟩ := q
        simp only
        have vB := hm.vals _ Y cB gB
        have sY : Rng ds Y → oppGet m Y = some (partner ds (d, i, j), cB) :=
          fun h => hm.symm _ Y cB hBr gB h
        let m1 := oppRemove (oppRemove (oppInsert (oppInsert m X (Y, cA + cB)) Y (X, cA + cB))
          (d, i, j)) (partner ds (d, i, j))
        have hn1 : KeysNodup m1 :=
          keysNodup_remove (keysNodup_remove (keysNodup_insert (keysNodup_insert hm.nodup _ _) _ _) _) _
        have hext : ∀ k, oppGet m1 k = if k = partner ds (d, i, j) then none
            else if k = (d, i, j) then none else if k = Y then some (X, cA + cB)
            else if k = X then some (Y, cA + cB) else oppGet m k :=
          fun k => ext_nonmirror hm.nodup _ _ X Y _ _ k
        have hinv : BInv ds m1 := binv_nonmirror hv hm hA rfl hAB gA gB hn1 hext
        have hgA : oppGet m1 (d, i, j) = none := by rw [hext]; simp
        have hgB : oppGet m1 (partner ds (d, i, j)) = none := by rw [hext]; simp
        have hcnt : realCount m1 + 2 = realCount m := by
          let ma := oppInsert m X (Y, cA + cB)
          let mb := oppInsert ma Y (X, cA + cB)
          have h1 : realCount ma = realCount m := by
            rcases hXne with h | h
            · exact realCount_insert_of_mem m X _ h
            · exact realCount_insert_not_real m X _ h
          have h2 : realCount mb = realCount ma := by
            rcases vB.2 with h | h
            · exact realCount_insert_not_real ma Y _ (h ▸ isReal_zero)
            · apply realCount_insert_of_mem
              show oppGet (oppInsert m X (Y, cA + cB)) Y ≠ none
              rw [oppGet_insert]; split
              · simp
              · rw [sY h]; simp
          have gAb : oppGet mb (d, i, j) ≠ none := by
            show oppGet (oppInsert (oppInsert m X (Y, cA + cB)) Y (X, cA + cB)) (d, i, j) ≠ none
            rw [oppGet_insert, oppGet_insert]
            split
            · simp
            · split
              · simp
              · rw [gA]; simp
          have h3 := realCount_remove mb (d, i, j) (isReal_of_rng hA) gAb
          have hnb : KeysNodup mb := keysNodup_insert (keysNodup_insert hm.nodup _ _) _ _
          have gBb : oppGet (oppRemove mb (d, i, j)) (partner ds (d, i, j)) ≠ none := by
            rw [oppGet_remove hnb, if_neg (fun e => hAB e.symm)]
            show oppGet (oppInsert (oppInsert m X (Y, cA + cB)) Y (X, cA + cB)) _ ≠ none
            rw [oppGet_insert, oppGet_insert]
            split
            · simp
            · split
              · simp
              · rw [gB]; simp
          have h4 := realCount_remove _ (partner ds (d, i, j)) (isReal_of_rng hBr) gBb
          show realCount (oppRemove (oppRemove mb (d, i, j)) (partner ds (d, i, j))) + 2 = realCount m
          omega
        refine ⟨m1, _, rfl, hinv, hgA, hgB, ?_, ?_, ?_,
          fun hw => winv_nonmirror hv hm hw hA hAB gA gB hext, ?_⟩
        · split <;> simp <;> omega
        · intro k hk kA kB
          rw [hext k, if_neg kB, if_neg kA]
          by_cases kY : k = Y
          · rw [if_pos kY, kY, sY (kY ▸ hk)]; simp
          · rw [if_neg kY]
            by_cases kX : k = X
            · rw [if_pos kX, kX, sX (kX ▸ hk)]; simp
            · rw [if_neg kX]
        · split
          · rename_i hpush
            refine ⟨[X], rfl, ?_⟩
            intro x hx hxr hxm
            simp only [List.mem_singleton] at hx
            subst hx
            -- a pushed ridge of the non-mirror branch is not a mirror
            exfalso
            apply hpush
            rw [op_eq hxr.2.2.1 hxr.1 hxr.2.1, ← opT_eq hxr.2.2.1 hxr.1 hxr.2.1, hxm]
          · exact ⟨[], by simp, fun _ h => by cases h⟩
        · intro k hk hz
          by_cases kB : k = partner ds (d, i, j)
          · exact Or.inl (by rw [kB]; exact hgB)
          · by_cases kA : k = (d, i, j)
            · exact Or.inl (by rw [kA]; exact hgA)
            · have kX : k ≠ X := by
                intro e
                rcases hz with h | ⟨n, h⟩
                · rw [e, sX (e ▸ hk)] at h; cases h
                · rw [e, sX (e ▸ hk)] at h
                  have : d = 0 := congrArg (fun p : Ridge × Nat => p.1.1) (Option.some.inj h)
                  have := hA.1
                  omega
              have kY : k ≠ Y := by
                intro e
                rcases hz with h | ⟨n, h⟩
                · rw [e, sY (e ▸ hk)] at h; cases h
                · rw [e, sY (e ▸ hk)] at h
                  have : (partner ds (d, i, j)).1 = 0 :=
                    congrArg (fun p : Ridge × Nat => p.1.1) (Option.some.inj h)
                  have := hBr.1
                  omega
              unfold ZOrNone
              rw [hext k, if_neg kB, if_neg kA, if_neg kY, if_neg kX]
              exact hz

/-! ### the whole `for j` loop, `glue` -/

theorem stepOut_mono {ds : DSymData} {d i j : Nat} {m m' : OppMap} {res res' : List Ridge}
    (h : StepOut ds d i j m res m' res') (k : Ridge) (hk : Rng ds k) (hn : oppGet m k = none) :
    oppGet m' k = none := by
  by_cases kA : k = (d, i, j)
  · rw [kA]; exact h.goneA
  · by_cases kB : k = partner ds (d, i, j)
    · rw [kB]; exact h.goneB
    · exact (h.frame k hk kA kB).2 hn

theorem glueFold_ok {ds : DSymData} (hv : ValidSet ds.dset) {d i : Nat} (hd : FacetR ds d i) :
    ∀ (js : List Nat), (∀ j ∈ js, j ≤ ds.dim ∧ j ≠ i) → ∀ (m : OppMap) (res : List Ridge), BInv ds m →
    ∃ m' res', js.foldl (glueStep ds d i (ds.dset.opU i d)) (.ok (m, res)) = .ok (m', res') ∧
      BInv ds m' ∧
      (∀ j ∈ js, oppGet m' (d, i, j) = none ∧ oppGet m' (partner ds (d, i, j)) = none) ∧
      realCount m' + res'.length ≤ realCount m + res.length ∧
      (∀ k, Rng ds k → (∀ j ∈ js, k ≠ (d, i, j) ∧ k ≠ partner ds (d, i, j)) →
        (oppGet m' k = none ↔ oppGet m k = none)) ∧
      (∀ k, Rng ds k → oppGet m k = none → oppGet m' k = none) ∧
      ∃ l, res' = res ++ l
  | [], _, m, res, hm => by
    refine ⟨m, res, rfl, hm, ?_, Nat.le_refl _, fun _ _ _ => Iff.rfl, fun _ _ h => h, [], ?_⟩
    · intro j hj; cases hj
    · simp
  | j :: js, hjs, m, res, hm => by
    have hj := hjs j List.mem_cons_self
    have hA : Rng ds (d, i, j) := ⟨hd.1, hd.2.1, hd.2.2, hj.1, fun e => hj.2 e.symm⟩
    obtain ⟨m1, res1, e1, so⟩ := glueStep_ok hv hm hA res
    obtain ⟨m2, res2, e2, inv2, gone2, cnt2, frame2, mono2, l2, hl2⟩ :=
      glueFold_ok hv hd js (fun j' hj' => hjs j' (List.mem_cons_of_mem _ hj')) m1 res1 so.inv
    refine ⟨m2, res2, ?_, inv2, ?_, ?_, ?_, ?_, ?_⟩
    · rw [List.foldl_cons, e1, e2]
    · intro j' hj'
      rcases List.mem_cons.1 hj' with h | h
      · subst h
        exact ⟨mono2 _ hA so.goneA, mono2 _ (rng_partner hv hA) so.goneB⟩
      · exact gone2 j' h
    · have := so.count; omega
    · intro k hk hne
      have h1 := hne j List.mem_cons_self
      rw [frame2 k hk (fun j' hj' => hne j' (List.mem_cons_of_mem _ hj')), so.frame k hk h1.1 h1.2]
    · intro k hk hn
      exact mono2 k hk (stepOut_mono so k hk hn)
    · obtain ⟨l1, hl1, _⟩ := so.ext
      exact ⟨l1 ++ l2, by rw [hl2, hl1, List.append_assoc]⟩

/-- what `glue(d,i)` does -/
structure GlueOut (ds : DSymData) (d i : Nat) (m m' : OppMap) (rs : List Ridge) : Prop where
  inv : BInv ds m'
  gone : ∀ j, j ≤ ds.dim → j ≠ i →
    oppGet m' (d, i, j) = none ∧ oppGet m' (partner ds (d, i, j)) = none
  count : realCount m' + rs.length ≤ realCount m
  frame : ∀ k, Rng ds k → (∀ j, k ≠ (d, i, j) ∧ k ≠ partner ds (d, i, j)) →
    (oppGet m' k = none ↔ oppGet m k = none)
  mono : ∀ k, Rng ds k → oppGet m k = none → oppGet m' k = none

theorem glue_ok {ds : DSymData} (hv : ValidSet ds.dset) {m : OppMap} (hm : BInv ds m)
    {d i : Nat} (hd : FacetR ds d i) :
    ∃ m' rs, glue ds m d i = .ok (m', rs) ∧ GlueOut ds d i m m' rs := by
  unfold glue
  rw [op_eq hd.2.2 hd.1 hd.2.1]
  simp only
  have hjs : ∀ j ∈ (List.range (ds.dim + 1)).filter (· ≠ i), j ≤ ds.dim ∧ j ≠ i := by
    intro j hj
    rw [List.mem_filter, List.mem_range] at hj
    exact ⟨by omega, by simpa using hj.2⟩
  obtain ⟨m', rs, e, inv, gone, cnt, frame, mono, _⟩ := glueFold_ok hv hd _ hjs m [] hm
  refine ⟨m', rs, e, inv, ?_, by simpa using cnt, ?_, mono⟩
  · intro j hj hji
    apply gone
    rw [List.mem_filter, List.mem_range]
    exact ⟨by omega, by simpa using hji⟩
  · intro k hk hne
    exact frame k hk (fun j _ => hne j)

/-! ### `glue_recursively` -/

theorem mPartial_total {ds : DSymData} (hs : ValidSym ds) (i j d : Nat) :
    (∃ a, ds.mPartial i j d = .ok (some a) ∧ i ≤ ds.dim ∧ j ≤ ds.dim ∧ 1 ≤ d ∧ d ≤ ds.size) ∨
    ds.mPartial i j d = .ok none := by
  by_cases h : i ≤ ds.dim ∧ j ≤ ds.dim ∧ 1 ≤ d ∧ d ≤ ds.size
  · obtain ⟨a, b, _, _, hm⟩ := hs.mPartial_some h.1 h.2.1 h.2.2.1 h.2.2.2
    exact Or.inl ⟨a * b, hm, h⟩
  · exact Or.inr (DSymData.mPartial_oor ds i j d (by omega))

/-- the test `good` never panics; when it succeeds for `j = Some(j)` the ridge is a present
    in-range ridge -/
theorem glueGood_ok {ds : DSymData} (hs : ValidSym ds) {m : OppMap} (hm : BInv ds m)
    (d i : Nat) (jo : Option Nat) :
    ∃ b, glueGood ds m d i jo = .ok b ∧
      (b = true → ∀ j, jo = some j → Rng ds (d, i, j) ∧ oppGet m (d, i, j) ≠ none) := by
  cases jo with
  | none => exact ⟨true, rfl, fun _ j h => by cases h⟩
  | some j =>
    unfold glueGood
    simp only
    rcases mPartial_total hs i j d with ⟨a, ha, h1, h2, h3, h4⟩ | ha
    · rw [ha]
      simp only
      refine ⟨_, rfl, ?_⟩
      intro hb j' hj'
      cases hj'
      cases g : oppGet m (d, i, j) with
      | none => rw [g] at hb; simp at hb
      | some p =>
        refine ⟨?_, by simp⟩
        rcases hm.keys _ _ g with hz | hr
        · have : d = 0 := congrArg Prod.fst hz
          omega
        · exact hr
    · rw [ha]
      simp only
      refine ⟨_, rfl, ?_⟩
      intro hb j' hj'
      cases hj'
      cases g : oppGet m (d, i, j) with
      | none => rw [g] at hb; simp at hb
      | some p =>
        obtain ⟨v, n⟩ := p
        rw [g] at hb
        have := (hm.vals _ _ _ g).1
        simp at hb
        omega

/-- no ridge of facet `(d,i)` is left in the boundary -/
def Glued (ds : DSymData) (m : OppMap) (d i : Nat) : Prop :=
  ∀ j, Rng ds (d, i, j) → oppGet m (d, i, j) = none

theorem glued_mono {ds : DSymData} {m m' : OppMap}
    (mono : ∀ k, Rng ds k → oppGet m k = none → oppGet m' k = none) {d i : Nat}
    (h : Glued ds m d i) : Glued ds m' d i :=
  fun j hj => mono _ hj (h j hj)

/-- a queue entry that does not come from `glue` itself names a facet of the symbol -/
def ItemOk (ds : DSymData) (it : Item) : Prop := it.2.2 = none → FacetR ds it.1 it.2.1

/-- a glued entry: a facet of the symbol, and (for `Some(j)`) a ridge of that facet -/
def ItemR (ds : DSymData) (it : Item) : Prop :=
  FacetR ds it.1 it.2.1 ∧ ∀ j, it.2.2 = some j → j ≤ ds.dim ∧ j ≠ it.2.1

theorem glueRecLoop_ok {ds : DSymData} (hs : ValidSym ds) : ∀ (fuel : Nat) (m : OppMap)
    (todo res : List Item), BInv ds m → (∀ it ∈ todo, ItemOk ds it) →
    todo.length + realCount m ≤ fuel →
    ∃ m' out, glueRecLoop ds fuel m todo res = .ok (m', out) ∧ BInv ds m' ∧
      (∀ k, Rng ds k → oppGet m k = none → oppGet m' k = none) ∧
      (∃ l, out = res.reverse ++ l ∧ (∀ it ∈ l, ItemR ds it) ∧
        ∀ it ∈ l, (it.2.2 = none ∧ it ∈ todo) ∨
          ∃ j, it.2.2 = some j ∧ Rng ds (it.1, it.2.1, j) ∧ oppGet m (it.1, it.2.1, j) ≠ none) ∧
      realCount m' ≤ realCount m ∧
      (∀ it ∈ todo, it.2.2 = none → Glued ds m' it.1 it.2.1)
  | fuel, m, [], res, hm, _, _ => by
    refine ⟨m, res.reverse, ?_, hm, fun _ _ h => h, ⟨[], ?_, ?_, ?_⟩, Nat.le_refl _, ?_⟩
    · cases fuel <;> rfl
    · simp
    · intro it hit; cases hit
    · intro it hit; cases hit
    · intro it hit; cases hit
  | 0, m, it :: todo, res, _, _, hf => by
    simp at hf
  | fuel + 1, m, (d, i, jo) :: todo, res, hm, hok, hf => by
    unfold glueRecLoop
    obtain ⟨b, hb, hgood⟩ := glueGood_ok hs hm d i jo
    rw [hb]
    cases b with
    | false =>
      simp only
      obtain ⟨m', out, e, inv, mono, ⟨l, hl, hlr, hlp⟩, hc, hgl⟩ := glueRecLoop_ok hs fuel m todo res hm
        (fun it h => hok it (List.mem_cons_of_mem _ h)) (by simp at hf; omega)
      refine ⟨m', out, e, inv, mono, ⟨l, hl, hlr, ?_⟩, hc, ?_⟩
      · intro it hit
        rcases hlp it hit with ⟨h1, h2⟩ | h
        · exact Or.inl ⟨h1, List.mem_cons_of_mem _ h2⟩
        · exact Or.inr h
      · intro it hit hn
        rcases List.mem_cons.1 hit with h | h
        · -- the head is not good, so it is not a `None` entry
          rw [h] at hn
          simp only at hn
          subst hn
          simp [glueGood] at hb
        · exact hgl it h hn
    | true =>
      simp only
      have hd : FacetR ds d i := by
        cases jo with
        | none => exact hok (d, i, none) List.mem_cons_self rfl
        | some j =>
          obtain ⟨hr, _⟩ := hgood rfl j rfl
          exact ⟨hr.1, hr.2.1, hr.2.2.1⟩
      obtain ⟨m1, rs, e1, go⟩ := glue_ok hs.set hm hd
      rw [e1]
      simp only
      obtain ⟨m', out, e, inv, mono, ⟨l, hl, hlr, hlp⟩, hc, hgl⟩ := glueRecLoop_ok hs fuel m1
        (todo ++ rs.map (fun r => (r.1, r.2.1, some r.2.2))) ((d, i, jo) :: res) go.inv
        (by
          intro it hit
          rcases List.mem_append.1 hit with h | h
          · exact hok it (List.mem_cons_of_mem _ h)
          · obtain ⟨r, _, rfl⟩ := List.mem_map.1 h
            intro hn; cases hn)
        (by
          have := go.count
          simp at hf ⊢
          omega)
      refine ⟨m', out, e, inv, fun k hk hn => mono k hk (go.mono k hk hn), ?_, ?_, ?_⟩
      rotate_left
      · have := go.count; omega
      · intro it hit hn
        rcases List.mem_cons.1 hit with h | h
        · rw [h]
          simp only
          exact glued_mono mono (fun j hj => (go.gone j hj.2.2.2.1 (fun e => hj.2.2.2.2 e.symm)).1)
        · exact hgl it (List.mem_append_left _ h) hn
      · refine ⟨(d, i, jo) :: l, by rw [hl]; simp, ?_, ?_⟩
        · intro it hit
          rcases List.mem_cons.1 hit with h | h
          · rw [h]
            refine ⟨hd, ?_⟩
            intro j hj
            simp only at hj
            obtain ⟨hr, _⟩ := hgood rfl j hj
            exact ⟨hr.2.2.2.1, fun e => hr.2.2.2.2 e.symm⟩
          · exact hlr it h
        · intro it hit
          rcases List.mem_cons.1 hit with h | h
          · rw [h]
            cases jo with
            | none => exact Or.inl ⟨rfl, List.mem_cons_self⟩
            | some j =>
              obtain ⟨hr, hp⟩ := hgood rfl j rfl
              exact Or.inr ⟨j, rfl, hr, hp⟩
          · rcases hlp it h with ⟨h1, h2⟩ | ⟨j, h1, h2, h3⟩
            · rcases List.mem_append.1 h2 with h2 | h2
              · exact Or.inl ⟨h1, List.mem_cons_of_mem _ h2⟩
              · obtain ⟨r, _, hr⟩ := List.mem_map.1 h2
                rw [← hr] at h1
                cases h1
            · exact Or.inr ⟨j, h1, h2, fun hn => h3 (go.mono _ h2 hn)⟩

end DSymVerif.FGP
