/-
Property C15, phase 2: every candidate of `construct_candidates` is a valid AND regular table.
The loop invariants of Proofs/Delaney3dPipeline.lean for an arbitrary predicate that core
tables have and intersections preserve.
-/
import DSymVerif.Proofs.Delaney3dRegular

namespace DSymVerif.D3
open DSymVerif DSymVerif.Cosets DSymVerif.SpecC11 DSymVerif.CosetP

section Loops
variable {n : Nat} {Q : Tab → Prop}
  (hinter : ∀ ta tb tx, Q ta → Q tb → interTab n ta tb = .ok tx → Q tx)

omit hinter in
theorem firstLoop_allQ {cones : List (List Int × Nat)} :
    ∀ (ts : List Tab) (c c' : Candidates), (∀ t ∈ ts, Q t) → AllCands Q c →
      firstLoop n cones ts c = .ok c' → AllCands Q c'
  | [], c, c', _, hc, h => by simp only [firstLoop] at h; cases h; exact hc
  | t :: rest, c, c', hts, hc, h => by
    have hrest : ∀ t' ∈ rest, Q t' := fun t' ht' => hts t' (List.mem_cons_of_mem _ ht')
    unfold firstLoop at h
    split at h
    · split at h
      · split at h
        · rename_i c1 hc1
          exact firstLoop_allQ rest c1 c' hrest (candPush_all hc1 hc (hts t (List.mem_cons_self ..))) h
        · cases h
        · cases h
      · cases h
      · cases h
    · exact firstLoop_allQ rest c c' hrest hc h
    · cases h
    · cases h

include hinter

theorem pairStep_allQ {cones cones2 : List (List Int × Nat)} {ta tb : Tab} {c c' : Candidates}
    (hta : Q ta) (htb : Q tb) (hc : AllCands Q c)
    (h : pairStep n cones cones2 ta tb c = .ok c') : AllCands Q c' := by
  unfold pairStep at h
  split at h
  · rename_i tx htx
    have hvx := hinter ta tb tx hta htb htx
    split at h
    · split at h
      · split at h
        · exact candPush_all h hc hvx
        · cases h; exact hc
        · cases h
        · cases h
      · split at h
        · split at h
          · cases h; exact hc
          · exact candPush_all h hc hvx
          · cases h
          · cases h
        · cases h; exact hc
    · cases h; exact hc
    · cases h
    · cases h
  · cases h
  · cases h

theorem innerLoop_allQ {cones cones2 : List (List Int × Nat)} {ta : Tab} (hta : Q ta) :
    ∀ (tbs : List Tab) (c c' : Candidates), (∀ t ∈ tbs, Q t) → AllCands Q c →
      innerLoop n cones cones2 ta tbs c = .ok c' → AllCands Q c'
  | [], c, c', _, hc, h => by simp only [innerLoop] at h; cases h; exact hc
  | tb :: rest, c, c', hts, hc, h => by
    have hrest : ∀ t' ∈ rest, Q t' := fun t' ht' => hts t' (List.mem_cons_of_mem _ ht')
    unfold innerLoop at h
    split at h
    · split at h
      · rename_i c1 hc1
        exact innerLoop_allQ hta rest c1 c' hrest
          (pairStep_allQ hinter hta (hts tb (List.mem_cons_self ..)) hc hc1) h
      · cases h
      · cases h
    · exact innerLoop_allQ hta rest c c' hrest hc h

theorem secondLoop_allQ {cones cones2 cones3 : List (List Int × Nat)} {all : List Tab}
    (hall : ∀ t ∈ all, Q t) :
    ∀ (tas : List Tab) (c c' : Candidates), (∀ t ∈ tas, Q t) → AllCands Q c →
      secondLoop n cones cones2 cones3 all tas c = .ok c' → AllCands Q c'
  | [], c, c', _, hc, h => by simp only [secondLoop] at h; cases h; exact hc
  | ta :: rest, c, c', hts, hc, h => by
    have hrest : ∀ t' ∈ rest, Q t' := fun t' ht' => hts t' (List.mem_cons_of_mem _ ht')
    unfold secondLoop at h
    split at h
    · split at h
      · rename_i c1 hc1
        exact secondLoop_allQ hall rest c1 c' hrest
          (innerLoop_allQ hinter (hts ta (List.mem_cons_self ..)) all c c1 hall hc hc1) h
      · cases h
      · cases h
    · exact secondLoop_allQ hall rest c c' hrest hc h
    · cases h
    · cases h

end Loops

/-- **every candidate is a valid, regular table that flattens all cones.** -/
theorem constructCandidates_regular (fg : FG.FundGroup) (hg : GroupOK fg) (cands : Candidates)
    (h : constructCandidates fg = .ok cands) :
    AllCands (fun t => validTable t fg.genToEdge.length fg.relators [] = true ∧
      Regular t fg.genToEdge.length fg.relators) cands := by
  unfold constructCandidates at h
  simp only at h
  split at h
  · rename_i cts hcts
    have hcore := constructCandidates_cores fg hg cts hcts
    have hQ : ∀ t ∈ cts, validTable t fg.genToEdge.length fg.relators [] = true ∧
        Regular t fg.genToEdge.length fg.relators := by
      intro t ht
      obtain ⟨t0, hv0, _, hc0⟩ := hcore t ht
      exact ⟨isCoreOf_valid hg.letters (hcore t ht), coreTab_regular hg.letters hv0 hc0⟩
    have hinter : ∀ ta tb tx,
        (validTable ta fg.genToEdge.length fg.relators [] = true ∧ Regular ta fg.genToEdge.length fg.relators) →
        (validTable tb fg.genToEdge.length fg.relators [] = true ∧ Regular tb fg.genToEdge.length fg.relators) →
        interTab fg.genToEdge.length ta tb = .ok tx →
        (validTable tx fg.genToEdge.length fg.relators [] = true ∧ Regular tx fg.genToEdge.length fg.relators) := by
      intro ta tb tx ha hb htx
      obtain ⟨tx', htx', hvx, _⟩ := interTab_valid hg.letters ha.1 hb.1
      rw [htx] at htx'
      cases htx'
      exact ⟨hvx, interTab_regular hg.letters ha.1 hb.1 ha.2 hb.2 htx⟩
    split at h
    · rename_i c1 hc1
      have h1 := firstLoop_allQ cts _ c1 hQ
        (fun e he t ht => by
          obtain ⟨p, _, rfl⟩ := List.mem_map.mp he
          cases ht) hc1
      exact secondLoop_allQ hinter hQ cts c1 cands hQ h1 h
    · cases h
    · cases h
  · cases h
  · cases h

end DSymVerif.D3
