/-
`split_and_glue` of simplify.rs as a function of an explicit choice: lemmas about the model of
`network_cut` / `cut_pairs_in_order` / `make_key` / `split_and_glue_attempt`
(Model/Simplify.lean).

* the cut handed to `cut_with_insides` does not depend on the order in which the two `HashSet`s of
  `network_edges` are listed (`min_vertex_cut_undirected` collects its input into a `BTreeSet`);
* `cut_pairs_in_order`: the rounds of its outer loop form a closed chain; entering the chain at
  another of its chambers yields a rotation of the same list of pairs;
* `make_key` is invariant under rotation and under reversal-with-swap of the list of pairs;
* `split_and_glue_attempt` keeps the D-set axioms and the manifold clauses.
-/
import DSymVerif.Proofs.SimplifyOriented

namespace DSymVerif.Simp
open DSymVerif DSymVerif.DS

/-! ### `cut_pairs_in_order`: rounds, chains of rounds, rotation -/

/-- a chain of rounds of the outer loop of `cut_pairs_in_order`: `CPChain step a l b` says that
    starting at chamber `a` the rounds visit the chambers listed in `l` (each with the pairs it
    pushes) and then arrive at `b` -/
inductive CPChain (step : Nat → Outcome (List (Nat × Nat) × Nat)) :
    Nat → List (Nat × List (Nat × Nat)) → Nat → Prop
  | nil (d : Nat) : CPChain step d [] d
  | cons {d d' t : Nat} {c : List (Nat × Nat)} {l : List (Nat × List (Nat × Nat))} :
      step d = .ok (c, d') → CPChain step d' l t → CPChain step d ((d, c) :: l) t

variable {step : Nat → Outcome (List (Nat × Nat) × Nat)}

theorem CPChain.append {a b c : Nat} {l l' : List (Nat × List (Nat × Nat))}
    (h1 : CPChain step a l b) (h2 : CPChain step b l' c) : CPChain step a (l ++ l') c := by
  induction h1 with
  | nil d => exact h2
  | cons hs _ ih => exact CPChain.cons hs (ih h2)

theorem CPChain.split {a c : Nat} : ∀ {l l' : List (Nat × List (Nat × Nat))},
    CPChain step a (l ++ l') c → ∃ b, CPChain step a l b ∧ CPChain step b l' c
  | [], _, h => ⟨a, CPChain.nil a, h⟩
  | p :: l, l', h => by
    cases h with
    | cons hs ht =>
      obtain ⟨b, h1, h2⟩ := CPChain.split ht
      exact ⟨b, CPChain.cons hs h1, h2⟩

theorem CPChain.head_eq {a b : Nat} {p : Nat × List (Nat × Nat)} {l : List (Nat × List (Nat × Nat))}
    (h : CPChain step a (p :: l) b) : p.1 = a := by
  cases h; rfl

theorem CPChain.nil_eq {a b : Nat} (h : CPChain step a [] b) : a = b := by
  cases h; rfl

/-- a closed chain can be entered anywhere -/
theorem CPChain.rotate {a : Nat} {l1 l2 : List (Nat × List (Nat × Nat))} {p : Nat × List (Nat × Nat)}
    (h : CPChain step a (l1 ++ p :: l2) a) : CPChain step p.1 (p :: l2 ++ l1) p.1 := by
  obtain ⟨b, h1, h2⟩ := CPChain.split h
  have : p.1 = b := CPChain.head_eq h2
  subst this
  exact h2.append h1

/-- the outer loop follows a chain that ends at `start` and does not pass through it before -/
theorem cpOuter_chain {ds : DSetData} {marked special : Nat → Bool} {start : Nat} :
    ∀ (l : List (Nat × List (Nat × Nat))) (x : Nat) (acc : List (Nat × Nat)) (fuel : Nat),
      l ≠ [] → CPChain (cpStep ds marked special) x l start →
      (∀ p ∈ l.tail, p.1 ≠ start) →
      acc.length + (l.flatMap (·.2)).length ≤ ds.size →
      l.length ≤ fuel →
      cpOuter ds marked special start fuel x acc = .ok (acc ++ l.flatMap (·.2))
  | [], _, _, _, hne, _, _, _, _ => absurd rfl hne
  | p :: rest, x, acc, 0, _, _, _, _, hf => by simp at hf
  | p :: rest, x, acc, fuel + 1, hne0, hc, htail, hlen, hf => by
    cases hc with
    | cons hs ht =>
      rename_i d' c
      unfold cpOuter
      have hlt : acc.length < ds.size + 1 := by omega
      rw [if_pos hlt, hs]
      simp only [List.flatMap_cons] at hlen ⊢
      cases rest with
      | nil =>
        have := CPChain.nil_eq ht
        subst this
        simp
      | cons q rest' =>
        have hq : q.1 = d' := CPChain.head_eq ht
        have hne : d' ≠ start := by
          rw [← hq]; exact htail q (by simp)
        simp only [if_neg hne]
        rw [cpOuter_chain (q :: rest') d' (acc ++ c) fuel (by simp) ht
          (fun p hp => htail p (by simp only [List.tail_cons] at hp ⊢; exact List.mem_cons_of_mem _ hp))
          (by simp only [List.length_append, List.length_append] at hlen ⊢; omega)
          (by simp at hf ⊢; omega)]
        simp [List.append_assoc]


theorem cpStep_ok_range {ds : DSetData} {marked special : Nat → Bool} {d d' : Nat} {c : List (Nat × Nat)}
    (h : cpStep ds marked special d = .ok (c, d')) : 1 ≤ d ∧ d ≤ ds.size := by
  unfold cpStep at h
  cases h1 : ds.opPartial 1 d with
  | none => rw [h1] at h; cases h
  | some e0 =>
    have r := opPartial_eq_some.1 h1
    exact ⟨r.2.1, r.2.2.1⟩

theorem CPChain.states_range {ds : DSetData} {marked special : Nat → Bool} {a b : Nat}
    {l : List (Nat × List (Nat × Nat))} (h : CPChain (cpStep ds marked special) a l b) :
    ∀ p ∈ l, 1 ≤ p.1 ∧ p.1 ≤ ds.size := by
  induction h with
  | nil d => intro p hp; cases hp
  | cons hs _ ih =>
    intro p hp
    rcases List.mem_cons.1 hp with rfl | hp
    · exact cpStep_ok_range hs
    · exact ih p hp

theorem nodup_range_length {l : List Nat} {n : Nat} (hnd : l.Nodup) (hr : ∀ x ∈ l, 1 ≤ x ∧ x ≤ n) :
    l.length ≤ n := by
  have hsub : l ⊆ List.range' 1 n := by
    intro x hx
    have := hr x hx
    simp only [List.mem_range'_1]
    omega
  have := (hnd.subperm hsub).length_le
  simpa using this

/-- **Rotation.**  If the rounds of the outer loop of `cut_pairs_in_order`, started at `a`, visit the
    pairwise distinct chambers of `l1 ++ p :: l2` and come back to `a`, pushing no more than `size`
    pairs in all, then started at any chamber `p.1` of that cycle the function returns the pairs of
    the rounds in the rotated order `p :: l2 ++ l1`.  (Started at `a` itself: take `l1 = []`.) -/
theorem cutPairs_rotation {ds : DSetData} {marked special : Nat → Bool} {a : Nat}
    {l1 l2 : List (Nat × List (Nat × Nat))} {p : Nat × List (Nat × Nat)}
    (hchain : CPChain (cpStep ds marked special) a (l1 ++ p :: l2) a)
    (hnd : ((l1 ++ p :: l2).map (·.1)).Nodup)
    (hlen : ((l1 ++ p :: l2).flatMap (·.2)).length ≤ ds.size) :
    cutPairsInOrder ds p.1 marked special = .ok ((p :: l2 ++ l1).flatMap (·.2)) := by
  have hrot := CPChain.rotate hchain
  have hperm : (p :: l2 ++ l1).Perm (l1 ++ p :: l2) := List.perm_append_comm
  have hnd' : ((p :: l2 ++ l1).map (·.1)).Nodup := (hperm.map _).nodup_iff.2 hnd
  have hlen' : ((p :: l2 ++ l1).flatMap (·.2)).length ≤ ds.size := by
    have : ((p :: l2 ++ l1).flatMap (·.2)).length = ((l1 ++ p :: l2).flatMap (·.2)).length :=
      (hperm.flatMap_right _).length_eq
    omega
  have hcount : (p :: l2 ++ l1).length ≤ ds.size := by
    have h1 := nodup_range_length hnd' (by
      intro x hx
      obtain ⟨q, hq, rfl⟩ := List.mem_map.1 hx
      exact hrot.states_range q hq)
    simpa using h1
  have hfuel : (p :: l2 ++ l1).length ≤ (ds.size + 2) * (ds.size + 2) := by
    calc (p :: l2 ++ l1).length ≤ ds.size := hcount
      _ ≤ ds.size + 2 := by omega
      _ ≤ (ds.size + 2) * (ds.size + 2) := Nat.le_mul_of_pos_right _ (by omega)
  unfold cutPairsInOrder
  rw [cpOuter_chain (p :: l2 ++ l1) p.1 [] _ (by simp) hrot ?_ (by simpa using hlen') hfuel]
  · simp
  · intro q hq
    have hq' : q ∈ l2 ++ l1 := by simpa using hq
    have : ((p :: (l2 ++ l1)).map (·.1)).Nodup := by simpa using hnd'
    rw [List.map_cons, List.nodup_cons] at this
    intro heq
    exact this.1 (heq ▸ List.mem_map_of_mem hq')

/-! ### make_key -/

theorem makeKey_eq {ds : DSetData} {d g : Nat} (ordered : List (Nat × Nat))
    (h : ds.viewPartial.r 0 1 d = .ok (some g)) :
    makeKey ds d ordered =
      .ok ((ordered.length : Int) - (g : Int), ordered.length, (ordered.filter (notAlongEdge ds)).length) := by
  unfold makeKey; rw [h]

theorem makeKey_perm {ds : DSetData} {d : Nat} {l l' : List (Nat × Nat)} (hp : l.Perm l') :
    makeKey ds d l = makeKey ds d l' := by
  unfold makeKey
  rw [hp.length_eq, (hp.filter _).length_eq]

/-- on a complete D-set with involutive operations "joined by an edge of the face" is symmetric -/
theorem notAlongEdge_swap {ds : DSetData} (hv : ValidSet ds) (hdim : 1 ≤ ds.dim) (p : Nat × Nat) :
    notAlongEdge ds (p.2, p.1) = notAlongEdge ds p := by
  obtain ⟨x, y⟩ := p
  have key : ∀ a b : Nat, ds.viewPartial.walk a [1, 0, 1] = some b → ds.viewPartial.walk b [1, 0, 1] = some a := by
    intro a b h
    simp only [View.walk, List.foldl_cons, List.foldl_nil, Option.bind_some] at h ⊢
    cases h1 : ds.viewPartial.op 1 a with
    | none => rw [h1] at h; simp at h
    | some a1 =>
      have r1 := opPartial_eq_some.1 h1
      rw [h1] at h
      simp only [Option.bind_some] at h
      cases h2 : ds.viewPartial.op 0 a1 with
      | none => rw [h2] at h; simp at h
      | some a2 =>
        have r2 := opPartial_eq_some.1 h2
        rw [h2] at h
        simp only [Option.bind_some] at h
        have r3 := opPartial_eq_some.1 h
        have ha1 : 1 ≤ a1 ∧ a1 ≤ ds.size := r1.2.2.2.1 ▸ hv.range 1 a (by omega) r1.2.1 r1.2.2.1
        have ha2 : 1 ≤ a2 ∧ a2 ≤ ds.size := r2.2.2.2.1 ▸ hv.range 0 a1 (by omega) ha1.1 ha1.2
        have hb : 1 ≤ b ∧ b ≤ ds.size := r3.2.2.2.1 ▸ hv.range 1 a2 (by omega) ha2.1 ha2.2
        have e1 : ds.opU 1 b = a2 := by rw [← r3.2.2.2.1]; exact hv.invol 1 a2 (by omega) ha2.1 ha2.2
        have e2 : ds.opU 0 a2 = a1 := by rw [← r2.2.2.2.1]; exact hv.invol 0 a1 (by omega) ha1.1 ha1.2
        have e3 : ds.opU 1 a1 = a := by rw [← r1.2.2.2.1]; exact hv.invol 1 a (by omega) r1.2.1 r1.2.2.1
        rw [viewPartial_op hv (by omega) hb.1 hb.2, e1]
        simp only [Option.bind_some]
        rw [viewPartial_op hv (by omega) ha2.1 ha2.2, e2]
        simp only [Option.bind_some]
        rw [viewPartial_op hv (by omega) ha1.1 ha1.2, e3]
  unfold notAlongEdge
  simp only
  by_cases h : ds.viewPartial.walk x [1, 0, 1] = some y
  · rw [h, key x y h]; simp
  · have h' : ds.viewPartial.walk y [1, 0, 1] ≠ some x := fun h2 => h (key y x h2)
    rw [bne_iff_ne.2 h', bne_iff_ne.2 h]

/-- the list of pairs traversed the other way round: reversed, every pair swapped -/
def mirrorPairs (l : List (Nat × Nat)) : List (Nat × Nat) := (l.map fun p => (p.2, p.1)).reverse

theorem makeKey_mirror {ds : DSetData} (hv : ValidSet ds) (hdim : 1 ≤ ds.dim) (d : Nat) (l : List (Nat × Nat)) :
    makeKey ds d (mirrorPairs l) = makeKey ds d l := by
  have h1 : (mirrorPairs l).length = l.length := by simp [mirrorPairs]
  have h2 : ((mirrorPairs l).filter (notAlongEdge ds)).length = (l.filter (notAlongEdge ds)).length := by
    unfold mirrorPairs
    rw [List.filter_reverse, List.length_reverse, List.filter_map, List.length_map]
    congr 1
    apply List.filter_congr
    intro p _
    exact notAlongEdge_swap hv hdim p
  unfold makeKey
  rw [h1, h2]

/-! ### the cut does not depend on the order in which `network_edges` lists the two stars -/

section order
open DSymVerif.Cut DSymVerif.CutP

/-- two strictly ascending edge lists with the same members are equal -/
theorem sorted_edges_ext : ∀ {l1 l2 : List Cut.Edge},
    l1.Pairwise (fun a b => edgeLt a b = true) → l2.Pairwise (fun a b => edgeLt a b = true) →
    (∀ e, e ∈ l1 ↔ e ∈ l2) → l1 = l2
  | [], [], _, _, _ => rfl
  | [], b :: _, _, _, h => absurd ((h b).2 (List.mem_cons_self ..)) (by simp)
  | a :: _, [], _, _, h => absurd ((h a).1 (List.mem_cons_self ..)) (by simp)
  | a :: as, b :: bs, h1, h2, h => by
    rw [List.pairwise_cons] at h1 h2
    have hab : a = b := by
      by_contra hne
      have ha : a ∈ bs := by
        rcases List.mem_cons.1 ((h a).1 (List.mem_cons_self ..)) with h' | h'
        · exact absurd h' hne
        · exact h'
      have hb : b ∈ as := by
        rcases List.mem_cons.1 ((h b).2 (List.mem_cons_self ..)) with h' | h'
        · exact absurd h'.symm hne
        · exact h'
      have := edgeLt_trans (h1.1 b hb) (h2.1 a ha)
      rw [edgeLt_irrefl] at this
      cases this
    subst hab
    have htail : ∀ e, e ∈ as ↔ e ∈ bs := by
      intro e
      constructor
      · intro he
        rcases List.mem_cons.1 ((h e).1 (List.mem_cons_of_mem _ he)) with h' | h'
        · subst h'
          have := h1.1 e he
          rw [edgeLt_irrefl] at this; cases this
        · exact h'
      · intro he
        rcases List.mem_cons.1 ((h e).2 (List.mem_cons_of_mem _ he)) with h' | h'
        · subst h'
          have := h2.1 e he
          rw [edgeLt_irrefl] at this; cases this
        · exact h'
    rw [sorted_edges_ext h1.2 h2.2 htail]

theorem edgeSet_ext {l1 l2 : List Cut.Edge} (h : ∀ e, e ∈ l1 ↔ e ∈ l2) : edgeSet l1 = edgeSet l2 :=
  sorted_edges_ext (sorted_edgeSet_aux l1 [] List.Pairwise.nil) (sorted_edgeSet_aux l2 [] List.Pairwise.nil)
    (fun e => by rw [mem_edgeSet, mem_edgeSet, h])

/-- `min_vertex_cut_undirected` collects its input into a `BTreeSet`: lists with the same members
    give the same answer (cut, inside, flow), element for element -/
theorem minVertexCutUndirected_ext {net net' : List Cut.Edge} (h : ∀ e, e ∈ net ↔ e ∈ net') (s t : Nat) :
    minVertexCutUndirected net s t = minVertexCutUndirected net' s t := by
  unfold minVertexCutUndirected
  rw [edgeSet_ext (l1 := symm net) (l2 := symm net') (fun e => by rw [mem_symm, mem_symm, h, h])]

end order

/-! ### split_and_glue_attempt keeps the D-set axioms and the manifold clauses -/

/-- `cut_chambers` as the list of the pairs pushed -/
def flatPairs (ps : List (Nat × Nat)) : List Nat := ps.flatMap fun p => [p.1, p.2]

theorem flatPairs_length (ps : List (Nat × Nat)) : (flatPairs ps).length = 2 * ps.length := by
  induction ps with
  | nil => rfl
  | cons p ps ih => simp only [flatPairs, List.flatMap_cons, List.length_append, List.length_cons, List.length_nil] at ih ⊢; omega

theorem flatPairs_append (ps : List (Nat × Nat)) (a b : Nat) : flatPairs ps ++ [a, b] = flatPairs (ps ++ [(a, b)]) := by
  simp [flatPairs]

theorem ctFlip_add_two (k : Nat) : ctFlip (k + 2) = ctFlip k + 2 := by
  unfold ctFlip
  by_cases h : k % 2 = 0
  · rw [if_pos h, if_pos (by omega)]
  · rw [if_neg h, if_neg (by omega)]; omega

/-- the entries of `cut_chambers` come in pairs exchanged by `f` -/
theorem flatPairs_adjacent (f : Nat → Nat) : ∀ (ps : List (Nat × Nat)), (∀ p ∈ ps, f p.1 = p.2 ∧ f p.2 = p.1) →
    ∀ k, k < (flatPairs ps).length → f ((flatPairs ps).getD k 0) = (flatPairs ps).getD (ctFlip k) 0
  | [], _, k, hk => by simp [flatPairs] at hk
  | p :: ps, h, k, hk => by
    have hp := h p (List.mem_cons_self ..)
    have e : flatPairs (p :: ps) = p.1 :: p.2 :: flatPairs ps := by simp [flatPairs]
    rw [e] at hk ⊢
    match k, hk with
    | 0, _ => simpa [ctFlip] using hp.1
    | 1, _ => simpa [ctFlip] using hp.2
    | k + 2, hk =>
      rw [ctFlip_add_two]
      simp only [List.getD_cons_succ]
      exact flatPairs_adjacent f ps (fun q hq => h q (List.mem_cons_of_mem _ hq)) k
        (by simp only [List.length_cons] at hk; omega)

theorem flatPairs_range (n : Nat) : ∀ (ps : List (Nat × Nat)), (∀ p ∈ ps, (1 ≤ p.1 ∧ p.1 ≤ n) ∧ (1 ≤ p.2 ∧ p.2 ≤ n)) →
    ∀ k, k < (flatPairs ps).length → 1 ≤ (flatPairs ps).getD k 0 ∧ (flatPairs ps).getD k 0 ≤ n
  | [], _, k, hk => by simp [flatPairs] at hk
  | p :: ps, h, k, hk => by
    have hp := h p (List.mem_cons_self ..)
    have e : flatPairs (p :: ps) = p.1 :: p.2 :: flatPairs ps := by simp [flatPairs]
    rw [e] at hk ⊢
    match k, hk with
    | 0, _ => simpa using hp.1
    | 1, _ => simpa using hp.2
    | k + 2, hk =>
      simp only [List.getD_cons_succ]
      exact flatPairs_range n ps (fun q hq => h q (List.mem_cons_of_mem _ hq)) k
        (by simp only [List.length_cons] at hk; omega)

/-- what the `for (d, e) in ordered` loop maintains -/
structure SgInv (ds0 ds : DSetData) (ps : List (Nat × Nat)) : Prop where
  valid : ValidSet ds
  dim : ds.dim = 3
  size : ds0.size ≤ ds.size
  far : FarCommute ds0 → FarCommute ds
  loopless : Loopless ds0 → Loopless ds
  differ : FarDiffer ds0 → FarDiffer ds
  range : ∀ p ∈ ps, (1 ≤ p.1 ∧ p.1 ≤ ds.size) ∧ (1 ≤ p.2 ∧ p.2 ≤ ds.size)
  adj : ∀ p ∈ ps, ds.opU 0 p.1 = p.2 ∧ ds.opU 0 p.2 = p.1

theorem walk101 {ds : DSetData} (hv : ValidSet ds) (hdim : ds.dim = 3) {d e : Nat} (hd1 : 1 ≤ d) (hd2 : d ≤ ds.size)
    (h : ds.viewPartial.walk d [1, 0, 1] = some e) : ds.opU 0 (ds.opU 1 d) = ds.opU 1 e ∧ 1 ≤ e ∧ e ≤ ds.size := by
  have r1 := hv.range 1 d (by omega) hd1 hd2
  have r2 := hv.range 0 _ (by omega) r1.1 r1.2
  have r3 := hv.range 1 _ (by omega) r2.1 r2.2
  simp only [View.walk, List.foldl_cons, List.foldl_nil, Option.bind_some] at h
  rw [viewPartial_op hv (by omega) hd1 hd2] at h
  simp only [Option.bind_some] at h
  rw [viewPartial_op hv (by omega) r1.1 r1.2] at h
  simp only [Option.bind_some] at h
  rw [viewPartial_op hv (by omega) r2.1 r2.2] at h
  simp only [Option.some.injEq] at h
  subst h
  exact ⟨(hv.invol 1 _ (by omega) r2.1 r2.2).symm, r3⟩

/-- **the loop of `split_and_glue_attempt`**: from a complete 3-dimensional D-set and pairs of
    chambers, whatever it returns is again complete with involutive operations, keeps commuting /
    differing far operations and looplessness, and `cut_chambers` consists of 0-adjacent pairs -/
theorem sgCuts_inv {ds0 : DSetData} : ∀ (ordered : List (Nat × Nat)) (ds : DSetData) (ps : List (Nat × Nat))
    {ds1 : DSetData} {cut1 : List Nat}, SgInv ds0 ds ps →
    (∀ p ∈ ordered, (1 ≤ p.1 ∧ p.1 ≤ ds.size) ∧ (1 ≤ p.2 ∧ p.2 ≤ ds.size)) →
    sgCuts ds ordered (flatPairs ps) = .ok (some (ds1, cut1)) →
    ∃ ps1, cut1 = flatPairs ps1 ∧ SgInv ds0 ds1 ps1
  | [], ds, ps, ds1, cut1, inv, _, h => by
    simp only [sgCuts, Outcome.ok.injEq, Option.some.injEq, Prod.mk.injEq] at h
    obtain ⟨rfl, rfl⟩ := h
    exact ⟨ps, rfl, inv⟩
  | (d, e) :: rest, ds, ps, ds1, cut1, inv, hr, h => by
    have hde := hr (d, e) (List.mem_cons_self ..)
    simp only at hde
    have hrest : ∀ p ∈ rest, (1 ≤ p.1 ∧ p.1 ≤ ds.size) ∧ (1 ≤ p.2 ∧ p.2 ≤ ds.size) :=
      fun p hp => hr p (List.mem_cons_of_mem _ hp)
    unfold sgCuts at h
    simp only at h
    by_cases hw : ds.viewPartial.walk d [1, 0, 1] = some e
    · -- already joined by an edge of the face
      simp only [hw, ne_eq, not_true_eq_false, if_false] at h
      rw [opx_valid inv.valid (by rw [inv.dim]; omega) hde.1.1 hde.1.2,
        opx_valid inv.valid (by rw [inv.dim]; omega) hde.2.1 hde.2.2] at h
      simp only at h
      rw [flatPairs_append] at h
      have w := walk101 inv.valid inv.dim hde.1.1 hde.1.2 hw
      have ra := inv.valid.range 1 d (by rw [inv.dim]; omega) hde.1.1 hde.1.2
      have rb := inv.valid.range 1 e (by rw [inv.dim]; omega) hde.2.1 hde.2.2
      refine sgCuts_inv rest ds (ps ++ [(ds.opU 1 d, ds.opU 1 e)]) ?_ hrest h
      refine { inv with range := ?_, adj := ?_ }
      · intro p hp
        rcases List.mem_append.1 hp with hp | hp
        · exact inv.range p hp
        · simp only [List.mem_singleton] at hp; subst hp; exact ⟨ra, rb⟩
      · intro p hp
        rcases List.mem_append.1 hp with hp | hp
        · exact inv.adj p hp
        · simp only [List.mem_singleton] at hp; subst hp
          refine ⟨w.1, ?_⟩
          show ds.opU 0 (ds.opU 1 e) = ds.opU 1 d
          rw [← w.1]; exact inv.valid.invol 0 _ (by rw [inv.dim]; omega) ra.1 ra.2
    · simp only [hw, ne_eq, not_false_eq_true, if_true] at h
      by_cases hmem : (ds.viewPartial.orbit [0, 1] d).contains e = true
      · simp only [hmem, if_true] at h
        cases hcf : cutFace ds d e with
        | err => rw [hcf] at h; cases h
        | panic => rw [hcf] at h; cases h
        | ok s =>
          rw [hcf] at h
          simp only at h
          obtain ⟨sv, ssize, sdim, sold, _, sfar, sloop, sdiff, _, snew⟩ :=
            cutFace_commutes inv.valid inv.dim hde.1.1 hde.1.2 hde.2.1 hde.2.2 hcf
          rw [opx_valid sv (by rw [sdim]; omega) hde.1.1 (by omega),
            opx_valid sv (by rw [sdim]; omega) hde.2.1 (by omega)] at h
          simp only at h
          rw [flatPairs_append, snew.1, snew.2.1] at h
          refine sgCuts_inv rest s (ps ++ [(ds.size + 1, ds.size + 2)]) ?_
            (fun p hp => by have := hrest p hp; omega) h
          refine { valid := sv, dim := sdim, size := by have := inv.size; omega,
                   far := fun hf => sfar (inv.far hf), loopless := fun hl => sloop (inv.loopless hl),
                   differ := fun hd => sdiff (inv.differ hd), range := ?_, adj := ?_ }
          · intro p hp
            rcases List.mem_append.1 hp with hp | hp
            · have := inv.range p hp; omega
            · simp only [List.mem_singleton] at hp; subst hp; simp only; omega
          · intro p hp
            rcases List.mem_append.1 hp with hp | hp
            · have r := inv.range p hp
              have a := inv.adj p hp
              rw [sold 0 p.1 (by omega) (by omega) r.1.1 r.1.2, sold 0 p.2 (by omega) (by omega) r.2.1 r.2.2]
              exact a
            · simp only [List.mem_singleton] at hp; subst hp
              refine ⟨snew.2.2, ?_⟩
              show s.opU 0 (ds.size + 2) = ds.size + 1
              rw [← snew.2.2]; exact sv.invol 0 _ (by rw [sdim]; omega) (by omega) (by omega)
      · simp only [hmem] at h
        cases h

/-- **`split_and_glue_attempt` keeps the D-set axioms and the manifold clauses.**  On a complete
    3-dimensional D-set, for pairs of chambers and a glue chamber: whatever D-set it returns is
    complete with involutive operations, and commuting far operations, looplessness and differing far
    operations carry over. -/
theorem splitAndGlueAttempt_inv {ds0 s : DSetData} (hv : ValidSet ds0) (hdim : ds0.dim = 3)
    {glue : Nat} (hg1 : 1 ≤ glue) (hg2 : glue ≤ ds0.size) {ordered : List (Nat × Nat)}
    (hr : ∀ p ∈ ordered, (1 ≤ p.1 ∧ p.1 ≤ ds0.size) ∧ (1 ≤ p.2 ∧ p.2 ≤ ds0.size))
    (h : splitAndGlueAttempt ds0 glue ordered = .ok (some (.dset s))) :
    (FarCommute ds0 → Axioms3 s) ∧ (Manifold3 ds0 → Manifold3 s) := by
  unfold splitAndGlueAttempt at h
  cases hA : asDSet ds0 with
  | err => rw [hA] at h; cases h
  | panic => rw [hA] at h; cases h
  | ok dsA =>
    rw [hA] at h
    simp only at h
    obtain ⟨vA, sA, dA, valA, fA⟩ := asDSet_ok hv hA
    have invA : SgInv dsA dsA [] :=
      { valid := vA, dim := by rw [dA, hdim], size := Nat.le_refl _, far := id, loopless := id, differ := id,
        range := fun p hp => (by cases hp), adj := fun p hp => (by cases hp) }
    cases hC : sgCuts dsA ordered [] with
    | err => rw [hC] at h; cases h
    | panic => rw [hC] at h; cases h
    | ok o =>
      rw [hC] at h
      match o, hC, h with
      | none, _, h => cases h
      | some (ds1, cut), hC, h =>
        simp only at h
        obtain ⟨ps1, rfl, inv1⟩ := sgCuts_inv ordered dsA [] invA (by rw [sA]; exact hr) (by simpa [flatPairs] using hC)
        cases hT : cutTile ds1 (flatPairs ps1) with
        | err => rw [hT] at h; cases h
        | panic => rw [hT] at h; cases h
        | ok ds2 =>
          rw [hT] at h
          simp only at h
          obtain ⟨v2, s2, d2, _, _, _, f2, l2, g2⟩ := cutTile_commutes inv1.valid inv1.dim
            (flatPairs_range ds1.size ps1 inv1.range) hT
          have hadj := flatPairs_adjacent (ds1.opU 0) ps1 inv1.adj
          have hglue : glue ≤ ds2.size := by have := inv1.size; omega
          constructor
          · intro hf
            have hfA : FarCommute dsA := fA hf
            have := collapse_face_orbit_preserves v2 d2 (f2 hadj (inv1.far hfA)) hg1 hglue h
            exact this
          · intro hm
            obtain ⟨mA, _⟩ := asDSet_manifold hm hA
            have m2 : Manifold3 ds2 :=
              ⟨⟨v2, d2, f2 hadj (inv1.far mA.1.2.2)⟩, l2 (inv1.loopless mA.2.1), g2 (inv1.differ mA.2.2)⟩
            exact collapse_face_orbit_manifold m2 hg1 hglue h

/-! ### what `network_cut` marks -/

/-- **`network_cut` up to the choice of `start`, unfolded**: the skeleton, the network, the cut
    `min_vertex_cut_undirected` returns on it, and `marked` / `special` in terms of these -/
theorem networkCutPre_ok {ds : DSetData} {d : Nat} {mode : Bool} {pre : CutPre}
    (h : networkCutPre ds d mode = .ok pre) :
    ∃ e2i reps edges net r cutReps insideReps d3,
      makeSkeleton ds = .ok (e2i, reps, edges) ∧
      networkEdges ds d mode e2i edges (skelSource e2i) (skelSource e2i + 1) = .ok net ∧
      Cut.minVertexCutUndirected net (skelSource e2i) (skelSource e2i + 1) = .ok r ∧
      mapIdx reps.toArray r.cut = .ok cutReps ∧
      mapIdx reps.toArray (r.inside.filter (· < reps.length)) = .ok insideReps ∧
      opx ds 3 d = .ok d3 ∧
      pre.marked = (ds.viewPartial.orbit [0, 1] d ++ cutReps ++ insideReps).flatMap
        (fun e => ds.viewPartial.orbit [1, 2] e) ∧
      pre.special = ds.viewPartial.orbit [0, 1] d3 := by
  unfold networkCutPre at h
  cases h1 : makeSkeleton ds with
  | err => rw [h1] at h; cases h
  | panic => rw [h1] at h; cases h
  | ok sk =>
    obtain ⟨e2i, reps, edges⟩ := sk
    rw [h1] at h
    simp only at h
    cases h2 : networkEdges ds d mode e2i edges (skelSource e2i) (skelSource e2i + 1) with
    | err => rw [h2] at h; cases h
    | panic => rw [h2] at h; cases h
    | ok net =>
      rw [h2] at h
      simp only at h
      cases h3 : Cut.minVertexCutUndirected net (skelSource e2i) (skelSource e2i + 1) with
      | err => rw [h3] at h; cases h
      | panic => rw [h3] at h; cases h
      | ok r =>
        rw [h3] at h
        simp only at h
        unfold cutWithInsides at h
        cases h4 : mapIdx reps.toArray r.cut with
        | err => rw [h4] at h; cases h
        | panic => rw [h4] at h; cases h
        | ok cutReps =>
          rw [h4] at h
          simp only at h
          cases h5 : mapIdx reps.toArray (r.inside.filter (· < reps.length)) with
          | err => rw [h5] at h; cases h
          | panic => rw [h5] at h; cases h
          | ok insideReps =>
            rw [h5] at h
            simp only at h
            cases h6 : opx ds 3 d with
            | err => rw [h6] at h; cases h
            | panic => rw [h6] at h; cases h
            | ok d3 =>
              rw [h6] at h
              simp only [Outcome.ok.injEq] at h
              subst h
              exact ⟨e2i, reps, edges, net, r, cutReps, insideReps, d3, rfl, h2, h3, h4, h5, rfl, rfl, rfl⟩

/-! ### every result of `network_cut` / `split_and_glue` comes from an admissible start -/

theorem findStart_some {ds : DSetData} {marked : Nat → Bool} {start : Nat} : ∀ {l : List Nat},
    findStart ds marked l = .ok (some start) →
    start ∈ l ∧ ∃ e0, ds.opPartial 0 start = some e0 ∧ marked e0 = false
  | [], h => by simp [findStart] at h
  | e :: rest, h => by
    unfold findStart at h
    cases h0 : ds.opPartial 0 e with
    | none => rw [h0] at h; cases h
    | some e0 =>
      rw [h0] at h
      simp only at h
      by_cases hm : marked e0 = true
      · simp only [hm, Bool.not_true, Bool.false_eq_true, if_false] at h
        obtain ⟨h1, h2⟩ := findStart_some h
        exact ⟨List.mem_cons_of_mem _ h1, h2⟩
      · have hm' : marked e0 = false := by simpa using hm
        simp only [hm', Bool.not_false, if_true, Outcome.ok.injEq, Option.some.injEq] at h
        subst h
        exact ⟨List.mem_cons_self .., e0, h0, hm'⟩

/-- **what the result of `network_cut` depends on**: for every iteration order of the `HashSet`, a
    returned list is `cut_pairs_in_order` run from a member `start` of that order that is marked
    while its 0-neighbour is not — and on nothing else -/
theorem networkCut_some {ds : DSetData} {d : Nat} {mode : Bool} {iter : List Nat → List Nat}
    {r : List (Nat × Nat)} (h : networkCut ds d mode iter = .ok (some r)) :
    ∃ pre start, networkCutPre ds d mode = .ok pre ∧ start ∈ iter pre.marked ∧
      (∃ e0, ds.opPartial 0 start = some e0 ∧ memFn ds.size pre.marked e0 = false) ∧
      cutPairsInOrder ds start (memFn ds.size pre.marked) (memFn ds.size pre.special) = .ok r := by
  unfold networkCut at h
  cases h1 : networkCutPre ds d mode with
  | err => rw [h1] at h; cases h
  | panic => rw [h1] at h; cases h
  | ok pre =>
    rw [h1] at h
    simp only at h
    cases h2 : findStart ds (memFn ds.size pre.marked) (iter pre.marked) with
    | err => rw [h2] at h; cases h
    | panic => rw [h2] at h; cases h
    | ok o =>
      rw [h2] at h
      cases o with
      | none => cases h
      | some start =>
        simp only at h
        cases h3 : cutPairsInOrder ds start (memFn ds.size pre.marked) (memFn ds.size pre.special) with
        | err => rw [h3] at h; cases h
        | panic => rw [h3] at h; cases h
        | ok r' =>
          rw [h3] at h
          simp only [Outcome.ok.injEq, Option.some.injEq] at h
          subst h
          obtain ⟨hm, he⟩ := findStart_some h2
          exact ⟨pre, start, rfl, hm, he, h3⟩

/-! ### the pairs `cut_pairs_in_order` returns are pairs of chambers -/

def PairsInRange (n : Nat) (l : List (Nat × Nat)) : Prop :=
  ∀ p ∈ l, (1 ≤ p.1 ∧ p.1 ≤ n) ∧ (1 ≤ p.2 ∧ p.2 ≤ n)

theorem PairsInRange.append {n : Nat} {l l' : List (Nat × Nat)} (h : PairsInRange n l) (h' : PairsInRange n l') :
    PairsInRange n (l ++ l') := by
  intro p hp
  rcases List.mem_append.1 hp with hp | hp
  · exact h p hp
  · exact h' p hp

theorem cpInner_ok_range {ds : DSetData} {marked : Nat → Bool} : ∀ (fuel e e' : Nat),
    cpInner ds marked fuel e = .ok e' → 1 ≤ e' ∧ e' ≤ ds.size
  | 0, _, _, h => by simp [cpInner] at h
  | fuel + 1, e, e', h => by
    unfold cpInner at h
    cases h0 : ds.opPartial 0 e with
    | none => rw [h0] at h; cases h
    | some e0 =>
      rw [h0] at h
      simp only at h
      by_cases hm : marked e0 = true
      · simp only [hm, if_true] at h
        cases hw : ds.viewPartial.walk e [0, 1] with
        | none => rw [hw] at h; cases h
        | some e1 => rw [hw] at h; exact cpInner_ok_range fuel e1 e' h
      · simp only [hm, Bool.false_eq_true, if_false, Outcome.ok.injEq] at h
        subst h
        have r := opPartial_eq_some.1 h0
        exact ⟨r.2.1, r.2.2.1⟩

theorem walk_some_range {ds : DSetData} (hv : ValidSet ds) : ∀ (path : List Nat) (d w : Nat), path ≠ [] →
    ds.viewPartial.walk d path = some w → (1 ≤ d ∧ d ≤ ds.size) ∧ (1 ≤ w ∧ w ≤ ds.size) := by
  intro path
  induction path using List.reverseRecOn with
  | nil => intro d w h; exact absurd rfl h
  | append_singleton path i ih =>
    intro d w _ h
    unfold View.walk at h
    rw [List.foldl_append] at h
    simp only [List.foldl_cons, List.foldl_nil] at h
    cases hx : List.foldl (fun d i => d.bind fun d => ds.viewPartial.op i d) (some d) path with
    | none => rw [hx] at h; simp at h
    | some x =>
      rw [hx] at h
      simp only [Option.bind_some] at h
      have r := opPartial_eq_some.1 h
      have rw' : 1 ≤ w ∧ w ≤ ds.size := r.2.2.2.1 ▸ hv.range i x r.1 r.2.1 r.2.2.1
      by_cases hp : path = []
      · subst hp
        simp only [List.foldl_nil, Option.some.injEq] at hx
        subst hx
        exact ⟨⟨r.2.1, r.2.2.1⟩, rw'⟩
      · exact ⟨(ih d x hp hx).1, rw'⟩

theorem cpSpecial_ok_range {ds : DSetData} (hv : ValidSet ds) {e : Nat} : ∀ (fuel d : Nat) (acc r : List (Nat × Nat)),
    PairsInRange ds.size acc → cpSpecial ds e fuel d acc = .ok r → PairsInRange ds.size r
  | 0, _, _, _, _, h => by simp [cpSpecial] at h
  | fuel + 1, d, acc, r, hacc, h => by
    unfold cpSpecial at h
    by_cases h1 : ds.opPartial 1 d = some e
    · simp only [h1, if_true, Outcome.ok.injEq] at h
      subst h; exact hacc
    · simp only [h1, if_false] at h
      cases hw : ds.viewPartial.walk d [1, 0, 1] with
      | none => rw [hw] at h; cases h
      | some w =>
        rw [hw] at h
        simp only at h
        cases hw2 : ds.viewPartial.walk d [1, 0] with
        | none => rw [hw2] at h; cases h
        | some d' =>
          rw [hw2] at h
          have rr := walk_some_range hv [1, 0, 1] d w (by simp) hw
          exact cpSpecial_ok_range hv fuel d' _ r
            (hacc.append (fun p hp => by simp only [List.mem_singleton] at hp; subst hp; exact rr)) h

theorem cpStep_ok_pairs {ds : DSetData} (hv : ValidSet ds) {marked special : Nat → Bool} {d d' : Nat}
    {c : List (Nat × Nat)} (h : cpStep ds marked special d = .ok (c, d')) : PairsInRange ds.size c := by
  have hd := cpStep_ok_range h
  unfold cpStep at h
  cases h1 : ds.opPartial 1 d with
  | none => rw [h1] at h; cases h
  | some e0 =>
    rw [h1] at h
    simp only at h
    cases h2 : cpInner ds marked (ds.size + 1) e0 with
    | err => rw [h2] at h; cases h
    | panic => rw [h2] at h; cases h
    | ok e =>
      rw [h2] at h
      simp only at h
      have he := cpInner_ok_range _ _ _ h2
      by_cases hs : special d = true
      · simp only [hs, if_true] at h
        cases h3 : cpSpecial ds e (ds.size + 1) d [] with
        | err => rw [h3] at h; cases h
        | panic => rw [h3] at h; cases h
        | ok c' =>
          rw [h3] at h
          simp only at h
          cases h4 : ds.opPartial 2 e with
          | none => rw [h4] at h; cases h
          | some d2 =>
            rw [h4] at h
            simp only [Outcome.ok.injEq, Prod.mk.injEq] at h
            obtain ⟨rfl, _⟩ := h
            exact cpSpecial_ok_range hv _ _ _ _ (fun p hp => by cases hp) h3
      · simp only [hs, Bool.false_eq_true, if_false] at h
        by_cases hne : e0 = e
        · simp only [hne, ne_eq, not_true_eq_false, if_false] at h
          cases h4 : ds.opPartial 2 e with
          | none => rw [h4] at h; cases h
          | some d2 =>
            rw [h4] at h
            simp only [Outcome.ok.injEq, Prod.mk.injEq] at h
            obtain ⟨rfl, _⟩ := h
            intro p hp; cases hp
        · simp only [ne_eq, hne, not_false_eq_true, if_true] at h
          cases h4 : ds.opPartial 2 e with
          | none => rw [h4] at h; cases h
          | some d2 =>
            rw [h4] at h
            simp only [Outcome.ok.injEq, Prod.mk.injEq] at h
            obtain ⟨rfl, _⟩ := h
            intro p hp
            simp only [List.mem_singleton] at hp
            subst hp
            exact ⟨hd, he⟩

theorem cpOuter_ok_pairs {ds : DSetData} (hv : ValidSet ds) {marked special : Nat → Bool} {start : Nat} :
    ∀ (fuel d : Nat) (acc r : List (Nat × Nat)), PairsInRange ds.size acc →
      cpOuter ds marked special start fuel d acc = .ok r → PairsInRange ds.size r
  | 0, _, _, _, _, h => by simp [cpOuter] at h
  | fuel + 1, d, acc, r, hacc, h => by
    unfold cpOuter at h
    by_cases hl : acc.length < ds.size + 1
    · simp only [hl, if_true] at h
      cases hs : cpStep ds marked special d with
      | err => rw [hs] at h; cases h
      | panic => rw [hs] at h; cases h
      | ok cd =>
        obtain ⟨c, d'⟩ := cd
        rw [hs] at h
        simp only at h
        have hc := cpStep_ok_pairs hv hs
        by_cases he : d' = start
        · simp only [he, if_true, Outcome.ok.injEq] at h
          subst h; exact hacc.append hc
        · simp only [he, if_false] at h
          exact cpOuter_ok_pairs hv fuel d' _ r (hacc.append hc) h
    · simp only [hl, if_false, Outcome.ok.injEq] at h
      subst h; exact hacc

theorem cutPairsInOrder_pairs {ds : DSetData} (hv : ValidSet ds) {marked special : Nat → Bool} {start : Nat}
    {r : List (Nat × Nat)} (h : cutPairsInOrder ds start marked special = .ok r) : PairsInRange ds.size r :=
  cpOuter_ok_pairs hv _ _ _ _ (fun p hp => by cases hp) h

/-! ### split_and_glue, for every choice of the starts, keeps the manifold clauses -/

/-- every entry of `cuts` carries a glue chamber and pairs of chambers -/
def EntryOk (ds : DSetData) (c : CutEntry) : Prop :=
  (1 ≤ c.d ∧ c.d ≤ ds.size) ∧ PairsInRange ds.size c.ordered

theorem sgCollectOne_ok {ds : DSetData} (hv : ValidSet ds) {mode : Bool} {keep : Int → Bool}
    {iter : Nat → Bool → List Nat → List Nat} {d : Nat} (hd : 1 ≤ d ∧ d ≤ ds.size) {cuts cuts' : List CutEntry}
    (hc : ∀ c ∈ cuts, EntryOk ds c) (h : sgCollectOne ds mode keep iter d cuts = .ok cuts') :
    ∀ c ∈ cuts', EntryOk ds c := by
  unfold sgCollectOne at h
  cases h1 : networkCut ds d mode (iter d mode) with
  | err => rw [h1] at h; cases h
  | panic => rw [h1] at h; cases h
  | ok o =>
    rw [h1] at h
    cases o with
    | none => simp only [Outcome.ok.injEq] at h; subst h; exact hc
    | some ordered =>
      simp only at h
      cases h2 : makeKey ds d ordered with
      | err => rw [h2] at h; cases h
      | panic => rw [h2] at h; cases h
      | ok key =>
        rw [h2] at h
        simp only [Outcome.ok.injEq] at h
        subst h
        obtain ⟨pre, start, _, _, _, hcp⟩ := networkCut_some h1
        have hp := cutPairsInOrder_pairs hv hcp
        intro c hc'
        split at hc'
        · rcases List.mem_append.1 hc' with hc' | hc'
          · exact hc c hc'
          · simp only [List.mem_singleton] at hc'; subst hc'; exact ⟨hd, hp⟩
        · exact hc c hc'

theorem sgCollectFaces_ok {ds : DSetData} (hv : ValidSet ds) {iter : Nat → Bool → List Nat → List Nat} :
    ∀ (l : List Nat) (cuts cuts' : List CutEntry), (∀ d ∈ l, 1 ≤ d ∧ d ≤ ds.size) → (∀ c ∈ cuts, EntryOk ds c) →
      sgCollectFaces ds iter l cuts = .ok cuts' → ∀ c ∈ cuts', EntryOk ds c
  | [], cuts, cuts', _, hc, h => by
    simp only [sgCollectFaces, Outcome.ok.injEq] at h; subst h; exact hc
  | d :: rest, cuts, cuts', hl, hc, h => by
    unfold sgCollectFaces at h
    cases h1 : sgCollectOne ds false (fun k => decide (k < 0)) iter d cuts with
    | err => rw [h1] at h; cases h
    | panic => rw [h1] at h; cases h
    | ok cuts1 =>
      rw [h1] at h
      exact sgCollectFaces_ok hv rest cuts1 cuts' (fun x hx => hl x (List.mem_cons_of_mem _ hx))
        (sgCollectOne_ok hv (hl d (List.mem_cons_self ..)) hc h1) h

theorem sgCollectEdges_ok {ds : DSetData} (hv : ValidSet ds) {iter : Nat → Bool → List Nat → List Nat} :
    ∀ (l : List Nat) (cuts cuts' : List CutEntry), (∀ d ∈ l, 1 ≤ d ∧ d ≤ ds.size) → (∀ c ∈ cuts, EntryOk ds c) →
      sgCollectEdges ds iter l cuts = .ok cuts' → ∀ c ∈ cuts', EntryOk ds c
  | [], cuts, cuts', _, hc, h => by
    simp only [sgCollectEdges, Outcome.ok.injEq] at h; subst h; exact hc
  | d :: rest, cuts, cuts', hl, hc, h => by
    unfold sgCollectEdges at h
    have hrest : ∀ x ∈ rest, 1 ≤ x ∧ x ≤ ds.size := fun x hx => hl x (List.mem_cons_of_mem _ hx)
    cases h0 : ds.viewPartial.r 2 3 d with
    | err => rw [h0] at h; cases h
    | panic => rw [h0] at h; cases h
    | ok r23 =>
      rw [h0] at h
      simp only at h
      by_cases hr : r23 = some 3
      · simp only [hr, ne_eq, not_true_eq_false, if_false] at h
        cases h1 : sgCollectOne ds true (fun k => decide (k = 0)) iter d cuts with
        | err => rw [h1] at h; cases h
        | panic => rw [h1] at h; cases h
        | ok cuts1 =>
          rw [h1] at h
          exact sgCollectEdges_ok hv rest cuts1 cuts' hrest
            (sgCollectOne_ok hv (hl d (List.mem_cons_self ..)) hc h1) h
      · simp only [ne_eq, hr, not_false_eq_true, if_true] at h
        exact sgCollectEdges_ok hv rest cuts cuts' hrest hc h

theorem mem_cutInsert {x c : CutEntry} : ∀ {l : List CutEntry}, c ∈ cutInsert x l → c = x ∨ c ∈ l
  | [], h => by simp [cutInsert] at h; exact Or.inl h
  | y :: ys, h => by
    unfold cutInsert at h
    split at h
    · rcases List.mem_cons.1 h with h | h
      · exact Or.inl h
      · exact Or.inr h
    · rcases List.mem_cons.1 h with h | h
      · exact Or.inr (h ▸ List.mem_cons_self ..)
      · rcases mem_cutInsert h with h | h
        · exact Or.inl h
        · exact Or.inr (List.mem_cons_of_mem _ h)

theorem mem_cutSort_aux {c : CutEntry} : ∀ (l acc : List CutEntry),
    c ∈ l.foldl (fun acc x => cutInsert x acc) acc → c ∈ l ∨ c ∈ acc
  | [], _, h => Or.inr h
  | x :: l, acc, h => by
    rw [List.foldl_cons] at h
    rcases mem_cutSort_aux l _ h with h | h
    · exact Or.inl (List.mem_cons_of_mem _ h)
    · rcases mem_cutInsert h with h | h
      · exact Or.inl (h ▸ List.mem_cons_self ..)
      · exact Or.inr h

theorem mem_cutSort {c : CutEntry} {l : List CutEntry} (h : c ∈ cutSort l) : c ∈ l := by
  rcases mem_cutSort_aux l [] h with h | h
  · exact h
  · cases h

/-- one attempt of the last loop (with `merge_facets` behind it for the keys `key.0 == 0`) keeps
    the manifold clauses -/
theorem sgTry_manifold {ds s : DSetData} (hm : Manifold3 ds) {c : CutEntry} (hc : EntryOk ds c)
    (h : sgTry ds c = .ok (some (.dset s))) : Manifold3 s := by
  unfold sgTry at h
  cases h1 : splitAndGlueAttempt ds c.d c.ordered with
  | err => rw [h1] at h; cases h
  | panic => rw [h1] at h; cases h
  | ok o =>
    rw [h1] at h
    cases o with
    | none => cases h
    | some r =>
      simp only at h
      by_cases hk : c.key.1 = 0
      · simp only [hk, if_true] at h
        cases r with
        | empty => simp [mergeFacets] at h
        | dset t =>
          have mt := (splitAndGlueAttempt_inv hm.1.1 hm.1.2.1 hc.1.1 hc.1.2 hc.2 h1).2 hm
          exact mergeFacets_manifold mt h
      · simp only [hk, if_false, Outcome.ok.injEq, Option.some.injEq] at h
        subst h
        exact (splitAndGlueAttempt_inv hm.1.1 hm.1.2.1 hc.1.1 hc.1.2 hc.2 h1).2 hm

theorem sgFirst_manifold {ds s : DSetData} (hm : Manifold3 ds) : ∀ (cuts : List CutEntry),
    (∀ c ∈ cuts, EntryOk ds c) → sgFirst ds cuts = .ok (some (.dset s)) → Manifold3 s ∧ s.size < ds.size
  | [], _, h => by simp [sgFirst] at h
  | c :: rest, hc, h => by
    unfold sgFirst at h
    have hrest : ∀ x ∈ rest, EntryOk ds x := fun x hx => hc x (List.mem_cons_of_mem _ hx)
    cases h1 : sgTry ds c with
    | err => rw [h1] at h; cases h
    | panic => rw [h1] at h; cases h
    | ok o =>
      rw [h1] at h
      match o, h1, h with
      | none, _, h => exact sgFirst_manifold hm rest hrest h
      | some .empty, _, h => exact sgFirst_manifold hm rest hrest h
      | some (.dset out), h1, h =>
        simp only at h
        by_cases hlt : out.size < ds.size
        · simp only [hlt, if_true, Outcome.ok.injEq, Option.some.injEq, DOE.dset.injEq] at h
          subst h
          exact ⟨sgTry_manifold hm (hc c (List.mem_cons_self ..)) h1, hlt⟩
        · simp only [hlt, if_false] at h
          exact sgFirst_manifold hm rest hrest h

/-- **`split_and_glue` keeps the manifold clauses, whatever the `HashSet`s do.**  For every choice
    `iter` of the iteration orders: a D-set returned from a complete, loopless 3-dimensional D-set
    whose far operations commute and differ is one again, and it is strictly smaller. -/
theorem splitAndGlue_manifold {ds s : DSetData} (hm : Manifold3 ds) (iter : Nat → Bool → List Nat → List Nat)
    (h : splitAndGlue (.dset ds) iter = .ok (some (.dset s))) : Manifold3 s ∧ s.size < ds.size := by
  have hv := hm.1.1
  unfold splitAndGlue at h
  simp only at h
  cases h1 : sgCuts? ds iter with
  | err => rw [h1] at h; cases h
  | panic => rw [h1] at h; cases h
  | ok cuts =>
    rw [h1] at h
    simp only at h
    refine sgFirst_manifold hm cuts ?_ h
    unfold sgCuts? at h1
    cases h2 : sgCollectFaces ds iter (ds.viewPartial.orbitReps [0, 1, 3] (seedsIncl ds)) [] with
    | err => rw [h2] at h1; cases h1
    | panic => rw [h2] at h1; cases h1
    | ok cuts1 =>
      rw [h2] at h1
      simp only at h1
      cases h3 : sgCollectEdges ds iter (ds.viewPartial.orbitReps [0] (seedsIncl ds)) cuts1 with
      | err => rw [h3] at h1; cases h1
      | panic => rw [h3] at h1; cases h1
      | ok cuts2 =>
        rw [h3] at h1
        simp only [Outcome.ok.injEq] at h1
        subst h1
        have hreps : ∀ idx, ∀ d ∈ ds.viewPartial.orbitReps idx (seedsIncl ds), 1 ≤ d ∧ d ≤ ds.size :=
          fun idx d hd => mem_seedsIncl (orbitReps_mem_seeds hv hd)
        have ok1 := sgCollectFaces_ok hv _ _ _ (hreps _) (fun c hc => by cases hc) h2
        have ok2 := sgCollectEdges_ok hv _ _ _ (hreps _) ok1 h3
        exact fun c hc => ok2 c (mem_cutSort hc)

/-! ### concrete states of the real pipeline (non-vacuity examples of Props/C16) -/

/-- a 48-chamber state of the replayed pipeline of a corpus cover (one tile) on which `network_cut` returns cuts of four pairs -/
def exNc : DSetData :=
  { size := 48, dim := 3, op := #[
    2, 44, 15, 9, 1, 4, 14, 10, 4, 22, 6, 7, 3, 2, 5, 8, 6, 12, 4, 25, 5, 45, 3, 26, 8, 28, 24, 3, 7, 10, 23, 4, 10, 30, 40, 1, 9, 8, 39, 2,
    16, 25, 34, 12, 17, 5, 13, 11, 18, 14, 12, 36, 15, 13, 2, 37, 14, 34, 1, 38, 11, 41, 31, 17, 12, 23, 18, 16, 13, 39, 17, 33, 20, 33, 28, 39, 19, 32, 27, 40,
    22, 43, 38, 27, 21, 3, 37, 28, 24, 17, 8, 41, 23, 46, 7, 42, 26, 11, 44, 5, 25, 48, 43, 6, 28, 29, 20, 21, 27, 7, 19, 22, 30, 27, 42, 43, 29, 9, 41, 44,
    34, 40, 16, 32, 35, 20, 47, 31, 36, 19, 46, 18, 31, 15, 11, 35, 32, 38, 48, 34, 33, 37, 45, 13, 38, 36, 22, 14, 37, 35, 21, 15, 40, 18, 10, 19, 39, 31, 9, 20,
    42, 16, 30, 23, 41, 47, 29, 24, 44, 21, 26, 29, 43, 1, 25, 30, 46, 6, 36, 48, 45, 24, 33, 47, 48, 42, 32, 46, 47, 26, 35, 45] }

theorem exNc_valid : ValidSet exNc := validSetB_sound (by decide +kernel)

/-- the members of `marked` in `network_cut(exNc, 1, false)` -/
def exNcMarked : List Nat :=
  [1, 2, 3, 4, 5, 6, 11, 12, 13, 14, 15, 21, 22, 25, 26, 34, 35, 36, 37, 38, 43, 44, 45, 48]
/-- the members of `special` in `network_cut(exNc, 1, false)` -/
def exNcSpecial : List Nat := [7, 8, 9, 10, 27, 28, 29, 30]

/-- `HashSet` iteration in ascending order: one of the possible choices -/
def ascending : Nat → Bool → List Nat → List Nat := fun _ _ l => View.sortDedup l

/-- decidable form of `CPChain` -/
def chainB (step : Nat → Outcome (List (Nat × Nat) × Nat)) : Nat → List (Nat × List (Nat × Nat)) → Nat → Bool
  | a, [], b => a == b
  | a, (x, c) :: l, b =>
    x == a && (match step a with
      | .ok (c', d') => c' == c && chainB step d' l b
      | _ => false)

theorem chainB_sound {step : Nat → Outcome (List (Nat × Nat) × Nat)} :
    ∀ {a b : Nat} {l : List (Nat × List (Nat × Nat))}, chainB step a l b = true → CPChain step a l b
  | a, b, [], h => by
    have : a = b := by simpa [chainB] using h
    subst this; exact CPChain.nil a
  | a, b, (x, c) :: l, h => by
    simp only [chainB, Bool.and_eq_true, beq_iff_eq] at h
    obtain ⟨rfl, h2⟩ := h
    cases hs : step x with
    | err => rw [hs] at h2; cases h2
    | panic => rw [hs] at h2; cases h2
    | ok cd =>
      obtain ⟨c', d'⟩ := cd
      rw [hs] at h2
      simp only [Bool.and_eq_true, beq_iff_eq] at h2
      obtain ⟨rfl, h3⟩ := h2
      exact CPChain.cons hs (chainB_sound h3)

end DSymVerif.Simp
