/-
Determinantal divisors of integer matrices (Mathlib side).

`dk A k` = gcd of the determinants of all `k × k` matrices `A.submatrix f g` for ARBITRARY index
functions `f`, `g` (a repeated index gives determinant 0, a permuted one the same minor up to
sign, so this is the gcd of the `k × k` minors; Proofs/InvariantsDetSpec.lean shows that it is the
number the Spec computes from the sorted index subsets).

* `dk` is invariant under multiplication by invertible integer matrices on either side
  (every generalised minor of `U·A` is an integer combination of generalised minors of `A`, by
  multilinearity of `det` in the rows; columns by transposition),
* for a "diagonal" `n × m` matrix whose diagonal is a divisibility chain, `dk` is the absolute
  value of the product of the first `k` diagonal entries.
-/
import DSymVerif.Proofs.InvariantsMatrix
import Mathlib.Algebra.GCDMonoid.Finset
import Mathlib.Algebra.GCDMonoid.Nat

namespace DSymVerif.Inv
open Matrix

/-- `k`-th determinantal divisor -/
def dk {n m : ℕ} (A : Matrix (Fin n) (Fin m) ℤ) (k : ℕ) : ℕ :=
  Finset.univ.gcd (fun fg : (Fin k → Fin n) × (Fin k → Fin m) => (A.submatrix fg.1 fg.2).det.natAbs)

theorem dk_dvd_minor {n m : ℕ} (A : Matrix (Fin n) (Fin m) ℤ) (k : ℕ) (f : Fin k → Fin n)
    (g : Fin k → Fin m) : ((dk A k : ℕ) : ℤ) ∣ (A.submatrix f g).det := by
  rw [Int.natCast_dvd]
  exact Finset.gcd_dvd (f := fun fg : (Fin k → Fin n) × (Fin k → Fin m) =>
    (A.submatrix fg.1 fg.2).det.natAbs) (Finset.mem_univ (f, g))

theorem dvd_dk {n m : ℕ} (A : Matrix (Fin n) (Fin m) ℤ) (k d : ℕ)
    (h : ∀ (f : Fin k → Fin n) (g : Fin k → Fin m), (d : ℤ) ∣ (A.submatrix f g).det) :
    d ∣ dk A k := by
  unfold dk
  apply Finset.dvd_gcd
  intro fg _
  exact Int.natCast_dvd.mp (h fg.1 fg.2)

/-! ### multiplication on the left -/

theorem det_mul_rect_dvd {k n : ℕ} (U : Matrix (Fin k) (Fin n) ℤ) (B : Matrix (Fin n) (Fin k) ℤ)
    (d : ℤ) (h : ∀ r : Fin k → Fin n, d ∣ (B.submatrix r id).det) : d ∣ (U * B).det := by
  have e : U * B = fun i => ∑ l, U i l • B l := by
    ext i j
    simp [Matrix.mul_apply, Finset.sum_apply]
  rw [e]
  show d ∣ detRowAlternating (fun i => ∑ l, U i l • B l)
  rw [← AlternatingMap.coe_multilinearMap, MultilinearMap.map_sum]
  apply Finset.dvd_sum
  intro r _
  rw [AlternatingMap.coe_multilinearMap, AlternatingMap.map_smul_univ]
  exact Dvd.dvd.mul_left (h r) _

theorem dk_dvd_mul_left {n n' m : ℕ} (U : Matrix (Fin n') (Fin n) ℤ) (A : Matrix (Fin n) (Fin m) ℤ)
    (k : ℕ) : dk A k ∣ dk (U * A) k := by
  apply dvd_dk
  intro f g
  have e : (U * A).submatrix f g = U.submatrix f id * A.submatrix id g := by
    ext i j
    simp [Matrix.mul_apply]
  rw [e]
  apply det_mul_rect_dvd
  intro r
  exact dk_dvd_minor A k r g

/-! ### transposition, multiplication on the right -/

theorem dk_transpose {n m : ℕ} (A : Matrix (Fin n) (Fin m) ℤ) (k : ℕ) : dk Aᵀ k = dk A k := by
  apply Nat.dvd_antisymm
  · apply dvd_dk
    intro f g
    have : A.submatrix f g = (Aᵀ.submatrix g f)ᵀ := by ext i j; rfl
    rw [this, Matrix.det_transpose]
    exact dk_dvd_minor Aᵀ k g f
  · apply dvd_dk
    intro f g
    have : Aᵀ.submatrix f g = (A.submatrix g f)ᵀ := by ext i j; rfl
    rw [this, Matrix.det_transpose]
    exact dk_dvd_minor A k g f

theorem dk_dvd_mul_right {n m m' : ℕ} (A : Matrix (Fin n) (Fin m) ℤ) (V : Matrix (Fin m) (Fin m') ℤ)
    (k : ℕ) : dk A k ∣ dk (A * V) k := by
  rw [← dk_transpose A, ← dk_transpose (A * V), Matrix.transpose_mul]
  exact dk_dvd_mul_left _ _ _

/-! ### invariance under unimodular equivalence -/

theorem dk_unit_mul {n m : ℕ} (U : Matrix (Fin n) (Fin n) ℤ) (hU : IsUnit U)
    (A : Matrix (Fin n) (Fin m) ℤ) (k : ℕ) : dk (U * A) k = dk A k := by
  apply Nat.dvd_antisymm
  · obtain ⟨U', hU'⟩ := hU.exists_left_inv
    have h := dk_dvd_mul_left U' (U * A) k
    rw [← Matrix.mul_assoc, hU', Matrix.one_mul] at h
    exact h
  · exact dk_dvd_mul_left _ _ _

theorem dk_mul_unit {n m : ℕ} (A : Matrix (Fin n) (Fin m) ℤ) (V : Matrix (Fin m) (Fin m) ℤ)
    (hV : IsUnit V) (k : ℕ) : dk (A * V) k = dk A k := by
  apply Nat.dvd_antisymm
  · obtain ⟨V', hV'⟩ := hV.exists_right_inv
    have h := dk_dvd_mul_right (A * V) V' k
    rw [Matrix.mul_assoc, hV', Matrix.mul_one] at h
    exact h
  · exact dk_dvd_mul_right _ _ _

/-- unimodularly equivalent matrices have the same determinantal divisors -/
theorem UEquiv.dk_eq {n m : ℕ} {A B : Matrix (Fin n) (Fin m) ℤ} (h : UEquiv A B) (k : ℕ) :
    dk A k = dk B k := by
  obtain ⟨U, V, hU, hV, e⟩ := h
  rw [← e, dk_mul_unit _ V hV, dk_unit_mul U hU]

/-! ### a diagonal matrix whose diagonal is a divisibility chain -/

/-- the `n × m` matrix with `e 0, e 1, …` on the diagonal -/
def diagF (e : ℕ → ℤ) (n m : ℕ) : Matrix (Fin n) (Fin m) ℤ :=
  fun r c => if r.val = c.val then e r.val else 0

/-- in a divisibility chain the product of the first `k` members divides the product over any
    `k` different members -/
theorem chain_prod_dvd (ch : ℕ → ℤ) (hch : ∀ i j, i ≤ j → ch i ∣ ch j) (S : Finset ℕ) :
    ∏ i ∈ Finset.range S.card, ch i ∣ ∏ s ∈ S, ch s := by
  induction hk : S.card generalizing S with
  | zero => simp
  | succ k ih =>
    have hne : S.Nonempty := by
      rw [← Finset.card_pos]; omega
    have hmem := Finset.max'_mem S hne
    have hcard : (S.erase (S.max' hne)).card = k := by
      rw [Finset.card_erase_of_mem hmem]; omega
    have hmax : k ≤ S.max' hne := by
      have hsub : S ⊆ Finset.range (S.max' hne + 1) := by
        intro x hx
        rw [Finset.mem_range]
        exact Nat.lt_succ_of_le (Finset.le_max' S x hx)
      have := Finset.card_le_card hsub
      rw [Finset.card_range] at this
      omega
    rw [Finset.prod_range_succ, ← Finset.mul_prod_erase S ch hmem, mul_comm]
    exact mul_dvd_mul (hch k _ hmax) (ih _ hcard)

theorem chain_prod_dvd_inj (ch : ℕ → ℤ) (hch : ∀ i j, i ≤ j → ch i ∣ ch j) (k : ℕ) (g : Fin k → ℕ)
    (hg : Function.Injective g) : ∏ i ∈ Finset.range k, ch i ∣ ∏ i : Fin k, ch (g i) := by
  have h := chain_prod_dvd ch hch (Finset.univ.image g)
  rw [Finset.card_image_of_injective _ hg, Finset.card_univ, Fintype.card_fin,
    Finset.prod_image (fun x _ y _ hxy => hg hxy)] at h
  exact h

theorem dk_diagF (e : ℕ → ℤ) (hch : ∀ i j, i ≤ j → e i ∣ e j) (n m k : ℕ) (hkn : k ≤ n)
    (hkm : k ≤ m) : dk (diagF e n m) k = (∏ i ∈ Finset.range k, e i).natAbs := by
  apply Nat.dvd_antisymm
  · -- the leading principal minor
    have h := dk_dvd_minor (diagF e n m) k (Fin.castLE hkn) (Fin.castLE hkm)
    have hd : (diagF e n m).submatrix (Fin.castLE hkn) (Fin.castLE hkm)
        = Matrix.diagonal (fun i : Fin k => e i.val) := by
      ext i j
      simp only [diagF, Matrix.submatrix_apply, Fin.val_castLE, Matrix.diagonal_apply, Fin.ext_iff]
    rw [hd, Matrix.det_diagonal, Fin.prod_univ_eq_prod_range (fun i => e i) k] at h
    exact Int.natCast_dvd.mp h
  · apply dvd_dk
    intro f g
    rw [Int.natCast_dvd, Int.natAbs_dvd_natAbs]
    by_cases hg : Function.Injective (fun i => (g i).val)
    · rw [Matrix.det_apply]
      apply Finset.dvd_sum
      intro σ _
      apply Dvd.dvd.mul_left
      by_cases hall : ∀ i, (f (σ i)).val = (g i).val
      · have : ∏ i, (diagF e n m).submatrix f g (σ i) i = ∏ i : Fin k, e ((g i).val) := by
          apply Finset.prod_congr rfl
          intro i _
          simp only [diagF, Matrix.submatrix_apply, hall i, if_true]
        rw [this]
        exact chain_prod_dvd_inj e hch k _ hg
      · push Not at hall
        obtain ⟨i, hi⟩ := hall
        have : ∏ i, (diagF e n m).submatrix f g (σ i) i = 0 := by
          apply Finset.prod_eq_zero (Finset.mem_univ i)
          simp only [diagF, Matrix.submatrix_apply, hi, if_false]
        rw [this]; exact dvd_zero _
    · -- two equal columns
      have : ∃ i j, i ≠ j ∧ (g i).val = (g j).val := by
        by_contra hc
        push Not at hc
        apply hg
        intro i j hij
        by_contra hne
        exact hc i j hne hij
      obtain ⟨i, j, hne, hij⟩ := this
      rw [Matrix.det_zero_of_column_eq hne]
      · exact dvd_zero _
      · intro r
        simp only [diagF, Matrix.submatrix_apply, hij]

end DSymVerif.Inv
