/-
The letters of `expanded_relator_set` (all rotations of the relators and of their inverses,
each freely reduced) are letters of the relators or their negatives.
-/
import DSymVerif.Proofs.FreeWordOrder
import DSymVerif.Model.Cosets

namespace DSymVerif.CosetInvP
open DSymVerif DSymVerif.Cosets

theorem step_mem {acc : List Int} {x y : Int} (h : y ∈ FW.step acc x) : y ∈ acc ∨ y = x := by
  unfold FW.step at h
  cases acc with
  | nil =>
    by_cases hx : x ≠ 0
    · simp [hx] at h; exact Or.inr h
    · simp [hx] at h
  | cons z zs =>
    simp only [] at h
    by_cases h1 : x = -z
    · rw [if_pos h1] at h
      exact Or.inl (List.mem_cons_of_mem _ h)
    · rw [if_neg h1] at h
      by_cases hx : x ≠ 0
      · rw [if_pos hx] at h
        rcases List.mem_cons.mp h with h | h
        · exact Or.inr h
        · exact Or.inl h
      · rw [if_neg hx] at h
        exact Or.inl h

theorem foldl_step_mem : ∀ (w acc : List Int) (y : Int), y ∈ w.foldl FW.step acc → y ∈ acc ∨ y ∈ w
  | [], acc, y, h => Or.inl h
  | x :: w, acc, y, h => by
    rw [List.foldl_cons] at h
    rcases foldl_step_mem w _ y h with h | h
    · rcases step_mem h with h | h
      · exact Or.inl h
      · exact Or.inr (by simp [h])
    · exact Or.inr (by simp [h])

theorem normalized_mem {w : List Int} {y : Int} (h : y ∈ FW.normalized w) : y ∈ w := by
  unfold FW.normalized at h
  rw [List.mem_reverse] at h
  rcases foldl_step_mem w [] y h with h | h
  · cases h
  · exact h

theorem rotated_mem {a : List Int} {i : Int} {y : Int} (h : y ∈ FW.rotated a i) : y ∈ a := by
  unfold FW.rotated at h
  simp only [] at h
  split at h
  · exact h
  · have := normalized_mem h
    rcases List.mem_append.mp this with h1 | h1
    · exact List.mem_of_mem_drop h1
    · exact List.mem_of_mem_take h1

theorem inverse_mem {a : List Int} {y : Int} (h : y ∈ FW.inverse a) : -y ∈ a := by
  unfold FW.inverse FW.new at h
  have := normalized_mem h
  simp only [List.mem_map, List.mem_reverse] at this
  obtain ⟨z, hz, rfl⟩ := this
  simpa using hz

theorem relatorPermutations_letters {S : Int → Prop} (hneg : ∀ x, S x → S (-x)) {a : List Int}
    (ha : ∀ x ∈ a, S x) {v : List Int} (hv : v ∈ FW.relatorPermutations a) : ∀ x ∈ v, S x := by
  by_cases hn : a = []
  · subst hn
    rw [FWP.relPerms_nil] at hv
    simp at hv; subst hv
    intro x hx; cases hx
  · rw [FWP.mem_relPerms hn] at hv
    unfold FWP.rotInvList at hv
    simp only [List.mem_flatMap, List.mem_range, List.mem_cons, List.not_mem_nil, or_false] at hv
    obtain ⟨i, _, rfl | rfl⟩ := hv
    · intro x hx; exact ha x (rotated_mem hx)
    · intro x hx
      have := hneg _ (ha _ (rotated_mem (inverse_mem hx)))
      simpa using this

theorem foldl_insert_mem : ∀ (ws acc : List (List Int)) (v : List Int),
    v ∈ ws.foldl (fun a w => FW.insertSorted w a) acc → v ∈ acc ∨ v ∈ ws
  | [], acc, v, h => Or.inl h
  | w :: ws, acc, v, h => by
    rw [List.foldl_cons] at h
    rcases foldl_insert_mem ws _ v h with h | h
    · rcases (FWP.mem_insertSorted w acc v).mp h with h | h
      · exact Or.inr (by simp [h])
      · exact Or.inl h
    · exact Or.inr (by simp [h])

theorem expanded_mem : ∀ (rels : List (List Int)) (acc : List (List Int)) (v : List Int),
    v ∈ rels.foldl (fun acc rel => (FW.relatorPermutations rel).foldl (fun a w => FW.insertSorted w a) acc) acc →
    v ∈ acc ∨ ∃ rel ∈ rels, v ∈ FW.relatorPermutations rel
  | [], acc, v, h => Or.inl h
  | r :: rels, acc, v, h => by
    rw [List.foldl_cons] at h
    rcases expanded_mem rels _ v h with h | ⟨rel, hr, hv⟩
    · rcases foldl_insert_mem _ acc v h with h | h
      · exact Or.inl h
      · exact Or.inr ⟨r, by simp, h⟩
    · exact Or.inr ⟨rel, by simp [hr], hv⟩

/-- the letters of the expanded relator set are letters of the relators or their negatives -/
theorem expandedRelatorSet_letters {S : Int → Prop} (hneg : ∀ x, S x → S (-x)) {rels : List (List Int)}
    (hr : ∀ r ∈ rels, ∀ x ∈ r, S x) : ∀ v ∈ expandedRelatorSet rels, ∀ x ∈ v, S x := by
  intro v hv
  unfold expandedRelatorSet at hv
  rcases expanded_mem rels [] v hv with h | ⟨rel, hrel, h⟩
  · cases h
  · exact relatorPermutations_letters hneg (hr rel hrel) h

end DSymVerif.CosetInvP
