/-
A transitive permutation group on `k ≤ 4` points has order 1, 2, 3, 4, 6, 8, 12 or 24:
its order is a multiple of `k` (orbit–stabiliser) and divides `k!` (Lagrange).
Used by `Props/C15.transitive_le4_orders`.
-/
import Mathlib.GroupTheory.Index
import Mathlib.GroupTheory.Coset.Card
import Mathlib.Data.Fintype.Perm
import Mathlib.Tactic.IntervalCases

namespace DSymVerif.D3

theorem transitive_order_dvd (k : Nat) (hk : 0 < k) (G : Subgroup (Equiv.Perm (Fin k)))
    [MulAction.IsPretransitive G (Fin k)] : k ∣ Nat.card G ∧ Nat.card G ∣ k.factorial := by
  constructor
  · have h := MulAction.index_stabilizer_of_transitive G (⟨0, hk⟩ : Fin k)
    rw [Nat.card_eq_fintype_card, Fintype.card_fin] at h
    have h2 := Subgroup.index_dvd_card (MulAction.stabilizer G (⟨0, hk⟩ : Fin k))
    rwa [h] at h2
  · have h := Subgroup.card_subgroup_dvd_card G
    rwa [Nat.card_eq_fintype_card (α := Equiv.Perm (Fin k)), Fintype.card_perm, Fintype.card_fin] at h

theorem order_of_dvd (k n : Nat) (hk : 0 < k) (hk4 : k ≤ 4) (h1 : k ∣ n) (h2 : n ∣ k.factorial) :
    n ∈ [1, 2, 3, 4, 6, 8, 12, 24] := by
  have hpos : 0 < k.factorial := Nat.factorial_pos k
  have hle : n ≤ k.factorial := Nat.le_of_dvd hpos h2
  have hk' : k = 1 ∨ k = 2 ∨ k = 3 ∨ k = 4 := by omega
  rcases hk' with rfl | rfl | rfl | rfl
  · have : n ≤ 1 := by simpa using hle
    have : 0 < n := Nat.pos_of_dvd_of_pos h2 hpos
    have : n = 1 := by omega
    subst this; decide
  · have h2' : n ∣ 2 := by simpa [Nat.factorial] using h2
    have : n ≤ 2 := Nat.le_of_dvd (by omega) h2'
    interval_cases n <;> first | decide | omega
  · have h2' : n ∣ 6 := by simpa [Nat.factorial] using h2
    have : n ≤ 6 := Nat.le_of_dvd (by omega) h2'
    interval_cases n <;> first | decide | omega
  · have h2' : n ∣ 24 := by simpa [Nat.factorial] using h2
    have : n ≤ 24 := Nat.le_of_dvd (by omega) h2'
    interval_cases n <;> first | decide | omega

end DSymVerif.D3
