/-
Property C05: kernel-checked witnesses on a DISCONNECTED base — the symbol
`<1.1:3:1 3,1 3,1 3:3 1,2 1>`: chamber 1 is the one-chamber symbol *322 (group of order 12),
chambers 2, 3 are exchanged by all three operations (branching 1: a simply connected sphere).
The fundamental group the library computes is that of *322 (the second component contributes no
generator), the finite universal cover has 12 sheets (36 chambers: the universal cover of the
first component and 12 copies of the second), and `covers(ds, 2)` has 4 entries.
-/
import DSymVerif.Proofs.CoversWitness
import DSymVerif.Proofs.CoversWitness2
import DSymVerif.Model.CoversAll

namespace DSymVerif.C05W
open DSymVerif DSymVerif.DS DSymVerif.Covers DSymVerif.FG DSymVerif.FGP DSymVerif.Cosets
open DSymVerif.CoversP

/-- `<1.1:3:1 3,1 3,1 3:3 1,2 1>` -/
def symDisc : DSymData :=
  match ofTables 3 2 (fun _ d => if d = 1 then 1 else if d = 2 then 3 else 2)
      (fun i d => if d = 1 then (if i = 0 then 3 else 2) else 1) with
  | .ok y => y
  | _ => default

theorem symDisc_validSym : ValidSym symDisc := validSymB_sound (by decide +kernel)

theorem symDisc_base : 1 ≤ symDisc.size ∧ 1 ≤ symDisc.dim ∧ symDisc.view.isConnected = false := by
  decide +kernel

/-- the model of `finite_universal_cover` returns a symbol with 36 chambers -/
theorem symDisc_universal : ∃ c, finiteUniversalCover symDisc = .ok c ∧ c.size = 36 :=
  okSize_ok (n := 36) (by decide +kernel) (by decide)

/-- number of returned covers, 0 if nothing is returned -/
def okLength : Outcome (List DSymData) → Nat
  | .ok cs => cs.length
  | _ => 0

theorem okLength_ok {o : Outcome (List DSymData)} {n : Nat} (h : okLength o = n) (hn : 0 < n) :
    ∃ cs, o = .ok cs ∧ cs.length = n := by
  cases o with
  | ok cs => exact ⟨cs, rfl, h⟩
  | err => exact absurd h (by show (0 : Nat) ≠ n; omega)
  | panic => exact absurd h (by show (0 : Nat) ≠ n; omega)

/-- the model of `covers(ds, 2)` returns 4 covers -/
theorem symDisc_covers : ∃ cs, coversAll symDisc 2 = .ok cs ∧ cs.length = 4 :=
  okLength_ok (n := 4) (by decide +kernel) (by decide)

/-! ### a compatible sheet map that violates the divisibility premise of the degree clause -/

/-- two sheets exchanged across the facets of index 0 only -/
def halfSwap : Nat → Nat → Nat → Nat := fun k i _ => if i = 0 then k ^^^ 1 else k

theorem halfSwap_compat : SheetCompat sym32.dset 2 halfSwap :=
  sheetCompatB_iff.1 (by decide +kernel)

theorem swap2_compat32 : SheetCompat sym32.dset 2 swap2 :=
  sheetCompatB_iff.1 (by decide +kernel)

/-- orbit length, branching number and degree of a returned symbol at chamber 1, indices 0, 1 -/
def okRVM : Outcome DSymData → Outcome (Option Nat) × Outcome (Option Nat) × Outcome (Option Nat)
  | .ok c => (c.rPartial 0 1 1, c.vPartial 0 1 1, c.mPartial 0 1 1)
  | _ => (.panic, .panic, .panic)

/-- on `<1.1:1:1,1,1:3,2>` (degree m01 = 3) the half swap doubles the (0,1)-orbit: `r = 2` does not
    divide 3, the stored branching number is `⌊3/2⌋ = 1` and the degree of the result is 2 -/
theorem halfSwap_degrees : sym32.mPartial 0 1 1 = .ok (some 3) ∧
    okRVM (cover sym32 2 halfSwap) = (.ok (some 2), .ok (some 1), .ok (some 2)) := by
  decide +kernel

/-- the full swap keeps the orbit length `r = 1`, which divides 3: branching number 3, degree 3 -/
theorem swap2_degrees :
    okRVM (cover sym32 2 swap2) = (.ok (some 1), .ok (some 3), .ok (some 3)) := by
  decide +kernel

end DSymVerif.C05W
