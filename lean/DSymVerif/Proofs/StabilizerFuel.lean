/-
C13, termination of `close_relations_in_place` and totality of the tree loop: the number of
edges without a word (`unknownCount`) never grows and drops whenever an unknown edge is popped;
weighting every queue entry by `(R+1)^(unknown edges when it was queued)` makes every pop lower
the total weight (`closeLoop_total`), so the model's fuel `(R+1)^(E+1)` is never exhausted.
-/
import DSymVerif.Proofs.StabilizerSchreier

set_option linter.unusedSectionVars false
set_option linter.unusedVariables false

namespace DSymVerif.StabP
open DSymVerif DSymVerif.SpecC11 DSymVerif.CosetP DSymVerif.FWP DSymVerif.Cosets
open DSymVerif.Stab hiding traceWord

/-! ### counting edges without a word -/

theorem countP_le_of_imp {α : Type} {P Q : α → Bool} : ∀ (l : List α), (∀ x ∈ l, P x = true → Q x = true) →
    l.countP P ≤ l.countP Q
  | [], _ => Nat.le_refl _
  | a :: l, h => by
    have ih := countP_le_of_imp l (fun x hx => h x (List.mem_cons_of_mem _ hx))
    simp only [List.countP_cons]
    by_cases hp : P a = true
    · have := h a (by simp) hp
      simp only [hp, this, if_true]; omega
    · simp only [hp, Bool.false_eq_true, if_false]
      split <;> omega

theorem countP_lt_of_imp {α : Type} {P Q : α → Bool} : ∀ (l : List α), (∀ x ∈ l, P x = true → Q x = true) →
    ∀ a ∈ l, Q a = true → P a = false → l.countP P < l.countP Q
  | [], _, a, ha, _, _ => by cases ha
  | b :: l, h, a, ha, hq, hp => by
    simp only [List.countP_cons]
    rcases List.mem_cons.mp ha with rfl | ha
    · have := countP_le_of_imp l (fun x hx => h x (List.mem_cons_of_mem _ hx))
      simp only [hq, hp, if_true, Bool.false_eq_true, if_false]; omega
    · have ih := countP_lt_of_imp l (fun x hx => h x (List.mem_cons_of_mem _ hx)) a ha hq hp
      by_cases hpb : P b = true
      · have := h b (by simp) hpb
        simp only [hpb, this, if_true]; omega
      · simp only [hpb, Bool.false_eq_true, if_false]
        split <;> omega

section Fuel
variable {t : Tab} {n : Nat}

/-- all (row, letter) pairs of the table -/
def edgeUniv (t : Tab) (n : Nat) : List (Nat × Int) := (List.range t.size) ×ˢ (letters n)

theorem mem_edgeUniv {c : Nat} {g : Int} : (c, g) ∈ edgeUniv t n ↔ c < t.size ∧ g ∈ letters n := by
  unfold edgeUniv
  rw [List.mem_product, List.mem_range]

theorem letters_length (n : Nat) : (letters n).length = 2 * n := by
  unfold letters; simp; omega

theorem edgeUniv_length : (edgeUniv t n).length = t.size * (2 * n) := by
  unfold edgeUniv
  rw [List.length_product, List.length_range, letters_length]

/-- number of edges without a word -/
def unknownCount (t : Tab) (n : Nat) (e : EMap) : Nat :=
  (edgeUniv t n).countP (fun p => (e.get p.1 p.2).isNone)

theorem unknownCount_le (e : EMap) : unknownCount t n e ≤ t.size * (2 * n) := by
  unfold unknownCount
  rw [← edgeUniv_length]
  exact List.countP_le_length


variable {rels : List (List Int)} {u : Nat → List Int} {gens : List (List Int)}

/-- ghost value of a queue entry: the number of unknown edges when it was queued (plus one for an
    entry whose edge may already have a word) -/
def JRel (t : Tab) (n : Nat) (e : EMap) (x : Nat × Int × List Int) (v : Nat) : Prop :=
  unknownCount t n e + 1 ≤ v + (if (e.get x.1 x.2.1).isNone then 1 else 0)

def weight (R : Nat) (vs : List Nat) : Nat := (vs.map fun v => (R + 1) ^ v).sum

theorem weight_append (R : Nat) (a b : List Nat) : weight R (a ++ b) = weight R a + weight R b := by
  simp [weight]

theorem weight_replicate (R k v : Nat) : weight R (List.replicate k v) = k * (R + 1) ^ v := by
  simp [weight]

theorem rbgLookup_length_le : ∀ (rbg : RelMap) (gen : Int) (rs : List (List Int)),
    rbgLookup gen rbg = some rs → rs.length ≤ relCount rbg
  | [], _, _, h => by simp [rbgLookup] at h
  | (k, ws) :: m, gen, rs, h => by
    simp only [rbgLookup] at h
    unfold relCount
    simp only [List.map_cons, List.sum_cons]
    by_cases e : k = gen
    · simp only [e, if_true, Option.some.injEq] at h
      subst h; omega
    · simp only [e, if_false] at h
      have := rbgLookup_length_le m gen rs h
      unfold relCount at this
      omega

theorem forall2_append {α β : Type} {R : α → β → Prop} : ∀ {a a' : List α} {b b' : List β},
    List.Forall₂ R a b → List.Forall₂ R a' b' → List.Forall₂ R (a ++ a') (b ++ b')
  | _, _, _, _, .nil, h => h
  | _, _, _, _, .cons h1 h2, h => .cons h1 (forall2_append h2 h)

theorem forall2_imp_mem {α β : Type} {R S : α → β → Prop} : ∀ {a : List α} {b : List β},
    List.Forall₂ R a b → (∀ x y, x ∈ a → R x y → S x y) → List.Forall₂ S a b
  | _, _, .nil, _ => .nil
  | _, _, .cons h1 h2, h => .cons (h _ _ (by simp) h1)
      (forall2_imp_mem h2 (fun x y hx hr => h x y (List.mem_cons_of_mem _ hx) hr))

theorem closeLoop_total (hcomp : complete t n = true) (hinv : InvConsistent t n) {rbg : RelMap}
    (hrbg : RbgOk t n rels rbg) :
    ∀ (fuel : Nat) (q : Queue) (e : EMap) (vs : List Nat), EInv t n rels u gens e → QInv t n rels u gens q →
      List.Forall₂ (JRel t n e) q vs → weight (relCount rbg) vs ≤ fuel →
      ∃ e', Stab.closeLoop (Table.ofView n t) rbg fuel q e = .ok e'
  | fuel, [], e, _, _, _, _, _ => ⟨e, by cases fuel <;> rfl⟩
  | 0, x :: q, e, vs, _, _, hj, hw => by
    cases hj with
    | cons h1 h2 =>
      simp only [weight, List.map_cons, List.sum_cons] at hw
      have := Nat.one_le_pow ‹Nat› (relCount rbg + 1) (by omega)
      omega
  | f + 1, (point, gen, w) :: q, e, vs, he, hq, hj, hw => by
    cases hj with
    | @cons _ v _ vrest hjx hjrest =>
    obtain ⟨tgt, hent, hwv⟩ := hq (point, gen, w) (by simp)
    simp only at hent hwv
    obtain ⟨he2, hget⟩ := EInv_insert hinv he hent hwv
    have hq' : QInv t n rels u gens q := fun x hm => hq x (by simp [hm])
    have hrs : ∀ r ∈ (rbgLookup gen rbg).getD [], RelOk t n rels r := by
      cases hl : rbgLookup gen rbg with
      | none => simp
      | some rs => simpa using hrbg gen rs hl
    have hrsl : ((rbgLookup gen rbg).getD []).length ≤ relCount rbg := by
      cases hl : rbgLookup gen rbg with
      | none => simp
      | some rs => simpa using rbgLookup_length_le rbg gen rs hl
    obtain ⟨ext, hs, hqe, hextl, hextu⟩ := scanRels_inv hcomp hinv he2 (entry_some hent).2.1 _ q hrs hq'
    simp only [Stab.closeLoop, get_ofView hent, hs]
    set e2 := (e.insert tgt (-gen) (FW.inverse w)).insert point gen w with he2def
    -- the unknown count does not grow, and drops when an unknown edge gets its word
    have himp : ∀ x ∈ edgeUniv t n, (e2.get x.1 x.2).isNone = true → (e.get x.1 x.2).isNone = true := by
      intro x _ hx
      rw [hget] at hx
      split at hx
      · simp at hx
      · split at hx
        · simp at hx
        · exact hx
    have hUle : unknownCount t n e2 ≤ unknownCount t n e := countP_le_of_imp _ himp
    have hUlt : ∀ c g, (∃ d, entry t n c g = some d) → (e.get c g).isNone = true →
        (e2.get c g).isNone = false → unknownCount t n e2 + 1 ≤ unknownCount t n e := by
      intro c g hd h1 h2
      obtain ⟨d, hd⟩ := hd
      exact countP_lt_of_imp _ himp (c, g) (mem_edgeUniv.mpr ⟨(entry_some hd).2.1, (entry_some hd).2.2⟩) h1 h2
    have hmono : ∀ (x : Nat × Int × List Int) (v' : Nat), (∃ d, entry t n x.1 x.2.1 = some d) →
        JRel t n e x v' → JRel t n e2 x v' := by
      intro x v' hd hjx
      unfold JRel at hjx ⊢
      by_cases h1 : (e.get x.1 x.2.1).isNone = true
      · by_cases h2 : (e2.get x.1 x.2.1).isNone = true
        · simp only [h1, h2, if_true] at hjx ⊢; omega
        · have := hUlt x.1 x.2.1 hd h1 (Bool.eq_false_iff.mpr h2)
          simp only [h1, h2, if_true, Bool.false_eq_true, if_false] at hjx ⊢; omega
      · have h2 : ¬ (e2.get x.1 x.2.1).isNone = true := fun h2 => h1 (himp (x.1, x.2.1)
          (by obtain ⟨d, hd⟩ := hd
              exact mem_edgeUniv.mpr ⟨(entry_some hd).2.1, (entry_some hd).2.2⟩) h2)
        simp only [h1, h2, Bool.false_eq_true, if_false] at hjx ⊢; omega
    have hU2 : unknownCount t n e2 + 1 ≤ v := by
      unfold JRel at hjx
      simp only at hjx
      by_cases h1 : (e.get point gen).isNone = true
      · have h2 : (e2.get point gen).isNone = false := by rw [hget]; simp
        have := hUlt point gen ⟨tgt, hent⟩ h1 h2
        simp only [h1, if_true] at hjx; omega
      · simp only [h1, Bool.false_eq_true, if_false] at hjx; omega
    apply closeLoop_total hcomp hinv hrbg f (q ++ ext) e2 (vrest ++ List.replicate ext.length (unknownCount t n e2))
      he2 hqe
    · apply forall2_append
      · exact forall2_imp_mem hjrest (fun x v' hx hj' => hmono x v' (by
          obtain ⟨d, hd, _⟩ := hq' x hx; exact ⟨d, hd⟩) hj')
      · clear hs hqe hextl
        induction ext with
        | nil => exact List.Forall₂.nil
        | cons c ext ih =>
          simp only [List.length_cons, List.replicate_succ]
          refine List.Forall₂.cons ?_ (ih (fun x hx => hextu x (by simp [hx])))
          unfold JRel
          have := hextu c (by simp)
          simp [this]
    · rw [weight_append, weight_replicate]
      simp only [weight, List.map_cons, List.sum_cons] at hw
      have hP : 1 ≤ (relCount rbg + 1) ^ unknownCount t n e2 := Nat.one_le_pow _ _ (by omega)
      have h1 : ext.length * (relCount rbg + 1) ^ unknownCount t n e2 ≤
          relCount rbg * (relCount rbg + 1) ^ unknownCount t n e2 :=
        Nat.mul_le_mul_right _ (by omega)
      have h2 : (relCount rbg + 1) ^ (unknownCount t n e2 + 1) ≤ (relCount rbg + 1) ^ v :=
        Nat.pow_le_pow_right (by omega) hU2
      have h3 : (relCount rbg + 1) ^ (unknownCount t n e2 + 1) =
          relCount rbg * (relCount rbg + 1) ^ unknownCount t n e2 + (relCount rbg + 1) ^ unknownCount t n e2 := by
        rw [Nat.pow_succ, Nat.mul_comm, Nat.add_mul, Nat.one_mul]
      unfold weight at *
      omega


theorem closeRelations_total (hcomp : complete t n = true) (hinv : InvConsistent t n) {rbg : RelMap}
    (hrbg : RbgOk t n rels rbg) {e : EMap} (he : EInv t n rels u gens e) {p : Nat} {g : Int} {w : List Int}
    {d : Nat} (hent : entry t n p g = some d) (hw : psi n rels gens w = sch n rels u t p g) :
    ∃ e', closeRelations (Table.ofView n t) rbg e (p, g) w = .ok e' := by
  unfold closeRelations
  apply closeLoop_total hcomp hinv hrbg _ _ e [unknownCount t n e + 1] he
  · intro x hx; simp only [List.mem_singleton] at hx; subst hx; exact ⟨d, hent, hw⟩
  · refine List.Forall₂.cons ?_ List.Forall₂.nil
    unfold JRel; omega
  · simp only [weight, List.map_cons, List.map_nil, List.sum_cons, List.sum_nil, Nat.add_zero]
    unfold closeFuel
    apply Nat.pow_le_pow_right (by omega)
    have hlen : (Table.ofView n t).len = t.size := by simp [Table.len, Table.ofView]
    have hn : (Table.ofView n t).nrGens = n := rfl
    rw [hlen, hn]
    have := unknownCount_le (t := t) (n := n) e
    omega

/-- the point words, computed from the tree edges alone -/
def p2wFold (t : Tab) (n : Nat) : List (Nat × Int) → PMap → Option PMap
  | [], p => some p
  | (pt, gen) :: es, p =>
    match entry t n pt gen, pLookup pt p with
    | some tgt, some w => p2wFold t n es (pInsert tgt (FW.mulLetter w gen) p)
    | _, _ => none

theorem p2wFold_spec : ∀ (es : List (Nat × Int)) (R R' : List Nat) (p : PMap),
    walk t n R es = some R' → PKeys p R →
    ∃ p', p2wFold t n es p = some p' ∧ PKeys p' R' ∧ (∀ k w, pLookup k p = some w → pLookup k p' = some w) ∧
      (∀ pt gen, (pt, gen) ∈ es → ∃ tgt w, entry t n pt gen = some tgt ∧ pLookup pt p' = some w ∧
        pLookup tgt p' = some (FW.mulLetter w gen))
  | [], R, R', p, hw, hk => by
    simp only [walk, Option.some.injEq] at hw
    rw [← hw]
    exact ⟨p, rfl, hk, fun _ _ h => h, by simp⟩
  | (pt, gen) :: es, R, R', p, hw, hk => by
    simp only [walk] at hw
    cases hent : entry t n pt gen with
    | none => simp [hent] at hw
    | some tgt =>
      simp only [hent] at hw
      by_cases hc : pt ∈ R ∧ tgt ∉ R
      · rw [if_pos hc] at hw
        have hsome := (hk pt).mpr hc.1
        cases hl : pLookup pt p with
        | none => simp [hl] at hsome
        | some w =>
          have hk1 : PKeys (pInsert tgt (FW.mulLetter w gen) p) (tgt :: R) := by
            intro k
            rw [pLookup_pInsert]
            by_cases e : tgt = k
            · simp [e]
            · simp only [e, if_false, List.mem_cons]
              rw [hk k]
              constructor
              · exact Or.inr
              · rintro (h | h)
                · exact absurd h.symm e
                · exact h
          obtain ⟨p', g0, g1, g2, g3⟩ := p2wFold_spec es (tgt :: R) R' _ hw hk1
          have hpt : pt ≠ tgt := fun e => hc.2 (e ▸ hc.1)
          refine ⟨p', by simp only [p2wFold, hent, hl, g0], g1, ?_, ?_⟩
          · intro k w' hkw
            apply g2
            rw [pLookup_pInsert]
            have : ¬ tgt = k := by
              intro e; subst e
              exact hc.2 ((hk _).mp (by simp [hkw]))
            simp only [this, if_false]; exact hkw
          · intro pt' gen' hm
            rcases List.mem_cons.mp hm with hm | hm
            · injection hm with h1 h2
              subst h1 h2
              refine ⟨tgt, w, hent, ?_, ?_⟩
              · apply g2
                rw [pLookup_pInsert]
                have : ¬ tgt = pt' := fun e => hpt e.symm
                simp only [this, if_false]; exact hl
              · apply g2
                rw [pLookup_pInsert]
                simp
            · exact g3 pt' gen' hm
      · rw [if_neg hc] at hw; cases hw

theorem treeFold_total (hcomp : complete t n = true) (hinv : InvConsistent t n) {rbg : RelMap}
    (hrbg : RbgOk t n rels rbg) :
    ∀ (es : List (Nat × Int)) (e : EMap) (p pF : PMap),
      p2wFold t n es p = some pF →
      (∀ pt gen, (pt, gen) ∈ es → ∃ tgt, entry t n pt gen = some tgt ∧ sch n rels u t pt gen = 1) →
      EInv t n rels u gens e → ∃ e', treeFold (Table.ofView n t) rbg es e p = .ok (e', pF)
  | [], e, p, pF, hp, _, _ => by
    simp only [p2wFold, Option.some.injEq] at hp
    exact ⟨e, by simp [treeFold, hp]⟩
  | (pt, gen) :: es, e, p, pF, hp, htree, he => by
    obtain ⟨tgt, hent, hone⟩ := htree pt gen (by simp)
    simp only [p2wFold, hent] at hp
    cases hl : pLookup pt p with
    | none => simp [hl] at hp
    | some w =>
      simp only [hl] at hp
      obtain ⟨e1, hcl⟩ := closeRelations_total hcomp hinv hrbg he hent
        (w := FW.empty) (by rw [psi_empty, hone])
      obtain ⟨h1, _, _⟩ := closeRelations_inv hcomp hinv hrbg he hent (by rw [psi_empty, hone]) hcl
      obtain ⟨e', he'⟩ := treeFold_total hcomp hinv hrbg es e1 _ pF hp
        (fun pt' gen' hm => htree pt' gen' (by simp [hm])) h1
      exact ⟨e', by simp only [treeFold, hcl, get_ofView hent, hl, he']⟩

end Fuel

end DSymVerif.StabP
