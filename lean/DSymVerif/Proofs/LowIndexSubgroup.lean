/-
C12, group-theoretic reading, part 2: every subgroup of finite index of the presented group is
the stabiliser of row 0 of a valid table (its coset action).
-/
import DSymVerif.Proofs.LowIndexConj

namespace DSymVerif.CanonP
open DSymVerif DSymVerif.Cosets DSymVerif.SpecC11 DSymVerif.SpecC12 DSymVerif.CosetP DSymVerif.RebaseP
open DSymVerif.CosetSoundP DSymVerif.CosetInvP DSymVerif.LowIndexP

section
variable {n : Nat} {rels : List (List Int)}

/-- **every subgroup of finite index is the point stabiliser of a valid table** (the action on
    its cosets, numbered so that the subgroup itself is row 0) -/
theorem table_of_subgroup (hlet : ∀ w ∈ rels, ∀ x ∈ w, x ∈ allGensOf n) (H : Subgroup (G n rels))
    (hj : H.index ≠ 0) :
    ∃ (A : Tab) (hv : Valid A n rels []), A.size = H.index ∧ stab0 hv = H := by
  have hfin : Finite (G n rels ⧸ H) := Nat.finite_of_card_ne_zero hj
  have hjpos : 0 < H.index := Nat.pos_of_ne_zero hj
  let e0 : (G n rels ⧸ H) ≃ Fin H.index := Finite.equivFinOfCardEq rfl
  let one : G n rels ⧸ H := QuotientGroup.mk 1
  let e : (G n rels ⧸ H) ≃ Fin H.index := e0.trans (Equiv.swap (e0 one) ⟨0, hjpos⟩)
  have he1 : e one = ⟨0, hjpos⟩ := by simp [e]
  let E : Nat → Int → Nat := fun c g =>
    if hc : c < H.index then (e ((γ n rels g)⁻¹ • e.symm ⟨c, hc⟩)).val else 0
  have hEv : ∀ c (hc : c < H.index) g, E c g = (e ((γ n rels g)⁻¹ • e.symm ⟨c, hc⟩)).val :=
    fun c hc g => by simp only [E, dif_pos hc]
  have hE : ∀ c, c < H.index → ∀ g ∈ allGensOf n, E c g < H.index := by
    intro c hc g _
    rw [hEv c hc]
    exact (e _).isLt
  let A : Tab := viewTab ((List.range H.index).map fun c => (allGensOf n).map fun g => ((E c g : Nat) : Int))
  have hsz : A.size = H.index := by simp [A, viewTab]
  have hent : ∀ c, c < H.index → ∀ g ∈ allGensOf n, entry A n c g = some (E c g) :=
    fun c hc g hg => entry_viewTab E hE hc hg
  have hgl : ∀ g, g ∈ letters n ↔ g ∈ allGensOf n := fun g => by rw [allGensOf_eq_letters]
  -- traces
  have htrace : ∀ (w : List Int), (∀ g ∈ w, g ∈ allGensOf n) → ∀ c (hc : c < H.index),
      traceWord A n c w = some (e ((wbar n rels w)⁻¹ • e.symm ⟨c, hc⟩)).val := by
    intro w
    induction w with
    | nil =>
      intro _ c hc
      simp [traceWord, wbar_nil]
    | cons g w ih =>
      intro hw c hc
      have hg : g ∈ allGensOf n := hw g (by simp)
      simp only [traceWord, hent c hc g hg]
      have hd : E c g < H.index := hE c hc g hg
      rw [ih (fun x hx => hw x (by simp [hx])) (E c g) hd]
      congr 2
      have : (⟨E c g, hd⟩ : Fin H.index) = e ((γ n rels g)⁻¹ • e.symm ⟨c, hc⟩) := Fin.ext (hEv c hc g)
      rw [this, Equiv.symm_apply_apply, wbar_cons, mul_inv_rev, mul_smul]
  have hv : Valid A n rels [] := by
    refine ⟨by rw [hsz]; exact hjpos, ?_, ?_, ?_, (fun _ h => by cases h), ?_⟩
    · intro c hc g hg
      rw [hsz] at hc
      exact ⟨_, hent c hc g ((hgl g).mp hg)⟩
    · intro c g d he
      obtain ⟨hd, hc, hg⟩ := entry_some he
      rw [hsz] at hc hd
      have hg' := (hgl g).mp hg
      rw [hent c hc g hg'] at he
      injection he with he
      subst he
      rw [hent _ hd (-g) (neg_mem_allGensOf hg')]
      congr 1
      rw [hEv _ hd]
      have : (⟨E c g, hd⟩ : Fin H.index) = e ((γ n rels g)⁻¹ • e.symm ⟨c, hc⟩) := Fin.ext (hEv c hc g)
      rw [this, Equiv.symm_apply_apply, γ_neg hg', inv_inv, smul_smul, mul_inv_cancel, one_smul,
        Equiv.apply_symm_apply]
    · intro r hr c hc
      rw [hsz] at hc
      rw [htrace r (hlet r hr) c hc, wbar_rel hr, inv_one, one_smul, Equiv.apply_symm_apply]
    · intro c hc
      rw [hsz] at hc
      obtain ⟨x, hx⟩ := QuotientGroup.mk_surjective (e.symm ⟨c, hc⟩)
      obtain ⟨w, hw, hwx⟩ := exists_wbar (n := n) (rels := rels) x⁻¹
      refine ⟨w, ?_⟩
      rw [htrace w hw 0 hjpos, hwx, inv_inv]
      have h0 : e.symm ⟨0, hjpos⟩ = one := by rw [← he1, Equiv.symm_apply_apply]
      rw [h0]
      show some (e (x • (QuotientGroup.mk 1 : G n rels ⧸ H))).val = some c
      rw [MulAction.Quotient.smul_mk, smul_eq_mul, mul_one, hx, Equiv.apply_symm_apply]
  refine ⟨A, hv, hsz, ?_⟩
  ext x
  rw [mem_stab0]
  obtain ⟨w, hw, rfl⟩ := exists_wbar x
  have hwl : ∀ g ∈ w, g ∈ letters n := fun g hg => (hgl g).mpr (hw g hg)
  obtain ⟨c, hc, hac⟩ := act_word hv w hwl ⟨0, hv.pos⟩
  rw [hac]
  have hcl : c.val < H.index := by rw [← hsz]; exact c.isLt
  rw [htrace w hw c.val hcl] at hc
  simp only [Option.some.injEq] at hc
  have h0 : e ((wbar n rels w)⁻¹ • e.symm ⟨c.val, hcl⟩) = ⟨0, hjpos⟩ := Fin.ext hc
  rw [← he1] at h0
  have h1 := e.injective h0
  -- e.symm c = w̄ • one
  have h2 : e.symm ⟨c.val, hcl⟩ = (QuotientGroup.mk (wbar n rels w) : G n rels ⧸ H) := by
    have := congrArg (fun q => wbar n rels w • q) h1
    simp only [smul_smul, mul_inv_cancel, one_smul] at this
    rw [this]
    show wbar n rels w • (QuotientGroup.mk 1 : G n rels ⧸ H) = _
    rw [MulAction.Quotient.smul_mk, smul_eq_mul, mul_one]
  constructor
  · intro hc0
    have hcv : c.val = 0 := congrArg Fin.val hc0
    have : (⟨c.val, hcl⟩ : Fin H.index) = ⟨0, hjpos⟩ := Fin.ext hcv
    rw [this, ← he1, Equiv.symm_apply_apply] at h2
    have h3 : (QuotientGroup.mk (wbar n rels w) : G n rels ⧸ H) = QuotientGroup.mk 1 := h2.symm
    rw [QuotientGroup.eq] at h3
    simpa using h3
  · intro hmem
    have h3 : (QuotientGroup.mk (wbar n rels w) : G n rels ⧸ H) = QuotientGroup.mk 1 := by
      rw [QuotientGroup.eq]
      simpa using hmem
    rw [h3] at h2
    have : (⟨c.val, hcl⟩ : Fin H.index) = e one := by
      have := congrArg e h2
      rw [Equiv.apply_symm_apply] at this
      exact this
    rw [he1] at this
    exact Fin.ext (show c.val = 0 from congrArg Fin.val this)

end

end DSymVerif.CanonP
