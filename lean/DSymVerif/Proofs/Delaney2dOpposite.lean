/-
Helper lemmas for property C08, part 11: `opposite` walks from one mirror end of a 2-orbit to the
other one; the two ends are different and walking back returns to the start.
-/
import DSymVerif.Proofs.DihedralWalk
import DSymVerif.Proofs.Delaney2dGauss

namespace DSymVerif.D2
open DSymVerif.DS

/-- a walk of `n` non-mirror steps, alternating between the two indices with sum `σ`:
    from chamber `x` with index `k` due to chamber `x'` with index `k'` due -/
inductive Path (ds : DSetData) (σ : Nat) : Nat → Nat → Nat → Nat → Nat → Prop
  | nil (k x : Nat) : Path ds σ 0 k x k x
  | cons {n k x k' x' : Nat} : ds.opU k x ≠ x → Path ds σ n (σ - k) (ds.opU k x) k' x' →
      Path ds σ (n + 1) k x k' x'

theorem Path.snoc {ds : DSetData} {σ n k x k' x' : Nat} (p : Path ds σ n k x k' x')
    (h : ds.opU k' x' ≠ x') : Path ds σ (n + 1) k x (σ - k') (ds.opU k' x') := by
  induction p with
  | nil k x => exact Path.cons h (Path.nil _ _)
  | cons hne _ ih => exact Path.cons hne (ih h)

section
variable {ds : DSetData} (hv : ValidSet ds) {a b : Nat} (ha : a ≤ ds.dim) (hb : b ≤ ds.dim)
include hv ha hb

/-- indices stay in `{a, b}` and chambers in range along a path -/
theorem Path.inv {n k x k' x' : Nat} (p : Path ds (a + b) n k x k' x') (hk : k = a ∨ k = b)
    (hx : 1 ≤ x ∧ x ≤ ds.size) : (k' = a ∨ k' = b) ∧ (1 ≤ x' ∧ x' ≤ ds.size) := by
  induction p with
  | nil k x => exact ⟨hk, hx⟩
  | @cons n k x k' x' hne _ ih =>
    have hk' : k ≤ ds.dim := by rcases hk with rfl | rfl <;> assumption
    apply ih
    · rcases hk with rfl | rfl
      · right; omega
      · left; omega
    · exact hv.range k x hk' hx.1 hx.2

/-- **walking back**: the reversed path -/
theorem Path.reverse {n k x k' x' : Nat} (p : Path ds (a + b) n k x k' x') (hk : k = a ∨ k = b)
    (hx : 1 ≤ x ∧ x ≤ ds.size) : Path ds (a + b) n (a + b - k') x' (a + b - k) x := by
  induction p with
  | nil k x => exact Path.nil _ _
  | @cons n k x k' x' hne p ih =>
    have hk' : k ≤ ds.dim := by rcases hk with rfl | rfl <;> assumption
    have hk2 : a + b - k = a ∨ a + b - k = b := by
      rcases hk with rfl | rfl
      · right; omega
      · left; omega
    have hx2 := hv.range k x hk' hx.1 hx.2
    have r := ih hk2 hx2
    -- the step back: at `op k x` the index `k` is due and leads to `x`
    have hkk : a + b - (a + b - k) = k := by rcases hk with rfl | rfl <;> omega
    rw [hkk] at r
    have hback : ds.opU k (ds.opU k x) = x := hv.invol k x hk' hx.1 hx.2
    have hne' : ds.opU k (ds.opU k x) ≠ ds.opU k x := by rw [hback]; exact fun e => hne e.symm
    have := r.snoc hne'
    rw [hback] at this
    exact this

end

/-! ### the loop of `opposite` follows a path to the next mirror -/

theorem oppositeLoop_of_path {y : DSymData} (hv : ValidSet y.dset) (rep : Rep) {a b : Nat}
    (ha : a ≤ y.dim) (hb : b ≤ y.dim) {n k x k' x' : Nat} (p : Path y.dset (a + b) n k x k' x')
    (hk : k = a ∨ k = b) (hx : 1 ≤ x ∧ x ≤ y.size) (hloop : y.dset.opU k' x' = x') (fuel : Nat)
    (hf : n + 1 ≤ fuel) : oppositeLoop ⟨y, rep⟩ a b fuel k x = .ok (k', x') := by
  induction p generalizing fuel with
  | nil k x =>
    obtain ⟨f, rfl⟩ : ∃ f, fuel = f + 1 := ⟨fuel - 1, by omega⟩
    have hk' : k ≤ y.dim := by rcases hk with rfl | rfl <;> assumption
    have e1 : (⟨y, rep⟩ : Sym).op k x = some (y.dset.opU k x) := opSimple_eq_some.2 ⟨hk', hx.1, hx.2, rfl⟩
    simp only [oppositeLoop, e1, hloop, if_true]
  | @cons n k x k' x' hne p ih =>
    obtain ⟨f, rfl⟩ : ∃ f, fuel = f + 1 := ⟨fuel - 1, by omega⟩
    have hk' : k ≤ y.dim := by rcases hk with rfl | rfl <;> assumption
    have e1 : (⟨y, rep⟩ : Sym).op k x = some (y.dset.opU k x) := opSimple_eq_some.2 ⟨hk', hx.1, hx.2, rfl⟩
    have hk2 : a + b - k = a ∨ a + b - k = b := by
      rcases hk with rfl | rfl
      · right; omega
      · left; omega
    simp only [oppositeLoop, e1, hne, if_false]
    exact ih hk2 (hv.range k x hk' hx.1 hx.2) hloop f (by omega)

theorem Path.orb {ds : DSetData} {a b n k x k' x' : Nat} (p : Path ds (a + b) n k x k' x')
    (hk : k = a ∨ k = b) : Orb2 ds a b x x' := by
  induction p with
  | nil k x => exact Orb2.refl x
  | @cons n k x k' x' hne p ih =>
    have hk2 : a + b - k = a ∨ a + b - k = b := by
      rcases hk with rfl | rfl
      · right; omega
      · left; omega
    have step : Orb2 ds a b x (ds.opU k x) := by
      rcases hk with rfl | rfl
      · exact Orb2.stepI (Orb2.refl x)
      · exact Orb2.stepJ (Orb2.refl x)
    exact step.trans (ih hk2)

/-- the alternating walk from the mirror end `(b, e)`, starting with index `a`, is a path of
    `n < size` non-mirror steps to a mirror end `(k', e')` different from `(b, e)` -/
theorem chain_path {y : DSymData} (hv : ValidSet y.dset) {a b : Nat}
    (ha : a ≤ y.dim) (hb : b ≤ y.dim) (hab : a ≠ b) {e : Nat} (he : 1 ≤ e ∧ e ≤ y.size)
    (hloop : y.dset.opU b e = e) :
    ∃ n k' e', n + 1 ≤ y.size ∧ Path y.dset (a + b) n a e k' e' ∧ (k' = a ∨ k' = b) ∧
      (1 ≤ e' ∧ e' ≤ y.size) ∧ y.dset.opU k' e' = e' ∧ (k', e') ≠ (b, e) := by
  obtain ⟨r, hr1, hr2, _, _, hper0, hmin0⟩ := hv.r_generic ha hb he.1 he.2
  have hA := opT_invol hv ha
  have hB := opT_invol hv hb
  have hper : (Dihedral.cc (opT y.dset a) (opT y.dset b))^[r] e = e := by
    rw [cc_iter_eq hv ha hb he]; exact hper0
  have hmin : ∀ t, 1 ≤ t → t < r → (Dihedral.cc (opT y.dset a) (opT y.dset b))^[t] e ≠ e := by
    intro t h1 h2; rw [cc_iter_eq hv ha hb he]; exact hmin0 t h1 h2
  have hz : opT y.dset b e = e := by rw [opT_in he.1 he.2]; exact hloop
  let w := Dihedral.walk (opT y.dset a) (opT y.dset b) e
  let idx : Nat → Nat := fun n => if n % 2 = 0 then a else b
  have hidx : ∀ n, idx n = a ∨ idx n = b := by
    intro n; simp only [idx]; split
    · left; rfl
    · right; rfl
  have hidx_next : ∀ n, a + b - idx n = idx (n + 1) := by
    intro n
    simp only [idx]
    by_cases hn : n % 2 = 0
    · rw [if_pos hn, if_neg (by omega)]; omega
    · rw [if_neg hn, if_pos (by omega)]; omega
  have hfirst := Dihedral.walk_first_loop hA hB hr1 hper hmin hz
  -- the path along the walk
  have hpath : ∀ n, n ≤ r - 1 → Path y.dset (a + b) n a e (idx n) (w n) ∧ (1 ≤ w n ∧ w n ≤ y.size) := by
    intro n
    induction n with
    | zero => intro _; exact ⟨Path.nil _ _, he⟩
    | succ n ih =>
      intro hn
      obtain ⟨p, hw⟩ := ih (by omega)
      have hk' : idx n ≤ y.dim := by rcases hidx n with h | h <;> rw [h] <;> assumption
      have hstep : w (n + 1) = y.dset.opU (idx n) (w n) := by
        show Dihedral.walk _ _ e (n + 1) = _
        rw [Dihedral.walk_succ]
        unfold Dihedral.opAt
        simp only [idx]
        by_cases hn2 : n % 2 = 0
        · rw [if_pos hn2, if_pos hn2]; exact opT_in hw.1 hw.2
        · rw [if_neg hn2, if_neg hn2]; exact opT_in hw.1 hw.2
      have hne : y.dset.opU (idx n) (w n) ≠ w n := by
        have := hfirst.1 n (by omega)
        unfold Dihedral.opAt at this
        simp only [idx]
        by_cases hn2 : n % 2 = 0
        · rw [if_pos hn2] at this ⊢; rw [← opT_in hw.1 hw.2]; exact this
        · rw [if_neg hn2] at this ⊢; rw [← opT_in hw.1 hw.2]; exact this
      have := p.snoc hne
      rw [hidx_next n, ← hstep] at this
      exact ⟨this, by rw [hstep]; exact hv.range _ _ hk' hw.1 hw.2⟩
  obtain ⟨p, hw⟩ := hpath (r - 1) (Nat.le_refl _)
  have hend : y.dset.opU (idx (r - 1)) (w (r - 1)) = w (r - 1) := by
    have := hfirst.2
    unfold Dihedral.opAt at this
    simp only [idx]
    by_cases hn2 : (r - 1) % 2 = 0
    · rw [if_pos hn2] at this ⊢; rw [← opT_in hw.1 hw.2]; exact this
    · rw [if_neg hn2] at this ⊢; rw [← opT_in hw.1 hw.2]; exact this
  have hsz : y.size = y.dset.size := rfl
  refine ⟨r - 1, idx (r - 1), w (r - 1), by omega, p, hidx _, hw, hend, ?_⟩
  intro heq
  have h1 : idx (r - 1) = b := congrArg Prod.fst heq
  have h2 : w (r - 1) = e := congrArg Prod.snd heq
  have hodd : (r - 1) % 2 = 1 := by
    simp only [idx] at h1
    by_cases hn2 : (r - 1) % 2 = 0
    · rw [if_pos hn2] at h1; exact absurd h1 hab
    · omega
  exact Dihedral.walk_end_ne hA hB hr1 hper hmin hz hodd h2

/-- **`opposite`**: from the mirror end `(b, e)` of the (a,b)-orbit of `e`, starting with index
    `a`, `opposite` returns the other mirror end `(k', e')` of that orbit — a different one — and
    from there it returns `(b, e)` -/
theorem opposite_spec {y : DSymData} (hv : ValidSet y.dset) (rep : Rep) {a b : Nat}
    (ha : a ≤ y.dim) (hb : b ≤ y.dim) (hab : a ≠ b) {e : Nat} (he : 1 ≤ e ∧ e ≤ y.size)
    (hloop : y.dset.opU b e = e) :
    ∃ k' e', opposite ⟨y, rep⟩ a b e = .ok (k', e') ∧ (k' = a ∨ k' = b) ∧ (1 ≤ e' ∧ e' ≤ y.size) ∧
      y.dset.opU k' e' = e' ∧ Orb2 y.dset a b e e' ∧ (k', e') ≠ (b, e) ∧
      opposite ⟨y, rep⟩ (a + b - k') k' e' = .ok (b, e) := by
  obtain ⟨n, k', e', hn, p, hk', he', hend, hne⟩ := chain_path hv ha hb hab he hloop
  refine ⟨k', e', ?_, hk', he', hend, p.orb (Or.inl rfl), hne, ?_⟩
  · unfold opposite
    exact oppositeLoop_of_path hv rep ha hb p (Or.inl rfl) he hend _ (by
      show n + 1 ≤ 2 * y.size + 2
      omega)
  · have prev := p.reverse hv ha hb (Or.inl rfl) he
    have e1 : a + b - a = b := by omega
    rw [e1] at prev
    unfold opposite
    have hk'' : k' ≤ y.dim := by rcases hk' with h | h <;> rw [h] <;> assumption
    have hother : a + b - k' = a ∨ a + b - k' = b := by
      rcases hk' with h | h <;> rw [h]
      · right; omega
      · left; omega
    have hoth_le : a + b - k' ≤ y.dim := by rcases hother with h | h <;> rw [h] <;> assumption
    have hsum : a + b - k' + k' = a + b := by
      rcases hk' with h | h <;> rw [h] <;> omega
    have prev' : Path y.dset (a + b - k' + k') n (a + b - k') e' b e := by
      rw [hsum]; exact prev
    exact oppositeLoop_of_path hv rep hoth_le hk'' prev' (Or.inl rfl) he' hloop _ (by
      show n + 1 ≤ 2 * y.size + 2
      omega)

end DSymVerif.D2
