/-
Lemmas for property C07, assembly: (1) the output for `base_curvature < 0` per geometry (under the
size bound that keeps `-CURV_FAC/2 · size` inside `i64`), (2) `generate` never panics on the
domain, (3) the four contexts of a D-set differ only in their window, and the All output is the
disjoint union of the Spherical, Euclidean and Hyperbolic outputs.
-/
import DSymVerif.Proofs.DSymGenBound

set_option linter.unusedSectionVars false

namespace DSymVerif.SymGen
open DSymVerif.DS DSymVerif.D2

/-! ### (1) `base_curvature < 0` -/

theorem termZ_nonneg (c : Ctx) (i v : Nat) : 0 ≤ termZ c i v := by
  unfold termZ
  exact Int.tdiv_nonneg (Int.mul_nonneg (kAt_nonneg c i) (Int.le_of_lt curvFac_pos)) (Int.natCast_nonneg v)

theorem sum_map_range_nonneg (f : Nat → Int) (N : Nat) (h : ∀ i, 0 ≤ f i) :
    0 ≤ ((List.range N).map f).sum := by
  induction N with
  | zero => simp
  | succ N ih =>
    rw [List.range_succ, List.map_append, List.sum_append]
    simp only [List.map_cons, List.map_nil, List.sum_cons, List.sum_nil, Int.add_zero]
    have := h N
    omega

/-- the bookkeeping value is at least `-CURV_FAC/2 · size` -/
theorem scaled_lower (c : Ctx) (vs : List Nat) :
    Int.tdiv (-curvFac) Tables.chamberDivisor * (c.dset.size : Int) ≤ scaled c vs := by
  unfold scaled
  have := sum_map_range_nonneg (fun i => termZ c i (vs.getD i 0)) c.count (fun i => termZ_nonneg c i _)
  omega

/-- `-CURV_FAC/2 · size ≥ i64::MIN` as long as `size ≤ 2^32` (far beyond any D-set that fits in
    memory; the real code computes the same product in `i64`) -/
theorem base_ge_i64Min {ds : DSetData} {g : Geom} {c : Ctx} (h : mkCtx ds g = .ok c)
    (hsz : ds.size ≤ 4294967296) : i64Min ≤ c.baseCurv := by
  obtain ⟨hdd, _⟩ := mkCtx_fields h
  have hw := mkCtx_wf h
  have hlow := scaled_lower c c.vmins
  rw [← hw.base, hdd] at hlow
  have hcd : Int.tdiv (-curvFac) Tables.chamberDivisor = -210 := by decide
  rw [hcd] at hlow
  have : i64Min = -9223372036854775808 := rfl
  have hs : (ds.size : Int) ≤ 4294967296 := by exact_mod_cast hsz
  omega

theorem geom_minmax :
    Geom.spherical.minCurvature = 1 ∧ Geom.euclidean.minCurvature = 0 ∧
    Geom.hyperbolic.minCurvature = i64Min ∧ Geom.all.minCurvature = i64Min ∧
    Geom.hyperbolic.maxCurvature = -1 ∧ Geom.all.maxCurvature = 4 * curvFac := by decide

/-- **the output for `base_curvature < 0`, per geometry**: Hyperbolic and All emit exactly the
    all-minimal vector, Spherical and Euclidean emit nothing -/
theorem dsyms_base_neg_total {ds : DSetData} {g : Geom} {c : Ctx} (h : mkCtx ds g = .ok c)
    (hb : c.baseCurv < 0) (hsz : ds.size ≤ 4294967296) :
    dsyms c = match g with
      | .hyperbolic => [.ok c.vmins]
      | .all => [.ok c.vmins]
      | _ => [] := by
  obtain ⟨_, _, _, _, _, _, hmin, hmax, _, _⟩ := mkCtx_fields h
  rw [if_pos hb] at hmin
  have h64 := base_ge_i64Min h hsz
  obtain ⟨m1, m2, m3, m4, m5, m6⟩ := geom_minmax
  have hp := curvFac_pos
  rw [dsyms_base_neg hb, hmin, hmax]
  cases g with
  | spherical => rw [m1, if_neg (by omega)]
  | euclidean => rw [m2, if_neg (by omega)]
  | hyperbolic => rw [m3, m5, if_pos (by omega)]
  | all => rw [m4, m6, if_pos (by omega)]

/-! ### (2) no panic -/

theorem canonLoop_ok (vs : List Nat) :
    ∀ ms : List (List Nat), (∀ m, m ∈ ms → m.length = vs.length ∧ ∀ i, i < vs.length → m.getD i 0 < vs.length) →
      ∃ b, canonLoop vs ms = .ok b := by
  intro ms
  induction ms with
  | nil => intro _; exact ⟨true, rfl⟩
  | cons m ms ih =>
    intro hwf
    obtain ⟨h1, h2⟩ := hwf m (by simp)
    simp only [canonLoop, permuted_eq_act m vs h1 h2]
    split
    · exact ⟨false, rfl⟩
    · exact ih (fun m' hm' => hwf m' (by simp [hm']))

theorem mem_of_getD_pos {a : List Nat} (h : ∀ i, i < a.length → 0 < a.getD i 0) : ∀ v, v ∈ a → 0 < v := by
  intro v hv
  obtain ⟨i, hi, rfl⟩ := List.mem_iff_getElem.mp hv
  have := h i hi
  simpa [List.getD, List.getElem?_eq_getElem hi] using this

section total
variable {ds : DSetData} {g : Geom} {c : Ctx} (h : mkCtx ds g = .ok c) (hds : ValidSet ds)
  (hconn : ds.viewSimple.isConnected = true) (h1 : 1 ≤ ds.size)
include h hds hconn h1

/-- `extract` answers `ok` or nothing on every state that satisfies the invariant -/
theorem extract_ok (s : State) (hi : Inv c s) :
    extract c (.st s) = none ∨ extract c (.st s) = some (.ok s.vs) := by
  have hw := mkCtx_wf h
  simp only [extract]
  split
  · split
    · exact Or.inr rfl
    · rename_i hnb
      split
      · -- is_good does not panic
        have hgood : ∃ b, isGood c s.vs s.curv = .ok b := by
          unfold isGood
          split
          · exact ⟨true, rfl⟩
          · rw [priv_string_eq h hds hconn h1 hi.len]
            exact ⟨_, rfl⟩
        obtain ⟨b, hbq⟩ := hgood
        rw [hbq]
        cases b
        · exact Or.inl rfl
        · simp only
          obtain ⟨ms, hms, _, _, _, hg⟩ := mkCtx_maps h hds hconn h1 hnb
          obtain ⟨b2, hb2⟩ := canonLoop_ok s.vs ms (fun m hm => by
            have := hg.wf m hm
            rw [hi.len]; exact this)
          simp only [isCanonical, hms, hb2]
          cases b2
          · exact Or.inl rfl
          · exact Or.inr rfl
      · exact Or.inl rfl
  · exact Or.inl rfl

/-- **every emitted item is an `ok` vector with positive entries** -/
theorem dsyms_all_ok (x : Outcome (List Nat)) (hx : x ∈ dsyms c) :
    ∃ vs, x = .ok vs ∧ vs.length = c.count ∧ ∀ v, v ∈ vs → 0 < v := by
  have hw := mkCtx_wf h
  rw [dsyms_eq_dfs, List.mem_filterMap] at hx
  obtain ⟨n, hn, hex⟩ := hx
  have hreach := (BT.mem_dfs_iff (problem c) (height c) (children_decreasing c) (root c) n).mp hn
  obtain ⟨s, rfl, hi⟩ := reach_root_inv hw n hreach
  rcases extract_ok h hds hconn h1 s hi with e | e
  · rw [e] at hex; cases hex
  · rw [e] at hex
    refine ⟨s.vs, (Option.some.inj hex).symm, hi.len, ?_⟩
    apply mem_of_getD_pos
    intro i hil
    have hic : i < c.count := by rw [← hi.len]; exact hil
    have := hw.vminPos i hic
    have := hi.lo i hic
    omega

theorem numbered_ok : ∀ (l : List (Outcome (List Nat))) (k : Nat),
    (∀ x, x ∈ l → ∃ vs, x = .ok vs ∧ ∀ v, v ∈ vs → 0 < v) → ∃ r, numbered l k = .ok r := by
  intro l
  induction l with
  | nil => intro k _; exact ⟨[], rfl⟩
  | cons x t ih =>
    intro k hall
    obtain ⟨vs, rfl, hpos⟩ := hall x (by simp)
    obtain ⟨r, hr⟩ := ih (k + 1) (fun y hy => hall y (by simp [hy]))
    simp only [numbered]
    rw [if_pos (by rw [List.all_eq_true]; intro v hv; simpa using hpos v hv), hr]
    exact ⟨_, rfl⟩

/-- **`generate` never panics on the domain** -/
theorem generate_ok : ∃ l, generate ds g = .ok (l, c) := by
  obtain ⟨r, hr⟩ := numbered_ok h hds hconn h1 (dsyms c) 0 (fun x hx => by
    obtain ⟨vs, e, _, hp⟩ := dsyms_all_ok h hds hconn h1 x hx
    exact ⟨vs, e, hp⟩)
  unfold generate
  rw [h]
  simp only [hr]
  exact ⟨r, rfl⟩

end total

/-! ### (3) the four contexts of a D-set -/

/-- two contexts built for the same D-set differ only in their curvature window -/
theorem mkCtx_same {ds : DSetData} {g g' : Geom} {c c' : Ctx} (h : mkCtx ds g = .ok c)
    (h' : mkCtx ds g' = .ok c') : c' = { c with minCurv := c'.minCurv, maxCurv := c'.maxCurv } := by
  obtain ⟨a1, a2, a3, a4, a5, a6, _, _, a9, a10⟩ := mkCtx_fields h
  obtain ⟨b1, b2, b3, b4, b5, b6, _, _, b9, b10⟩ := mkCtx_fields h'
  have hvm : c'.vmins = c.vmins := by rw [a4, b4]
  have hch : c'.isChain = c.isChain := by rw [a3, b3]
  have hbase : c'.baseCurv = c.baseCurv := by
    rw [hvm, hch, a6] at b6
    exact (Outcome.ok.inj b6).symm
  have hmaps : c'.maps = c.maps := by
    by_cases hb : c.baseCurv < 0
    · rw [a9 hb, b9 (by rw [hbase]; exact hb)]
    · obtain ⟨ms, hms, ho⟩ := a10 hb
      obtain ⟨ms', hms', ho'⟩ := b10 (by rw [hbase]; exact hb)
      rw [hvm, ho] at ho'
      rw [hms, hms', Outcome.ok.inj ho']
  cases c'
  cases c
  simp only at *
  simp only [Ctx.mk.injEq, and_true]
  exact ⟨by rw [a1, b1], by rw [a5, b5], by rw [a2, b2], hvm, hch, hmaps, hbase⟩

theorem pointsVs_congr {c c' : Ctx} (hch : c'.isChain = c.isChain) (vs : List Nat) :
    ∀ (L : List Nat) (acc : List Nat × List Nat), pointsVs c' vs L acc = pointsVs c vs L acc := by
  intro L
  induction L with
  | nil => intro acc; rfl
  | cons i is ih =>
    intro acc
    simp only [pointsVs, hch, ih]

theorem isGood_congr {c c' : Ctx} (hd : c'.dset = c.dset) (hch : c'.isChain = c.isChain)
    (hvm : c'.vmins = c.vmins) (vs : List Nat) (x : Int) : isGood c' vs x = isGood c vs x := by
  unfold isGood orbifoldSymbol Ctx.count
  rw [pointsVs_congr hch, hd, hvm]

/-- membership in the output depends on the geometry only through `GeomCond` -/
theorem dsyms_mem_geom {ds : DSetData} {g g' : Geom} {c c' : Ctx} (h : mkCtx ds g = .ok c)
    (h' : mkCtx ds g' = .ok c') (hnb : ¬ c.baseCurv < 0) (vs : List Nat) :
    Outcome.ok vs ∈ dsyms c' ↔
      Adm c vs ∧ GeomCond g' c vs ∧ isGood c vs (scaled c vs) = .ok true ∧ isCanonical c vs = .ok true := by
  have hw' := mkCtx_wf h'
  have e := mkCtx_same h h'
  have hnb' : ¬ c'.baseCurv < 0 := by rw [e]; exact hnb
  obtain ⟨_, _, _, _, _, _, hmin, hmax, _, _⟩ := mkCtx_fields h'
  rw [if_neg hnb'] at hmin
  rw [dsyms_mem_iff hw' hnb']
  have key : ∀ ha : Adm c' vs, (c'.minCurv ≤ scaled c' vs ∧ scaled c' vs ≤ c'.maxCurv ∧
      (0 ≤ scaled c' vs ∨ MinHyp c' vs)) ↔ GeomCond g' c' vs :=
    fun ha => window_iff hw' hnb' g' hmin hmax ha
  -- transport everything from c' to c
  have t1 : Adm c' vs ↔ Adm c vs := by rw [e]; exact Iff.rfl
  have t2 : GeomCond g' c' vs ↔ GeomCond g' c vs := by
    rw [e]; cases g' <;> exact Iff.rfl
  have t3 : isGood c' vs (scaled c' vs) = isGood c vs (scaled c vs) := by
    have hsc : scaled c' vs = scaled c vs := by rw [e]; rfl
    rw [hsc]
    exact isGood_congr (by rw [e]) (by rw [e]) (by rw [e]) vs _
  have t4 : isCanonical c' vs = isCanonical c vs := by rw [e]; rfl
  constructor
  · rintro ⟨ha, w1, w2, w3, hg, hc⟩
    exact ⟨t1.mp ha, t2.mp ((key ha).mp ⟨w1, w2, w3⟩), by rw [← t3]; exact hg, by rw [← t4]; exact hc⟩
  · rintro ⟨ha, hgeo, hg, hc⟩
    have ha' := t1.mpr ha
    obtain ⟨w1, w2, w3⟩ := (key ha').mpr (t2.mpr hgeo)
    exact ⟨ha', w1, w2, w3, by rw [t3]; exact hg, by rw [t4]; exact hc⟩

/-- `GeomCond` for All is the disjunction of the three, which exclude each other -/
theorem geomCond_all_iff {c : Ctx} (hw : WF c) {vs : List Nat} (ha : Adm c vs) :
    (GeomCond .all c vs ↔ GeomCond .spherical c vs ∨ GeomCond .euclidean c vs ∨ GeomCond .hyperbolic c vs) ∧
    ¬ (GeomCond .spherical c vs ∧ GeomCond .euclidean c vs) ∧
    ¬ (GeomCond .spherical c vs ∧ GeomCond .hyperbolic c vs) ∧
    ¬ (GeomCond .euclidean c vs ∧ GeomCond .hyperbolic c vs) := by
  have hs := scaled_sign c vs (adm_bounds hw ha)
  have hp := curvFac_pos
  simp only [GeomCond]
  refine ⟨⟨?_, ?_⟩, ?_, ?_, ?_⟩
  · rintro (⟨h0, hcap⟩ | hm)
    · rcases lt_or_eq_of_le h0 with hlt | heq
      · exact Or.inl ⟨hlt, hcap⟩
      · exact Or.inr (Or.inl heq.symm)
    · exact Or.inr (Or.inr hm)
  · rintro (⟨hlt, hcap⟩ | heq | hm)
    · exact Or.inl ⟨le_of_lt hlt, hcap⟩
    · left
      refine ⟨le_of_eq heq.symm, ?_⟩
      have := hs.2.1.mpr heq
      omega
    · exact Or.inr hm
  · rintro ⟨⟨h1, _⟩, h2⟩; rw [h2] at h1; exact lt_irrefl _ h1
  · rintro ⟨⟨h1, _⟩, h2⟩; have := h2.1; linarith
  · rintro ⟨h1, h2⟩; have := h2.1; rw [h1] at this; exact lt_irrefl _ this

end DSymVerif.SymGen
