/-
Helper lemmas for property C19, part 4: the flow `path_edges` of the model's augment loop.

* `FlowInv E F s t k`: `F` is a strictly sorted subset of `E` without antiparallel pairs,
  conserved at every vertex other than `s`, `t`, nothing flows into `s`, and exactly `k`
  edges leave `s` (the flow value).
* `trace` (the `while w != source` loop) along the BFS tree toggles a simple residual path:
  it never panics, `|back| + 1` fuel suffices, and the result satisfies `FlowInv … (k+1)`.
* `augment_spec`, `cutLoop_spec`: every augmentation raises the value by one, the value is
  at most `|E|`, hence `|E| + 2` rounds of fuel suffice; the loop ends in a state described
  by `FinalBfs` (BFS invariant, queue empty, sink not reached, everything expanded).
-/
import DSymVerif.Proofs.CutsetsFlowBfs

namespace DSymVerif.CutP
open DSymVerif.Cut DSymVerif.SpecC19

/-! ### degrees and the effect of insert / remove -/

def outdeg (F : List (Nat × Nat)) (x : Nat) : Nat := F.countP (fun e => e.1 == x)
def indeg (F : List (Nat × Nat)) (x : Nat) : Nat := F.countP (fun e => e.2 == x)

abbrev ESorted (F : List (Nat × Nat)) : Prop := F.Pairwise (fun a b => edgeLt a b = true)

theorem ESorted.nodup {F : List (Nat × Nat)} (h : ESorted F) : F.Nodup := by
  refine List.Pairwise.imp ?_ h
  intro a b hab heq
  subst heq
  simp [edgeLt_irrefl] at hab

theorem remEdge_eq_erase (e : Nat × Nat) : ∀ R : List (Nat × Nat), remEdge e R = R.erase e
  | [] => rfl
  | x :: xs => by
    simp only [remEdge, List.erase_cons]
    by_cases h : e = x
    · subst h; simp
    · have : (x == e) = false := by simpa using fun hh => h hh.symm
      simp [h, this, remEdge_eq_erase e xs]

theorem countP_insEdge (p : Nat × Nat → Bool) (e : Nat × Nat) :
    ∀ R : List (Nat × Nat), e ∉ R →
      (insEdge e R).countP p = R.countP p + (if p e = true then 1 else 0)
  | [], _ => by simp [insEdge, List.countP_cons]
  | x :: xs, h => by
    have hx : e ≠ x := fun hh => h (hh ▸ List.mem_cons_self)
    have hxs : e ∉ xs := fun hh => h (List.mem_cons_of_mem _ hh)
    simp only [insEdge]
    by_cases hlt : edgeLt e x = true
    · rw [if_pos hlt]; simp only [List.countP_cons]
    · rw [if_neg hlt, if_neg hx]
      simp only [List.countP_cons, countP_insEdge p e xs hxs]
      omega

theorem countP_erase' (p : Nat × Nat → Bool) (e : Nat × Nat) :
    ∀ R : List (Nat × Nat), e ∈ R →
      (R.erase e).countP p + (if p e = true then 1 else 0) = R.countP p
  | [], h => by simp at h
  | x :: xs, h => by
    rw [List.erase_cons]
    by_cases hx : x = e
    · subst hx; simp [List.countP_cons]
    · have : (x == e) = false := by simpa using hx
      have hxs : e ∈ xs := by
        rcases List.mem_cons.1 h with h | h
        · exact absurd h.symm hx
        · exact h
      simp only [this, Bool.false_eq_true, if_false, List.countP_cons]
      have := countP_erase' p e xs hxs
      omega

/-! ### the flow invariant -/

structure FlowInv (E F : List (Nat × Nat)) (s t : Nat) (k : Nat) : Prop where
  sorted : ESorted F
  sub : ∀ e ∈ F, e ∈ E
  anti : ∀ a b, (a, b) ∈ F → (b, a) ∉ F
  cons : ∀ x, x ≠ s → x ≠ t → outdeg F x = indeg F x
  noin : ∀ e ∈ F, e.2 ≠ s
  val : outdeg F s = k

theorem flowInv_nil (E : List (Nat × Nat)) (s t : Nat) : FlowInv E [] s t 0 :=
  ⟨List.Pairwise.nil, by simp, by simp, by simp [outdeg, indeg], by simp, by simp [outdeg]⟩

theorem indeg_eq_zero {F : List (Nat × Nat)} {s : Nat} (h : ∀ e ∈ F, e.2 ≠ s) : indeg F s = 0 := by
  simp only [indeg, List.countP_eq_zero]
  intro e he
  simpa using h e he

theorem FlowInv.val_le {E F : List (Nat × Nat)} {s t k : Nat}
    (h : FlowInv E F s t k) : k ≤ E.length := by
  have h1 : outdeg F s ≤ F.length := by
    simp only [outdeg, List.countP_eq_length_filter]; exact List.length_filter_le _ _
  have h2 : F.length ≤ E.length := (h.sorted.nodup.subperm h.sub).length_le
  have := h.val
  omega

/-- the state of the `while w != source` loop: `R` is `F` toggled along the tree path from
    `cur` to the sink, `P` are the vertices of that path other than `cur` -/
structure AugInv (E F : List (Nat × Nat)) (s t : Nat) (R : List (Nat × Nat)) (cur : Nat)
    (P : List Nat) : Prop where
  sorted : ESorted R
  sub : ∀ e ∈ R, e ∈ E
  anti : ∀ a b, (a, b) ∈ R → (b, a) ∉ R
  agree : ∀ a b, (a ∉ cur :: P ∨ b ∉ cur :: P) → ((a, b) ∈ R ↔ (a, b) ∈ F)
  net : ∀ x, (outdeg R x : Int) - indeg R x =
      (outdeg F x : Int) - indeg F x + (if x = cur then 1 else 0) - (if x = t then 1 else 0)
  noin : ∀ e ∈ R, e.2 ≠ s

theorem augInv_init {E F : List (Nat × Nat)} {s t k : Nat} (h : FlowInv E F s t k) :
    AugInv E F s t F t [] :=
  ⟨h.sorted, h.sub, h.anti, fun _ _ _ => Iff.rfl, fun x => by split <;> omega, h.noin⟩

theorem resB_iff (E F : List (Nat × Nat)) (v w : Nat) :
    resB E F v w = true ↔ (v, w) ∉ F ∧ ((v, w) ∈ E ∨ (w, v) ∈ F) := by
  simp [resB]

/-- the next tree edge, `v → w` -/
def toggle (R : List (Nat × Nat)) (v w : Nat) : List (Nat × Nat) :=
  if R.contains (w, v) then remEdge (w, v) R else insEdge (v, w) R

theorem aug_step {E F : List (Nat × Nat)} {s t : Nat} {R : List (Nat × Nat)} {w v : Nat}
    {P : List Nat} (h : AugInv E F s t R w P) (hws : w ≠ s) (hv : v ∉ w :: P)
    (hr : resB E F v w = true) : AugInv E F s t (toggle R v w) v (w :: P) := by
  have hvw : v ≠ w := fun hh => hv (hh ▸ List.mem_cons_self)
  obtain ⟨hnF, hor⟩ := (resB_iff E F v w).1 hr
  have ag1 : (w, v) ∈ R ↔ (w, v) ∈ F := h.agree w v (Or.inr hv)
  have ag2 : (v, w) ∈ R ↔ (v, w) ∈ F := h.agree v w (Or.inl hv)
  have hnR : (v, w) ∉ R := fun hh => hnF (ag2.1 hh)
  have hsubP : ∀ a, a ∉ v :: w :: P → a ∉ w :: P :=
    fun a ha hh => ha (List.mem_cons_of_mem _ hh)
  unfold toggle
  by_cases hc : (w, v) ∈ R
  · have hcb : R.contains (w, v) = true := by simpa using hc
    rw [if_pos hcb, remEdge_eq_erase]
    have hnd := h.sorted.nodup
    have hmem : ∀ e, e ∈ R.erase (w, v) ↔ e ≠ (w, v) ∧ e ∈ R := fun e => hnd.mem_erase_iff
    refine ⟨List.Pairwise.sublist List.erase_sublist h.sorted, ?_, ?_, ?_, ?_, ?_⟩
    · intro e he; exact h.sub e ((hmem e).1 he).2
    · intro a b hab hba
      exact h.anti a b ((hmem _).1 hab).2 ((hmem _).1 hba).2
    · intro a b hab
      have hne : (a, b) ≠ (w, v) := by
        intro hh
        simp only [Prod.mk.injEq] at hh
        rcases hab with hab | hab
        · exact hab (by rw [hh.1]; simp)
        · exact hab (by rw [hh.2]; simp)
      rw [hmem]
      have := h.agree a b (hab.imp (hsubP a) (hsubP b))
      simp [hne, this]
    · intro x
      have h1 := countP_erase' (fun e => e.1 == x) (w, v) R hc
      have h2 := countP_erase' (fun e => e.2 == x) (w, v) R hc
      have h3 := h.net x
      simp only [outdeg, indeg, beq_iff_eq] at h1 h2 h3 ⊢
      split_ifs at h1 h2 h3 ⊢ <;> omega
    · intro e he; exact h.noin e ((hmem e).1 he).2
  · have hcb : ¬ (R.contains (w, v) = true) := by simpa using hc
    rw [if_neg hcb]
    have hE : (v, w) ∈ E := by
      rcases hor with hh | hh
      · exact hh
      · exact absurd (ag1.2 hh) hc
    refine ⟨sorted_insEdge _ _ h.sorted, ?_, ?_, ?_, ?_, ?_⟩
    · intro e he
      rcases (mem_insEdge _ e R).1 he with he | he
      · rw [he]; exact hE
      · exact h.sub e he
    · intro a b hab hba
      rcases (mem_insEdge _ _ R).1 hab with hab | hab <;>
        rcases (mem_insEdge _ _ R).1 hba with hba | hba
      · simp only [Prod.mk.injEq] at hab hba; omega
      · simp only [Prod.mk.injEq] at hab
        rw [hab.1, hab.2] at hba; exact hc hba
      · simp only [Prod.mk.injEq] at hba
        rw [hba.1, hba.2] at hab; exact hc hab
      · exact h.anti a b hab hba
    · intro a b hab
      have hne : (a, b) ≠ (v, w) := by
        intro hh
        simp only [Prod.mk.injEq] at hh
        rcases hab with hab | hab
        · exact hab (by rw [hh.1]; simp)
        · exact hab (by rw [hh.2]; simp)
      rw [mem_insEdge]
      have := h.agree a b (hab.imp (hsubP a) (hsubP b))
      simp [hne, this]
    · intro x
      have h1 := countP_insEdge (fun e => e.1 == x) (v, w) R hnR
      have h2 := countP_insEdge (fun e => e.2 == x) (v, w) R hnR
      have h3 := h.net x
      simp only [outdeg, indeg, beq_iff_eq] at h1 h2 h3 ⊢
      split_ifs at h1 h2 h3 ⊢ <;> omega
    · intro e he
      rcases (mem_insEdge _ e R).1 he with he | he
      · rw [he]; exact hws
      · exact h.noin e he

theorem augInv_final {E F : List (Nat × Nat)} {s t k : Nat} {R : List (Nat × Nat)} {P : List Nat}
    (hF : FlowInv E F s t k) (hst : s ≠ t) (h : AugInv E F s t R s P) :
    FlowInv E R s t (k + 1) := by
  refine ⟨h.sorted, h.sub, h.anti, ?_, h.noin, ?_⟩
  · intro x hxs hxt
    have h1 := h.net x
    have h2 := hF.cons x hxs hxt
    rw [if_neg hxs, if_neg hxt] at h1
    omega
  · have h1 := h.net s
    have h2 := indeg_eq_zero h.noin
    have h3 := indeg_eq_zero hF.noin
    have h4 := hF.val
    rw [if_pos rfl, if_neg hst] at h1
    omega

/-! ### `trace` -/

theorem trace_self (back : List (Nat × Nat)) (s fuel : Nat) (R : List (Nat × Nat)) :
    trace back s (fuel + 1) s R = .ok R := by
  simp [trace]

theorem trace_step (back : List (Nat × Nat)) (s fuel w v : Nat) (R : List (Nat × Nat))
    (hw : w ≠ s) (hl : back.lookup w = some v) :
    trace back s (fuel + 1) w R = trace back s fuel v (toggle R v w) := by
  simp [trace, hw, hl, toggle]

theorem hasKey_iff_lookup (k : Nat) (m : List (Nat × Nat)) :
    hasKey k m = true ↔ ∃ v, m.lookup k = some v := by
  simp [hasKey, Option.isSome_iff_exists]

/-- lookups of vertices bound in the older part never see the newest binding -/
theorem trace_skip {E F : List (Nat × Nat)} {s : Nat} (w0 v0 : Nat) (rest : List (Nat × Nat))
    (ht : Tree E F s ((w0, v0) :: rest)) :
    ∀ (fuel w : Nat) (R : List (Nat × Nat)), (w = s ∨ hasKey w rest = true) →
      trace ((w0, v0) :: rest) s fuel w R = trace rest s fuel w R
  | 0, _, _, _ => by simp [trace]
  | fuel + 1, w, R, hw => by
    by_cases hws : w = s
    · subst hws; rw [trace_self, trace_self]
    · have hk : hasKey w rest = true := by
        rcases hw with h | h
        · exact absurd h hws
        · exact h
      obtain ⟨v, hv⟩ := (hasKey_iff_lookup w rest).1 hk
      have hne : w ≠ w0 := by
        intro hh; rw [hh, ht.2.1] at hk; cases hk
      have hl : List.lookup w ((w0, v0) :: rest) = some v := by rw [lookup_cons_ne hne]; exact hv
      rw [trace_step _ s fuel w v R hws hl, trace_step _ s fuel w v R hws hv]
      exact trace_skip w0 v0 rest ht fuel v _ (tree_parent ht.2.2.2.2 hv).1

/-- **The read-back of the augmenting path** never panics, `|back| + 1` fuel is enough, and
    it re-establishes the invariant at the source. -/
theorem trace_main {E F : List (Nat × Nat)} {s t : Nat} :
    ∀ (rest : List (Nat × Nat)) (fuel w : Nat) (R : List (Nat × Nat)) (P : List Nat),
      Tree E F s rest → (w = s ∨ hasKey w rest = true) →
      (∀ x ∈ P, x ≠ s ∧ hasKey x rest = false) → w ∉ P → AugInv E F s t R w P →
      rest.length + 1 ≤ fuel →
      ∃ R' P', trace rest s fuel w R = .ok R' ∧ AugInv E F s t R' s P'
  | [], fuel, w, R, P, _, hw, _, _, hinv, hf => by
    have hws : w = s := by
      rcases hw with h | h
      · exact h
      · simp [hasKey_nil] at h
    subst hws
    obtain ⟨f, rfl⟩ : ∃ f, fuel = f + 1 := ⟨fuel - 1, by simp at hf; omega⟩
    exact ⟨R, P, trace_self _ _ _ _, hinv⟩
  | (w0, v0) :: rest, fuel, w, R, P, ht, hw, hP, hwP, hinv, hf => by
    obtain ⟨f, rfl⟩ : ∃ f, fuel = f + 1 := ⟨fuel - 1, by simp at hf; omega⟩
    simp only [List.length_cons] at hf
    have ht' := ht
    obtain ⟨h1, h2, h3, h4, h5⟩ := ht
    have hP' : ∀ x ∈ P, x ≠ s ∧ hasKey x rest = false := by
      intro x hx
      obtain ⟨a, b⟩ := hP x hx
      refine ⟨a, ?_⟩
      rw [hasKey_cons] at b
      simp only [Bool.or_eq_false_iff] at b
      exact b.2
    by_cases hws : w = s
    · subst hws
      exact ⟨R, P, trace_self _ _ _ _, hinv⟩
    · have hk : hasKey w ((w0, v0) :: rest) = true := by
        rcases hw with h | h
        · exact absurd h hws
        · exact h
      by_cases hww : w = w0
      · subst hww
        rw [trace_step _ s f w v0 R hws (lookup_cons_self w v0 rest),
          trace_skip w v0 rest ht' f v0 _ h3]
        have hv0w : v0 ≠ w := by
          rcases h3 with h | h
          · rw [h]; exact fun hh => hws hh.symm
          · intro hh; rw [hh, h2] at h; cases h
        have hv0P : v0 ∉ P := by
          intro hh
          obtain ⟨a, b⟩ := hP' v0 hh
          rcases h3 with h | h
          · exact a h
          · rw [b] at h; cases h
        have hv0 : v0 ∉ w :: P := by
          intro hh
          rcases List.mem_cons.1 hh with hh | hh
          · exact hv0w hh
          · exact hv0P hh
        refine trace_main rest f v0 _ (w :: P) h5 h3 ?_ hv0 (aug_step hinv hws hv0 h4) (by omega)
        intro x hx
        rcases List.mem_cons.1 hx with hx | hx
        · rw [hx]; exact ⟨h1, h2⟩
        · exact hP' x hx
      · have hk' : hasKey w rest = true := by
          rw [hasKey_cons] at hk
          have : (w == w0) = false := by simpa using hww
          simpa [this] using hk
        rw [trace_skip w0 v0 rest ht' (f + 1) w R (Or.inr hk')]
        exact trace_main rest (f + 1) w R P h5 (Or.inr hk') hP' hwP hinv (by omega)

/-! ### `augment` and the loop of `min_edge_cut` -/

/-- the final search: invariant, nothing queued, sink not reached, everything expanded -/
def FinalBfs (E F : List (Nat × Nat)) (nbrs : List (Nat × List Nat)) (s t : Nat)
    (seen : List Nat) : Prop :=
  ∃ st : Bfs, st.seen = seen ∧ BInv E F nbrs s st ∧ hasKey t st.back = false ∧ st.q = [] ∧
    DoneExc E F nbrs (fun _ => False) st

theorem augment_spec {E F : List (Nat × Nat)} {nbrs : List (Nat × List Nat)} {s t k : Nat}
    (hnb : NbOK E nbrs) (hF : FlowInv E F s t k) :
    (augment E nbrs s t F = .panic ∧ nbrs.lookup s = none) ∨
    (∃ F' seen, augment E nbrs s t F = .ok (some F', seen) ∧ FlowInv E F' s t (k + 1)) ∨
    (∃ seen, augment E nbrs s t F = .ok (none, seen) ∧ FinalBfs E F nbrs s t seen) := by
  have hinv0 : BInv E F nbrs s { q := [s], seen := [s], back := [] } :=
    ⟨fun x => by simp [hasKey_nil], fun x hx => hx, trivial, fun x hx => Or.inl (by simpa using hx)⟩
  have hdone0 : DoneExc E F nbrs (fun _ => False) { q := [s], seen := [s], back := [] } :=
    fun x hx => Or.inr (Or.inl hx)
  have hmu : mu (nbrs.map Prod.fst) { q := [s], seen := [s], back := [] } + 1 ≤ nbrs.length + 2 := by
    have := List.length_filter_le (fun k => !([s] : List Nat).contains k) (nbrs.map Prod.fst)
    simp only [mu, List.length_map, List.length_singleton] at this ⊢
    omega
  unfold augment
  rcases bfs_total hnb t (nbrs.length + 2) _ hinv0 hdone0 hmu with ⟨h1, h2⟩ | ⟨st, h1, h2, h3⟩
  · rw [h1]; exact Or.inl ⟨rfl, h2⟩
  · rw [h1]
    simp only
    rcases h3 with h3 | ⟨h3, h4⟩
    · right; left
      have hst : s ≠ t := fun hh => tree_key_ne h2.tree t h3 hh.symm
      rw [if_pos h3]
      obtain ⟨R', P', hR, hA⟩ := trace_main (E := E) (F := F) (s := s) (t := t) st.back
        (st.back.length + 1) t F [] h2.tree (Or.inr h3) (by simp) (by simp) (augInv_init hF)
        (Nat.le_refl _)
      rw [hR]
      exact ⟨R', st.seen, rfl, augInv_final hF hst hA⟩
    · by_cases hk : hasKey t st.back = true
      · right; left
        have hst : s ≠ t := fun hh => tree_key_ne h2.tree t hk hh.symm
        rw [if_pos hk]
        obtain ⟨R', P', hR, hA⟩ := trace_main (E := E) (F := F) (s := s) (t := t) st.back
          (st.back.length + 1) t F [] h2.tree (Or.inr hk) (by simp) (by simp) (augInv_init hF)
          (Nat.le_refl _)
        rw [hR]
        exact ⟨R', st.seen, rfl, augInv_final hF hst hA⟩
      · right; right
        rw [if_neg hk]
        exact ⟨st.seen, rfl, st, rfl, h2, by simpa using hk, h3, h4⟩

/-- **The loop of `min_edge_cut`.**  Started from a flow of value `k` with `|E| + 2 - k` rounds
    of fuel it never runs out of fuel; it panics only if the source is not a key of
    `neighbors`; otherwise it returns the edges leaving the last `seen` together with a flow
    satisfying the invariant and a description of the final search. -/
theorem cutLoop_spec {E : List (Nat × Nat)} {nbrs : List (Nat × List Nat)} {s t : Nat}
    (hnb : NbOK E nbrs) :
    ∀ (fuel : Nat) (F : List (Nat × Nat)) (k : Nat), FlowInv E F s t k → E.length + 2 ≤ fuel + k →
      (cutLoop E nbrs s t fuel F = .panic ∧ nbrs.lookup s = none) ∨
      ∃ F' k' seen, cutLoop E nbrs s t fuel F =
          .ok { cut := leaving E seen, inside := seen, flow := F' } ∧
        FlowInv E F' s t k' ∧ FinalBfs E F' nbrs s t seen
  | 0, F, k, hF, hf => by
    have := hF.val_le; omega
  | fuel + 1, F, k, hF, hf => by
    unfold cutLoop
    rcases augment_spec hnb hF with ⟨h1, h2⟩ | ⟨F', seen, h1, h2⟩ | ⟨seen, h1, h2⟩
    · rw [h1]; exact Or.inl ⟨rfl, h2⟩
    · rw [h1]
      exact cutLoop_spec hnb fuel F' (k + 1) h2 (by omega)
    · rw [h1]
      exact Or.inr ⟨F, k, seen, rfl, hF, h2⟩

end DSymVerif.CutP
