/-
Low-index enumeration (C12), soundness of `derived_table`: on a table without pending
coincidences that is inverse-consistent, the derived table changes no defined entry,
stays inverse-consistent, and `None` is returned only when a slot is taken or a relator
closes on two different rows.  Every state of the search satisfies the invariant.
Core Lean only.
-/
import DSymVerif.Proofs.LowIndex

namespace DSymVerif.LowIndexP
open DSymVerif DSymVerif.Cosets

theorem mem_allGensOf {n : Nat} {g : Int} :
    g ∈ allGensOf n ↔ (1 ≤ g ∧ g ≤ n) ∨ (1 ≤ -g ∧ -g ≤ n) := by
  unfold allGensOf
  simp only [List.mem_append, List.mem_map, List.mem_range'_1]
  constructor
  · rintro (⟨i, hi, rfl⟩ | ⟨i, hi, rfl⟩)
    · left; omega
    · right; omega
  · rintro (h | h)
    · left; exact ⟨g.toNat, by omega, by omega⟩
    · right; exact ⟨(-g).toNat, by omega, by omega⟩

theorem neg_mem_allGensOf {n : Nat} {g : Int} (h : g ∈ allGensOf n) : -g ∈ allGensOf n := by
  rw [mem_allGensOf] at *
  omega

theorem blankRow_get {n : Nat} {g : Int} (hg : g ∈ allGensOf n) :
    (blankRow n)[(g + (n : Int)).toNat]? = some (-1) := by
  rw [mem_allGensOf] at hg
  unfold blankRow
  rw [Array.getElem?_replicate]
  have : (g + (n : Int)).toNat < n * 2 + 1 := by omega
  simp [this]

/-- `get` of a blank row -/
theorem get_blank {t : Table} {c : Nat} {g : Int} (hg : g ∈ t.allGens)
    (h : t.rows[c]? = some (blankRow t.nrGens)) : t.get c g = .ok none := by
  have hg' := mem_allGensOf.mp hg
  rw [get_eq, h]
  have hn : ¬ g + (t.nrGens : Int) < 0 := by omega
  simp only [hn, if_false, blankRow_get hg]
  simp

/-- `set` changes no other slot (as seen through `get` with letters of the table) -/
theorem set_get_frame {t t' : Table} {c : Nat} {g : Int} {d : Nat} (h : t.set c g d = .ok t')
    {c' : Nat} {g' : Int} (hg' : g' ∈ t.allGens) (hne : c' ≠ c ∨ g' ≠ g) :
    t'.get c' g' = t.get c' g' := by
  have hgg := mem_allGensOf.mp hg'
  unfold Table.set at h
  simp only [] at h
  by_cases hn : g + (t.nrGens : Int) < 0
  · simp [hn] at h
  · simp only [hn, if_false] at h
    cases hr : (padRows t.nrGens t.rows c)[c]? with
    | none => simp [hr] at h
    | some row =>
      simp only [hr] at h
      by_cases hj : (g + (t.nrGens : Int)).toNat < row.size
      · simp only [hj, if_true, Outcome.ok.injEq] at h
        subst h
        have hc : c < (padRows t.nrGens t.rows c).size := by
          by_cases hc : c < (padRows t.nrGens t.rows c).size
          · exact hc
          · rw [Array.getElem?_eq_none (by omega)] at hr
            cases hr
        have hn' : ¬ g' + (t.nrGens : Int) < 0 := by omega
        by_cases hcc : c' = c
        · subst hcc
          have hgne : g' ≠ g := by
            rcases hne with h | h
            · exact absurd rfl h
            · exact h
          have hjne : (g + (t.nrGens : Int)).toNat ≠ (g' + (t.nrGens : Int)).toNat := by omega
          rw [get_eq, get_eq]
          simp only [Array.getElem?_setIfInBounds_self, hc, if_true, hn', if_false,
            Array.getElem?_setIfInBounds_ne hjne]
          by_cases hlt : c' < t.rows.size
          · have : t.rows[c']? = some row := by
              unfold padRows at hr
              rw [Array.getElem?_append_left hlt] at hr
              exact hr
            rw [this]
            rfl
          · have hnone : t.rows[c']? = none := Array.getElem?_eq_none (by omega)
            have hrow : row = blankRow t.nrGens := by
              unfold padRows at hr
              rw [Array.getElem?_append, if_neg hlt, Array.getElem?_replicate] at hr
              split at hr
              · injection hr with hr; exact hr.symm
              · cases hr
            rw [hnone, hrow, blankRow_get hg']
            simp
        · rw [get_eq, get_eq]
          simp only [Array.getElem?_setIfInBounds_ne (Ne.symm hcc)]
          by_cases hlt : c' < t.rows.size
          · unfold padRows
            rw [Array.getElem?_append_left hlt]
            rfl
          · have hnone : t.rows[c']? = none := Array.getElem?_eq_none (by omega)
            unfold padRows
            rw [Array.getElem?_append, if_neg hlt, Array.getElem?_replicate, hnone]
            by_cases hb : c' - t.rows.size < c + 1 - t.rows.size
            · rw [if_pos hb]
              simp only [hn', if_false, blankRow_get hg']
              simp
            · rw [if_neg hb]
      · simp [hj] at h

/-- `set` stores the value (seen through `get`: its class representative) -/
theorem set_get_self {t t' : Table} {c : Nat} {g : Int} {d : Nat} (h : t.set c g d = .ok t') :
    t'.get c g = .ok (some (t'.canon d)) := by
  unfold Table.set at h
  simp only [] at h
  by_cases hn : g + (t.nrGens : Int) < 0
  · simp [hn] at h
  · simp only [hn, if_false] at h
    cases hr : (padRows t.nrGens t.rows c)[c]? with
    | none => simp [hr] at h
    | some row =>
      simp only [hr] at h
      by_cases hj : (g + (t.nrGens : Int)).toNat < row.size
      · simp only [hj, if_true, Outcome.ok.injEq] at h
        subst h
        have hc : c < (padRows t.nrGens t.rows c).size := by
          by_cases hc : c < (padRows t.nrGens t.rows c).size
          · exact hc
          · rw [Array.getElem?_eq_none (by omega)] at hr
            cases hr
        rw [get_eq]
        simp only [Array.getElem?_setIfInBounds_self, hc, if_true, hn, if_false, hj]
        simp
      · simp [hj] at h


/-! ### `join` through `get` -/

theorem set_allGens {t t' : Table} {c : Nat} {g : Int} {d : Nat} (h : t.set c g d = .ok t') :
    t'.allGens = t.allGens := by
  unfold Table.allGens
  rw [(set_ok h).1]

theorem set_canon {t t' : Table} {c : Nat} {g : Int} {d : Nat} (h : t.set c g d = .ok t') (x : Nat) :
    t'.canon x = t.canon x := by
  unfold Table.canon
  rw [(set_ok h).2.1]

theorem join_split {t t' : Table} {c d : Nat} {g : Int} (h : t.join c d g = .ok t') :
    ∃ t1, t.set c g d = .ok t1 ∧ t1.set d (-g) c = .ok t' := by
  unfold Table.join at h
  cases h1 : t.set c g d with
  | ok t1 => exact ⟨t1, rfl, by simpa [h1] using h⟩
  | err => simp [h1] at h
  | panic => simp [h1] at h

theorem join_allGens {t t' : Table} {c d : Nat} {g : Int} (h : t.join c d g = .ok t') :
    t'.allGens = t.allGens := by
  obtain ⟨t1, h1, h2⟩ := join_split h
  rw [set_allGens h2, set_allGens h1]

theorem join_canon {t t' : Table} {c d : Nat} {g : Int} (h : t.join c d g = .ok t') (x : Nat) :
    t'.canon x = t.canon x := by
  obtain ⟨t1, h1, h2⟩ := join_split h
  rw [set_canon h2, set_canon h1]

theorem join_get_frame {t t' : Table} {c d : Nat} {g : Int} (h : t.join c d g = .ok t')
    {c' : Nat} {g' : Int} (hg' : g' ∈ t.allGens) (h1 : c' ≠ c ∨ g' ≠ g) (h2 : c' ≠ d ∨ g' ≠ -g) :
    t'.get c' g' = t.get c' g' := by
  obtain ⟨t1, s1, s2⟩ := join_split h
  rw [set_get_frame s2 (by rw [set_allGens s1]; exact hg') h2, set_get_frame s1 hg' h1]

theorem ne_neg_of_mem_allGens {n : Nat} {g : Int} (hg : g ∈ allGensOf n) : g ≠ -g := by
  rw [mem_allGensOf] at hg
  omega

theorem join_get_fst {t t' : Table} {c d : Nat} {g : Int} (h : t.join c d g = .ok t')
    (hg : g ∈ t.allGens) : t'.get c g = .ok (some (t.canon d)) := by
  obtain ⟨t1, s1, s2⟩ := join_split h
  rw [set_get_frame s2 (by rw [set_allGens s1]; exact hg) (Or.inr (ne_neg_of_mem_allGens hg)),
    set_get_self s1, set_canon s1]

theorem join_get_snd {t t' : Table} {c d : Nat} {g : Int} (h : t.join c d g = .ok t') :
    t'.get d (-g) = .ok (some (t.canon c)) := by
  obtain ⟨t1, s1, s2⟩ := join_split h
  rw [set_get_self s2, set_canon s2, set_canon s1]

/-! ### invariants of the low-index tables -/

/-- no coincidences pending: the union-find is empty, every row is its own class -/
def Clean (t : Table) : Prop := t.part.parent = #[]

theorem canon_clean {t : Table} (h : Clean t) (c : Nat) : t.canon c = c := by
  unfold Table.canon Part.find
  rw [h]
  cases t.part.fuel <;> simp [rootFuel]

/-- `t[t[c][g]][−g] = c` wherever `t[c][g]` is defined -/
def InvC (t : Table) : Prop :=
  ∀ c g d, g ∈ t.allGens → t.get c g = .ok (some d) → t.get d (-g) = .ok (some c)

/-- value-preserving extension: same generators and partition, no entry changed -/
def Ext2 (t t' : Table) : Prop :=
  t'.nrGens = t.nrGens ∧ t'.part = t.part ∧
    ∀ c g d, g ∈ t.allGens → t.get c g = .ok (some d) → t'.get c g = .ok (some d)

theorem Ext2.refl (t : Table) : Ext2 t t := ⟨rfl, rfl, fun _ _ _ _ h => h⟩

theorem Ext2.allGens {a b : Table} (h : Ext2 a b) : b.allGens = a.allGens := by
  unfold Table.allGens; rw [h.1]

theorem Ext2.trans {a b c : Table} (h1 : Ext2 a b) (h2 : Ext2 b c) : Ext2 a c :=
  ⟨h2.1.trans h1.1, h2.2.1.trans h1.2.1, fun x g d hg h =>
    h2.2.2 x g d (by rw [h1.allGens]; exact hg) (h1.2.2 x g d hg h)⟩

theorem Ext2.clean {a b : Table} (h : Ext2 a b) (hc : Clean a) : Clean b := by
  unfold Clean; rw [h.2.1]; exact hc

/-- joining two free slots changes no defined entry -/
theorem join_ext2 {t t' : Table} {c d : Nat} {g : Int} (h : t.join c d g = .ok t')
    (h1 : t.get c g = .ok none) (h2 : t.get d (-g) = .ok none) : Ext2 t t' := by
  obtain ⟨a, b, _⟩ := join_ok h
  refine ⟨a, b, ?_⟩
  intro x y z hy hget
  rw [join_get_frame h hy]
  · exact hget
  · by_cases hx : x = c
    · subst hx
      right
      rintro rfl
      rw [h1] at hget
      cases hget
    · exact Or.inl hx
  · by_cases hx : x = d
    · subst hx
      right
      rintro rfl
      rw [h2] at hget
      cases hget
    · exact Or.inl hx

/-- joining two free slots keeps a clean table inverse-consistent -/
theorem join_invC {t t' : Table} {c d : Nat} {g : Int} (h : t.join c d g = .ok t')
    (hcl : Clean t) (hinv : InvC t) (h1 : t.get c g = .ok none) (h2 : t.get d (-g) = .ok none) :
    InvC t' := by
  intro x y z hy hget
  rw [join_allGens h] at hy
  by_cases hg : g ∈ t.allGens
  · by_cases hxy1 : x = c ∧ y = g
    · obtain ⟨rfl, rfl⟩ := hxy1
      rw [join_get_fst h hg, canon_clean hcl] at hget
      injection hget with hget
      injection hget with hget
      subst hget
      rw [join_get_snd h, canon_clean hcl]
    · by_cases hxy2 : x = d ∧ y = -g
      · obtain ⟨rfl, rfl⟩ := hxy2
        rw [join_get_snd h, canon_clean hcl] at hget
        injection hget with hget
        injection hget with hget
        subst hget
        rw [Int.neg_neg, join_get_fst h hg, canon_clean hcl]
      · have f1 : x ≠ c ∨ y ≠ g := by
          by_cases hx : x = c
          · exact Or.inr (fun hy' => hxy1 ⟨hx, hy'⟩)
          · exact Or.inl hx
        have f2 : x ≠ d ∨ y ≠ -g := by
          by_cases hx : x = d
          · exact Or.inr (fun hy' => hxy2 ⟨hx, hy'⟩)
          · exact Or.inl hx
        rw [join_get_frame h hy f1 f2] at hget
        have hback := hinv x y z hy hget
        have hny : -y ∈ t.allGens := neg_mem_allGensOf hy
        rw [join_get_frame h hny]
        · exact hback
        · by_cases hz : z = c
          · subst hz
            right
            intro he
            rw [he, h1] at hback
            cases hback
          · exact Or.inl hz
        · by_cases hz : z = d
          · subst hz
            right
            intro he
            rw [he, h2] at hback
            cases hback
          · exact Or.inl hz
  · have hng : -g ∉ t.allGens := fun hm => hg (by
      have := neg_mem_allGensOf hm
      rw [Int.neg_neg] at this
      exact this)
    have f : ∀ (x : Nat) (y : Int), y ∈ t.allGens → t'.get x y = t.get x y := by
      intro x y hy
      exact join_get_frame h hy (Or.inr (fun e => hg (e ▸ hy))) (Or.inr (fun e => hng (e ▸ hy)))
    rw [f x y hy] at hget
    rw [f z (-y) (neg_mem_allGensOf hy)]
    exact hinv x y z hy hget


/-! ### where a scan stops -/

theorem scanGo_spec (t : Table) (limit : Nat) : ∀ (xs : List Int) (row idx r i : Nat),
    idx + xs.length = limit → scanGo t limit xs row idx = .ok (r, i) →
    idx ≤ i ∧ (i = limit ∨ (i < limit ∧ ∃ x, xs[i - idx]? = some x ∧ t.get r x = .ok none))
  | [], row, idx, r, i, hl, h => by
    simp only [List.length_nil, Nat.add_zero] at hl
    simp only [scanGo, hl, if_true, Outcome.ok.injEq, Prod.mk.injEq] at h
    exact ⟨by omega, Or.inl h.2.symm⟩
  | x :: xs, row, idx, r, i, hl, h => by
    simp only [List.length_cons] at hl
    simp only [scanGo] at h
    cases hg : t.get row x with
    | ok o =>
      cases o with
      | none =>
        simp only [hg, Outcome.ok.injEq, Prod.mk.injEq] at h
        obtain ⟨rfl, rfl⟩ := h
        exact ⟨Nat.le_refl _, Or.inr ⟨by omega, x, by simp, hg⟩⟩
      | some next =>
        simp only [hg] at h
        obtain ⟨h1, h2⟩ := scanGo_spec t limit xs next (idx + 1) r i (by omega) h
        refine ⟨by omega, ?_⟩
        rcases h2 with h2 | ⟨h2, y, hy, hget⟩
        · exact Or.inl h2
        · refine Or.inr ⟨h2, y, ?_, hget⟩
          have : i - idx = (i - (idx + 1)) + 1 := by omega
          rw [this, List.getElem?_cons_succ]
          exact hy
    | err => simp [hg] at h
    | panic => simp [hg] at h

/-- a scan that leaves a gap of exactly one letter `c` stops, in both directions, at a
    free slot: `head·c` and `tail·c⁻¹` are undefined -/
theorem scanBothWays_gap_one {t : Table} {w : List Int} {start head tail : Nat} {c : Int}
    (h : scanBothWays t w start = .ok (head, tail, 1, c)) :
    t.get head c = .ok none ∧ t.get tail (-c) = .ok none := by
  unfold scanBothWays at h
  simp only [] at h
  cases h1 : scan t w start w.length with
  | ok p1 =>
    obtain ⟨hd, i⟩ := p1
    simp only [h1] at h
    cases h2 : scanInverse t w start (w.length - i) with
    | ok p2 =>
      obtain ⟨tl, j⟩ := p2
      simp only [h2, Outcome.ok.injEq, Prod.mk.injEq] at h
      obtain ⟨rfl, rfl, hgap, hc⟩ := h
      unfold scan at h1
      rw [List.take_length] at h1
      obtain ⟨_, s1⟩ := scanGo_spec t w.length w start 0 hd i (by simp) h1
      unfold scanInverse at h2
      have hlen : 0 + ((w.reverse.map (fun x => -x)).take (w.length - i)).length = w.length - i := by
        simp
      obtain ⟨_, s2⟩ := scanGo_spec t (w.length - i) _ start 0 tl j hlen h2
      have hi : i < w.length := by omega
      have hj : j < w.length - i := by omega
      rcases s1 with s1 | ⟨_, x, hx, hgx⟩
      · omega
      · rcases s2 with s2 | ⟨_, y, hy, hgy⟩
        · omega
        · simp only [Nat.sub_zero] at hx hy
          have hcx : c = x := by
            rw [← hc, if_pos hi]
            simp [List.getD, hx]
          have hyx : y = -x := by
            rw [List.getElem?_take_of_lt hj, List.getElem?_map, List.getElem?_reverse (by omega)] at hy
            have : w.length - 1 - j = i := by omega
            rw [this, hx] at hy
            simpa using hy.symm
          subst hcx
          subst hyx
          exact ⟨hgx, hgy⟩
    | err => simp [h2] at h
    | panic => simp [h2] at h
  | err => simp [h1] at h
  | panic => simp [h1] at h


/-! ### `derived_table` is sound -/

/-- the invariant of the tables of the low-index search: no pending coincidences and
    inverse-consistent -/
structure Good (t : Table) : Prop where
  clean : Clean t
  inv : InvC t

/-- some value-preserving, inverse-consistent extension of `t` has a relator of `rels`
    that is completely defined from `row` and closes on two different rows -/
def Conflict (t : Table) (rels : List (List Int)) : Prop :=
  ∃ (t1 : Table) (rel : List Int) (row head tail : Nat) (c : Int),
    Ext2 t t1 ∧ Good t1 ∧ rel ∈ rels ∧ scanBothWays t1 rel row = .ok (head, tail, 0, c) ∧ head ≠ tail

theorem join_good {t t' : Table} {c d : Nat} {g : Int} (h : t.join c d g = .ok t') (hg : Good t)
    (h1 : t.get c g = .ok none) (h2 : t.get d (-g) = .ok none) : Ext2 t t' ∧ Good t' :=
  have e := join_ext2 h h1 h2
  ⟨e, e.clean hg.clean, join_invC h hg.clean hg.inv h1 h2⟩

theorem derivedRels_some (row : Nat) : ∀ (rels : List (List Int)) (t : Table) (q : List Nat)
    (t' : Table) (q' : List Nat), derivedRels row rels t q = .ok (some (t', q')) → Good t →
    Ext2 t t' ∧ Good t'
  | [], t, q, t', q', h, hg => by
    simp only [derivedRels, Outcome.ok.injEq, Option.some.injEq, Prod.mk.injEq] at h
    obtain ⟨rfl, _⟩ := h
    exact ⟨Ext2.refl _, hg⟩
  | rel :: rels, t, q, t', q', h, hg => by
    simp only [derivedRels] at h
    cases hs : scanBothWays t rel row with
    | ok r =>
      obtain ⟨head, tail, gap, c⟩ := r
      simp only [hs] at h
      by_cases hgap : gap = 1
      · subst hgap
        simp only [if_true] at h
        obtain ⟨f1, f2⟩ := scanBothWays_gap_one hs
        cases hj : t.join head tail c with
        | ok t1 =>
          simp only [hj] at h
          obtain ⟨e1, g1⟩ := join_good hj hg f1 f2
          obtain ⟨e2, g2⟩ := derivedRels_some row rels t1 _ t' q' h g1
          exact ⟨e1.trans e2, g2⟩
        | err => simp [hj] at h
        | panic => simp [hj] at h
      · simp only [hgap, if_false] at h
        by_cases hc : gap = 0 ∧ head ≠ tail
        · simp [hc] at h
        · simp only [hc, if_false] at h
          exact derivedRels_some row rels t q t' q' h hg
    | err => simp [hs] at h
    | panic => simp [hs] at h

theorem Conflict.of_ext {t t1 : Table} {rels : List (List Int)} (e : Ext2 t t1)
    (h : Conflict t1 rels) : Conflict t rels := by
  obtain ⟨t2, rel, row, head, tail, c, e2, g2, hr, hs, hne⟩ := h
  exact ⟨t2, rel, row, head, tail, c, e.trans e2, g2, hr, hs, hne⟩

theorem Conflict.mono {t : Table} {rels rels' : List (List Int)} (hsub : ∀ r ∈ rels, r ∈ rels')
    (h : Conflict t rels) : Conflict t rels' := by
  obtain ⟨t2, rel, row, head, tail, c, e2, g2, hr, hs, hne⟩ := h
  exact ⟨t2, rel, row, head, tail, c, e2, g2, hsub rel hr, hs, hne⟩

theorem derivedRels_none (row : Nat) : ∀ (rels : List (List Int)) (t : Table) (q : List Nat),
    derivedRels row rels t q = .ok none → Good t → Conflict t rels
  | [], t, q, h, _ => by simp [derivedRels] at h
  | rel :: rels, t, q, h, hg => by
    simp only [derivedRels] at h
    cases hs : scanBothWays t rel row with
    | ok r =>
      obtain ⟨head, tail, gap, c⟩ := r
      simp only [hs] at h
      by_cases hgap : gap = 1
      · subst hgap
        simp only [if_true] at h
        obtain ⟨f1, f2⟩ := scanBothWays_gap_one hs
        cases hj : t.join head tail c with
        | ok t1 =>
          simp only [hj] at h
          obtain ⟨e1, g1⟩ := join_good hj hg f1 f2
          exact Conflict.of_ext e1 (Conflict.mono (fun r hr => List.mem_cons_of_mem _ hr)
            (derivedRels_none row rels t1 _ h g1))
        | err => simp [hj] at h
        | panic => simp [hj] at h
      · simp only [hgap, if_false] at h
        by_cases hc : gap = 0 ∧ head ≠ tail
        · obtain ⟨rfl, hne⟩ := hc
          exact ⟨t, rel, row, head, tail, c, Ext2.refl _, hg, by simp, hs, hne⟩
        · simp only [hc, if_false] at h
          exact Conflict.mono (fun r hr => List.mem_cons_of_mem _ hr) (derivedRels_none row rels t q h hg)
    | err => simp [hs] at h
    | panic => simp [hs] at h

theorem derivedLoop_sound (rels : List (List Int)) : ∀ (fuel : Nat) (t : Table) (q : List Nat),
    Good t →
    (∀ t', derivedLoop rels fuel t q = .ok (some t') → Ext2 t t' ∧ Good t') ∧
    (derivedLoop rels fuel t q = .ok none → Conflict t rels) := by
  intro fuel
  induction fuel with
  | zero =>
    intro t q hg
    cases q with
    | nil =>
      simp only [derivedLoop, Outcome.ok.injEq, Option.some.injEq]
      exact ⟨fun t' h => h ▸ ⟨Ext2.refl _, hg⟩, fun h => by simp at h⟩
    | cons r q => simp [derivedLoop]
  | succ f ih =>
    intro t q hg
    cases q with
    | nil =>
      simp only [derivedLoop, Outcome.ok.injEq, Option.some.injEq]
      exact ⟨fun t' h => h ▸ ⟨Ext2.refl _, hg⟩, fun h => by simp at h⟩
    | cons r q =>
      simp only [derivedLoop]
      cases hd : derivedRels r rels t q with
      | ok o =>
        cases o with
        | none =>
          simp only []
          exact ⟨fun t' h => by simp at h, fun _ => derivedRels_none r rels t q hd hg⟩
        | some p =>
          obtain ⟨t1, q1⟩ := p
          simp only []
          obtain ⟨e1, g1⟩ := derivedRels_some r rels t q t1 q1 hd hg
          obtain ⟨i1, i2⟩ := ih t1 q1 g1
          exact ⟨fun t' h => let ⟨e2, g2⟩ := i1 t' h; ⟨e1.trans e2, g2⟩,
            fun h => Conflict.of_ext e1 (i2 h)⟩
      | err => simp
      | panic => simp

/-- ○ `derived_table_sound`, success branch: on a clean inverse-consistent table the derived
    table changes no defined entry, stays clean and inverse-consistent, and maps `frm` to
    `to` under `g` (and `to` back to `frm` under `g⁻¹`) -/
theorem derivedTable_some {t t' : Table} {rels : List (List Int)} {frm to : Nat} {g : Int}
    (hg : Good t) (hgen : g ∈ t.allGens) (h : derivedTable t rels frm to g = .ok (some t')) :
    Ext2 t t' ∧ Good t' ∧ t.get frm g = .ok none ∧ t.get to (-g) = .ok none ∧
      t'.get frm g = .ok (some to) ∧ t'.get to (-g) = .ok (some frm) := by
  unfold derivedTable at h
  cases h1 : t.get frm g with
  | ok o1 =>
    cases o1 with
    | some _ => simp [h1] at h
    | none =>
      simp only [h1] at h
      cases h2 : t.get to (-g) with
      | ok o2 =>
        cases o2 with
        | some _ => simp [h2] at h
        | none =>
          simp only [h2] at h
          cases hj : t.join frm to g with
          | ok t1 =>
            simp only [hj] at h
            obtain ⟨e1, g1⟩ := join_good hj hg h1 h2
            obtain ⟨e2, g2⟩ := (derivedLoop_sound rels _ t1 [frm] g1).1 t' h
            have a1 : t1.get frm g = .ok (some to) := by
              rw [join_get_fst hj hgen, canon_clean hg.clean]
            have a2 : t1.get to (-g) = .ok (some frm) := by
              rw [join_get_snd hj, canon_clean hg.clean]
            have hgen1 : g ∈ t1.allGens := by rw [e1.allGens]; exact hgen
            exact ⟨e1.trans e2, g2, rfl, rfl, e2.2.2 _ _ _ hgen1 a1,
              e2.2.2 _ _ _ (neg_mem_allGensOf hgen1) a2⟩
          | err => simp [hj] at h
          | panic => simp [hj] at h
      | err => simp [h2] at h
      | panic => simp [h2] at h
  | err => simp [h1] at h
  | panic => simp [h1] at h

/-- ○ `derived_table_sound`, rejection branch: `None` is returned only if one of the two
    slots is already taken or, after the new entry and some forced deductions, a relator
    closes on two different rows -/
theorem derivedTable_none {t : Table} {rels : List (List Int)} {frm to : Nat} {g : Int}
    (hg : Good t) (h : derivedTable t rels frm to g = .ok none) :
    (∃ d, t.get frm g = .ok (some d)) ∨ (∃ d, t.get to (-g) = .ok (some d)) ∨
      ∃ t0, t.join frm to g = .ok t0 ∧ Ext2 t t0 ∧ Conflict t0 rels := by
  unfold derivedTable at h
  cases h1 : t.get frm g with
  | ok o1 =>
    cases o1 with
    | some d => exact Or.inl ⟨d, rfl⟩
    | none =>
      simp only [h1] at h
      cases h2 : t.get to (-g) with
      | ok o2 =>
        cases o2 with
        | some d => exact Or.inr (Or.inl ⟨d, rfl⟩)
        | none =>
          simp only [h2] at h
          cases hj : t.join frm to g with
          | ok t1 =>
            simp only [hj] at h
            obtain ⟨e1, g1⟩ := join_good hj hg h1 h2
            exact Or.inr (Or.inr ⟨t1, rfl, e1, (derivedLoop_sound rels _ t1 [frm] g1).2 h⟩)
          | err => simp [hj] at h
          | panic => simp [hj] at h
      | err => simp [h2] at h
      | panic => simp [h2] at h
  | err => simp [h1] at h
  | panic => simp [h1] at h

/-- the empty table is clean and (vacuously) inverse-consistent -/
theorem good_new (n : Nat) : Good (Table.new n) := by
  refine ⟨rfl, ?_⟩
  intro c g d hg h
  have hb : (Table.new n).get c g = .ok none ∨ c ≥ 1 := by
    by_cases hc : c = 0
    · left
      subst hc
      exact get_blank hg (by simp [Table.new])
    · right; omega
  rcases hb with hb | hb
  · rw [hb] at h; cases h
  · have : (Table.new n).rows[c]? = none := by
      apply Array.getElem?_eq_none
      simp [Table.new]
      omega
    rw [get_eq, this] at h
    cases h


/-! ### every search state is clean and inverse-consistent -/

theorem potentialChildren_good {t : Table} {rels : List (List Int)} {maxRows : Nat} {l : List Table}
    (h : potentialChildren t rels maxRows = .ok l) (hg : Good t) :
    ∀ t' ∈ l, Ext2 t t' ∧ Good t' := by
  intro t' ht'
  unfold potentialChildren at h
  cases hf : firstFreeInTable t with
  | ok o =>
    cases o with
    | none =>
      simp only [hf, Outcome.ok.injEq] at h
      subst h
      cases ht'
    | some p =>
      obtain ⟨k, g⟩ := p
      simp only [hf] at h
      obtain ⟨pos, _, hd⟩ := childrenFrom_spec t rels k g _ l h t' ht'
      obtain ⟨hgen, _⟩ := firstFreeRows_spec t _ k g hf
      obtain ⟨e, g', _⟩ := derivedTable_some hg hgen hd
      exact ⟨e, g'⟩
  | err => simp [hf] at h
  | panic => simp [hf] at h

theorem btChildren_good {rels : List (List Int)} {maxRows : Nat} {s c : Outcome Table}
    (hc : c ∈ btChildren rels maxRows s) (hs : ∀ t, s = .ok t → Good t) : ∀ t', c = .ok t' → Good t' := by
  intro t' hct
  subst hct
  cases s with
  | ok t =>
    simp only [btChildren] at hc
    cases hp : potentialChildren t rels maxRows with
    | ok ts =>
      simp only [hp] at hc
      cases hf : filterCanonical ts with
      | ok cs =>
        simp only [hf, List.mem_map, Outcome.ok.injEq] at hc
        obtain ⟨t1, ht1, rfl⟩ := hc
        exact (potentialChildren_good hp (hs t rfl) t1 (filterCanonical_subset ts cs hf t1 ht1)).2
      | err => simp [hf] at hc
      | panic => simp [hf] at hc
    | err => simp [hp] at hc
    | panic => simp [hp] at hc
  | err => simp [btChildren] at hc
  | panic => simp [btChildren] at hc

/-- every table the low-index search ever holds has no pending coincidences and is
    inverse-consistent -/
theorem reach_good {nrGens : Nat} {rels : List (List Int)} {maxRows : Nat} {s s' : Outcome Table}
    (hr : BT.Reach (btProblem nrGens rels maxRows) s s') (hs : ∀ t, s = .ok t → Good t) :
    ∀ t', s' = .ok t' → Good t' := by
  induction hr with
  | refl s => exact hs
  | step hc _ ih => exact ih (btChildren_good hc hs)

theorem reachable_good {nrGens : Nat} {rels : List (List Int)} {maxRows : Nat} {t : Table}
    (hr : BT.Reach (btProblem nrGens rels maxRows) (.ok (Table.new nrGens)) (.ok t)) : Good t :=
  reach_good hr (fun t' h => by injection h with h; exact h ▸ good_new nrGens) t rfl

/-! ### only complete states are extracted -/

theorem firstFreeRow_none (t : Table) (k : Nat) : ∀ (gs : List Int),
    firstFreeRow t k gs = .ok none → ∀ g ∈ gs, ∃ d, t.get k g = .ok (some d)
  | [], _, g, hg => by cases hg
  | x :: gs, h, g, hg => by
    simp only [firstFreeRow] at h
    cases hx : t.get k x with
    | ok o =>
      cases o with
      | none => simp [hx] at h
      | some d =>
        simp only [hx] at h
        rcases List.mem_cons.mp hg with rfl | hg
        · exact ⟨d, hx⟩
        · exact firstFreeRow_none t k gs h g hg
    | err => simp [hx] at h
    | panic => simp [hx] at h

theorem firstFreeRows_none (t : Table) : ∀ (ks : List Nat),
    firstFreeRows t ks = .ok none → ∀ k ∈ ks, ∀ g ∈ t.allGens, ∃ d, t.get k g = .ok (some d)
  | [], _, k, hk => by cases hk
  | x :: ks, h, k, hk => by
    simp only [firstFreeRows] at h
    cases hx : firstFreeRow t x t.allGens with
    | ok o =>
      cases o with
      | none =>
        simp only [hx] at h
        rcases List.mem_cons.mp hk with rfl | hk
        · exact firstFreeRow_none t k _ hx
        · exact firstFreeRows_none t ks h k hk
      | some p =>
        rw [hx] at h
        cases h
    | err => rw [hx] at h; cases h
    | panic => rw [hx] at h; cases h

/-- a table is yielded only from a state in which every slot of every row is defined; the
    yielded table is the `compact()` of that state -/
theorem btExtract_complete {t t' : Table} (h : btExtract (.ok t) = some (.ok t')) :
    t.compact = .ok t' ∧ ∀ k, k < t.len → ∀ g ∈ t.allGens, ∃ d, t.get k g = .ok (some d) := by
  simp only [btExtract] at h
  cases hf : firstFreeInTable t with
  | ok r =>
    cases r with
    | none =>
      simp only [hf, Option.some.injEq] at h
      refine ⟨h, ?_⟩
      intro k hk g hg
      exact firstFreeRows_none t _ hf k (List.mem_range.mpr hk) g hg
    | some p => simp [hf] at h
  | err => simp [hf] at h
  | panic => simp [hf] at h

/-! ### `join` under the union-find view (C11) -/

/-- inverse consistency under the union-find view: for a canonical row `c`,
    `t[c][g] = d` (as seen through `get`, i.e. `d` canonical) implies `t[d][−g] = c` -/
def InvCan (t : Table) : Prop :=
  ∀ c g d, g ∈ t.allGens → t.canon c = c → t.get c g = .ok (some d) → t.get d (-g) = .ok (some c)

/-- `join` of two canonical rows at two free slots keeps the table inverse-consistent under
    the union-find view (no assumption on the partition) -/
theorem join_invCan {t t' : Table} {c d : Nat} {g : Int} (h : t.join c d g = .ok t')
    (hinv : InvCan t) (hc : t.canon c = c) (hd : t.canon d = d)
    (h1 : t.get c g = .ok none) (h2 : t.get d (-g) = .ok none) : InvCan t' := by
  intro x y z hy hx hget
  rw [join_allGens h] at hy
  rw [join_canon h] at hx
  by_cases hg : g ∈ t.allGens
  · by_cases hxy1 : x = c ∧ y = g
    · obtain ⟨rfl, rfl⟩ := hxy1
      rw [join_get_fst h hg, hd] at hget
      injection hget with hget
      injection hget with hget
      subst hget
      rw [join_get_snd h, hc]
    · by_cases hxy2 : x = d ∧ y = -g
      · obtain ⟨rfl, rfl⟩ := hxy2
        rw [join_get_snd h, hc] at hget
        injection hget with hget
        injection hget with hget
        subst hget
        rw [Int.neg_neg, join_get_fst h hg, hd]
      · have f1 : x ≠ c ∨ y ≠ g := by
          by_cases hx' : x = c
          · exact Or.inr (fun hy' => hxy1 ⟨hx', hy'⟩)
          · exact Or.inl hx'
        have f2 : x ≠ d ∨ y ≠ -g := by
          by_cases hx' : x = d
          · exact Or.inr (fun hy' => hxy2 ⟨hx', hy'⟩)
          · exact Or.inl hx'
        rw [join_get_frame h hy f1 f2] at hget
        have hback := hinv x y z hy hx hget
        have hny : -y ∈ t.allGens := neg_mem_allGensOf hy
        rw [join_get_frame h hny]
        · exact hback
        · by_cases hz : z = c
          · subst hz
            right
            intro he
            rw [he, h1] at hback
            cases hback
          · exact Or.inl hz
        · by_cases hz : z = d
          · subst hz
            right
            intro he
            rw [he, h2] at hback
            cases hback
          · exact Or.inl hz
  · have hng : -g ∉ t.allGens := fun hm => hg (by
      have := neg_mem_allGensOf hm
      rw [Int.neg_neg] at this
      exact this)
    have f : ∀ (x : Nat) (y : Int), y ∈ t.allGens → t'.get x y = t.get x y := by
      intro x y hy
      exact join_get_frame h hy (Or.inr (fun e => hg (e ▸ hy))) (Or.inr (fun e => hng (e ▸ hy)))
    rw [f x y hy] at hget
    rw [f z (-y) (neg_mem_allGensOf hy)]
    exact hinv x y z hy hx hget

/-- `scan_and_connect` in its deduction branch (gap 1) joins two free slots -/
theorem scanAndConnect_join_free {t : Table} {w : List Int} {start head tail : Nat} {c : Int}
    (h : scanBothWays t w start = .ok (head, tail, 1, c)) :
    scanAndConnect t w start = t.join head tail c ∧
      t.get head c = .ok none ∧ t.get tail (-c) = .ok none := by
  refine ⟨?_, scanBothWays_gap_one h⟩
  unfold scanAndConnect
  rw [h]
  simp

end DSymVerif.LowIndexP
