/-
Glue for the per-back-end statements of Props/C18.lean: over the two fields `can_divide`
never refuses a non-zero divisor; full rank gives a right inverse; the ℚ-valued meaning of
integer matrices is the image of their ℤ-valued meaning.
-/
import DSymVerif.Proofs.NullSem
import DSymVerif.Proofs.SemI64
import DSymVerif.Proofs.SemPrc

namespace DSymVerif.LA

open DSymVerif Matrix

theorem rat_not_refused : ¬ CanDivideRefused ratBackend QWF valQ := by
  rintro ⟨t, x, _, hx, hne, h⟩
  have h' : Outcome.ok (!x.isZero) = Outcome.ok false := h
  have : (!x.isZero) = false := Outcome.ok.inj h'
  have hz : x.isZero = true := by simpa using this
  exact hne ((valQ_isZero hx).1 hz)

theorem prc_not_refused {p : ℕ} [Fact p.Prime] (hpm : (p : ℤ) ≤ PRC.maxP) :
    ¬ CanDivideRefused (prcBackend p) (Canon p) (valP p) := by
  rintro ⟨t, x, _, hx, hne, h⟩
  have h' : Outcome.ok (!PRC.isZero x) = Outcome.ok false := h
  have : (!PRC.isZero x) = false := Outcome.ok.inj h'
  have hz : x = 0 := by simpa [PRC.isZero] using this
  exact hne ((valP_eq_zero hx).2 hz)

theorem allE_ofInt {nr nc : Nat} (m : Mat Int nr nc) : AllE QWF (Mat.map Q.ofInt m) := by
  intro i j hi hj
  simp only [Mat.map, Vector.getElem_map]
  exact (valQ_ofInt _).1

/-- a square matrix of full rank over a field has a right inverse -/
theorem exists_right_inverse_of_rank {R : Type} [Field R] {n : Nat} (A : Matrix (Fin n) (Fin n) R)
    (h : A.rank = n) : ∃ X : Matrix (Fin n) (Fin n) R, A * X = 1 := by
  have hfr : Module.finrank R (LinearMap.range A.mulVecLin) = Module.finrank R (Fin n → R) := by
    rw [Module.finrank_fin_fun]; exact h
  have htop : LinearMap.range A.mulVecLin = ⊤ := Submodule.eq_top_of_finrank_eq hfr
  have hsurj : Function.Surjective A.mulVecLin := LinearMap.range_eq_top.1 htop
  choose x hx using fun j : Fin n => hsurj (Pi.single j 1)
  refine ⟨Matrix.of fun i j => x j i, ?_⟩
  ext i j
  have := congrFun (hx j) i
  rw [Matrix.mulVecLin_apply] at this
  rw [Matrix.mul_apply, Matrix.one_apply]
  simp only [Matrix.mulVec, dotProduct, Matrix.of_apply] at this ⊢
  rw [this, Pi.single_apply]

/-- the integer meaning of an integer matrix -/
def toMatrixZ {nr nc : Nat} (m : Mat Int nr nc) : Matrix (Fin nr) (Fin nc) ℤ :=
  toMatrix (fun v : Int => v) m

theorem toMatrix_valI {nr nc : Nat} (m : Mat Int nr nc) :
    toMatrix valI m = (toMatrixZ m).map (Int.castRingHom ℚ) := by
  ext i j; rfl

theorem toMatrixZ_mul_eq {n m k : Nat} {a : Mat Int n m} {b : Mat Int m k} {c : Mat Int n k}
    (h : toMatrix valI a * toMatrix valI b = toMatrix valI c) :
    toMatrixZ a * toMatrixZ b = toMatrixZ c := by
  rw [toMatrix_valI, toMatrix_valI, toMatrix_valI, ← Matrix.map_mul] at h
  exact Matrix.map_injective (Int.cast_injective (α := ℚ)) h

theorem toMatrixZ_det {n : Nat} (a : Mat Int n n) :
    (toMatrix valI a).det = ((toMatrixZ a).det : ℚ) := by
  rw [toMatrix_valI]
  exact (RingHom.map_det (Int.castRingHom ℚ) (toMatrixZ a)).symm

end DSymVerif.LA
