/-
Helper lemmas for property C04, part 5: the fuel handed to the `fold` loop is never
exhausted on a D-set (so the modelled panic of `fold` / `is_minimal` never occurs):
every iteration either shortens the queue or merges two classes of chambers 1..size and
pushes at most dim+1 pairs.  (Counting of classes with Mathlib's `Finset`.)
-/
import Mathlib.Data.Finset.Card
import DSymVerif.Proofs.MorphismFold

namespace DSymVerif.Mor

/-- number of classes met by the chambers 1..size -/
def cls (s : MV) (p : Part) : Nat := ((Finset.range s.size).image (fun k => p (k + 1))).card

theorem cls_le (s : MV) (p : Part) : cls s p ≤ s.size := by
  unfold cls
  exact (Finset.card_image_le).trans (by simp)

theorem cls_unite (s : MV) (p : Part) (d e : Nat) (hd1 : 1 ≤ d) (hd2 : d ≤ s.size)
    (he1 : 1 ≤ e) (he2 : e ≤ s.size) (hne : p d ≠ p e) : cls s (p.unite d e) + 1 ≤ cls s p := by
  unfold cls
  have hmem : p e ∈ (Finset.range s.size).image (fun k => p (k + 1)) :=
    Finset.mem_image.2 ⟨e - 1, Finset.mem_range.2 (by omega), by congr 1; omega⟩
  have hsub : (Finset.range s.size).image (fun k => (p.unite d e) (k + 1)) ⊆
      ((Finset.range s.size).image (fun k => p (k + 1))).erase (p e) := by
    intro v hv
    obtain ⟨k, hk, rfl⟩ := Finset.mem_image.1 hv
    rw [Finset.mem_erase]
    show (p.unite d e).find (k + 1) ≠ p.find e ∧ (p.unite d e).find (k + 1) ∈ _
    rw [find_unite]
    by_cases hke : p.find (k + 1) = p.find e
    · simp only [hke, if_true]
      exact ⟨hne, Finset.mem_image.2 ⟨d - 1, Finset.mem_range.2 (by omega), by congr 1; omega⟩⟩
    · simp only [hke, if_false]
      exact ⟨hke, Finset.mem_image.2 ⟨k, hk, rfl⟩⟩
  have h1 := Finset.card_le_card hsub
  rw [Finset.card_erase_of_mem hmem] at h1
  have h2 : 0 < ((Finset.range s.size).image (fun k => p (k + 1))).card :=
    Finset.card_pos.2 ⟨_, hmem⟩
  omega

theorem foldInner_length (s : MV) (d e : Nat) :
    ∀ (is : List Nat) (Q Q' : Queue), foldInner s d e is Q = some Q' →
      Q'.length ≤ Q.length + is.length := by
  intro is
  induction is with
  | nil => intro Q Q' h; simp only [foldInner, Option.some.injEq] at h; subst h; simp
  | cons i is ih =>
    intro Q Q' h
    unfold foldInner at h
    split at h
    · split at h
      · have := ih _ _ h
        simp only [List.length_append, List.length_cons, List.length_nil] at this ⊢
        omega
      · cases h
    · have := ih _ _ h
      simp only [List.length_cons]
      omega

theorem foldLoop_no_panic (s : MV) (hr : OpRange s) :
    ∀ (fuel : Nat) (Q : Queue) (p : Part),
      (∀ pr, pr ∈ Q → 1 ≤ pr.1 ∧ pr.1 ≤ s.size ∧ 1 ≤ pr.2 ∧ pr.2 ≤ s.size) →
      Q.length + cls s p * (s.dim + 1) + 1 ≤ fuel → foldLoop s fuel Q p ≠ .panic := by
  intro fuel
  induction fuel with
  | zero => intro Q p _ h; omega
  | succ fuel ih =>
    intro Q p hQ hf
    cases Q with
    | nil => simp [foldLoop]
    | cons pr Q =>
      obtain ⟨d, e⟩ := pr
      have hde := hQ (d, e) (by simp)
      simp only at hde
      simp only [foldLoop]
      split
      · rename_i hne
        split
        · rename_i Q' hin
          have sp := foldInner_spec s d e _ _ _ hin
          have hl := foldInner_length s d e _ _ _ hin
          have hc := cls_unite s p d e hde.1 hde.2.1 hde.2.2.1 hde.2.2.2 hne
          apply ih
          · intro pr hpr
            rcases (sp.1 pr).1 hpr with h1 | ⟨i, _, h1, h2⟩
            · exact hQ pr (by simp [h1])
            · have r1 := hr _ _ _ h1
              have r2 := hr _ _ _ h2
              exact ⟨r1.1, r1.2, r2.1, r2.2⟩
          · have hm := Nat.mul_le_mul_right (s.dim + 1) hc
            rw [Nat.add_mul, Nat.one_mul] at hm
            simp only [List.length_range, List.length_cons] at hl hf
            omega
        · simp
      · apply ih _ _ (fun pr hpr => hQ pr (by simp [hpr]))
        simp only [List.length_cons] at hf
        omega

/-- `fold` never exhausts its fuel on a D-set -/
theorem fold_no_panic (s : MV) (hr : OpRange s) (p0 : Part) (d e : Nat)
    (hd1 : 1 ≤ d) (hd2 : d ≤ s.size) (he1 : 1 ≤ e) (he2 : e ≤ s.size) :
    fold s p0 d e ≠ .panic := by
  unfold fold
  split
  · simp
  · apply foldLoop_no_panic s hr
    · intro pr hpr
      simp only [List.mem_singleton] at hpr
      subst hpr
      exact ⟨hd1, hd2, he1, he2⟩
    · have h1 := Nat.mul_le_mul_right (s.dim + 1) (cls_le s p0)
      simp only [foldFuel, List.length_singleton]
      rw [Nat.add_mul, Nat.one_mul]
      omega

theorem isMinimalLoop_total (s : MV) (hr : OpRange s) (h1 : 1 ≤ s.size) :
    ∀ ds, (∀ d, d ∈ ds → 1 ≤ d ∧ d ≤ s.size) → ∃ b, isMinimalLoop s ds = .ok b := by
  intro ds
  induction ds with
  | nil => intro _; exact ⟨true, rfl⟩
  | cons d ds ih =>
    intro hds
    have hd := hds d (by simp)
    have np := fold_no_panic s hr Part.new 1 d (Nat.le_refl 1) h1 hd.1 hd.2
    unfold isMinimalLoop
    cases hres : fold s Part.new 1 d with
    | ok q => exact ⟨false, rfl⟩
    | err => exact ih (fun x hx => hds x (by simp [hx]))
    | panic => exact (np hres).elim

/-- `is_minimal()` returns (the model never reports a panic) on a D-set -/
theorem isMinimal_total (s : MV) (hr : OpRange s) (h1 : 1 ≤ s.size) :
    ∃ b, isMinimal s = .ok b := by
  unfold isMinimal
  apply isMinimalLoop_total s hr h1
  intro d hd
  have := (mem_elements_drop s d).1 hd
  omega

end DSymVerif.Mor
