/-
Helper lemmas for property C04, part 17: the Spec's oracle and the model talk about the same
number — for Spec tables `s` that agree with a valid connected symbol `ds` (same operations, same
degrees), `SpecC04.classes s` is the number of chambers of `minimal_image(ds)`; and the Spec's
degree `orbitLen · v` is the model's `m` when operations and branching numbers agree.
-/
import DSymVerif.Proofs.MorphismSpecB
import DSymVerif.Proofs.MorphismQuot5

namespace DSymVerif.SpecC04P
open DSymVerif.SpecC04 DSymVerif.Mor DSymVerif.DS

/-- the Spec tables `s` describe the stored symbol `ds` -/
structure SpecAgrees (s : S) (ds : DSymData) : Prop where
  size : s.size = ds.size
  dim : s.dim = ds.dim
  op : ∀ i d, i ≤ ds.dim → 1 ≤ d → d ≤ ds.size → s.op i d = ds.dset.opU i d
  deg : ∀ i d, i < ds.dim → 1 ≤ d → d ≤ ds.size → s.deg i d = ds.mVal i d

theorem degTable_getD (s : S) (d : Nat) (hd : d ≤ s.size) :
    s.degTable.getD d [] = (List.range s.dim).map fun i => s.deg i d := by
  unfold S.degTable
  have hlt : d < s.size + 1 := by omega
  simp [Array.getD_eq_getD_getElem?, hlt]

namespace SpecAgrees
variable {s : S} {ds : DSymData}

theorem opsInRange (h : SpecAgrees s ds) (hv : ValidSet ds.dset) : OpsInRange s := by
  intro i d hi hd1 hd2
  rw [h.dim] at hi; rw [h.size] at hd2 ⊢
  rw [h.op i d hi hd1 hd2]
  exact hv.range i d hi hd1 hd2

theorem degTable_eq_iff (h : SpecAgrees s ds) {d d' : Nat} (h1 : 1 ≤ d) (h2 : d ≤ ds.size)
    (h1' : 1 ≤ d') (h2' : d' ≤ ds.size) :
    s.degTable.getD d [] = s.degTable.getD d' [] ↔ ∀ i, i < ds.dim → ds.mVal i d = ds.mVal i d' := by
  rw [degTable_getD s d (by rw [h.size]; exact h2), degTable_getD s d' (by rw [h.size]; exact h2'),
    List.map_inj_left]
  constructor
  · intro hh i hi
    have := hh i (List.mem_range.2 (by rw [h.dim]; exact hi))
    rw [h.deg i d hi h1 h2, h.deg i d' hi h1' h2'] at this
    exact this
  · intro hh i hi
    have hi' : i < ds.dim := by rw [← h.dim]; exact List.mem_range.1 hi
    rw [h.deg i d hi' h1 h2, h.deg i d' hi' h1' h2']
    exact hh i hi'

/-- a Spec congruence, extended by singletons outside 1..size, is a model congruence -/
theorem cong_of_scong (h : SpecAgrees s ds) (hv : ValidTables ds) {L : Nat → Nat} (hL : SCong s L) :
    Cong (ofSym ds) (pull L (fun d => d) ds.size) := by
  refine ⟨fun x y hx1 hx2 hy1 hy2 hxy i hi xi yi hxi hyi => ?_, fun x y hxy => ?_⟩
  · have hi' : i ≤ ds.dim := hi
    have hxy' : L x = L y := (pull_in (γ := L) (π := fun d => d) ⟨hx1, hx2⟩ ⟨hy1, hy2⟩).1 hxy
    rw [ofSym_op hi' hx1 hx2] at hxi
    rw [ofSym_op hi' hy1 hy2] at hyi
    cases hxi; cases hyi
    have rx := hv.set.range i x hi' hx1 hx2
    have ry := hv.set.range i y hi' hy1 hy2
    apply (pull_in (γ := L) (π := fun d => d) rx ry).2
    have := hL.closed x y hx1 (by rw [h.size]; exact hx2) hy1 (by rw [h.size]; exact hy2) hxy' i
      (by rw [h.dim]; exact hi')
    rw [h.op i x hi' hx1 hx2, h.op i y hi' hy1 hy2] at this
    exact this
  · rcases pull_eq hxy with rfl | ⟨hx, hy, hg⟩
    · exact degreesMatch_refl _ _
    · rw [degreesMatch_iff]
      intro i hi
      have hi' : i < ds.dim := hi
      have e := hL.deg x y hx.1 (by rw [h.size]; exact hx.2) hy.1 (by rw [h.size]; exact hy.2) hg
      have := (h.degTable_eq_iff hx.1 hx.2 hy.1 hy.2).1 e i hi'
      rw [ofSym_m hv hi' hx.1 hx.2, ofSym_m hv hi' hy.1 hy.2, this]

/-- a model congruence is a Spec congruence -/
theorem scong_of_cong (h : SpecAgrees s ds) (hv : ValidTables ds) {Q : Nat → Nat}
    (hQ : Cong (ofSym ds) Q) : SCong s Q := by
  refine ⟨fun d d' h1 h2 h1' h2' hdd => ?_, fun d d' h1 h2 h1' h2' hdd i hi => ?_⟩
  · rw [h.size] at h2 h2'
    apply (h.degTable_eq_iff h1 h2 h1' h2').2
    intro i hi
    have := (degreesMatch_iff (ofSym ds) d d').1 (hQ.deg d d' hdd) i hi
    rw [ofSym_m hv hi h1 h2, ofSym_m hv hi h1' h2'] at this
    exact Option.some.inj this
  · rw [h.size] at h2 h2'; rw [h.dim] at hi
    rw [h.op i d hi h1 h2, h.op i d' hi h1' h2']
    exact hQ.closed d d' h1 h2 h1' h2' hdd i hi _ _ (ofSym_op hi h1 h2) (ofSym_op hi h1' h2')

end SpecAgrees

/-- **the Spec's class count is the size of the minimal image** -/
theorem classes_eq_size (s : S) (ds : DSymData) (h : SpecAgrees s ds) (hs : ValidSym ds)
    (hsz : 1 ≤ ds.size) (hdim : 1 ≤ ds.dim) (hconn : Connected (ofSym ds)) :
    ∃ c, minimalImage ds = .ok c ∧ classes s = c.size := by
  obtain ⟨c, π, Q, hc, hcv, hcs, _, hπ, hπs, _, hQ, hker, _⟩ := minimalImage_full ds hs hsz hdim hconn
  refine ⟨c, hc, ?_⟩
  have hops := h.opsInRange hs.set
  obtain ⟨hL, hLmax, hcan, hcls⟩ := coarsest_spec s hops
  rw [hcls]
  -- on 1..size the two coarsest congruences have the same classes
  have hiff : ∀ d d', 1 ≤ d → d ≤ ds.size → 1 ≤ d' → d' ≤ ds.size →
      ((coarsest s).getD d 0 = (coarsest s).getD d' 0 ↔ π d = π d') := by
    intro d d' h1 h2 h1' h2'
    rw [hker d d' h1 h2 h1' h2']
    constructor
    · intro hl
      exact hQ.max _ (h.cong_of_scong hs.toValidTables hL) d d' ⟨h1, h2⟩ ⟨h1', h2'⟩
        ((pull_in (γ := fun d => (coarsest s).getD d 0) (π := fun d => d) ⟨h1, h2⟩ ⟨h1', h2'⟩).2 hl)
    · intro hq
      exact hLmax Q (h.scong_of_cong hs.toValidTables hQ.cong) d d' h1 (by rw [h.size]; exact h2) h1'
        (by rw [h.size]; exact h2') hq
  have mem : ∀ {x : Nat}, x ∈ reps s.size (fun d => (coarsest s).getD d 0) ↔
      x < s.size ∧ (coarsest s).getD (x + 1) 0 = x + 1 := by
    intro x; simp [reps]
  rw [← Finset.card_range c.size]
  apply Finset.card_bij (fun d0 _ => π (d0 + 1) - 1)
  · intro d0 hd0
    have hm := mem.1 hd0
    have r := hπ.conj.range (d0 + 1) (by omega) (show _ ≤ ds.size by rw [← h.size]; omega)
    have : π (d0 + 1) ≤ c.size := r.2
    exact Finset.mem_range.2 (by omega)
  · intro a ha b hb hab
    have hma := mem.1 ha
    have hmb := mem.1 hb
    have ra := hπ.conj.range (a + 1) (by omega) (show _ ≤ ds.size by rw [← h.size]; omega)
    have rb := hπ.conj.range (b + 1) (by omega) (show _ ≤ ds.size by rw [← h.size]; omega)
    have hπab : π (a + 1) = π (b + 1) := by
      have : π (a + 1) - 1 = π (b + 1) - 1 := hab
      omega
    have := (hiff (a + 1) (b + 1) (by omega) (show _ ≤ ds.size by rw [← h.size]; omega) (by omega)
      (show _ ≤ ds.size by rw [← h.size]; omega)).2 hπab
    rw [hma.2, hmb.2] at this
    omega
  · intro k hk
    have hk' : k < c.size := Finset.mem_range.1 hk
    obtain ⟨x, hx1, hx2, hx⟩ := hπs (k + 1) (by omega) (by omega)
    have hx2' : x ≤ s.size := by rw [h.size]; exact hx2
    have r := hcan.range x hx1 hx2'
    have hid := hcan.idem x hx1 hx2'
    refine ⟨(coarsest s).getD x 0 - 1, ?_, ?_⟩
    · apply mem.2
      have e : (coarsest s).getD x 0 - 1 + 1 = (coarsest s).getD x 0 := by omega
      rw [e]
      exact ⟨by omega, hid⟩
    · have e : (coarsest s).getD x 0 - 1 + 1 = (coarsest s).getD x 0 := by omega
      show π ((coarsest s).getD x 0 - 1 + 1) - 1 = k
      rw [e]
      have := (hiff ((coarsest s).getD x 0) x r.1 (show _ ≤ ds.size by rw [← h.size]; omega) hx1 hx2).1 hid
      rw [this, hx]; rfl

/-! ### the Spec's degree is the model's degree -/

theorem orbitLenAux_eq (s : S) (i j d r : Nat) (f : Nat → Nat)
    (hf : ∀ t, s.op j (s.op i (f^[t] d)) = f^[t + 1] d)
    (hper : f^[r] d = d) (hleast : ∀ t, 1 ≤ t → t < r → f^[t] d ≠ d) :
    ∀ (fuel k : Nat), k < r → r ≤ k + fuel → s.orbitLenAux i j d fuel (f^[k] d) k = r := by
  intro fuel
  induction fuel with
  | zero => intro k h1 h2; omega
  | succ fuel ih =>
    intro k h1 h2
    unfold S.orbitLenAux
    simp only [hf k]
    by_cases hk : k + 1 = r
    · have : f^[k + 1] d = d := by rw [hk]; exact hper
      have hb : (f^[k + 1] d == d) = true := by simpa using this
      simp only [hb, if_true]
      exact hk
    · have hne : f^[k + 1] d ≠ d := hleast (k + 1) (by omega) (by omega)
      have : (f^[k + 1] d == d) = false := by simpa using hne
      simp only [this, Bool.false_eq_true, if_false]
      exact ih (k + 1) (by omega) (by omega)

/-- tables that agree on operations and branching numbers agree on degrees -/
theorem specAgrees_of_tables (s : S) (ds : DSymData) (hv : ValidTables ds)
    (hsize : s.size = ds.size) (hdim : s.dim = ds.dim)
    (hop : ∀ i d, i ≤ ds.dim → 1 ≤ d → d ≤ ds.size → s.op i d = ds.dset.opU i d)
    (hvv : ∀ i d, i < ds.dim → 1 ≤ d → d ≤ ds.size → s.v i d = ds.orbitVs.getD (ds.ixAt i d) 0) :
    SpecAgrees s ds := by
  refine ⟨hsize, hdim, hop, fun i d hi h1 h2 => ?_⟩
  unfold S.deg DSymData.mVal
  rw [hvv i d hi h1 h2]
  congr 1
  have hi0 : i ≤ ds.dset.dim := Nat.le_of_lt hi
  have hi1 : i + 1 ≤ ds.dset.dim := hi
  obtain ⟨k, hk, hkl, _⟩ := r_generic_least hv.set hi0 hi1 ⟨h1, h2⟩
  have hkeq : ds.orbitRs.getD (ds.ixAt i d) 0 = k := (hv.rs_least hi h1 h2).unique hkl
  rw [hkeq]
  unfold S.orbitLen
  have hf : ∀ t, s.op (i + 1) (s.op i ((ds.dset.comp i (i + 1))^[t] d)) = (ds.dset.comp i (i + 1))^[t + 1] d := by
    intro t
    have r := hv.set.comp_range hi0 hi1 h1 h2 t
    have r2 := hv.set.range i _ hi0 r.1 r.2
    rw [hop i _ (Nat.le_of_lt hi) r.1 r.2, hop (i + 1) _ hi r2.1 r2.2, Function.iterate_succ_apply']
    rfl
  have := orbitLenAux_eq s i (i + 1) d k (ds.dset.comp i (i + 1)) hf hkl.2.1
    (fun t ht1 ht2 => hkl.2.2 t ht1 ht2) (s.size + 1) 0 hkl.1 (by rw [hsize]; have : k ≤ ds.size := hk; omega)
  exact this

end DSymVerif.SpecC04P
