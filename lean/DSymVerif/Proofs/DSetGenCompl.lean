/-
Lemmas about the model of the D-set generator, part 9: `check_and_apply_implications`
never rejects a partial D-set that is part of a complete D-set with commuting far
operations, and every entry it makes is the entry of that complete set (the entries are
forced).  Core Lean only.
-/
import DSymVerif.Proofs.DSetGenTotal

namespace DSymVerif.DSG
open DSymVerif.DS

set_option linter.unusedSimpArgs false

/-- the defined entries of `ds` are entries of `T` -/
structure PartOf (ds T : DSetData) : Prop where
  dim_eq : T.dim = ds.dim
  size_le : ds.size ≤ T.size
  agree : ∀ i d, i ≤ ds.dim → 1 ≤ d → d ≤ ds.size → ds.opU i d ≠ 0 → T.opU i d = ds.opU i d

/-- far operations of a complete D-set commute in either order of the indices -/
theorem far_comm {T : DSetData} (hf : FarCommute T) {i j d : Nat}
    (hij : absDiff i j > 1) (hi : i ≤ T.dim) (hj : j ≤ T.dim) (h1 : 1 ≤ d) (h2 : d ≤ T.size) :
    T.opU j (T.opU i d) = T.opU i (T.opU j d) := by
  unfold absDiff at hij
  split at hij
  · exact hf i j d (by omega) hj h1 h2
  · exact (hf j i d (by omega) hi h1 h2).symm

/-- (s_j s_i)² = 1 on a complete D-set with commuting far operations -/
theorem far_cycle {T : DSetData} (hv : ValidSet T) (hf : FarCommute T) {i j d : Nat}
    (hij : absDiff i j > 1) (hi : i ≤ T.dim) (hj : j ≤ T.dim) (h1 : 1 ≤ d) (h2 : d ≤ T.size) :
    T.opU j (T.opU i (T.opU j (T.opU i d))) = d := by
  obtain ⟨a1, a2⟩ := hv.range j d hj h1 h2
  rw [far_comm hf hij hi hj h1 h2, hv.invol i _ hi a1 a2]
  exact hv.invol j d hj h1 h2

/-- what `scan_orbit` reports on a part of a complete commuting D-set: with gap 0 the two
    ends coincide, with gap 1 the missing entry is T's entry -/
theorem scan_partOf {ds T : DSetData} (hv : ValidPartialSet ds) (hT : ValidSet T)
    (hf : FarCommute T) (hp : PartOf ds T) {i j d : Nat} (hij : absDiff i j > 1)
    (hi : i ≤ ds.dim) (hj : j ≤ ds.dim) (h1 : 1 ≤ d) (h2 : d ≤ ds.size) :
    ∃ head tail gap k, scanOrbit ds i j d = .ok (head, tail, gap, k) ∧
      (gap = 0 → head = tail) ∧ (gap = 1 → T.opU k head = tail) := by
  have hiT : i ≤ T.dim := by rw [hp.dim_eq]; exact hi
  have hjT : j ≤ T.dim := by rw [hp.dim_eq]; exact hj
  have h2T : d ≤ T.size := Nat.le_trans h2 hp.size_le
  -- the 4-cycle d, F1, F2, F3 of T
  obtain ⟨F11, F12⟩ := hT.range i d hiT h1 h2T
  obtain ⟨F21, F22⟩ := hT.range j _ hjT F11 F12
  obtain ⟨F31, F32⟩ := hT.range i _ hiT F21 F22
  have TI4 := far_cycle hT hf hij hiT hjT h1 h2T
  have TI1' := hT.invol i d hiT h1 h2T
  have TI2' := hT.invol j _ hjT F11 F12
  have TI3' := hT.invol i _ hiT F21 F22
  have TI4' := hT.invol j _ hjT F31 F32
  rw [TI4] at TI4'
  generalize TI1 : T.opU i d = F1 at *
  generalize TI2 : T.opU j F1 = F2 at *
  generalize TI3 : T.opU i F2 = F3 at *
  have n1 : ¬ F1 = 0 := by omega
  have n2 : ¬ F2 = 0 := by omega
  have n3 : ¬ F3 = 0 := by omega
  have n0 : ¬ d = 0 := by omega
  -- a defined step of ds is the step of T
  have stp' : ∀ k x y, k ≤ ds.dim → 1 ≤ x → x ≤ ds.size → T.opU k x = y → ds.opU k x ≠ 0 →
      ds.opU k x = y ∧ 1 ≤ y ∧ y ≤ ds.size := by
    intro k x y hk hx1 hx2 hy hne
    have h := hp.agree k x hk hx1 hx2 hne
    rw [hy] at h
    refine ⟨h.symm, ?_, ?_⟩
    · rw [h]; exact Nat.pos_of_ne_zero hne
    · rw [h]; exact hv.range k x hk hx1 hx2
  have hfw := scanSingle4 hv hi hj hi hj h1 h2 4 (Nat.le_refl _)
  have hbw := fun L hL => scanSingle4 hv hj hi hj hi h1 h2 L hL
  simp only [List.take] at hfw
  unfold scanOrbit
  rw [hfw]
  by_cases c1 : ds.opU i d = 0
  · simp only [c1, n0, n1, n2, n3, Nat.reduceEqDiff, false_or, true_or, or_true, or_false, or_self, if_true, if_false]
    rw [hbw 4 (by omega)]
    by_cases e1 : ds.opU j d = 0
    · simp only [e1, n0, n1, n2, n3, Nat.reduceEqDiff, false_or, true_or, or_true, or_false, or_self, if_true, if_false]
      exact ⟨_, _, _, _, rfl, by omega, by omega⟩
    · obtain ⟨y1, q11, q12⟩ := stp' j d F3 hj h1 h2 TI4' e1
      rw [y1]
      by_cases e2 : ds.opU i F3 = 0
      · simp only [e1, e2, n0, n1, n2, n3, Nat.reduceEqDiff, false_or, true_or, or_true, or_false, or_self, if_true, if_false]
        exact ⟨_, _, _, _, rfl, by omega, by omega⟩
      · obtain ⟨y2, q21, q22⟩ := stp' i F3 F2 hi q11 q12 TI3' e2
        rw [y2]
        by_cases e3 : ds.opU j F2 = 0
        · simp only [e1, e2, e3, n0, n1, n2, n3, Nat.reduceEqDiff, false_or, true_or, or_true, or_false, or_self, if_true, if_false]
          exact ⟨_, _, _, _, rfl, by omega, by omega⟩
        · obtain ⟨y3, q31, q32⟩ := stp' j F2 F1 hj q21 q22 TI2' e3
          rw [y3]
          by_cases e4 : ds.opU i F1 = 0
          · simp only [e1, e2, e3, e4, n0, n1, n2, n3, Nat.reduceEqDiff, false_or, true_or, or_true, or_false, or_self, if_true, if_false]
            exact ⟨_, _, _, _, rfl, by omega, fun _ => (show T.opU i d = F1 from TI1)⟩
          · obtain ⟨y4, q41, q42⟩ := stp' i F1 d hi q31 q32 TI1' e4
            rw [y4]
            simp only [e1, e2, e3, e4, n0, n1, n2, n3, Nat.reduceEqDiff, false_or, true_or, or_true, or_false, or_self, if_true, if_false]
            exact ⟨_, _, _, _, rfl, fun _ => (show d = d from rfl), by omega⟩
  · obtain ⟨x1, p11, p12⟩ := stp' i d F1 hi h1 h2 TI1 c1
    rw [x1]
    by_cases c2 : ds.opU j F1 = 0
    · simp only [c2, n0, n1, n2, n3, Nat.reduceEqDiff, false_or, true_or, or_true, or_false, or_self, if_true, if_false]
      rw [hbw 3 (by omega)]
      by_cases e1 : ds.opU j d = 0
      · simp only [e1, n0, n1, n2, n3, Nat.reduceEqDiff, false_or, true_or, or_true, or_false, or_self, if_true, if_false]
        exact ⟨_, _, _, _, rfl, by omega, by omega⟩
      · obtain ⟨y1, q11, q12⟩ := stp' j d F3 hj h1 h2 TI4' e1
        rw [y1]
        by_cases e2 : ds.opU i F3 = 0
        · simp only [e1, e2, n0, n1, n2, n3, Nat.reduceEqDiff, false_or, true_or, or_true, or_false, or_self, if_true, if_false]
          exact ⟨_, _, _, _, rfl, by omega, by omega⟩
        · obtain ⟨y2, q21, q22⟩ := stp' i F3 F2 hi q11 q12 TI3' e2
          rw [y2]
          by_cases e3 : ds.opU j F2 = 0
          · simp only [e1, e2, e3, n0, n1, n2, n3, Nat.reduceEqDiff, false_or, true_or, or_true, or_false, or_self, if_true, if_false]
            exact ⟨_, _, _, _, rfl, by omega, fun _ => (show T.opU j F1 = F2 from TI2)⟩
          · obtain ⟨y3, q31, q32⟩ := stp' j F2 F1 hj q21 q22 TI2' e3
            rw [y3]
            simp only [e1, e2, e3, n0, n1, n2, n3, Nat.reduceEqDiff, false_or, true_or, or_true, or_false, or_self, if_true, if_false]
            exact ⟨_, _, _, _, rfl, fun _ => (show F1 = F1 from rfl), by omega⟩
    · obtain ⟨x2, p21, p22⟩ := stp' j F1 F2 hj p11 p12 TI2 c2
      rw [x2]
      by_cases c3 : ds.opU i F2 = 0
      · simp only [c3, n0, n1, n2, n3, Nat.reduceEqDiff, false_or, true_or, or_true, or_false, or_self, if_true, if_false]
        rw [hbw 2 (by omega)]
        by_cases e1 : ds.opU j d = 0
        · simp only [e1, n0, n1, n2, n3, Nat.reduceEqDiff, false_or, true_or, or_true, or_false, or_self, if_true, if_false]
          exact ⟨_, _, _, _, rfl, by omega, by omega⟩
        · obtain ⟨y1, q11, q12⟩ := stp' j d F3 hj h1 h2 TI4' e1
          rw [y1]
          by_cases e2 : ds.opU i F3 = 0
          · simp only [e1, e2, n0, n1, n2, n3, Nat.reduceEqDiff, false_or, true_or, or_true, or_false, or_self, if_true, if_false]
            exact ⟨_, _, _, _, rfl, by omega, fun _ => (show T.opU i F2 = F3 from TI3)⟩
          · obtain ⟨y2, q21, q22⟩ := stp' i F3 F2 hi q11 q12 TI3' e2
            rw [y2]
            simp only [e1, e2, n0, n1, n2, n3, Nat.reduceEqDiff, false_or, true_or, or_true, or_false, or_self, if_true, if_false]
            exact ⟨_, _, _, _, rfl, fun _ => (show F2 = F2 from rfl), by omega⟩
      · obtain ⟨x3, p31, p32⟩ := stp' i F2 F3 hi p21 p22 TI3 c3
        rw [x3]
        by_cases c4 : ds.opU j F3 = 0
        · simp only [c4, n0, n1, n2, n3, Nat.reduceEqDiff, false_or, true_or, or_true, or_false, or_self, if_true, if_false]
          rw [hbw 1 (by omega)]
          by_cases e1 : ds.opU j d = 0
          · simp only [e1, n0, n1, n2, n3, Nat.reduceEqDiff, false_or, true_or, or_true, or_false, or_self, if_true, if_false]
            exact ⟨_, _, _, _, rfl, by omega, fun _ => (show T.opU j F3 = d from TI4)⟩
          · obtain ⟨y1, q11, q12⟩ := stp' j d F3 hj h1 h2 TI4' e1
            rw [y1]
            simp only [e1, n0, n1, n2, n3, Nat.reduceEqDiff, false_or, true_or, or_true, or_false, or_self, if_true, if_false]
            exact ⟨_, _, _, _, rfl, fun _ => (show F3 = F3 from rfl), by omega⟩
        · obtain ⟨x4, _, _⟩ := stp' j F3 d hj p31 p32 TI4 c4
          rw [x4]
          simp only [n0, n1, n2, n3, Nat.reduceEqDiff, false_or, true_or, or_true, or_false, or_self, if_true, if_false]
          rw [hbw 0 (by omega)]
          simp only [n0, n1, n2, n3, Nat.reduceEqDiff, false_or, true_or, or_true, or_false, or_self, if_true, if_false]
          exact ⟨_, _, _, _, rfl, fun _ => (show d = d from rfl), by omega⟩

theorem setC_partOf {ds ds1 T : DSetData} (hT : ValidSet T) (hp : PartOf ds T) {k h t : Nat}
    (hset : setC ds k h t = .ok ds1) (hTk : T.opU k h = t) : PartOf ds1 T := by
  have hx := setC_ext hset
  obtain ⟨hk, hh1, hh2, ht1, ht2, _, _, _, _, _⟩ := setC_ok hset
  refine ⟨by rw [hx.dim_eq]; exact hp.dim_eq, by rw [hx.size_eq]; exact hp.size_le, ?_⟩
  intro i' d' hi' h1 h2 hne
  rw [hx.dim_eq] at hi'
  rw [hx.size_eq] at h2
  rw [setC_opU hset hi' h1] at hne ⊢
  split
  · rename_i hc
    obtain ⟨rfl, rfl⟩ := hc
    have := hT.invol i' h (by rw [hp.dim_eq]; exact hk) hh1 (Nat.le_trans hh2 hp.size_le)
    rw [hTk] at this
    exact this
  · rename_i hc
    rw [if_neg hc] at hne
    split
    · rename_i hc2
      obtain ⟨rfl, rfl⟩ := hc2
      exact hTk
    · rename_i hc2
      rw [if_neg hc2] at hne
      exact hp.agree i' d' hi' h1 h2 hne

theorem implRow_partOf {T : DSetData} (hT : ValidSet T) (hf : FarCommute T) (i d : Nat) :
    ∀ (js : List Nat) (ds : DSetData) (q : List (Nat × Nat)),
    ValidPartialSet ds → PartOf ds T → i ≤ ds.dim → 1 ≤ d → d ≤ ds.size →
    (∀ j, j ∈ js → j ≤ ds.dim) →
    ∀ r, implRow i d js ds q = .ok r → ∃ ds' q', r = some (ds', q') ∧ PartOf ds' T := by
  intro js
  induction js with
  | nil =>
    intro ds q _ hp _ _ _ _ r h
    simp only [implRow] at h
    cases h
    exact ⟨ds, q, rfl, hp⟩
  | cons j js ih =>
    intro ds q hv hp hi h1 h2 hjs r h
    have hj : j ≤ ds.dim := hjs j (by simp)
    have hjs' : ∀ j, j ∈ js → j ≤ ds.dim := fun x hx => hjs x (by simp [hx])
    simp only [implRow] at h
    split at h
    · rename_i hfar
      obtain ⟨head, tail, gap, k, hs, hg0, hg1⟩ := scan_partOf hv hT hf hp hfar hi hj h1 h2
      rw [hs] at h
      simp only at h
      split at h
      · rename_i hc
        exact absurd (hg0 hc.1) hc.2
      · split at h
        · rename_i hgap
          split at h
          · rename_i ds1 hset
            have hx1 := setC_ext hset
            exact ih ds1 _ (setC_valid hv hset) (setC_partOf hT hp hset (hg1 hgap))
              (by rw [hx1.dim_eq]; exact hi) h1 (by rw [hx1.size_eq]; exact h2)
              (by rw [hx1.dim_eq]; exact hjs') r h
          · cases h
        · exact ih ds q hv hp hi h1 h2 hjs' r h
    · exact ih ds q hv hp hi h1 h2 hjs' r h

theorem implLoop_partOf {T : DSetData} (hT : ValidSet T) (hf : FarCommute T) :
    ∀ (fuel : Nat) (ds : DSetData) (q : List (Nat × Nat)),
    ValidPartialSet ds → QOk ds q → PartOf ds T →
    ∀ r, implLoop fuel ds q = .ok r → ∃ ds', r = some ds' ∧ PartOf ds' T := by
  intro fuel
  induction fuel with
  | zero =>
    intro ds q _ _ hp r h
    cases q with
    | nil => simp only [implLoop] at h; cases h; exact ⟨ds, rfl, hp⟩
    | cons a q => simp only [implLoop] at h; cases h
  | succ fuel ih =>
    intro ds q hv hq hp r h
    cases q with
    | nil => simp only [implLoop] at h; cases h; exact ⟨ds, rfl, hp⟩
    | cons a q =>
      obtain ⟨i, d⟩ := a
      have ha := hq (i, d) (by simp)
      have hrange : ∀ j, j ∈ List.range (ds.dim + 1) → j ≤ ds.dim := by
        intro j hj; have := List.mem_range.1 hj; omega
      obtain ⟨r1, hr1, hspec⟩ := implRow_spec i d (List.range (ds.dim + 1)) ds q hv ha.1 ha.2.1
        ha.2.2 hrange
      obtain ⟨ds1, q1, rfl, hp1⟩ := implRow_partOf hT hf i d _ ds q hv hp ha.1 ha.2.1 ha.2.2
        hrange r1 hr1
      simp only [implLoop, hr1] at h
      obtain ⟨hv1, hx1, nw, hq1, hnw, _⟩ := hspec ds1 q1 rfl
      have hq1ok : QOk ds1 q1 := by
        intro p hp'
        rw [hq1] at hp'
        rw [hx1.dim_eq, hx1.size_eq]
        rcases List.mem_append.1 hp' with hp' | hp'
        · exact hq p (by simp [hp'])
        · exact hnw p hp'
      exact ih ds1 q1 hv1 hq1ok hp1 r h

/-- **implications_complete**: on a part of a complete D-set `T` with commuting far
    operations, `check_and_apply_implications` returns true, and the set it leaves is still
    part of `T` — it never rejects a completable set and makes only forced entries -/
theorem checkImpl_complete {ds T : DSetData} (hv : ValidPartialSet ds) (hT : ValidSet T)
    (hf : FarCommute T) (hp : PartOf ds T) {i d : Nat} (hi : i ≤ ds.dim) (h1 : 1 ≤ d)
    (h2 : d ≤ ds.size) :
    ∃ ds', checkImpl ds i d = .ok (some ds') ∧ PartOf ds' T ∧ ValidPartialSet ds' ∧ Ext ds ds' := by
  obtain ⟨r, hr, hspec⟩ := checkImpl_spec hv hi h1 h2
  obtain ⟨ds', rfl, hp'⟩ := implLoop_partOf hT hf _ ds [(i, d)] hv
    (by intro p hp; simp at hp; subst hp; exact ⟨hi, h1, h2⟩) hp r hr
  obtain ⟨hv', hx⟩ := hspec ds' rfl
  exact ⟨ds', hr, hp', hv', hx⟩

end DSymVerif.DSG
